import OrsoVerif.Model.Display
import OrsoVerif.Generated.Display
import OrsoVerif.Lemmas.DisplaySel
import OrsoVerif.Lemmas.DisplayTable
/-!
# C18 — Rendering a DataFrame never fails and shows the right rows

Property theorems only (helper lemmas live in `Lemmas/Display*.lean`).  The model is
`Model/Display.lean`, which follows `orso/display.py` as repaired.  `rows` is any list (the rows of
the frame, of any type), `limit ≥ 1`, `lazy` selects the eager / lazily-backed code path.
`labelFrom k xs` is the reference: the rows `xs`, in order, labelled `k, k+1, …`.
-/
namespace C18
open Display

variable {α : Type}

/-- **All rows when there are at most twice the limit** (head-and-tail mode, eager and lazy): every
row is shown exactly once, in order, labelled with its 1-based position, and there is no ellipsis. -/
theorem visible_all_when_small (rows : List α) (limit : Nat) (lazy : Bool) (hl : 1 ≤ limit)
    (hn : rows.length ≤ 2 * limit) :
    visibleRows rows limit true lazy = labelFrom 1 rows := by
  cases lazy with
  | false => simpa [visibleRows] using eagerLines_small rows limit true hl hn
  | true =>
    have h := lazyLines_tt rows limit hl
    rw [if_neg (by omega)] at h
    simpa [visibleRows] using h

/-- **First and last `limit` rows otherwise** (eager and lazy): the first `limit` rows labelled
`1…limit`, then the ellipsis, then the last `limit` rows labelled with their true positions
`n-limit+1 … n`; nothing else, nothing repeated. -/
theorem visible_head_tail (rows : List α) (limit : Nat) (lazy : Bool) (hl : 1 ≤ limit)
    (hn : 2 * limit < rows.length) :
    visibleRows rows limit true lazy
      = labelFrom 1 (rows.take limit) ++ [Line.ellipsis]
        ++ labelFrom (rows.length - limit + 1) (rows.drop (rows.length - limit)) := by
  cases lazy with
  | false =>
    have h := eagerLines_split rows limit true hl hn
    simp only [if_true] at h
    have e : limit + (rows.length - 2 * limit) + 1 = rows.length - limit + 1 := by omega
    rw [e] at h
    simpa [visibleRows] using h
  | true =>
    have h := lazyLines_tt rows limit hl
    rw [if_pos hn] at h
    simpa [visibleRows] using h

/-- **Head-only mode** (`top_and_tail=False`): the first `limit` rows (all rows of a shorter frame),
in order, labelled from 1, no ellipsis. -/
theorem visible_head_only (rows : List α) (limit : Nat) (lazy : Bool) (hl : 1 ≤ limit) :
    visibleRows rows limit false lazy = labelFrom 1 (rows.take limit) := by
  cases lazy with
  | false => simpa [visibleRows] using eagerLines_head rows limit true hl
  | true => simpa [visibleRows] using lazyLines_head rows limit hl

/-- **A single ellipsis line, between head and tail, exactly when rows are left out.**  The lines
split as `pre ++ [ellipsis] ++ post` with `limit` data lines on either side and no other ellipsis
when `n > 2·limit`; there is no ellipsis at all otherwise (including head-only mode). -/
theorem one_ellipsis (rows : List α) (limit : Nat) (tt lazy : Bool) (hl : 1 ≤ limit) :
    (tt = true ∧ 2 * limit < rows.length →
      ∃ pre post, visibleRows rows limit tt lazy = pre ++ [Line.ellipsis] ++ post
        ∧ pre.length = limit ∧ post.length = limit
        ∧ Line.ellipsis ∉ pre ∧ Line.ellipsis ∉ post)
    ∧ (¬ (tt = true ∧ 2 * limit < rows.length) → Line.ellipsis ∉ visibleRows rows limit tt lazy) := by
  constructor
  · rintro ⟨rfl, hn⟩
    refine ⟨_, _, visible_head_tail rows limit lazy hl hn, ?_, ?_, ellipsis_not_mem_labelFrom _ _,
      ellipsis_not_mem_labelFrom _ _⟩
    · simp [length_labelFrom, List.length_take]; omega
    · simp [length_labelFrom, List.length_drop]; omega
  · intro h
    cases tt with
    | false => rw [visible_head_only rows limit lazy hl]; exact ellipsis_not_mem_labelFrom _ _
    | true =>
      rw [visible_all_when_small rows limit lazy hl (by simp at h; omega)]
      exact ellipsis_not_mem_labelFrom _ _

/-- **Every data line is labelled with the row's true 1-based position in the frame** — for every
row count, every limit ≥ 1, both modes, eager and lazy.  Rows are identified by their 0-based
position (`visible n … = visibleRows (List.range n) …`). -/
theorem labels_true_position (n limit : Nat) (tt lazy : Bool) (hl : 1 ≤ limit) (label row : Nat)
    (h : Line.data label row ∈ visible n limit tt lazy) : label = row + 1 ∧ row < n := by
  unfold visible at h
  have hlen : (List.range n).length = n := List.length_range
  cases tt with
  | false =>
    rw [visible_head_only _ limit lazy hl, mem_labelFrom] at h
    obtain ⟨i, hi, rfl⟩ := h
    rw [List.getElem?_take] at hi
    split at hi
    · have := List.getElem?_eq_some_iff.mp hi
      obtain ⟨h1, h2⟩ := this
      simp at h1 h2; omega
    · simp at hi
  | true =>
    by_cases hn : 2 * limit < (List.range n).length
    · rw [visible_head_tail _ limit lazy hl hn] at h
      simp only [List.mem_append, List.mem_singleton, reduceCtorEq, or_false, mem_labelFrom] at h
      rcases h with ⟨i, hi, rfl⟩ | ⟨i, hi, rfl⟩
      · rw [List.getElem?_take] at hi
        split at hi
        · obtain ⟨h1, h2⟩ := List.getElem?_eq_some_iff.mp hi
          simp at h1 h2; omega
        · simp at hi
      · rw [List.getElem?_drop] at hi
        obtain ⟨h1, h2⟩ := List.getElem?_eq_some_iff.mp hi
        simp at h1 h2 hn; omega
    · rw [visible_all_when_small _ limit lazy hl (by omega), mem_labelFrom] at h
      obtain ⟨i, hi, rfl⟩ := h
      obtain ⟨h1, h2⟩ := List.getElem?_eq_some_iff.mp hi
      simp at h1 h2; omega

/-- **The pinned eager arithmetic is wrong** (`i += t.rowcount - 2*limit` adds 0 because `t` is the
already cut frame): for every frame with more than `2·limit` rows the tail rows are labelled
`limit+1 …` instead of `n-limit+1 …`. Repaired by `fix: label tail rows …`. -/
theorem pinned_eager_tail_labels (rows : List α) (limit : Nat) (hl : 1 ≤ limit)
    (hn : 2 * limit < rows.length) :
    eagerLines rows limit true false
      = labelFrom 1 (rows.take limit) ++ [Line.ellipsis]
        ++ labelFrom (limit + 1) (rows.drop (rows.length - limit)) := by
  have h := eagerLines_split rows limit false hl hn
  simpa using h

/-- The concrete witness replayed on the real code: 5 rows, limit 2 — rows 4 and 5 are labelled 3 and 4. -/
theorem pinned_eager_counterexample :
    eagerLines (List.range 5) 2 true false
      = [.data 1 0, .data 2 1, .ellipsis, .data 3 3, .data 4 4]
    ∧ eagerLines (List.range 5) 2 true true
      = [.data 1 0, .data 2 1, .ellipsis, .data 4 3, .data 5 4] := by decide

/-- Non-vacuity: concrete frames on every path (eager/lazy × small/split/head-only). -/
example :
    visible 7 3 true false = [.data 1 0, .data 2 1, .data 3 2, .ellipsis, .data 5 4, .data 6 5, .data 7 6]
    ∧ visible 7 3 true true = visible 7 3 true false
    ∧ visible 6 3 true true = [.data 1 0, .data 2 1, .data 3 2, .data 4 3, .data 5 4, .data 6 5]
    ∧ visible 4 3 true true = visible 4 3 true false
    ∧ visible 2 3 true true = [.data 1 0, .data 2 1]
    ∧ visible 7 3 false true = [.data 1 0, .data 2 1, .data 3 2]
    ∧ visible 0 1 true true = [] := by decide

/-! ## Printed width (printable-ASCII content) -/

/-- A frame with printable-ASCII content: as many type names as column names, rectangular rows,
every name, type name, text parameter and byte printable ASCII (0x20–0x7E). -/
structure FrameAscii (f : Frame) : Prop where
  types_len : f.names.length = f.types.length
  rect : ∀ r ∈ f.rows, r.length = f.names.length
  names : ∀ s ∈ f.names, PStr s
  types : ∀ s ∈ f.types, PStr s
  cells : ∀ r ∈ f.rows, ∀ c ∈ r, CellAscii c

/-- **All box lines have equal printed width.**  For printable-ASCII content, `limit ≥ 1`,
`max_column_width ≥ 1`, any width table `cw` that gives printable ASCII and the box characters
width 1: rendering succeeds (either decode mode) and every box line yielded by `_inner()` — borders,
header, type row, every data row of either mode, eager or lazy — prints exactly
`tableWidth = 1 + index width + 2 + Σ column widths + 3·(columns−1) + 2` characters, with no colour
token or escape left open.  (`pwidth` counts characters outside `\x01…m` / `\x1b…m`.) -/
theorem box_lines_equal_width (cw : Char → Nat) (hcw : ∀ c, Printable c → cw c = 1)
    (hbox : ∀ c ∈ boxChars, cw c = 1) (p : Params) (f : Frame) (hf : FrameAscii f)
    (hl : 1 ≤ p.limit) (hm : 1 ≤ p.maxCol) :
    ∃ lines, rawLines cw p f = .ok lines
      ∧ ∀ l ∈ lines, l.1 = true →
          pwidth l.2 = tableWidth (idxWidth p f) (colWidths p f) ∧ scan false l.2 = (pwidth l.2, false)
            ∧ OkStr l.2 := by
  have hcw' := colWidthsGo_spec p.showTypes p.maxCol (cutRows f.rows p.limit p.tt p.lazy) hm 0 f.names f.types
    hf.types_len
  have hwlen : (colWidths p f).length = f.names.length := hcw'.1
  have hws : ∀ w ∈ colWidths p f, 1 ≤ w := hcw'.2
  obtain ⟨body, hb, hW⟩ := bodyLines_width cw hcw hbox p (idxWidth p f) (colWidths p f) hws
    (visibleRows f.rows p.limit p.tt p.lazy) (by
      intro label row hmem
      obtain ⟨hrow, _, _⟩ := visibleRows_data f.rows p.limit p.tt p.lazy hl label row hmem
      exact ⟨label_fits f.rows p.limit p.tt p.lazy hl label row hmem, by rw [hf.rect row hrow, hwlen],
        hf.cells row hrow⟩)
  have conv : ∀ {s : Str} {w : Nat}, W s w → OkStr s →
      pwidth s = w ∧ scan false s = (pwidth s, false) ∧ OkStr s := by
    intro s w h ho
    unfold W at h
    exact ⟨by simp [pwidth, h], by simp [pwidth, h], ho⟩
  have okb : ∀ c ∈ boxChars, Ok c := fun c hc => Or.inr (Or.inr hc)
  have hbord : ∀ (l m r fill : Char), l ∈ boxChars → m ∈ boxChars → r ∈ boxChars → fill ∈ boxChars →
      W (border l m r fill (idxWidth p f) (colWidths p f)) (tableWidth (idxWidth p f) (colWidths p f))
      ∧ OkStr (border l m r fill (idxWidth p f) (colWidths p f)) := by
    intro l m r fill h1 h2 h3 h4
    exact ⟨border_width l m r fill _ _ (box_facts l h1).1 (box_facts m h2).1 (box_facts r h3).1 (box_facts fill h4).1,
      border_ok l m r fill _ _ (okb l h1) (okb m h2) (okb r h3) (okb fill h4)⟩
  have hhead := headerLine_width T_HEAD (by simp [usedTokens]) (idxWidth p f) f.names (colWidths p f) hf.names
    hwlen.symm
  have htype := headerLine_width T_TYPE (by simp [usedTokens]) (idxWidth p f) f.types (colWidths p f) hf.types
    (by rw [hwlen, hf.types_len])
  refine ⟨_, by simp only [rawLines, hb]; rfl, ?_⟩
  intro l hl hbx
  simp only [List.mem_append, List.mem_cons, List.not_mem_nil, or_false] at hl
  rcases hl with ((((rfl | rfl) | hl) | rfl) | hl) | rfl
  · have := hbord '┌' '┬' '┐' '─' (by decide) (by decide) (by decide) (by decide); exact conv this.1 this.2
  · exact conv hhead.1 hhead.2
  · split at hl
    · simp only [List.mem_cons, List.not_mem_nil, or_false] at hl; subst hl; exact conv htype.1 htype.2
    · simp at hl
  · have := hbord '╞' '╪' '╡' '═' (by decide) (by decide) (by decide) (by decide); exact conv this.1 this.2
  · have := hW l hl hbx; exact conv this.1 this.2
  · have := hbord '└' '┴' '┘' '─' (by decide) (by decide) (by decide) (by decide); exact conv this.1 this.2

/-- **…within the display width.**  After the final `trunc_printable(line, display_width, False)`
every box line prints exactly `min tableWidth display_width` characters (`display_width ≥ 1`): all
box lines still have equal printed width, and it never exceeds the display width. -/
theorem within_display_width (cw : Char → Nat) (hcw : ∀ c, Printable c → cw c = 1)
    (hbox : ∀ c ∈ boxChars, cw c = 1) (p : Params) (f : Frame) (hf : FrameAscii f)
    (hl : 1 ≤ p.limit) (hm : 1 ≤ p.maxCol) (hd : 1 ≤ p.displayWidth) :
    ∃ lines, renderLines cw p f = .ok lines
      ∧ ∀ l ∈ lines, l.1 = true →
          pwidth l.2 = min (tableWidth (idxWidth p f) (colWidths p f)) p.displayWidth
          ∧ pwidth l.2 ≤ p.displayWidth := by
  obtain ⟨raw, hr, hW⟩ := box_lines_equal_width cw hcw hbox p f hf hl hm
  refine ⟨_, by simp only [renderLines, hr]; rfl, ?_⟩
  intro l hl hbx
  simp only [List.mem_map] at hl
  obtain ⟨l0, hl0, rfl⟩ := hl
  obtain ⟨hw, _, hok⟩ := hW l0 hl0 hbx
  have hgood : ∀ c ∈ l0.2, Good cw c := fun c hc => ok_good cw hcw hbox (hok c hc)
  have := truncGo_line cw p.displayWidth l0.2 hgood 0 false (by omega)
  have e : pwidth (truncPrintable cw l0.2 p.displayWidth false) = min (pwidth l0.2) p.displayWidth := by
    simp [pwidth, truncPrintable, this]
  simp only [e, hw]
  exact ⟨trivial, Nat.min_le_right _ _⟩

/-- `trunc_printable` in general (any text without line breaks whose visible characters have width 1,
whatever escapes it contains, well-formed or not): the cut line prints `min (its width) width`. -/
theorem trunc_line_width (cw : Char → Nat) (width : Nat) (l : Str) (hl : ∀ c ∈ l, Good cw c) (hw : 1 ≤ width) :
    pwidth (truncPrintable cw l width false) = min (pwidth l) width := by
  have := truncGo_line cw width l hl 0 false (by omega)
  simp [pwidth, truncPrintable, this]

/-! ## Never fails -/

/-- **The formatter is total over the modelled cell kinds** (repaired code, `errors="replace"`): for
every cell of every kind — bytes of any content included — and every width, `type_formatter` returns
text; and a whole table renders whenever no cell fails. -/
theorem formatter_total (cw : Char → Nat) (c : Cell) (w : Nat) : ∃ s, formatCell cw false c w = .ok s := by
  cases c with
  | bytes b n =>
    obtain ⟨s, hs⟩ := utf8Go_total (b.length + 1) b
    exact ⟨T_BLOB ++ truncPrintable cw (ljust w s) w true ++ T_OFF, by simp [formatCell, utf8Decode, hs]⟩
  | _ => exact ⟨_, rfl⟩

/-- The pinned call `value.decode("utf-8")` is partial: a byte string that is not UTF-8 makes the
formatter fail (`UnicodeDecodeError`), while the repaired call renders U+FFFD. -/
theorem strict_decode_fails (cw : Char → Nat) :
    formatCell cw true (.bytes [0xff, 0xfe] 11) 11 = .error .unicodeDecode
    ∧ utf8Decode false [0xff, 0xfe] = .ok [replacement, replacement] := by
  constructor <;> rfl

/-- Every table renders (replace mode), whatever the cells, names, types and parameters. -/
theorem render_total (cw : Char → Nat) (p : Params) (f : Frame) (hp : p.strict = false) :
    ∃ lines, renderLines cw p f = .ok lines := by
  have hrow : ∀ (row : List Cell) (ws : List Nat), ∃ cells, formatRow cw false row ws = .ok cells := by
    intro row
    induction row with
    | nil => intro ws; exact ⟨[], by simp [formatRow]⟩
    | cons c cs ih =>
      intro ws
      cases ws with
      | nil => exact ⟨[], by simp [formatRow]⟩
      | cons w ws =>
        obtain ⟨s, hs⟩ := formatter_total cw c w
        obtain ⟨rest, hr⟩ := ih ws
        exact ⟨s :: rest, by simp [formatRow, hs, hr]⟩
  have hbody : ∀ (iw : Nat) (ws : List Nat) (ls : List (Line (List Cell))),
      ∃ out, bodyLines cw p iw ws ls = .ok out := by
    intro iw ws ls
    induction ls with
    | nil => exact ⟨[], rfl⟩
    | cons l rest ih =>
      obtain ⟨out, ho⟩ := ih
      cases l with
      | ellipsis => exact ⟨(false, ellipsisLine p.lazy) :: out, by simp [bodyLines, ho]⟩
      | data label row =>
        obtain ⟨cells, hc⟩ := hrow row ws
        exact ⟨(true, dataLine iw label cells) :: out, by simp [bodyLines, ho, hp, hc]⟩
  obtain ⟨body, hb⟩ := hbody (idxWidth p f) (colWidths p f) (visibleRows f.rows p.limit p.tt p.lazy)
  exact ⟨_, by simp only [renderLines, rawLines, hb]; rfl⟩

/-! ## Colour tokens (tie to the extracted `COLORS` table) -/

/-- Every token and every ANSI replacement in `COLORS` prints nothing and closes its escape — so
`colorizer` (either branch) does not change the printed width measured by `pwidth`. -/
theorem tokens_invisible :
    ∀ kv ∈ Gen.Display.colors, scan false kv.1 = (0, false) ∧ scan false kv.2 = (0, false) := by decide

/-- Every `\x01NAMEm` token that `ascii_table` writes (extracted from its string literals) and every
token the model writes is a key of `COLORS`, i.e. is substituted by `colorizer`. -/
theorem tokens_defined :
    (∀ t ∈ Gen.Display.tokensUsed, t ∈ Gen.Display.colors.map Prod.fst)
    ∧ (∀ t ∈ usedTokens, t ∈ Gen.Display.colors.map Prod.fst) := by decide

/-- Non-vacuity of the width theorems: a concrete two-column ASCII frame, split table, narrow display. -/
example :
    let f : Frame := { names := [['i', 'd'], ['n', 'a', 'm', 'e']], types := [['0'], ['0']],
                       rows := (List.range 7).map fun i => [.int (Int.ofNat i), .text ['a', 'b']] }
    let p : Params := { limit := 2, tt := true, lazy := true, showTypes := true, maxCol := 30, displayWidth := 12,
                        strict := false }
    (match renderLines cwModel p f with
      | .ok ls => ls.length == 10 && (ls.filter (·.1)).all (fun l => pwidth l.2 == 12)
      | .error _ => false) = true
    ∧ tableWidth (idxWidth p f) (colWidths p f) = 19 := by decide

end C18
