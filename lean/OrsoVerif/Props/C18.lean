import OrsoVerif.Model.Display
import OrsoVerif.Generated.Display
import OrsoVerif.Generated.DisplayExpr
import OrsoVerif.Lemmas.DisplaySel
import OrsoVerif.Lemmas.DisplayTable
import OrsoVerif.Lemmas.DisplayColor
import OrsoVerif.Lemmas.DisplayMd
import OrsoVerif.Lemmas.DisplayShown
import OrsoVerif.Lemmas.DisplayFmt
import OrsoVerif.Lemmas.DisplayTok
import OrsoVerif.Lemmas.DisplayTd
/-!
# C18 — Rendering a DataFrame never fails and shows the right rows

Property theorems only (helper lemmas live in `Lemmas/Display*.lean`).  The model is
`Model/Display.lean`: a hand-written skeleton of `orso/display.py` (as repaired) whose arithmetic is
the record `srcArith`, built from `Generated/DisplayExpr.lean` — the expressions translated from the
source's AST on every run.  Part 1 proves, expression by expression, that this arithmetic is the
reference arithmetic `specArith`; a changed operator or constant in `display.py` makes exactly the
matching `src_*` theorem fail.  All other theorems are stated about `srcArith`, i.e. about the code
as it is now.  `rows` is any list, `limit ≥ 1`, `lazy` selects the eager / lazily-backed path.
`labelFrom k xs` is the reference: the rows `xs`, in order, labelled `k, k+1, …`.
-/
set_option linter.unusedSimpArgs false
namespace C18
open Display Gen.DisplayExpr

/-! ## 0. Non-vacuity: concrete inputs on every path (kept before the theorems so that a failure here
is not attributed to a theorem) -/

/-- Non-vacuity: concrete frames on every path (eager/lazy × small/split/head-only). -/
example :
    visible srcArith 7 3 true false = [.data 1 0, .data 2 1, .data 3 2, .ellipsis, .data 5 4, .data 6 5, .data 7 6]
    ∧ visible srcArith 7 3 true true = visible srcArith 7 3 true false
    ∧ visible srcArith 6 3 true true = [.data 1 0, .data 2 1, .data 3 2, .data 4 3, .data 5 4, .data 6 5]
    ∧ visible srcArith 4 3 true true = visible srcArith 4 3 true false
    ∧ visible srcArith 2 3 true true = [.data 1 0, .data 2 1]
    ∧ visible srcArith 7 3 false true = [.data 1 0, .data 2 1, .data 3 2]
    ∧ visible srcArith 0 1 true true = [] := by decide

/-- A concrete interval: −1 month, 93784 s = 1 day 2 h 3 min 4 s beyond… as Python's `divmod` gives it. -/
example : splitInterval srcArith (-1) 93784 = { years := -1, months := 11, hours := 26, minutes := 3, seconds := 4 }
    ∧ intervalParts srcArith 14 (-3) 3723 = [['1', 'y'], ['2', 'm', 'o'], ['-', '3', 'd'], ['1', 'h'], ['2', 'm'],
        ['3', '.', '0', '0', 's']] := by decide

/-- Non-vacuity of the width theorems: a concrete two-column ASCII frame, split table, narrow display. -/
example :
    let f : Frame := { names := [['i', 'd'], ['n', 'a', 'm', 'e']], types := [['0'], ['0']],
                       rows := (List.range 7).map fun i => [.int (Int.ofNat i), .text ['a', 'b']] }
    let p : Params := { limit := 2, tt := true, lazy := true, showTypes := true, maxCol := 30, displayWidth := 12,
                        strict := false }
    (match renderLines srcArith cwModel p f with
      | .ok ls => ls.length == 10 && (ls.filter (·.1)).all (fun l => pwidth l.2 == 12)
      | .error _ => false) = true
    ∧ tableWidth (idxWidth srcArith p f) (colWidths srcArith p f) = 19 := by decide

/-! ## 1. The arithmetic in the source is the reference arithmetic -/

/-- `table.rowcount >= 2*limit + 1` is `2·limit + 1 ≤ n`. -/
theorem src_head_tail_threshold : srcArith.headTail = specArith.headTail := by
  funext n limit; simp only [srcArith, specArith]; rw [decide_eq_decide]; unfold headTailTest; omega

/-- `table.rowcount > 2*limit` is `2·limit < n`. -/
theorem src_eager_split_guard : srcArith.eagerSplit = specArith.eagerSplit := by
  funext n limit; simp only [srcArith, specArith]; rw [decide_eq_decide]; unfold eagerSplitTest; omega

/-- `i == limit`. -/
theorem src_eager_ellipsis_guard : srcArith.eagerAtEll = specArith.eagerAtEll := by
  funext i limit; simp only [srcArith, specArith]; rw [decide_eq_decide]; unfold eagerEllipsisTest; omega

/-- `i >= limit` is `limit ≤ i`. -/
theorem src_eager_tail_guard : srcArith.eagerInTail = specArith.eagerInTail := by
  funext i limit; simp only [srcArith, specArith]; rw [decide_eq_decide]; unfold eagerTailTest; omega

/-- `i == limit and lazy_length > 2*limit`. -/
theorem src_lazy_ellipsis_guard : srcArith.lazyEll = specArith.lazyEll := by
  funext i limit ll; simp only [srcArith, specArith]; rw [decide_eq_decide]; unfold lazyEllipsisTest; omega

/-- `offset >= width` is `width ≤ offset`. -/
theorem src_trunc_stop : srcArith.truncStop = specArith.truncStop := by
  funext off w; simp only [srcArith, specArith]; rw [decide_eq_decide]; unfold truncStopTest; omega

/-- `lazy_length += len(head) + 1`. -/
theorem src_lazy_length_update : srcArith.lazyLenUpd = specArith.lazyLenUpd := by
  funext ll h; simp only [srcArith, specArith, lazyLenUpdate]; omega

/-- `lazy_length = t.rowcount` in head-only mode (repair F05). -/
theorem src_lazy_length_head_only : srcArith.lazyHeadOnly = specArith.lazyHeadOnly := by
  funext t; simp only [srcArith, specArith, lazyHeadOnlyLen]; omega

/-- `min(max(cw, ctw, dw), max_column_width)`. -/
theorem src_column_width : srcArith.colWidth = specArith.colWidth := by
  funext a b c m; simp only [srcArith, specArith, Gen.DisplayExpr.colWidth, max3, min3]; omega

/-- `calculate_data_width(t.collect(i))`: every row of the printed frame `t` is measured. -/
theorem src_measure_all_rows : srcArith.measure = specArith.measure := by
  funext t l; simp only [srcArith, specArith, measureRows]; omega

/-- `islice(table._rows, limit)`, `deque(maxlen=limit)`, `table.head(size=limit) + table.tail(size=limit)`,
`table.slice(length=limit)`: every size in the selection of the printed rows is `limit`. -/
theorem src_selection_sizes :
    srcArith.lazyHeadOnlyTake = specArith.lazyHeadOnlyTake ∧ srcArith.lazyHeadTake = specArith.lazyHeadTake
    ∧ srcArith.dequeMax = specArith.dequeMax ∧ srcArith.eagerHeadSize = specArith.eagerHeadSize
    ∧ srcArith.eagerTailSize = specArith.eagerTailSize ∧ srcArith.eagerSliceLen = specArith.eagerSliceLen := by
  refine ⟨?_, ?_, ?_, ?_, ?_, ?_⟩ <;> funext l <;>
    simp only [srcArith, specArith, Gen.DisplayExpr.lazyHeadOnlyTake, Gen.DisplayExpr.lazyHeadTake, Gen.DisplayExpr.dequeMax,
      Gen.DisplayExpr.eagerHeadSize, Gen.DisplayExpr.eagerTailSize, Gen.DisplayExpr.eagerSliceLen] <;> omega

/-- `i += table.rowcount - 2*limit` (repair F01: not `t.rowcount`). -/
theorem src_eager_label_shift : srcArith.eagerShift = specArith.eagerShift := by
  funext i n t l; simp only [srcArith, specArith, Gen.DisplayExpr.eagerShift]; omega

/-- `str(i + 1)`. -/
theorem src_eager_label : srcArith.eagerLabel = specArith.eagerLabel := by
  funext i; simp only [srcArith, specArith, Gen.DisplayExpr.eagerLabel]; omega

/-- `.rjust(index_width - 1)`. -/
theorem src_label_pad : srcArith.labelPad = specArith.labelPad := by
  funext iw; simp only [srcArith, specArith, Gen.DisplayExpr.labelPad]; omega

/-- `offset += lazy_length - 2*limit`. -/
theorem src_lazy_offset_update : srcArith.lazyOffsetUpd = specArith.lazyOffsetUpd := by
  funext o ll l; simp only [srcArith, specArith, lazyOffsetUpdate]; omega

/-- `str(i + offset)`. -/
theorem src_lazy_label : srcArith.lazyLabel = specArith.lazyLabel := by
  funext i o; simp only [srcArith, specArith, Gen.DisplayExpr.lazyLabel]; omega

/-- `" " * (width - offset)`. -/
theorem src_trunc_pad : srcArith.truncPad = specArith.truncPad := by
  funext w o; simp only [srcArith, specArith, Gen.DisplayExpr.truncPad]; omega

/-- `offset += 1` for a line break. -/
theorem src_trunc_newline : srcArith.truncNl = specArith.truncNl := by
  funext o; simp only [srcArith, specArith, truncNewlineStep]; omega

/-- markdown `min(max(cw, dw), max_column_width)`. -/
theorem src_md_column_width : srcArith.mdColWidth = specArith.mdColWidth := by
  funext a b m; simp only [srcArith, specArith, Gen.DisplayExpr.mdColWidth]; omega

/-- markdown `" " * (index_width - 2)`. -/
theorem src_md_head_pad : srcArith.mdHeadPad = specArith.mdHeadPad := by
  funext iw; simp only [srcArith, specArith, Gen.DisplayExpr.mdHeadPad]; omega

/-- markdown `"-" * index_width`. -/
theorem src_md_sep_len : srcArith.mdSepLen = specArith.mdSepLen := by
  funext iw; simp only [srcArith, specArith, Gen.DisplayExpr.mdSepLen]; omega

/-- markdown `str(i + 1)`. -/
theorem src_md_label : srcArith.mdLabel = specArith.mdLabel := by
  funext i; simp only [srcArith, specArith, Gen.DisplayExpr.mdLabel]; omega

/-- markdown `.rjust(index_width - 1)`. -/
theorem src_md_label_pad : srcArith.mdLabelPad = specArith.mdLabelPad := by
  funext iw; simp only [srcArith, specArith, Gen.DisplayExpr.mdLabelPad]; omega

/-- `len(str(lazy_length + 1)) + 2` (`len(str(x))` is the number of decimal digits of `x`). -/
theorem src_index_width_lazy : srcArith.idxLazy = specArith.idxLazy := by
  funext ll
  have e : ((ll : Int) + 1).toNat = ll + 1 := by omega
  simp only [srcArith, specArith, idxWidthLazy, digitsI, id, e]; omega

/-- `len(str(len(table))) + 2` (`len(str(x))` is the number of decimal digits of `x`). -/
theorem src_index_width_eager : srcArith.idxEager = specArith.idxEager := by
  funext n
  have e : ((n : Int)).toNat = n := by omega
  simp only [srcArith, specArith, idxWidthEager, digitsI, id, e]; omega

/-- markdown `len(str(len(table)))` (`len(str(x))` is the number of decimal digits of `x`). -/
theorem src_md_index_width : srcArith.mdIdx = specArith.mdIdx := by
  funext n
  have e : ((n : Int)).toNat = n := by omega
  simp only [srcArith, specArith, mdIdxWidth, digitsI, id, e]; omega

/-- `lazy_length = 0`. -/
theorem src_lazy_length_init : srcArith.lazyLenInit = specArith.lazyLenInit := by
  simp only [srcArith, specArith, Gen.DisplayExpr.lazyLenInit] <;> rfl

/-- `offset = 1`. -/
theorem src_lazy_offset_init : srcArith.lazyOffset0 = specArith.lazyOffset0 := by
  simp only [srcArith, specArith, lazyOffsetInit] <;> rfl

/-- markdown data-width floor 4. -/
theorem src_md_floor : srcArith.mdFloor = specArith.mdFloor := by
  simp only [srcArith, specArith, Gen.DisplayExpr.mdFloor] <;> rfl

/-- `divmod(seconds, 3600)`. -/
theorem src_hour_divisor : srcArith.hourDiv = specArith.hourDiv := by
  simp only [srcArith, specArith, Gen.DisplayExpr.hourDiv] <;> rfl

/-- `divmod(seconds, 60)`. -/
theorem src_minute_divisor : srcArith.minuteDiv = specArith.minuteDiv := by
  simp only [srcArith, specArith, Gen.DisplayExpr.minuteDiv] <;> rfl

/-- `divmod(months, 12)`. -/
theorem src_month_divisor : srcArith.monthDiv = specArith.monthDiv := by
  simp only [srcArith, specArith, Gen.DisplayExpr.monthDiv] <;> rfl

/-- Hence the model executed by the driver (`srcArith`) is the model the lemmas are proved for. -/
theorem src_arith_eq_spec : srcArith = specArith := by
  apply Arith.ext
  all_goals first
    | exact src_head_tail_threshold
    | exact src_eager_split_guard
    | exact src_eager_ellipsis_guard
    | exact src_eager_tail_guard
    | exact src_lazy_ellipsis_guard
    | exact src_trunc_stop
    | exact src_lazy_length_update
    | exact src_lazy_length_head_only
    | exact src_column_width
    | exact src_measure_all_rows
    | exact src_selection_sizes.1
    | exact src_selection_sizes.2.1
    | exact src_selection_sizes.2.2.1
    | exact src_selection_sizes.2.2.2.1
    | exact src_selection_sizes.2.2.2.2.1
    | exact src_selection_sizes.2.2.2.2.2
    | exact src_eager_label_shift
    | exact src_eager_label
    | exact src_label_pad
    | exact src_lazy_offset_update
    | exact src_lazy_label
    | exact src_trunc_pad
    | exact src_trunc_newline
    | exact src_md_column_width
    | exact src_md_head_pad
    | exact src_md_sep_len
    | exact src_md_label
    | exact src_md_label_pad
    | exact src_index_width_lazy
    | exact src_index_width_eager
    | exact src_md_index_width
    | exact src_lazy_length_init
    | exact src_lazy_offset_init
    | exact src_md_floor
    | exact src_hour_divisor
    | exact src_minute_divisor
    | exact src_month_divisor

/-! ## 2. The right rows, the right labels -/

variable {α : Type}

/-- **All rows when there are at most twice the limit** (head-and-tail mode, eager and lazy): every
row is shown exactly once, in order, labelled with its 1-based position, and there is no ellipsis. -/
theorem visible_all_when_small (rows : List α) (limit : Nat) (lazy : Bool) (hl : 1 ≤ limit)
    (hn : rows.length ≤ 2 * limit) :
    visibleRows srcArith rows limit true lazy = labelFrom 1 rows := by
  rw [src_arith_eq_spec, visibleRows_closed rows limit true lazy hl]
  simp only [if_true]; rw [if_neg (by omega)]

/-- **First and last `limit` rows otherwise** (eager and lazy): the first `limit` rows labelled
`1…limit`, then the ellipsis, then the last `limit` rows labelled with their true positions
`n-limit+1 … n`; nothing else, nothing repeated. -/
theorem visible_head_tail (rows : List α) (limit : Nat) (lazy : Bool) (hl : 1 ≤ limit)
    (hn : 2 * limit < rows.length) :
    visibleRows srcArith rows limit true lazy
      = labelFrom 1 (rows.take limit) ++ [Line.ellipsis]
        ++ labelFrom (rows.length - limit + 1) (rows.drop (rows.length - limit)) := by
  rw [src_arith_eq_spec, visibleRows_closed rows limit true lazy hl]
  simp only [if_true]; rw [if_pos hn]

/-- **Head-only mode** (`top_and_tail=False`): the first `limit` rows (all rows of a shorter frame),
in order, labelled from 1, no ellipsis. -/
theorem visible_head_only (rows : List α) (limit : Nat) (lazy : Bool) (hl : 1 ≤ limit) :
    visibleRows srcArith rows limit false lazy = labelFrom 1 (rows.take limit) := by
  rw [src_arith_eq_spec, visibleRows_closed rows limit false lazy hl]
  simp

/-- **A single ellipsis line, between head and tail, exactly when rows are left out.**  The lines
split as `pre ++ [ellipsis] ++ post` with `limit` data lines on either side and no other ellipsis
when `n > 2·limit`; there is no ellipsis at all otherwise (including head-only mode). -/
theorem one_ellipsis (rows : List α) (limit : Nat) (tt lazy : Bool) (hl : 1 ≤ limit) :
    (tt = true ∧ 2 * limit < rows.length →
      ∃ pre post, visibleRows srcArith rows limit tt lazy = pre ++ [Line.ellipsis] ++ post
        ∧ pre.length = limit ∧ post.length = limit
        ∧ Line.ellipsis ∉ pre ∧ Line.ellipsis ∉ post)
    ∧ (¬ (tt = true ∧ 2 * limit < rows.length) → Line.ellipsis ∉ visibleRows srcArith rows limit tt lazy) := by
  constructor
  · rintro ⟨rfl, hn⟩
    refine ⟨_, _, visible_head_tail rows limit lazy hl hn, ?_, ?_, ellipsis_not_mem_labelFrom _ _,
      ellipsis_not_mem_labelFrom _ _⟩
    · simp [length_labelFrom, List.length_take]; omega
    · simp [length_labelFrom, List.length_drop]; omega
  · intro h
    cases tt with
    | false => rw [visible_head_only rows limit lazy hl]; exact ellipsis_not_mem_labelFrom _ _
    | true =>
      rw [visible_all_when_small rows limit lazy hl (by simp at h; omega)]
      exact ellipsis_not_mem_labelFrom _ _

/-- **Every data line is labelled with the row's true 1-based position in the frame** — for every
row count, every limit ≥ 1, both modes, eager and lazy.  Rows are identified by their 0-based
position (`visible n … = visibleRows (List.range n) …`). -/
theorem labels_true_position (n limit : Nat) (tt lazy : Bool) (hl : 1 ≤ limit) (label row : Nat)
    (h : Line.data label row ∈ visible srcArith n limit tt lazy) : label = row + 1 ∧ row < n := by
  unfold visible at h
  have hlen : (List.range n).length = n := List.length_range
  cases tt with
  | false =>
    rw [visible_head_only _ limit lazy hl, mem_labelFrom] at h
    obtain ⟨i, hi, rfl⟩ := h
    rw [List.getElem?_take] at hi
    split at hi
    · have := List.getElem?_eq_some_iff.mp hi
      obtain ⟨h1, h2⟩ := this
      simp at h1 h2; omega
    · simp at hi
  | true =>
    by_cases hn : 2 * limit < (List.range n).length
    · rw [visible_head_tail _ limit lazy hl hn] at h
      simp only [List.mem_append, List.mem_singleton, reduceCtorEq, or_false, mem_labelFrom] at h
      rcases h with ⟨i, hi, rfl⟩ | ⟨i, hi, rfl⟩
      · rw [List.getElem?_take] at hi
        split at hi
        · obtain ⟨h1, h2⟩ := List.getElem?_eq_some_iff.mp hi
          simp at h1 h2; omega
        · simp at hi
      · rw [List.getElem?_drop] at hi
        obtain ⟨h1, h2⟩ := List.getElem?_eq_some_iff.mp hi
        simp at h1 h2 hn; omega
    · rw [visible_all_when_small _ limit lazy hl (by omega), mem_labelFrom] at h
      obtain ⟨i, hi, rfl⟩ := h
      obtain ⟨h1, h2⟩ := List.getElem?_eq_some_iff.mp hi
      simp at h1 h2; omega

/-- **The pinned eager arithmetic is wrong** (`i += t.rowcount - 2*limit` adds 0 because `t` is the
already cut frame): 5 rows, limit 2 — rows 4 and 5 are labelled 3 and 4; 3 rows, limit 1 — row 3 is
labelled 2.  The arithmetic in the source now gives 4, 5 and 3.  Repaired by `fix: label tail rows …`. -/
theorem pinned_eager_counterexample :
    eagerLines pinnedArith (List.range 5) 2 true
      = [.data 1 0, .data 2 1, .ellipsis, .data 3 3, .data 4 4]
    ∧ eagerLines pinnedArith (List.range 3) 1 true = [.data 1 0, .ellipsis, .data 2 2]
    ∧ eagerLines srcArith (List.range 5) 2 true
      = [.data 1 0, .data 2 1, .ellipsis, .data 4 3, .data 5 4] := by decide

/-- **The pinned head-only lazy index width is wrong** (`lazy_length` stays 0, so the index column is
`len("1") + 2 = 3` wide whatever the labels): for a lazily backed frame of 100 rows shown head-only
with `limit = 100`, label 100 has 3 digits but the pad is 2, so that data line is one character wider
than the box; with the arithmetic in the source the index column is 5 wide and the label fits.
Repaired by `fix: size the index column of a head-only lazy ascii_table …`. -/
theorem pinned_lazy_head_only_index_width :
    indexWidth pinnedArith 100 100 false true (List.range 100) = 3
    ∧ Line.data 100 99 ∈ visibleRows pinnedArith (List.range 100) 100 false true
    ∧ (rjust (pinnedArith.labelPad 3) (natStr 100)).length = 3
    ∧ indexWidth srcArith 100 100 false true (List.range 100) = 5
    ∧ (rjust (srcArith.labelPad 5) (natStr 100)).length = 4 := by decide

/-! ## 3. Printed width (printable-ASCII content) -/

/-- **All box lines have equal printed width.**  For a frame with printable-ASCII content
(`FrameAscii`: as many type names as column names, rectangular rows, every name, type name, text
parameter and byte in 0x20–0x7E), `limit ≥ 1`, `max_column_width ≥ 1`, any width table `cw` that gives
printable ASCII and the box characters width 1: rendering succeeds (either decode mode) and every box
line yielded by `_inner()` — borders, header, type row, every data row of either mode, eager or lazy —
prints exactly `tableWidth = 1 + index width + 2 + Σ column widths + 3·(columns−1) + 2` characters,
with no colour token or escape left open.  (`pwidth` counts characters outside `\x01…m` / `\x1b…m`.) -/
theorem box_lines_equal_width (cw : Char → Nat) (hcw : ∀ c, Printable c → cw c = 1)
    (hbox : ∀ c ∈ boxChars, cw c = 1) (p : Params) (f : Frame) (hf : FrameAscii f)
    (hl : 1 ≤ p.limit) (hm : 1 ≤ p.maxCol) :
    ∃ lines, rawLines srcArith cw p f = .ok lines
      ∧ ∀ l ∈ lines, l.1 = true →
          pwidth l.2 = tableWidth (idxWidth srcArith p f) (colWidths srcArith p f)
            ∧ scan false l.2 = (pwidth l.2, false) ∧ OkStr l.2 := by
  rw [src_arith_eq_spec]; exact box_lines_equal_width_spec cw hcw hbox p f hf hl hm

/-- **…within the display width.**  After the final `trunc_printable(line, display_width, False)`
every box line prints exactly `min tableWidth display_width` characters (`display_width ≥ 1`): all
box lines still have equal printed width, and it never exceeds the display width. -/
theorem within_display_width (cw : Char → Nat) (hcw : ∀ c, Printable c → cw c = 1)
    (hbox : ∀ c ∈ boxChars, cw c = 1) (p : Params) (f : Frame) (hf : FrameAscii f)
    (hl : 1 ≤ p.limit) (hm : 1 ≤ p.maxCol) (hd : 1 ≤ p.displayWidth) :
    ∃ lines, renderLines srcArith cw p f = .ok lines
      ∧ ∀ l ∈ lines, l.1 = true →
          pwidth l.2 = min (tableWidth (idxWidth srcArith p f) (colWidths srcArith p f)) p.displayWidth
          ∧ pwidth l.2 ≤ p.displayWidth := by
  rw [src_arith_eq_spec]; exact within_display_width_spec cw hcw hbox p f hf hl hm hd

/-- `trunc_printable` in general (any text without line breaks whose visible characters have width 1,
whatever escapes it contains, well-formed or not): the cut line prints `min (its width) width`. -/
theorem trunc_line_width (cw : Char → Nat) (width : Nat) (l : Str) (hl : ∀ c ∈ l, Good cw c) (hw : 1 ≤ width) :
    pwidth (truncPrintable srcArith cw l width false) = min (pwidth l) width := by
  rw [src_arith_eq_spec]; exact trunc_line_width_spec cw width l hl hw

/-! ## 3b. The shown rows are shown with their values -/

/-- **Every column is wide enough for each value printed in it, up to the column-width limit.**  For
every data line of the table (eager or lazy, either mode), cell `j` of its row with `len(str(value)) = n`
and the width `w` of column `j`: `min n max_column_width ≤ w`.  The widths are measured over the rows
the source passes to `calculate_data_width` (`srcArith.measure`, extracted) — all printed rows. -/
theorem column_fits_shown_values (p : Params) (f : Frame) (label : Nat) (row : List Cell)
    (h : Line.data label row ∈ visibleRows srcArith f.rows p.limit p.tt p.lazy) (j w : Nat) (c : Cell)
    (hc : row[j]? = some c) (hw : (colWidths srcArith p f)[j]? = some w) :
    min (cellSlen c) p.maxCol ≤ w := by
  rw [src_arith_eq_spec] at h hw
  exact column_fits_spec p f row j w c (visibleRows_in_cut _ _ _ _ _ _ _ h) hc hw

/-- **A value that fits its column is printed in full** (nothing is cut by `[:width]` or by
`trunc_printable`): integers, booleans, floats / decimals (their `str()` text `s`), null, and printable
text, each padded to the column width on the side the source pads it. -/
theorem fitting_value_shown_in_full (cw : Char → Nat) (hcw : ∀ c, Printable c → cw c = 1) (strict : Bool) (w : Nat) :
    (∀ i, (intStr i).length ≤ w →
        formatCell srcArith cw strict (.int i) w = .ok (T_INTEGER ++ (spaces (w - (intStr i).length) ++ intStr i) ++ T_OFF))
    ∧ (∀ b, (boolStr b).length ≤ w →
        formatCell srcArith cw strict (.bool b) w = .ok (T_CONST ++ (spaces (w - (boolStr b).length) ++ boolStr b) ++ T_OFF))
    ∧ (∀ s n, s.length ≤ w →
        formatCell srcArith cw strict (.num s n) w = .ok (T_FLOAT ++ (spaces (w - s.length) ++ s) ++ T_OFF))
    ∧ (4 ≤ w → formatCell srcArith cw strict .null w = .ok (T_NULL ++ (spaces (w - 4) ++ nullStr) ++ T_OFF))
    ∧ (∀ s, PStr s → s.length ≤ w → 1 ≤ w →
        formatCell srcArith cw strict (.text s) w = .ok (T_VARCHAR ++ ((s ++ spaces (w - s.length)) ++ T_OFF) ++ T_OFF)) := by
  rw [src_arith_eq_spec]
  refine ⟨?_, ?_, ?_, ?_, ?_⟩
  · intro i h; simp only [formatCell, take_rjust_fits w _ h]
  · intro b h; simp only [formatCell, take_rjust_fits w _ h]
  · intro s n h; simp only [formatCell, take_rjust_fits w _ h]
  · intro h; simp only [formatCell]; rw [take_rjust_fits w _ (by simpa [nullStr] using h)]; rfl
  · intro s hs h hw
    simp only [formatCell, truncPrintable]
    rw [truncGo_fits cw hcw w true (ljust w s) 0 (pstr_ljust w hs) (by rw [length_ljust]; omega)
      (by rw [length_ljust]; omega)]
    rfl

/-- **Measuring only the first `limit` printed rows would cut tail values** (the theorem above depends on
`measure`): 3 rows, `limit = 1`, the last value six digits long — with `collect(i, limit)` the column is
4 wide and the value is cut to `1234`; with the source's arithmetic it is 6 wide. -/
theorem measure_head_only_counterexample :
    let f : Frame := { names := [['a']], types := [['0']], rows := [[.int 1], [.int 2], [.int 123456]] }
    let p : Params := { limit := 1, tt := true, lazy := false, showTypes := false, maxCol := 30, displayWidth := 80,
                        strict := false }
    colWidths { specArith with measure := fun _ l => l } p f = [4]
    ∧ formatCell specArith cwModel false (.int 123456) 4 = .ok (T_INTEGER ++ ['1', '2', '3', '4'] ++ T_OFF)
    ∧ colWidths srcArith p f = [6] := by
  intro f p; exact ⟨by decide, rfl, by decide⟩

/-- **The column names are printed, and the types exactly when asked.**  Whatever `_inner()` yields
(`rawLines`), its second line is the header built from the column names; the third line is the type row
built from the type names when `show_types` is set, and the separator `╞═╪═╡` otherwise (no type row).
Every column is at least `min (len name) max_column_width` wide — and `min (len type) max_column_width`
when types are shown — and a header cell shows a name that fits its column in full, centred between
blanks (`v.center(w)[:w]`). -/
theorem names_and_types_printed (cw : Char → Nat) (p : Params) (f : Frame) :
    (∀ lines, rawLines srcArith cw p f = .ok lines →
        lines[1]? = some (true, headerLine T_HEAD (idxWidth srcArith p f) f.names (colWidths srcArith p f))
        ∧ (p.showTypes = true →
            lines[2]? = some (true, headerLine T_TYPE (idxWidth srcArith p f) f.types (colWidths srcArith p f)))
        ∧ (p.showTypes = false →
            lines[2]? = some (true, border '╞' '╪' '╡' '═' (idxWidth srcArith p f) (colWidths srcArith p f))))
    ∧ (∀ (j w : Nat), (colWidths srcArith p f)[j]? = some w →
        ∃ (n ty : Str), f.names[j]? = some n ∧ f.types[j]? = some ty
          ∧ min n.length p.maxCol ≤ w ∧ (p.showTypes = true → min ty.length p.maxCol ≤ w))
    ∧ (∀ tok v w, v.length ≤ w →
        ∃ l r, headCell tok v w = tok ++ (spaces l ++ v ++ spaces r) ++ T_OFF ∧ l + v.length + r = w) := by
  refine ⟨?_, ?_, fun tok v w h => headCell_fits tok v w h⟩
  · intro lines h
    unfold rawLines at h
    simp only at h
    split at h
    · simp at h
    · simp only [Except.ok.injEq] at h
      subst h
      refine ⟨by simp, ?_, ?_⟩ <;> intro hs <;> simp [hs]
  · intro j w h
    rw [src_arith_eq_spec] at h
    exact column_fits_name_spec p f j w h

/-! ## 4. Never fails -/

/-- **The formatter is total over the modelled cell kinds** (repaired code, `errors="replace"`): for
every cell of every kind — bytes of any content included — and every width, `type_formatter` returns text. -/
theorem formatter_total (cw : Char → Nat) (c : Cell) (w : Nat) : ∃ s, formatCell srcArith cw false c w = .ok s :=
  formatter_total_any srcArith cw c w

/-- The pinned call `value.decode("utf-8")` is partial: a byte string that is not UTF-8 makes the
formatter fail (`UnicodeDecodeError`), while the repaired call renders U+FFFD. -/
theorem strict_decode_fails (cw : Char → Nat) :
    formatCell srcArith cw true (.bytes [0xff, 0xfe] 11) 11 = .error .unicodeDecode
    ∧ utf8Decode false [0xff, 0xfe] = .ok [replacement, replacement] := by
  constructor <;> rfl

/-- Every table renders (replace mode), whatever the cells, names, types and parameters. -/
theorem render_total (cw : Char → Nat) (p : Params) (f : Frame) (hp : p.strict = false) :
    ∃ lines, renderLines srcArith cw p f = .ok lines := render_total_any srcArith cw p f hp

/-! ## 4b. The `if` chain of `type_formatter` and `numpy_type_mapper`, as extracted from the source

`Gen.DisplayFmt.branches` is the chain of tests of `type_formatter` in source order, each with the colour
token its branch writes first and what the branch reads from `value`; `Gen.DisplayFmt.mapper` is the
decision tree of `numpy_type_mapper`.  `PyKinds` holds the facts about Python / numpy the tests rely on
(class hierarchy, attributes, what `math.isnan` / `numpy.isnat` accept) — compared with the interpreter
on every run. -/

section chain
open PyKinds DisplayFmt

/-- **Every value kind of the statement is formatted without an exception, by its own branch**: for
each kind (null, bool, int, float incl. NaN, Decimal incl. quiet and signalling NaN, text, datetime, date,
time, bytes, bytearray, dict, timedelta, MonthDayNano, the mapper's namespace, list, tuple, set,
frozenset, complex) no test of the chain raises before a branch is chosen, the chosen branch reads only
attributes the value has (and iterates only over iterables), and it is the branch the hand model
`formatCell` uses for that kind (same colour token) — in particular `bool` is caught before `int`,
`datetime` before `date`, `MonthDayNano` (a tuple with `.days`) before `list / tuple`, NaN floats by the
null test, and `isnan` is only ever applied to floats. -/
theorem formatter_chain_total :
    ∀ k : Kind, formatsWith Gen.DisplayFmt.branches k (tagToken (kindTag k)) = true := by
  intro k; cases k <;> decide

/-- **Every branch cuts its text to the column width, the way the hand model does**: no branch of the
extracted chain returns uncut text, and for every value kind the branch that formats it pads (`rjust` /
`ljust` / by `trunc_printable`) and cuts (`[:width]` / `trunc_printable(…, width)`) as `formatCell` does for
that kind (`modelLayout`). -/
theorem formatter_chain_layout :
    (∀ b ∈ Gen.DisplayFmt.branches, b.cut ≠ .uncut)
    ∧ ∀ k : Kind, layoutOf Gen.DisplayFmt.branches k = some (modelLayout (kindTag k)) := by
  refine ⟨by decide, ?_⟩
  intro k; cases k <;> decide

/-- **numpy scalars and arrays**: the first test of `type_formatter` sends every numpy value through
`numpy_type_mapper`; no test of the mapper raises; the result is the Python value the statement expects
(arrays → lists, timedelta64 → an interval namespace, NaT → null, integer / floating / bool_ → int /
float / bool with NaN preserved, anything else its `str()`), and that value is formatted by its branch. -/
theorem numpy_values_mapped_and_formatted :
    ∀ k : NpKind, mapped k Gen.DisplayFmt.mapGuard = true ∧ npMapped k = some (npIntended k)
      ∧ formatsWith Gen.DisplayFmt.branches (npIntended k) (tagToken (kindTag (npIntended k))) = true := by
  intro k; cases k <;> decide

/-- The guard model is not vacuous: widening the null test to `isinstance(value, (float, Decimal)) and
isnan(value)` makes the chain raise `ValueError` on a signalling-NaN decimal, and testing `int` before
`bool` sends `True` to the integer branch. -/
theorem chain_order_and_guards_matter :
    dispatch [{ guard := .or .isNone (.and (.isInst [.float, .decimal]) .isNan), token := T_NULL, body := .leaf [] false,
                pad := .rjust, cut := .slice }]
        .decSNaN = .error .valueError
    ∧ formatsWith [{ guard := .isInst [.int], token := T_INTEGER, body := .leaf [] false, pad := .rjust, cut := .slice },
                   { guard := .isInst [.bool], token := T_CONST, body := .leaf [] false, pad := .rjust, cut := .slice }]
        .boolV T_CONST = false
    ∧ formatsWith [{ guard := .isInst [.bytes, .str], token := T_BLOB, body := .leaf [.decode] false, pad := .ljust, cut := .trunc }]
        .strV T_BLOB = false := by
  refine ⟨rfl, by decide, by decide⟩

/-- **The hand model follows the chain**: whatever `formatCell` returns for a cell starts with the colour
token of the cell's branch — the token `formatter_chain_total` finds in the source for every value kind
modelled by that cell (`kindTag`). -/
theorem formatCell_starts_with_branch_token (cw : Char → Nat) (c : Cell) (w : Nat) (s : Str)
    (h : formatCell srcArith cw false c w = .ok s) : tagToken (cellTag c) <+: s := by
  cases c with
  | null => simp only [formatCell, Except.ok.injEq] at h; subst h; exact ⟨_, by simp [tagToken, cellTag]; rfl⟩
  | bool b => simp only [formatCell, Except.ok.injEq] at h; subst h; exact ⟨_, by simp [tagToken, cellTag]; rfl⟩
  | int i => simp only [formatCell, Except.ok.injEq] at h; subst h; exact ⟨_, by simp [tagToken, cellTag]; rfl⟩
  | num t n => simp only [formatCell, Except.ok.injEq] at h; subst h; exact ⟨_, by simp [tagToken, cellTag]; rfl⟩
  | text t => simp only [formatCell, Except.ok.injEq] at h; subst h; exact ⟨_, by simp [tagToken, cellTag]; rfl⟩
  | datetime d t n => simp only [formatCell, Except.ok.injEq] at h; subst h; exact ⟨_, by simp [tagToken, cellTag]; rfl⟩
  | date d n => simp only [formatCell, Except.ok.injEq] at h; subst h; exact ⟨_, by simp [tagToken, cellTag]; rfl⟩
  | bytes b n =>
    simp only [formatCell] at h
    split at h
    · simp only [Except.ok.injEq] at h; subst h; exact ⟨_, by simp [tagToken, cellTag]; rfl⟩
    · simp at h
  | dict kvs n =>
    simp only [formatCell, Except.ok.injEq] at h; subst h
    exact truncPrintable_token_prefix _ cw w true ['P', 'U', 'N', 'C'] _ (by decide)
  | interval ps n =>
    simp only [formatCell, Except.ok.injEq] at h; subst h
    exact truncPrintable_token_prefix _ cw w true ['I', 'N', 'T', 'E', 'R', 'V', 'A', 'L'] _ (by decide)
  | intervalInt mo d sc n =>
    simp only [formatCell, Except.ok.injEq] at h; subst h
    exact truncPrintable_token_prefix _ cw w true ['I', 'N', 'T', 'E', 'R', 'V', 'A', 'L'] _ (by decide)
  | list xs n =>
    simp only [formatCell, Except.ok.injEq] at h; subst h
    exact truncPrintable_token_prefix _ cw w true ['P', 'U', 'N', 'C'] _ (by decide)
  | other t => exact ⟨_, by simp [tagToken, cellTag]; rfl⟩

end chain

/-! ## 5. Intervals -/

/-- **The hours / minutes / seconds decomposition is exact** for every (also negative) number of whole
seconds and months, with the divisors the source contains: `h·3600 + m·60 + s = total`,
`0 ≤ m < 60`, `0 ≤ s < 60`; `y·12 + mo = months`, `0 ≤ mo < 12`. -/
theorem interval_decomposition_exact (months secs : Int) :
    let p := splitInterval srcArith months secs
    p.hours * 3600 + p.minutes * 60 + p.seconds = secs ∧ 0 ≤ p.minutes ∧ p.minutes < 60
      ∧ 0 ≤ p.seconds ∧ p.seconds < 60
      ∧ p.years * 12 + p.months = months ∧ 0 ≤ p.months ∧ p.months < 12 := by
  simp only [splitInterval, src_hour_divisor, src_minute_divisor, src_month_divisor, spec_hourDiv, spec_minuteDiv,
    spec_monthDiv]
  omega

/-! ## 5b. `numpy.timedelta64` → interval: every unit, every step, the whole 64-bit range of counts (C18-F08) -/

section td64
open DisplayTd Gen.DisplayTd

/-- The unit tables of the source (`TIMEDELTA_MONTHS`, `TIMEDELTA_SECONDS`) are the reference tables:
a year is 12 months; a week 604800 s, … ; a second is 10³ ms, …, 10¹⁸ as; a value without a unit counts
seconds.  The two day constants of `days=int(seconds // 86400), nanoseconds=(seconds % 86400) * 1e9` agree. -/
theorem src_td64_unit_tables :
    monthsTable = specMonths ∧ secondsTable = specSeconds ∧ dayFloor = 86400 ∧ dayMod = 86400 := by decide

/-- **Every timedelta64 is mapped, whatever its unit, step and count.**  For every unit name numpy has
(`numpyUnits`), every step and every tick count (any integer — in particular the whole 64-bit range) the
timedelta branch of `numpy_type_mapper` **as extracted** finds the unit in one of its tables (no
`KeyError`), divides by nothing that is zero, and returns either the exact month count
`raw · step · (12 | 1)` or a quotient `float(n) / d` with `d > 0` whose exact value `n / d` is the length
in seconds `raw · step · len / per` (cross-multiplied: `n · per = raw · step · len · d`), the numerator being
no larger than `raw · step · len`. -/
theorem td64_every_unit_and_count_mapped (u : String) (hu : u ∈ numpyUnits) (step raw : Int) :
    (∃ k, specMonths.lookup u = some k ∧ mapTd u step raw = .months (raw * step * k))
    ∨ (∃ len per n d, specSeconds.lookup u = some (len, per) ∧ len.natAbs ≤ 604800
        ∧ mapTd u step raw = .seconds n d ∧ 0 < d ∧ n * per = raw * step * len * d
        ∧ n.natAbs ≤ (raw * step * len).natAbs) := by
  simp only [numpyUnits, List.mem_cons, List.mem_nil_iff, or_false] at hu
  have sec : ∀ (v : String) (len per : Int), monthsTable.lookup v = none → secondsTable.lookup v = some (len, per) →
      specSeconds.lookup v = some (len, per) → len.natAbs ≤ 604800 → 0 < per →
      ∃ len per n d, specSeconds.lookup v = some (len, per) ∧ len.natAbs ≤ 604800
        ∧ mapTd v step raw = .seconds n d ∧ 0 < d ∧ n * per = raw * step * len * d
        ∧ n.natAbs ≤ (raw * step * len).natAbs := by
    intro v len per h1 h2 h3 h4 h5
    obtain ⟨n, d, h⟩ := mapTd_seconds v len per h1 h2 h5 step raw
    exact ⟨len, per, n, d, h3, h4, h⟩
  rcases hu with rfl | rfl | rfl | rfl | rfl | rfl | rfl | rfl | rfl | rfl | rfl | rfl | rfl | rfl
  · exact Or.inl ⟨12, by decide, by simp only [mapTd, show monthsTable.lookup "Y" = some 12 from by decide, months, ticks, id]⟩
  · exact Or.inl ⟨1, by decide, by simp only [mapTd, show monthsTable.lookup "M" = some 1 from by decide, months, ticks, id]⟩
  · exact Or.inr (sec "W" 604800 1 (by decide) (by decide) (by decide) (by decide) (by decide))
  · exact Or.inr (sec "D" 86400 1 (by decide) (by decide) (by decide) (by decide) (by decide))
  · exact Or.inr (sec "h" 3600 1 (by decide) (by decide) (by decide) (by decide) (by decide))
  · exact Or.inr (sec "m" 60 1 (by decide) (by decide) (by decide) (by decide) (by decide))
  · exact Or.inr (sec "s" 1 1 (by decide) (by decide) (by decide) (by decide) (by decide))
  · exact Or.inr (sec "ms" 1 (10 ^ 3) (by decide) (by decide) (by decide) (by decide) (by decide))
  · exact Or.inr (sec "us" 1 (10 ^ 6) (by decide) (by decide) (by decide) (by decide) (by decide))
  · exact Or.inr (sec "ns" 1 (10 ^ 9) (by decide) (by decide) (by decide) (by decide) (by decide))
  · exact Or.inr (sec "ps" 1 (10 ^ 12) (by decide) (by decide) (by decide) (by decide) (by decide))
  · exact Or.inr (sec "fs" 1 (10 ^ 15) (by decide) (by decide) (by decide) (by decide) (by decide))
  · exact Or.inr (sec "as" 1 (10 ^ 18) (by decide) (by decide) (by decide) (by decide) (by decide))
  · exact Or.inr (sec "generic" 1 1 (by decide) (by decide) (by decide) (by decide) (by decide))

/-- **`float()` accepts the numerator** for every 64-bit count and every step numpy allows (a C `int`):
`|n| < 2¹¹⁴`, far below the `2¹⁰²⁴` at which `float(int)` raises `OverflowError`; and the model has a cell
for the value (`tdCell` is defined). -/
theorem td64_float_conversion_in_range (u : String) (hu : u ∈ numpyUnits) (step raw : Int)
    (hraw : -(2 ^ 63) ≤ raw ∧ raw < 2 ^ 63) (hstep : 1 ≤ step ∧ step < 2 ^ 31) (parts : List Str) (slen : Nat) :
    (∀ n d, mapTd u step raw = .seconds n d → n.natAbs < 2 ^ 114 ∧ 0 < d)
    ∧ (tdCell u step raw parts slen).isSome = true := by
  rcases td64_every_unit_and_count_mapped u hu step raw with ⟨k, _, hm⟩ | ⟨len, per, n, d, _, hlen, hm, hd, _, hb⟩
  · refine ⟨fun n d h => (by rw [hm] at h; cases h), ?_⟩
    simp only [tdCell, hm, Option.isSome]
  · refine ⟨fun n' d' h => ?_, ?_⟩
    · rw [hm] at h; injection h with h1 h2; subst h1; subst h2
      refine ⟨Nat.lt_of_le_of_lt hb (product_bound raw step len (by omega) (by omega) hlen), hd⟩
    · simp only [tdCell, hm]; split <;> rfl

/-- **The interval shown is the true length** — for every unit, step and count: when the quotient is a
whole number of seconds `S = n / d`, then `S · per = raw · step · len` (the exact length), and the pieces
the formatter prints (`days = S // 86400`, then hours / minutes / seconds of `S % 86400` with the divisors
of the source) add up to it: `days·86400 + h·3600 + m·60 + s = S`, `0 ≤ h < 24`, `0 ≤ m, s < 60`.
(The double arithmetic of the code is exact on this path for `|n| ≤ 2⁵³` — the cells `tdCell` computes
itself; beyond that the rounding of `float(n) / d` enters, which the harness mirrors and compares.) -/
theorem td64_interval_is_true_length (u : String) (hu : u ∈ numpyUnits) (step raw len per n d : Int)
    (hl : specSeconds.lookup u = some (len, per)) (hm : mapTd u step raw = .seconds n d) (hdiv : n % d = 0) :
    let S := n / d
    let p := splitInterval srcArith 0 (wholeRest S)
    S * per = raw * step * len
      ∧ wholeDays S * 86400 + p.hours * 3600 + p.minutes * 60 + p.seconds = S
      ∧ 0 ≤ p.hours ∧ p.hours < 24 ∧ 0 ≤ p.minutes ∧ p.minutes < 60 ∧ 0 ≤ p.seconds ∧ p.seconds < 60
      ∧ p.years = 0 ∧ p.months = 0 := by
  intro S p
  refine ⟨?_, ?_⟩
  · rcases td64_every_unit_and_count_mapped u hu step raw with ⟨k, _, hm'⟩ | ⟨len', per', n', d', hl', _, hm', hd, hx, _⟩
    · rw [hm'] at hm; cases hm
    · rw [hm'] at hm
      obtain ⟨e1, e2⟩ := Mapped.seconds.inj hm
      rw [hl] at hl'
      obtain ⟨e3, e4⟩ := Prod.mk.inj (Option.some.inj hl')
      rw [e1, e2, ← e3, ← e4] at hx
      rw [e2] at hd
      have hn : n = S * d := by
        have := Int.emod_add_mul_ediv n d
        rw [hdiv, Int.zero_add, Int.mul_comm] at this; exact this.symm
      have hx' : S * d * per = raw * step * len * d := by rw [← hn]; exact hx
      exact Int.eq_of_mul_eq_mul_right (Int.ne_of_gt hd) (by rw [← hx']; ac_rfl)
  · have h1 : dayFloor = 86400 := src_td64_unit_tables.2.2.1
    have h2 : dayMod = 86400 := src_td64_unit_tables.2.2.2
    simp only [p, splitInterval, wholeDays, wholeRest, h1, h2, src_hour_divisor, src_minute_divisor, src_month_divisor,
      spec_hourDiv, spec_minuteDiv, spec_monthDiv, Int.fdiv_eq_ediv_of_nonneg _ (show (0 : Int) ≤ 86400 by decide),
      Int.fmod_eq_emod_of_nonneg _ (show (0 : Int) ≤ 86400 by decide)]
    omega

/-- **The repair changes no value that rendered before.**  Whenever numpy's own 64-bit conversion
(`pinnedSeconds`, the code before C18-F08) succeeds, the repaired branch forms the double quotient from
the very same numerator and denominator — so the text is the same. -/
theorem td64_repair_keeps_rendered_values (u : String) (hu : u ∈ numpyUnits) (step raw n d : Int)
    (h : pinnedSeconds u step raw = some (n, d)) : mapTd u step raw = .seconds n d := by
  simp only [numpyUnits, List.mem_cons, List.mem_nil_iff, or_false] at hu
  rcases hu with rfl | rfl | rfl | rfl | rfl | rfl | rfl | rfl | rfl | rfl | rfl | rfl | rfl | rfl
  · simp [pinnedSeconds, specSeconds, List.lookup] at h
  · simp [pinnedSeconds, specSeconds, List.lookup] at h
  · exact pinned_agrees_aux "W" 604800 1 (by decide) (by decide) (by decide) (by decide) step raw n d h
  · exact pinned_agrees_aux "D" 86400 1 (by decide) (by decide) (by decide) (by decide) step raw n d h
  · exact pinned_agrees_aux "h" 3600 1 (by decide) (by decide) (by decide) (by decide) step raw n d h
  · exact pinned_agrees_aux "m" 60 1 (by decide) (by decide) (by decide) (by decide) step raw n d h
  · exact pinned_agrees_aux "s" 1 1 (by decide) (by decide) (by decide) (by decide) step raw n d h
  · exact pinned_agrees_aux "ms" 1 (10 ^ 3) (by decide) (by decide) (by decide) (by decide) step raw n d h
  · exact pinned_agrees_aux "us" 1 (10 ^ 6) (by decide) (by decide) (by decide) (by decide) step raw n d h
  · exact pinned_agrees_aux "ns" 1 (10 ^ 9) (by decide) (by decide) (by decide) (by decide) step raw n d h
  · exact pinned_agrees_aux "ps" 1 (10 ^ 12) (by decide) (by decide) (by decide) (by decide) step raw n d h
  · exact pinned_agrees_aux "fs" 1 (10 ^ 15) (by decide) (by decide) (by decide) (by decide) step raw n d h
  · exact pinned_agrees_aux "as" 1 (10 ^ 18) (by decide) (by decide) (by decide) (by decide) step raw n d h
  · exact pinned_agrees_aux "generic" 1 1 (by decide) (by decide) (by decide) (by decide) step raw n d h

/-- **The defect repaired by C18-F08**: numpy's 64-bit conversions fail on 2⁶² weeks, on every value in
attoseconds and on 2⁶² years, where the repaired branch returns the exact quotient / month count. -/
theorem pinned_td64_conversions_overflow :
    pinnedSeconds "W" 1 (2 ^ 62) = none ∧ mapTd "W" 1 (2 ^ 62) = .seconds (2 ^ 62 * 604800) 1
    ∧ (∀ step raw : Int, pinnedSeconds "as" step raw = none) ∧ mapTd "as" 1 1 = .seconds 1 (10 ^ 18)
    ∧ pinnedMonths "Y" 1 (2 ^ 62) = none ∧ mapTd "Y" 1 (2 ^ 62) = .months (2 ^ 62 * 12) := by
  refine ⟨by decide, by decide, fun _ _ => rfl, by decide, by decide, by decide⟩

end td64

/-! ## 6. Colour tokens (tie to the extracted `COLORS` table) -/

/-- Every token and every ANSI replacement in `COLORS` prints nothing and closes its escape — so
`colorizer` (either branch) does not change the printed width measured by `pwidth`. -/
theorem tokens_invisible :
    ∀ kv ∈ Gen.Display.colors, scan false kv.1 = (0, false) ∧ scan false kv.2 = (0, false) := by decide

/-- Every `\x01NAMEm` token that `ascii_table` writes (extracted from its string literals) and every
token the model writes is a key of `COLORS`, i.e. is substituted by `colorizer`. -/
theorem tokens_defined :
    (∀ t ∈ Gen.Display.tokensUsed, t ∈ Gen.Display.colors.map Prod.fst)
    ∧ (∀ t ∈ usedTokens, t ∈ Gen.Display.colors.map Prod.fst) := by decide


/-- Shape of the extracted table: every key is a token (`\x01`, a name without `\x01` and without `m`,
then `m`), and no ANSI replacement contains the marker `\x01`. -/
theorem colors_table_shape :
    (∀ kv ∈ Gen.Display.colors, tokShapeB kv.1 = true) ∧ (∀ kv ∈ Gen.Display.colors, '\x01' ∉ kv.2) := by decide

/-- **`colorizer` substitutes exactly the tokens.**  For every string in token form — text segments
without the marker `\x01`, and tokens that are keys of `COLORS` — the loop
`for k, v in COLORS.items(): record = record.replace(k, v or "")` over the **extracted** table returns
the same segments with every token replaced by its ANSI code (colour on) or removed (colour off), the
text untouched.  (`replaceAll` is Python's leftmost non-overlapping `str.replace`.) -/
theorem colorizer_substitutes_tokens (on : Bool) (segs : List Seg)
    (hs : ∀ sg ∈ segs, SegOk (Gen.Display.colors.map Prod.fst) sg) :
    colorize Gen.Display.colors on (flat segs) = flat (segs.map (resolve Gen.Display.colors on))
    ∧ ∀ sg ∈ segs.map (resolve Gen.Display.colors on), ∃ s, sg = .txt s := by
  have hk : ∀ kv ∈ Gen.Display.colors, TokShape kv.1 := fun kv h => tokShape_of_B (colors_table_shape.1 kv h)
  have hkeys : ∀ k ∈ Gen.Display.colors.map Prod.fst, TokShape k := by
    intro k hk'; simp only [List.mem_map] at hk'; obtain ⟨kv, h, rfl⟩ := hk'; exact hk kv h
  refine ⟨colorize_segs _ on hk colors_table_shape.2 _ hkeys segs hs, ?_⟩
  intro sg hsg
  simp only [List.mem_map] at hsg
  obtain ⟨s0, h0, rfl⟩ := hsg
  cases s0 with
  | txt s => exact ⟨s, rfl⟩
  | tok k =>
    have hmem := hs _ h0
    simp only [SegOk, List.mem_map] at hmem
    obtain ⟨kv, hkv, rfl⟩ := hmem
    simp only [resolve]
    cases hf : Gen.Display.colors.find? (fun x => x.1 == kv.1) with
    | some x => exact ⟨_, rfl⟩
    | none =>
      have := List.find?_eq_none.mp hf kv hkv
      simp at this

/-- **…and keeps the printed width.**  If moreover the text segments contain no escape character at
all, the colourised / stripped string prints exactly the text: `Σ text lengths` characters, as the
token-level string does under `pwidth`, and no escape is left open. -/
theorem colorizer_keeps_width (on : Bool) (segs : List Seg)
    (hs : ∀ sg ∈ segs, SegOk (Gen.Display.colors.map Prod.fst) sg)
    (ht : ∀ s, Seg.txt s ∈ segs → ∀ c ∈ s, isEsc c = false) :
    scan false (colorize Gen.Display.colors on (flat segs)) = ((segs.map segWidth).sum, false)
    ∧ scan false (flat segs) = ((segs.map segWidth).sum, false) := by
  have hinv := tokens_invisible
  have htok : ∀ k, Seg.tok k ∈ segs → ∃ kv ∈ Gen.Display.colors, kv.1 = k := by
    intro k hk
    have hmem := hs _ hk
    simp only [SegOk, List.mem_map] at hmem
    obtain ⟨kv, hkv, rfl⟩ := hmem
    exact ⟨kv, hkv, rfl⟩
  constructor
  · rw [(colorizer_substitutes_tokens on segs hs).1]
    refine W_flat_map (resolve Gen.Display.colors on) segWidth segs ?_
    intro sg hsg
    cases sg with
    | txt s => exact W_noesc s (ht s hsg)
    | tok k =>
      obtain ⟨kv, hkv, rfl⟩ := htok k hsg
      simp only [resolve, segWidth]
      cases hf : Gen.Display.colors.find? (fun x => x.1 == kv.1) with
      | none =>
        have := List.find?_eq_none.mp hf kv hkv
        simp at this
      | some x =>
        have hx : x ∈ Gen.Display.colors := List.mem_of_find?_eq_some hf
        simp only [Seg.flat]
        split
        · exact (hinv x hx).2
        · exact W_nil
  · have := W_flat_map id segWidth segs (by
      intro sg hsg
      cases sg with
      | txt s => exact W_noesc s (ht s hsg)
      | tok k =>
        obtain ⟨kv, hkv, rfl⟩ := htok k hsg
        exact (hinv kv hkv).1)
    simp only [List.map_id] at this
    exact this

/-- **Colour on and off: the text `ascii_table` returns has the same printed width.**  For a
printable-ASCII frame every line the table joins is in token form — text without escape characters
interleaved with colour tokens that are keys of the **extracted** `COLORS` — also after the cut to the
display width (`trunc_printable` never cuts inside a token).  Hence `colorizer` (the sequential
`str.replace` loop over the extracted table), with colour on (tokens → ANSI codes) as with colour off
(tokens removed), turns every box line into a string that prints exactly
`min tableWidth display_width` characters and leaves no escape open. -/
theorem colour_on_and_off_same_width (cw : Char → Nat) (hcw : ∀ c, Printable c → cw c = 1)
    (hbox : ∀ c ∈ boxChars, cw c = 1) (p : Params) (f : Frame) (hf : FrameAscii f)
    (hl : 1 ≤ p.limit) (hm : 1 ≤ p.maxCol) (hd : 1 ≤ p.displayWidth) (on : Bool) :
    ∃ lines, renderLines srcArith cw p f = .ok lines
      ∧ ∀ l ∈ lines, l.1 = true →
          scan false (colorize Gen.Display.colors on l.2)
            = (min (tableWidth (idxWidth srcArith p f) (colWidths srcArith p f)) p.displayWidth, false) := by
  obtain ⟨lines, hr, hw⟩ := within_display_width cw hcw hbox p f hf hl hm hd
  refine ⟨lines, hr, ?_⟩
  intro l hmem hb
  have htf : TF l.2 := by
    rw [src_arith_eq_spec] at hr
    exact renderLines_TF cw p f hf hl lines hr l hmem
  obtain ⟨segs, hflat, hgood⟩ := htf
  have hs : ∀ sg ∈ segs, SegOk (Gen.Display.colors.map Prod.fst) sg := by
    intro sg hsg
    have := hgood sg hsg
    cases sg with
    | txt t =>
      simp only [SegOk, NoMark]
      intro hmark
      have := (txtC_facts (this _ hmark)).1
      simp [isEsc] at this
    | tok k => exact tokens_defined.2 k this
  have ht : ∀ t, Seg.txt t ∈ segs → ∀ c ∈ t, isEsc c = false :=
    fun t h c hc => (txtC_facts (hgood _ h c hc)).1
  obtain ⟨hon, hraw⟩ := colorizer_keeps_width on segs hs ht
  have hwid := (hw l hmem hb).1
  rw [hflat] at hwid ⊢
  rw [hon]
  simp only [pwidth, hraw] at hwid
  rw [hwid]

/-! ## 7. Markdown -/

/-- **The rows Markdown shows**: after the header and the separator come exactly the first `limit`
rows of the frame (all rows of a shorter frame), in order, the `k`-th labelled `k + 1` and padded to
`index width − 1`. -/
theorem markdown_rows (limit maxCol : Nat) (f : MdFrame) (hl : 1 ≤ limit) :
    (markdownLines srcArith limit maxCol f).length = 2 + min limit f.rows.length
    ∧ ∀ k l, ((markdownLines srcArith limit maxCol f).drop 2)[k]? = some l →
        l.idx = ['|'] ++ rjust ((natStr f.rows.length).length - 1) (natStr (k + 1)) ++ [' ', '|', ' '] := by
  rw [src_arith_eq_spec]
  simp only [markdownLines, dfSlice_head f.rows limit hl]
  constructor
  · simp only [List.length_append, List.length_cons, List.length_nil, mdRowsGo_length, List.length_take] <;> omega
  · intro k l h
    simp only [List.cons_append, List.nil_append, List.drop_succ_cons, List.drop_zero] at h
    have := mdRowsGo_idx specArith _ _ 0 _ k l h
    simpa using this

/-- **Markdown columns line up**: for a rectangular frame, the columns part of every line — header,
separator and every data row — has the same length `Σ column widths + 3·(columns−1) + 2`, whatever
the cell text (cells are padded or cut to the column width by code points). -/
theorem markdown_columns_equal_width (limit maxCol : Nat) (f : MdFrame) (hl : 1 ≤ limit)
    (hrect : ∀ r ∈ f.rows, r.length = f.names.length) :
    ∀ l ∈ markdownLines srcArith limit maxCol f,
      l.cols.length = mdColsWidth (mdColWidthsGo srcArith maxCol (f.rows.take limit) 0 f.names) := by
  rw [src_arith_eq_spec]
  intro l hmem
  have hwl := mdColWidthsGo_length specArith maxCol (f.rows.take limit) 0 f.names
  simp only [markdownLines, dfSlice_head f.rows limit hl, List.mem_append, List.mem_cons, List.not_mem_nil,
    or_false] at hmem
  rcases hmem with (rfl | rfl) | hmem
  · have hz := zipWithTrunc_lengths (fun (v : Str) w => (ljust w v).take w) (fun v w => length_take_ljust w v)
      f.names _ hwl.symm
    simp only [List.length_append, length_joinWith3 (sep := [' ', '|', ' ']) rfl, hz.1, hz.2, mdColsWidth]
    rfl
  · have hm : ((mdColWidthsGo specArith maxCol (f.rows.take limit) 0 f.names).map
        (fun w => List.replicate w '-')).map List.length
        = mdColWidthsGo specArith maxCol (f.rows.take limit) 0 f.names := map_length_replicate '-' _
    simp only [List.length_append, length_joinWith3 (sep := ['-', '|', '-']) rfl, hm, List.length_map, mdColsWidth]
    rfl
  · exact mdRowsGo_cols specArith _ _ 0 _ (fun r hr => by rw [hrect r (List.mem_of_mem_take hr), hwl]) l hmem

/-- **The Markdown index column**: the header's index part is `5 + (iw − 2)` long, the separator's
`iw + 3`, a data row's `4 + max (iw − 1) (digits of its label)` (`iw = len(str(n))`).  They agree
(`iw + 3`) exactly when `iw ≥ 2` and the label has fewer digits than `n`. -/
theorem markdown_index_column (limit maxCol : Nat) (f : MdFrame) (hl : 1 ≤ limit) :
    let iw := (natStr f.rows.length).length
    (∀ l, (markdownLines srcArith limit maxCol f)[0]? = some l → l.idx.length = 5 + (iw - 2))
    ∧ (∀ l, (markdownLines srcArith limit maxCol f)[1]? = some l → l.idx.length = iw + 3)
    ∧ (∀ k l, ((markdownLines srcArith limit maxCol f).drop 2)[k]? = some l →
        l.idx.length = 4 + max (iw - 1) (natStr (k + 1)).length) := by
  intro iw
  refine ⟨?_, ?_, ?_⟩
  · intro l h
    rw [src_arith_eq_spec] at h
    simp only [markdownLines, List.cons_append, List.getElem?_cons_zero, Option.some.injEq] at h
    rw [← h]; simp [spaces, iw] <;> omega
  · intro l h
    rw [src_arith_eq_spec] at h
    simp only [markdownLines, List.cons_append, List.getElem?_cons_succ, List.getElem?_cons_zero,
      Option.some.injEq] at h
    rw [← h]; simp [iw] <;> omega
  · intro k l h
    rw [(markdown_rows limit maxCol f hl).2 k l h]
    simp [length_rjust, iw] <;> omega

/-- **Markdown's index column is ragged** (not required by the property; recorded so that nobody
reads `markdown_columns_equal_width` as more than it says): with 3 rows the separator's index part is
one character shorter than the header's and the rows'; with 10 rows, row 10 is one character longer
than the others. -/
theorem markdown_index_ragged :
    ((markdownLines srcArith 5 30 { names := [['a']], rows := List.replicate 3 [⟨false, ['x']⟩] }).map
        (fun l => l.idx.length)) = [5, 4, 5, 5, 5]
    ∧ ((markdownLines srcArith 10 30 { names := [['a']], rows := List.replicate 10 [⟨false, ['x']⟩] }).map
        (fun l => l.idx.length)) = [5, 5, 5, 5, 5, 5, 5, 5, 5, 5, 5, 6] := by decide

end C18
