import OrsoVerif.Model.Validate
/-!
# C05 — Validation accepts exactly conforming records; append is atomic

Property theorems about `Model/Validate.lean`.  They hold for every schema and record; the
concrete facts about the type table (`True` is accepted for INTEGER, a float is not, …) are
proved against the *generated* tables, so a change of `ORSO_TO_PYTHON_MAP` re-checks them.
-/
namespace C05
open Validate

def keys (r : Record) : List String := r.map (·.1)

/-- The four clauses of the statement. -/
def Conforms (s : List Column) (r : Record) : Prop :=
  (∀ k ∈ keys r, k ∈ names s)
  ∧ (∀ c ∈ s, lookup c.name r ≠ none)
  ∧ (∀ c ∈ s, lookup c.name r = some none → c.nullable = true)
  ∧ (∀ c ∈ s, ∀ cls ty, lookup c.name r = some (some cls) → c.type = some ty → isInstance cls ty = true)

theorem excessKeys_nil_iff (s : List Column) (r : Record) :
    excessKeys s r = [] ↔ ∀ k ∈ keys r, k ∈ names s := by
  simp [excessKeys, keys, List.filter_eq_nil_iff]

theorem filter_map_nil_iff (s : List Column) (p : Column → Bool) :
    (s.filter p).map (·.name) = [] ↔ ∀ c ∈ s, p c = false := by
  simp [List.filter_eq_nil_iff]

/-- **Validation succeeds exactly when the record conforms** (keys all name columns, every column
present, nulls only in nullable columns, every non-null value an instance of its column's class;
untyped columns accept anything). -/
theorem validate_ok_iff (s : List Column) (r : Record) : validate s r = .ok ↔ Conforms s r := by
  unfold validate Conforms
  by_cases hx : excessKeys s r = []
  · have hk := (excessKeys_nil_iff s r).mp hx
    simp only [hx, ne_eq, not_true_eq_false, if_false]
    constructor
    · intro h
      split at h
      · rename_i hc
        obtain ⟨hm, hn, hw⟩ := hc
        rw [filter_map_nil_iff] at hm hn hw
        refine ⟨hk, ?_, ?_, ?_⟩
        · intro c hc hnone
          have := hm c hc
          simp [isMissing, hnone] at this
        · intro c hc hnull
          have := hn c hc
          simpa [isNullViolation, hnull] using this
        · intro c hc cls ty hl ht
          have := hw c hc
          simpa [isWrongType, hl, ht] using this
      · cases h
    · rintro ⟨_, hp, hn, hw⟩
      have h1 : (s.filter (isMissing r)).map (·.name) = [] := by
        rw [filter_map_nil_iff]; intro c hc
        have := hp c hc
        cases hl : lookup c.name r with
        | none => exact absurd hl this
        | some v => simp [isMissing, hl]
      have h2 : (s.filter (isNullViolation r)).map (·.name) = [] := by
        rw [filter_map_nil_iff]; intro c hc
        cases hl : lookup c.name r with
        | none => simp [isNullViolation, hl]
        | some v =>
          cases v with
          | none => simp [isNullViolation, hl, hn c hc hl]
          | some cls => simp [isNullViolation, hl]
      have h3 : (s.filter (isWrongType r)).map (·.name) = [] := by
        rw [filter_map_nil_iff]; intro c hc
        cases hl : lookup c.name r with
        | none => simp [isWrongType, hl]
        | some v =>
          cases v with
          | none => simp [isWrongType, hl]
          | some cls =>
            cases ht : c.type with
            | none => simp [isWrongType, hl, ht]
            | some ty => simp [isWrongType, hl, ht, hw c hc cls ty hl ht]
      simp [h1, h2, h3]
  · simp only [ne_eq, hx, not_false_eq_true, if_true]
    constructor
    · intro h; cases h
    · rintro ⟨hk, _⟩
      exact absurd ((excessKeys_nil_iff s r).mpr hk) hx

/-- The excess-keys error is raised exactly when some key is not a column, and it names precisely
those keys. -/
theorem excess_exact (s : List Column) (r : Record) :
    ((∃ ks, validate s r = .excess ks) ↔ ∃ k ∈ keys r, k ∉ names s)
    ∧ ∀ ks, validate s r = .excess ks → ∀ k, k ∈ ks ↔ (k ∈ keys r ∧ k ∉ names s) := by
  have hmem : ∀ k, k ∈ excessKeys s r ↔ (k ∈ keys r ∧ k ∉ names s) := by
    intro k; simp [excessKeys, keys]
  constructor
  · constructor
    · rintro ⟨ks, h⟩
      unfold validate at h
      by_cases hx : excessKeys s r = []
      · simp only [hx, ne_eq, not_true_eq_false, if_false] at h
        split at h <;> cases h
      · obtain ⟨k, hk⟩ := List.exists_mem_of_ne_nil _ hx
        exact ⟨k, ((hmem k).mp hk).1, ((hmem k).mp hk).2⟩
    · rintro ⟨k, hk1, hk2⟩
      have hx : excessKeys s r ≠ [] := by
        intro h
        have : k ∈ excessKeys s r := (hmem k).mpr ⟨hk1, hk2⟩
        rw [h] at this; cases this
      exact ⟨excessKeys s r, by simp [validate, hx]⟩
  · intro ks h k
    unfold validate at h
    by_cases hx : excessKeys s r = []
    · simp only [hx, ne_eq, not_true_eq_false, if_false] at h
      split at h <;> cases h
    · simp only [ne_eq, hx, not_false_eq_true, if_true, Outcome.excess.injEq] at h
      rw [← h]; exact hmem k

/-- The validation error names precisely the offending columns — also when several rules fire:
`missing` are exactly the absent columns, `nulls` exactly the non-nullable columns holding null,
`wrongType` exactly the typed columns whose non-null value is not an instance of the class. -/
theorem invalid_exact (s : List Column) (r : Record) (m n w : List String)
    (h : validate s r = .invalid m n w) :
    (∀ x, x ∈ m ↔ ∃ c ∈ s, c.name = x ∧ lookup c.name r = none)
    ∧ (∀ x, x ∈ n ↔ ∃ c ∈ s, c.name = x ∧ lookup c.name r = some none ∧ c.nullable = false)
    ∧ (∀ x, x ∈ w ↔ ∃ c ∈ s, c.name = x ∧ ∃ cls ty, lookup c.name r = some (some cls) ∧ c.type = some ty
          ∧ isInstance cls ty = false)
    ∧ (m ≠ [] ∨ n ≠ [] ∨ w ≠ [])
    ∧ (∀ k ∈ keys r, k ∈ names s) := by
  unfold validate at h
  by_cases hx : excessKeys s r = []
  · simp only [hx, ne_eq, not_true_eq_false, if_false] at h
    split at h
    · cases h
    · rename_i hne
      simp only [Outcome.invalid.injEq] at h
      obtain ⟨rfl, rfl, rfl⟩ := h
      refine ⟨?_, ?_, ?_, ?_, (excessKeys_nil_iff s r).mp hx⟩
      · intro x
        simp only [List.mem_map, List.mem_filter, isMissing, Option.isNone_iff_eq_none]
        constructor
        · rintro ⟨c, ⟨hc, hl⟩, rfl⟩; exact ⟨c, hc, rfl, hl⟩
        · rintro ⟨c, hc, rfl, hl⟩; exact ⟨c, ⟨hc, hl⟩, rfl⟩
      · intro x
        simp only [List.mem_map, List.mem_filter]
        constructor
        · rintro ⟨c, ⟨hc, hl⟩, rfl⟩
          refine ⟨c, hc, rfl, ?_⟩
          unfold isNullViolation at hl
          split at hl
          · rename_i heq; exact ⟨heq, by simpa using hl⟩
          · cases hl
        · rintro ⟨c, hc, rfl, hl, hn⟩
          exact ⟨c, ⟨hc, by simp [isNullViolation, hl, hn]⟩, rfl⟩
      · intro x
        simp only [List.mem_map, List.mem_filter]
        constructor
        · rintro ⟨c, ⟨hc, hl⟩, rfl⟩
          refine ⟨c, hc, rfl, ?_⟩
          unfold isWrongType at hl
          split at hl
          · rename_i cls ty h1 h2; exact ⟨cls, ty, h1, h2, by simpa using hl⟩
          · cases hl
        · rintro ⟨c, hc, rfl, cls, ty, hl, ht, hi⟩
          exact ⟨c, ⟨hc, by simp [isWrongType, hl, ht, hi]⟩, rfl⟩
      · by_cases h1 : (s.filter (isMissing r)).map (·.name) = []
        · by_cases h2 : (s.filter (isNullViolation r)).map (·.name) = []
          · right; right; intro h3; exact hne ⟨h1, h2, h3⟩
          · right; left; exact h2
        · left; exact h1
  · simp [hx] at h

/-- An accepted record adds exactly one row, with the values in column order. -/
theorem append_ok (s : List Column) (rows : List (List Value)) (r : Record) (h : validate s r = .ok) :
    append s rows r = (rows ++ [rowOf s r], .ok)
    ∧ (rowOf s r).length = s.length
    ∧ ∀ (i : Nat) (c : Column), s[i]? = some c → (rowOf s r)[i]? = some ((lookup c.name r).getD none) := by
  refine ⟨by simp [append, h], by simp [rowOf], ?_⟩
  intro i c hc
  simp [rowOf, hc]

/-- A rejected record raises and leaves the frame's rows unchanged. -/
theorem append_rejected_unchanged (s : List Column) (rows : List (List Value)) (r : Record)
    (h : validate s r ≠ .ok) : (append s rows r).1 = rows ∧ (append s rows r).2 = validate s r := by
  unfold append
  cases hv : validate s r with
  | ok => exact absurd hv h
  | excess ks => simp
  | invalid m n w => simp

theorem mem_zip_map_self {β γ : Type} (l : List β) (f : β → γ) (c : β) (v : γ)
    (h : (c, v) ∈ l.zip (l.map f)) : v = f c := by
  induction l with
  | nil => simp at h
  | cons a as ih =>
    simp only [List.map_cons, List.zip_cons_cons, List.mem_cons, Prod.mk.injEq] at h
    rcases h with ⟨rfl, rfl⟩ | h
    · rfl
    · exact ih h

/-- The row stored for a conforming record conforms to the schema (duplicate-free column names). -/
theorem rowOf_conforms (s : List Column) (r : Record) (h : validate s r = .ok) :
    rowConforms s (rowOf s r) = true := by
  obtain ⟨_, hp, hn, hw⟩ := (validate_ok_iff s r).mp h
  simp only [rowConforms, rowOf, List.length_map, List.all_eq_true, decide_eq_true_eq, true_and]
  intro ⟨c, v⟩ hcv
  have hc : c ∈ s := (List.of_mem_zip hcv).1
  have hv : v = (lookup c.name r).getD none := mem_zip_map_self s _ c v hcv
  subst hv
  cases hl : lookup c.name r with
  | none => exact absurd hl (hp c hc)
  | some v =>
    cases v with
    | none => simp [hn c hc hl]
    | some cls =>
      cases ht : c.type with
      | none => simp
      | some ty => simp [hw c hc cls ty hl ht]

/-- After any sequence of appends the frame holds its original rows followed by exactly the rows
of the accepted records, in order; and every stored row conforms when the original ones did. -/
theorem appends_invariant (s : List Column) (rows : List (List Value)) (rs : List Record) :
    appends s rows rs = rows ++ (rs.filter fun r => decide (validate s r = .ok)).map (rowOf s)
    ∧ ((∀ row ∈ rows, rowConforms s row = true) → ∀ row ∈ appends s rows rs, rowConforms s row = true) := by
  induction rs generalizing rows with
  | nil => simp [appends]
  | cons r rs ih =>
    by_cases h : validate s r = .ok
    · have ha := (append_ok s rows r h).1
      obtain ⟨ih1, ih2⟩ := ih (rows ++ [rowOf s r])
      refine ⟨?_, ?_⟩
      · simp [appends, ha, ih1, h]
      · intro hall row hrow
        simp only [appends, ha] at hrow
        apply ih2 _ row hrow
        intro row' hr'
        rcases List.mem_append.mp hr' with hr' | hr'
        · exact hall row' hr'
        · simp only [List.mem_singleton] at hr'; subst hr'; exact rowOf_conforms s r h
    · have ha := (append_rejected_unchanged s rows r h).1
      obtain ⟨ih1, ih2⟩ := ih rows
      refine ⟨?_, ?_⟩
      · simp [appends, ha, ih1, h]
      · intro hall row hrow
        simp only [appends, ha] at hrow
        exact ih2 hall row hrow

/-- Facts about the generated type table: the subclass cases the property names. -/
theorem table_facts :
    isInstance "bool" "INTEGER" = true ∧ isInstance "int" "INTEGER" = true
    ∧ isInstance "float" "INTEGER" = false ∧ isInstance "int" "DOUBLE" = false
    ∧ isInstance "int" "BOOLEAN" = false
    ∧ isInstance "datetime" "DATE" = true ∧ isInstance "date" "TIMESTAMP" = false
    ∧ isInstance "str" "VARCHAR" = true ∧ isInstance "bytes" "VARCHAR" = false
    ∧ isInstance "bytes" "BLOB" = true ∧ isInstance "str" "BLOB" = false
    ∧ isInstance "Decimal" "DECIMAL" = true ∧ isInstance "float" "DECIMAL" = false
    ∧ isInstance "list" "ARRAY" = true ∧ isInstance "tuple" "ARRAY" = false
    ∧ isInstance "dict" "STRUCT" = true ∧ isInstance "timedelta" "INTERVAL" = true
    ∧ isInstance "time" "TIME" = true ∧ isInstance "float" "DOUBLE" = true := by decide

/-- Non-vacuity: a record that breaks three rules at once, and an accepted one. -/
example :
    let s : List Column := [⟨"a", some "INTEGER", false⟩, ⟨"b", some "VARCHAR", true⟩, ⟨"c", none, false⟩]
    validate s [("a", some "str"), ("c", none)] = .invalid ["b"] ["c"] ["a"]
    ∧ validate s [("c", some "list"), ("b", none), ("a", some "bool")] = .ok
    ∧ validate s [("a", some "int"), ("zz", none)] = .excess ["zz"] := by decide

end C05
