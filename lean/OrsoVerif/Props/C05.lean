import OrsoVerif.Lemmas.Validate
import OrsoVerif.Lemmas.Family
import OrsoVerif.Lemmas.RowClass
import OrsoVerif.Lemmas.Layout
import OrsoVerif.Generated.RecordUse
/-!
# C05 — Validation accepts exactly conforming records; append is atomic

Property theorems about `Model/Validate.lean`.

The model's `validate` and `append` *run the control flow regenerated from the working tree*
(`Gen.ValidateFlow.columnRule`, `.top`, `.excessAgainst`, `.appendSteps`).  Part 1 proves that this flow is
the statement's (`validateSpec`, `Conforms`); a change of the order of the checks, of a guard, of an
early `continue`, of what the keys are compared with, or of the order of the statements of `append`
breaks a theorem of part 1 by name.  Parts 2–4 are the clauses of the property for every schema, record
and history; the concrete facts about the type table are proved against the generated tables.
-/
namespace C05
open Validate

/-! ## 1. the generated control flow is the statement's -/

/-- The loop body of `validate`, as the source has it now, is the three rules of the statement: a column
that is absent is reported missing and nothing else; a null is reported exactly when the column is not
nullable — also for untyped columns; a non-null value is reported exactly when the column is typed and
`isinstance` fails. -/
theorem columnRule_spec (p n nl t i : Bool) :
    Gen.ValidateFlow.columnRule p n nl t i =
      if !p then [kMissing] else if n then (if nl then [] else [kNull]) else if t && !i then [kWrong] else [] := by
  cases p <;> cases n <;> cases nl <;> cases t <;> cases i <;> rfl

/-- The loop body never raises, whatever the record and the column: with Python's evaluation order (left to
right, short-circuit) the source looks `data[column.name]` up only when the key is there and
`ORSO_TO_PYTHON_MAP[column.type]` only for a typed column — for all 32 combinations of the atoms it returns
what `columnRule` returns. -/
theorem columnRule_never_raises (p n nl t i : Bool) :
    Gen.ValidateFlow.columnRuleE p n nl t i = some (Gen.ValidateFlow.columnRule p n nl t i) := by
  cases p <;> cases n <;> cases nl <;> cases t <;> cases i <;> rfl

/-- The top level of `validate`, as the source has it now: a non-mapping is refused first; excess keys
raise at once, before and instead of the collected errors; the collected errors raise together. -/
theorem top_spec (x e : Bool) :
    Gen.ValidateFlow.top false x e = (if x then .excess else if e then .invalid else .ok)
    ∧ Gen.ValidateFlow.top true x e = .typeError := by
  cases x <;> cases e <;> exact ⟨rfl, rfl⟩

/-- The record's keys are compared with the column names — not with names and aliases. -/
theorem excess_against_names : Gen.ValidateFlow.excessAgainst = "name" := by decide

/-- `validate` reads nothing but declared dataclass fields of the schema and of its columns (through
properties and helper methods): no cached property, no memoising decorator, no undeclared attribute, no
write to `self` or to a module global.  This is what makes the outcome a function of the schema as it is
now (part 4). -/
theorem no_hidden_state :
    Gen.ValidateFlow.hiddenState = []
    ∧ (∀ a ∈ Gen.ValidateFlow.schemaReads, a ∈ Gen.ValidateFlow.schemaFields)
    ∧ (∀ a ∈ Gen.ValidateFlow.columnReads, a ∈ Gen.ValidateFlow.columnFields) := by decide

theorem excessKeys_eq (s : List Column) (r : Record) : excessKeys s r = excessNames s r := by
  simp [excessKeys, excessNames, knownKeys, excess_against_names]

/-- Per column, the generated rule appends to exactly the lists the statement's three predicates name. -/
theorem rule_flags (r : Record) (c : Column) :
    decide (kMissing ∈ ruleOf r c) = isMissing r c
    ∧ decide (kNull ∈ ruleOf r c) = isNullViolation r c
    ∧ decide (kWrong ∈ ruleOf r c) = isWrongType r c
    ∧ decide (ruleOf r c ≠ []) = (isMissing r c || isNullViolation r c || isWrongType r c) := by
  unfold ruleOf
  rw [columnRule_spec]
  unfold atomPresent atomIsNone atomTyped atomInst isMissing isNullViolation isWrongType
  cases hl : lookup c.name r with
  | none => simp [kMissing, kNull, kWrong]
  | some v =>
    cases v with
    | none => cases c.nullable <;> simp [kMissing, kNull, kWrong]
    | some cls =>
      cases ht : c.type with
      | none => simp [kMissing, kNull, kWrong]
      | some ty => cases hi : isInstance cls ty <;> simp [kMissing, kNull, kWrong]

/-- **Refinement**: `validate` as the working tree has it (generated flow) computes the statement. -/
theorem validate_refines_spec (s : List Column) (r : Record) : validate s r = validateSpec s r := by
  have hm : collect kMissing s r = (s.filter (isMissing r)).map (·.name) := by
    unfold collect; congr 1; apply List.filter_congr; intro c _; exact (rule_flags r c).1
  have hn : collect kNull s r = (s.filter (isNullViolation r)).map (·.name) := by
    unfold collect; congr 1; apply List.filter_congr; intro c _; exact (rule_flags r c).2.1
  have hw : collect kWrong s r = (s.filter (isWrongType r)).map (·.name) := by
    unfold collect; congr 1; apply List.filter_congr; intro c _; exact (rule_flags r c).2.2.1
  have hany : (s.any fun c => decide (ruleOf r c ≠ [])) = true ↔
      ¬ ((s.filter (isMissing r)).map (·.name) = [] ∧ (s.filter (isNullViolation r)).map (·.name) = []
          ∧ (s.filter (isWrongType r)).map (·.name) = []) := by
    simp only [List.any_eq_true, (rule_flags r _).2.2.2, Bool.or_eq_true, Spec.filter_map_nil_iff]
    constructor
    · rintro ⟨c, hc, h⟩ ⟨h1, h2, h3⟩
      rcases h with (h | h) | h
      · rw [h1 c hc] at h; cases h
      · rw [h2 c hc] at h; cases h
      · rw [h3 c hc] at h; cases h
    · intro h
      refine Classical.byContradiction fun hne => h ⟨?_, ?_, ?_⟩
      · intro c hc
        cases hb : isMissing r c with
        | false => rfl
        | true => exact absurd ⟨c, hc, Or.inl (Or.inl hb)⟩ hne
      · intro c hc
        cases hb : isNullViolation r c with
        | false => rfl
        | true => exact absurd ⟨c, hc, Or.inl (Or.inr hb)⟩ hne
      · intro c hc
        cases hb : isWrongType r c with
        | false => rfl
        | true => exact absurd ⟨c, hc, Or.inr hb⟩ hne
  unfold validate validateSpec
  rw [excessKeys_eq, hm, hn, hw, (top_spec _ _).1]
  by_cases hx : excessNames s r = []
  · by_cases he : (s.any fun c => decide (ruleOf r c ≠ [])) = true
    · have h3 := hany.mp he
      rw [he]; simp only [hx, h3, ne_eq, not_true_eq_false, decide_false, Bool.false_eq_true, ↓reduceIte]
    · have hf : (s.any fun c => decide (ruleOf r c ≠ [])) = false := by simpa using he
      have h3 := Classical.not_not.mp (fun h => he (hany.mpr h))
      rw [hf]; simp only [hx, h3, ne_eq, not_true_eq_false, decide_false, Bool.false_eq_true, and_self, ↓reduceIte]
  · simp [hx]

/-- Which exception carries the offending columns: both validation errors are `DataError`s, the excess-keys
error keeps the set of excess keys it is given under `.columns`, the validation error keeps the dict of lists it
is given under `.errors` — as given, not a copy or a digest of it. -/
theorem error_carriers :
    (∀ p ∈ Gen.AppendFlow.errorBases, "DataError" ∈ p.2)
    ∧ (Gen.AppendFlow.errorBases.map (·.1)) = ["DataValidationError", "ExcessColumnsInDataError"]
    ∧ ("DataValidationError", "errors", "errors") ∈ Gen.AppendFlow.errorStores
    ∧ ("ExcessColumnsInDataError", "columns", "columns") ∈ Gen.AppendFlow.errorStores := by decide

/-- The constructors of the two errors can be given ANY offending keys, names and values: while they build their message
they apply nothing to them that needs more than being an object — no sorting or ordering (record keys of different kinds
cannot be ordered), no arithmetic, no join of elements that were not made strings first.  So the error that is raised is
the validation error, never a `TypeError` from its own constructor. -/
theorem error_constructors_total : Gen.AppendFlow.errorPartialOps = [] := by decide

/-! ## 2. validation: acceptance and error content -/

/-- **Validation succeeds exactly when the record conforms** (keys all name columns, every column
present, nulls only in nullable columns, every non-null value an instance of its column's class;
untyped columns accept anything). -/
theorem validate_ok_iff (s : List Column) (r : Record) : validate s r = .ok ↔ Conforms s r := by
  rw [validate_refines_spec]; exact Spec.validateSpec_ok_iff s r

/-- The excess-keys error is raised exactly when some key is not a column name — whatever else is wrong
with the record — and it names precisely those keys. -/
theorem excess_exact (s : List Column) (r : Record) :
    ((∃ ks, validate s r = .excess ks) ↔ ∃ k ∈ keys r, k ∉ names s)
    ∧ ∀ ks, validate s r = .excess ks → ∀ k, k ∈ ks ↔ (k ∈ keys r ∧ k ∉ names s) := by
  rw [validate_refines_spec]; exact Spec.excess_exact s r

/-- The validation error names precisely the offending columns — also when several rules fire:
`missing` are exactly the absent columns, `nulls` exactly the non-nullable columns holding null,
`wrongType` exactly the typed columns whose non-null value is not an instance of the class. -/
theorem invalid_exact (s : List Column) (r : Record) (m n w : List String)
    (h : validate s r = .invalid m n w) :
    (∀ x, x ∈ m ↔ ∃ c ∈ s, c.name = x ∧ lookup c.name r = none)
    ∧ (∀ x, x ∈ n ↔ ∃ c ∈ s, c.name = x ∧ lookup c.name r = some none ∧ c.nullable = false)
    ∧ (∀ x, x ∈ w ↔ ∃ c ∈ s, c.name = x ∧ ∃ cls ty, lookup c.name r = some (some cls) ∧ c.type = some ty
          ∧ isInstance cls ty = false)
    ∧ (m ≠ [] ∨ n ≠ [] ∨ w ≠ [])
    ∧ (∀ k ∈ keys r, k ∈ names s) := by
  rw [validate_refines_spec] at h; exact Spec.invalid_exact s r m n w h

/-- Every combination of the four kinds of offence is decided: validation of a mapping ends in exactly
one of `ok`, an excess-keys error (with at least one key) or a validation error — never anything else. -/
theorem outcome_total (s : List Column) (r : Record) :
    validate s r = .ok ∨ (∃ ks, ks ≠ [] ∧ validate s r = .excess ks) ∨ (∃ m n w, validate s r = .invalid m n w) := by
  rw [validate_refines_spec]
  unfold validateSpec
  by_cases hx : excessNames s r = []
  · simp only [hx, ne_eq, not_true_eq_false, if_false]
    split
    · exact Or.inl rfl
    · exact Or.inr (Or.inr ⟨_, _, _, rfl⟩)
  · exact Or.inr (Or.inl ⟨excessNames s r, hx, by simp [hx]⟩)

/-- The validation error (as opposed to the excess-keys error) is raised exactly when all keys name
columns and the record does not conform. -/
theorem invalid_iff (s : List Column) (r : Record) :
    (∃ m n w, validate s r = .invalid m n w) ↔ ((∀ k ∈ keys r, k ∈ names s) ∧ ¬ Conforms s r) := by
  constructor
  · rintro ⟨m, n, w, h⟩
    refine ⟨(invalid_exact s r m n w h).2.2.2.2, fun hc => ?_⟩
    rw [(validate_ok_iff s r).mpr hc] at h; cases h
  · rintro ⟨hk, hnc⟩
    rcases outcome_total s r with h | ⟨ks, hne, h⟩ | h
    · exact absurd ((validate_ok_iff s r).mp h) hnc
    · obtain ⟨k, hk1, hk2⟩ := ((excess_exact s r).1).mp ⟨ks, h⟩
      exact absurd (hk k hk1) hk2
    · exact h

/-- Each list of the validation error is in schema order and names a column at most as often as the
schema lists it: it is a sublist of the column names. -/
theorem invalid_lists_in_column_order (s : List Column) (r : Record) (m n w : List String)
    (h : validate s r = .invalid m n w) :
    m.Sublist (names s) ∧ n.Sublist (names s) ∧ w.Sublist (names s) := by
  rw [validate_refines_spec] at h
  unfold validateSpec at h
  by_cases hx : excessNames s r = []
  · simp only [hx, ne_eq, not_true_eq_false, if_false] at h
    split at h
    · cases h
    · simp only [Outcome.invalid.injEq] at h
      obtain ⟨rfl, rfl, rfl⟩ := h
      exact ⟨List.Sublist.map _ List.filter_sublist, List.Sublist.map _ List.filter_sublist,
        List.Sublist.map _ List.filter_sublist⟩
  · simp [hx] at h

/-- A column breaks at most one of the three rules. -/
theorem rules_exclusive (r : Record) (c : Column) :
    ¬ (isMissing r c = true ∧ isNullViolation r c = true)
    ∧ ¬ (isMissing r c = true ∧ isWrongType r c = true)
    ∧ ¬ (isNullViolation r c = true ∧ isWrongType r c = true) := by
  unfold isMissing isNullViolation isWrongType
  cases lookup c.name r with
  | none => simp
  | some v => cases v <;> simp

/-! ## 3. append -/

/-- **`DataFrame.append`, with its statements in the order the source has them now**, stores the row
exactly when validation succeeds and the row can be sized; whenever it raises, the rows are as before. -/
theorem append_spec (s : List Column) (rows : List (List Value)) (r : Record) (z : Bool) :
    append s rows r z =
      if validate s r = .ok then (if z then (rows ++ [rowOf s r], .ok) else (rows, .unsizable))
      else (rows, .rejected (validate s r)) := by
  by_cases h : validate s r = .ok <;> cases z <;>
    simp [append, Gen.ValidateFlow.appendSteps, runSteps, h]

/-- A frame created from a generator of rows (or by `from_arrow`) holds no list yet: `append` makes it one
before anything is stored — and stores exactly once. -/
theorem append_materialises_before_storing :
    Gen.ValidateFlow.appendSteps.idxOf .materialize < Gen.ValidateFlow.appendSteps.idxOf .store
    ∧ Gen.ValidateFlow.appendSteps.count .store = 1 ∧ Gen.ValidateFlow.appendSteps.count .validate = 1 := by decide

/-- An accepted record adds exactly one row, with the values in column order. -/
theorem append_ok (s : List Column) (rows : List (List Value)) (r : Record) (h : validate s r = .ok) :
    append s rows r true = (rows ++ [rowOf s r], .ok)
    ∧ (rowOf s r).length = s.length
    ∧ ∀ (i : Nat) (c : Column), s[i]? = some c → (rowOf s r)[i]? = some ((lookup c.name r).getD none) := by
  refine ⟨by simp [append_spec, h], by simp [rowOf], ?_⟩
  intro i c hc
  simp [rowOf, hc]

/-- Append succeeds exactly when the record validates and the row can be sized. -/
theorem append_ok_iff (s : List Column) (rows : List (List Value)) (r : Record) (z : Bool) :
    (append s rows r z).2 = .ok ↔ (validate s r = .ok ∧ z = true) := by
  rw [append_spec]
  by_cases h : validate s r = .ok <;> cases z <;> simp [h]

/-- A rejected record — or one whose row cannot be sized — raises and leaves the frame's rows unchanged;
a rejected record raises the validation outcome. -/
theorem append_rejected_unchanged (s : List Column) (rows : List (List Value)) (r : Record) (z : Bool)
    (h : (append s rows r z).2 ≠ .ok) :
    (append s rows r z).1 = rows
    ∧ (validate s r ≠ .ok → (append s rows r z).2 = .rejected (validate s r)) := by
  rw [append_spec] at h ⊢
  by_cases hv : validate s r = .ok <;> cases z <;> simp_all

theorem mem_zip_map_self {β γ : Type} (l : List β) (f : β → γ) (c : β) (v : γ)
    (h : (c, v) ∈ l.zip (l.map f)) : v = f c := by
  induction l with
  | nil => simp at h
  | cons a as ih =>
    simp only [List.map_cons, List.zip_cons_cons, List.mem_cons, Prod.mk.injEq] at h
    rcases h with ⟨rfl, rfl⟩ | h
    · rfl
    · exact ih h

/-- The row stored for a conforming record conforms to the schema. -/
theorem rowOf_conforms (s : List Column) (r : Record) (h : validate s r = .ok) :
    rowConforms s (rowOf s r) = true := by
  obtain ⟨_, hp, hn, hw⟩ := (validate_ok_iff s r).mp h
  simp only [rowConforms, rowOf, List.length_map, List.all_eq_true, decide_eq_true_eq, true_and]
  intro ⟨c, v⟩ hcv
  have hc : c ∈ s := (List.of_mem_zip hcv).1
  have hv : v = (lookup c.name r).getD none := mem_zip_map_self s _ c v hcv
  subst hv
  cases hl : lookup c.name r with
  | none => exact absurd hl (hp c hc)
  | some v =>
    cases v with
    | none => simp [hn c hc hl]
    | some cls =>
      cases ht : c.type with
      | none => simp
      | some ty => simp [hw c hc cls ty hl ht]

/-- The accepted records of a history: those that validate and whose row can be sized. -/
def accepted (s : List Column) (rs : List (Record × Bool)) : List (Record × Bool) :=
  rs.filter fun p => decide (validate s p.1 = .ok) && p.2

/-- After any sequence of appends the frame holds its original rows followed by exactly the rows
of the accepted records, in order; and every stored row conforms when the original ones did. -/
theorem appends_invariant (s : List Column) (rows : List (List Value)) (rs : List (Record × Bool)) :
    appends s rows rs = rows ++ (accepted s rs).map (fun p => rowOf s p.1)
    ∧ ((∀ row ∈ rows, rowConforms s row = true) → ∀ row ∈ appends s rows rs, rowConforms s row = true) := by
  induction rs generalizing rows with
  | nil => simp [appends, accepted]
  | cons p rs ih =>
    obtain ⟨r, z⟩ := p
    by_cases h : validate s r = .ok ∧ z = true
    · obtain ⟨hv, rfl⟩ := h
      have ha : append s rows r true = (rows ++ [rowOf s r], .ok) := (append_ok s rows r hv).1
      obtain ⟨ih1, ih2⟩ := ih (rows ++ [rowOf s r])
      refine ⟨?_, ?_⟩
      · simp [appends, ha, ih1, accepted, hv]
      · intro hall row hrow
        simp only [appends, ha] at hrow
        apply ih2 _ row hrow
        intro row' hr'
        rcases List.mem_append.mp hr' with hr' | hr'
        · exact hall row' hr'
        · simp only [List.mem_singleton] at hr'; subst hr'; exact rowOf_conforms s r hv
    · have hne : (append s rows r z).2 ≠ .ok := fun hk => h ((append_ok_iff s rows r z).mp hk)
      have ha := (append_rejected_unchanged s rows r z hne).1
      obtain ⟨ih1, ih2⟩ := ih rows
      have hf : (decide (validate s r = .ok) && z) = false := by
        cases z <;> simp_all
      refine ⟨?_, ?_⟩
      · simp [appends, ha, ih1, accepted, hf]
      · intro hall row hrow
        simp only [appends, ha] at hrow
        exact ih2 hall row hrow

/-- The results the caller sees, one per append: `ok` exactly for the accepted records. -/
theorem appendResults_exact (s : List Column) (rows : List (List Value)) (rs : List (Record × Bool)) :
    (appendResults s rows rs).length = rs.length
    ∧ ∀ (i : Nat) (p : Record × Bool) (a : AppendResult), rs[i]? = some p → (appendResults s rows rs)[i]? = some a →
        (a = .ok ↔ (validate s p.1 = .ok ∧ p.2 = true)) := by
  induction rs generalizing rows with
  | nil => simp [appendResults]
  | cons p rs ih =>
    obtain ⟨r, z⟩ := p
    obtain ⟨ih1, ih2⟩ := ih (append s rows r z).1
    refine ⟨by simp [appendResults, ih1], ?_⟩
    intro i p a hp ha
    cases i with
    | zero =>
      simp only [List.getElem?_cons_zero, Option.some.injEq] at hp
      simp only [appendResults, List.getElem?_cons_zero, Option.some.injEq] at ha
      subst hp; subst ha
      exact append_ok_iff s rows r z
    | succ j =>
      simp only [List.getElem?_cons_succ] at hp
      simp only [appendResults, List.getElem?_cons_succ] at ha
      exact ih2 j p a hp ha

/-! ## 4. one schema object used many times: the outcome depends on the schema as it is now -/

/-- Observations accumulate: what a program sees at its last step is `observe` on the column list the
earlier steps left behind. -/
theorem run_snoc (s : List Column) (pre : List Op) (op : Op) :
    run s (pre ++ [op]) = run s pre ++ (observe (exec s pre) op).toList := by
  induction pre generalizing s with
  | nil => simp [run, exec]
  | cons o os ih => simp [run, exec, ih]

/-- **History independence.**  After *any* history of validations, appends through bound frames and
mutations of the column list (`columns.append`, `insert`, `del`, `pop_column`, assignment, in-place
change of a column), validating a record gives the statement's verdict on the schema *as it is at
that moment*: it succeeds exactly when the record conforms to the current columns. -/
theorem session_validate_now (s : List Column) (pre : List Op) (r : Record) :
    run s (pre ++ [.validate r]) = run s pre ++ [.outcome (validate (exec s pre) r)]
    ∧ (validate (exec s pre) r = .ok ↔ Conforms (exec s pre) r) := by
  refine ⟨by simp [run_snoc, observe], validate_ok_iff _ _⟩

/-- Two histories that leave the same column list behind cannot be told apart by anything done next —
a schema that was used before it was changed answers like one that was built in its final shape. -/
theorem history_independent (s₁ s₂ : List Column) (h₁ h₂ : List Op) (op : Op)
    (h : exec s₁ h₁ = exec s₂ h₂) :
    ∃ o, run s₁ (h₁ ++ [op]) = run s₁ h₁ ++ o ∧ run s₂ (h₂ ++ [op]) = run s₂ h₂ ++ o := by
  exact ⟨(observe (exec s₁ h₁) op).toList, run_snoc s₁ h₁ op, by rw [run_snoc, h]⟩

/-- Validating and appending never change the schema; each mutation changes the column list as the
list operation says (`pop_column` removes the first column of that name, and nothing when there is none). -/
theorem exec_effects (s : List Column) (r : Record) (c : Column) (i : Nat) (n : String) (cs : List Column)
    (init : List (List Value)) (rs : List (Record × Bool)) :
    exec s [.validate r] = s ∧ exec s [.frame init rs] = s
    ∧ exec s [.addCol c] = s ++ [c] ∧ exec s [.replaceCols cs] = cs
    ∧ exec s [.delCol i] = s.eraseIdx i ∧ exec s [.insertCol i c] = s.insertIdx i c
    ∧ exec s [.setCol i c] = s.set i c
    ∧ exec (c :: s) [.popCol c.name] = s
    ∧ (n ∉ names s → exec s [.popCol n] = s) := by
  refine ⟨rfl, rfl, rfl, rfl, rfl, rfl, rfl, by simp [exec, mutate], ?_⟩
  intro hn
  simp only [exec, mutate]
  apply List.eraseP_of_forall_not
  intro c hc hcn
  exact hn (by simp only [names, List.mem_map]; exact ⟨c, hc, by simpa using hcn⟩)

/-- A frame bound to the schema after any history accepts exactly the records that conform to the
columns as they are then, stores their values in that column order, and leaves its rows alone
otherwise. -/
theorem session_frame_now (s : List Column) (pre : List Op) (init : List (List Value)) (rs : List (Record × Bool)) :
    run s (pre ++ [.frame init rs]) =
      run s pre ++ [.frame (init ++ (accepted (exec s pre) rs).map (fun p => rowOf (exec s pre) p.1))
                            (appendResults (exec s pre) init rs)] := by
  simp [run_snoc, observe, (appends_invariant (exec s pre) init rs).1]

/-- Non-vacuity: a record that breaks three rules at once, an accepted one, an excess key that hides two
other offences, an alias that is an excess key; and a schema object whose verdict follows its mutations. -/
example :
    let s : List Column := [⟨"a", some "INTEGER", false, ["id"]⟩, ⟨"b", some "VARCHAR", true, []⟩, ⟨"c", none, false, []⟩]
    validate s [("a", some "str"), ("c", none)] = .invalid ["b"] ["c"] ["a"]
    ∧ validate s [("c", some "list"), ("b", none), ("a", some "bool")] = .ok
    ∧ validate s [("a", some "str"), ("zz", none)] = .excess ["zz"]
    ∧ validate s [("a", some "int"), ("b", none), ("c", some "int"), ("id", some "int")] = .excess ["id"]
    ∧ run s [.validate [("a", some "int"), ("b", none), ("c", some "int"), ("d", some "float")],
             .addCol ⟨"d", some "DOUBLE", true, []⟩,
             .validate [("a", some "int"), ("b", none), ("c", some "int"), ("d", some "float")],
             .popCol "b",
             .validate [("a", some "int"), ("b", none), ("c", some "int"), ("d", some "float")],
             .setCol 0 ⟨"a", some "VARCHAR", false, []⟩,
             .frame [] [([("a", some "int"), ("c", some "int"), ("d", none)], true),
                        ([("a", some "str"), ("c", some "int"), ("d", none)], true),
                        ([("a", some "str"), ("c", some "int"), ("d", none)], false)]]
        = [.outcome (.excess ["d"]), .outcome .ok, .outcome (.excess ["b"]),
           .frame [[some "str", some "int", none]] [.rejected (.invalid [] [] ["a"]), .ok, .unsizable]] := by decide

/-! ## 5. the type table -/

/-- Facts about the generated type table: the subclass cases the property names. -/
theorem table_facts :
    isInstance "bool" "INTEGER" = true ∧ isInstance "int" "INTEGER" = true
    ∧ isInstance "float" "INTEGER" = false ∧ isInstance "int" "DOUBLE" = false
    ∧ isInstance "int" "BOOLEAN" = false
    ∧ isInstance "datetime" "DATE" = true ∧ isInstance "date" "TIMESTAMP" = false
    ∧ isInstance "str" "VARCHAR" = true ∧ isInstance "bytes" "VARCHAR" = false
    ∧ isInstance "bytes" "BLOB" = true ∧ isInstance "str" "BLOB" = false
    ∧ isInstance "Decimal" "DECIMAL" = true ∧ isInstance "float" "DECIMAL" = false
    ∧ isInstance "list" "ARRAY" = true ∧ isInstance "tuple" "ARRAY" = false
    ∧ isInstance "dict" "STRUCT" = true ∧ isInstance "timedelta" "INTERVAL" = true
    ∧ isInstance "time" "TIME" = true ∧ isInstance "float" "DOUBLE" = true := by decide

/-- Subclasses defined by users and by numpy: a subclass instance is accepted, a look-alike is not. -/
theorem table_facts_subclasses :
    isInstance "MyInt" "INTEGER" = true ∧ isInstance "MyStr" "VARCHAR" = true
    ∧ isInstance "MyDateTime" "DATE" = true ∧ isInstance "MyDateTime" "TIMESTAMP" = true
    ∧ isInstance "MyDict" "STRUCT" = true ∧ isInstance "OrderedDict" "STRUCT" = true
    ∧ isInstance "np.float64" "DOUBLE" = true ∧ isInstance "np.int64" "INTEGER" = false
    ∧ isInstance "np.bool" "BOOLEAN" = false ∧ isInstance "bytearray" "BLOB" = false
    ∧ isInstance "frozenset" "ARRAY" = false ∧ isInstance "np.ndarray" "ARRAY" = false
    ∧ isInstance "bytes" "JSONB" = true ∧ isInstance "dict" "JSONB" = false := by decide

/-! ## 6. the record *object*: dict, any other mapping, anything else -/

/-- The three type tests of the source — the one that lets an object into `validate`, the one under which
`append` copies it into a plain dict first, the one under which the row factory reads it by key — fit together,
for every object CPython can make (exact dict ⊆ dict ⊆ MutableMapping ⊆ Mapping):
whatever `validate` lets in after the copy is read by key (never iterated, which would store a mapping's *keys*);
every mutable mapping is let in, an object that is no mapping never is; `append` copies only what `validate`
would let in anyway, so the copy does not change the verdict. -/
theorem record_objects (d e m p : Bool) (h : Kind.wf ⟨d, e, m, p⟩ = true) :
    (guardAccepts (afterCoerce ⟨d, e, m, p⟩) = true → rowReads (afterCoerce ⟨d, e, m, p⟩) = true)
    ∧ (m = true → guardAccepts ⟨d, e, m, p⟩ = true)
    ∧ (p = false → guardAccepts ⟨d, e, m, p⟩ = false)
    ∧ (coerces ⟨d, e, m, p⟩ = true → guardAccepts ⟨d, e, m, p⟩ = true)
    ∧ guardAccepts (afterCoerce ⟨d, e, m, p⟩) = guardAccepts ⟨d, e, m, p⟩ := by
  revert h
  cases d <;> cases e <;> cases m <;> cases p <;> decide

/-- `validate` on any object: the statement's verdict when the object passes the type test, a `TypeError`
otherwise — nothing in between. -/
theorem validateK_spec (k : Kind) (s : List Column) (r : Record) :
    validateK k s r = if guardAccepts k then validate s r else .other := by
  unfold validateK validate
  cases guardAccepts k
  · simp [(top_spec _ _).2]
  · simp

/-- No exception escapes the per-column loop: `validate` with evaluation errors is `validate`. -/
theorem validateKE_eq (k : Kind) (s : List Column) (r : Record) : validateKE k s r = validateK k s r := by
  have : (s.any fun c => (ruleOfE r c).isNone) = false := by
    simp [ruleOfE, columnRule_never_raises]
  simp [validateKE, this]

/-- **`append` of any object**: exactly `append` of the record it stands for when `validate` lets the object in,
otherwise refused with the rows unchanged.  In particular nothing but `rowOf` — the values in column order — is
ever stored. -/
theorem appendK_spec (s : List Column) (rows : List (List Value)) (k : Kind) (hk : k.wf = true) (r : Record) (z : Bool) :
    appendK s rows k r z = if guardAccepts k then append s rows r z else (rows, .rejected .other) := by
  obtain ⟨d, e, m, p⟩ := k
  obtain ⟨h1, _, _, _, h5⟩ := record_objects d e m p hk
  rw [append_spec]
  simp only [appendK, Gen.ValidateFlow.appendSteps, runStepsK, validateK_spec, h5]
  cases hg : guardAccepts ⟨d, e, m, p⟩
  · simp
  · have hr := h1 (h5 ▸ hg)
    by_cases hv : validate s r = .ok <;> cases z <;> simp [hv, hr]

/-- A mutable mapping of any class is appended exactly like the plain dict with the same items. -/
theorem appendK_mutable (s : List Column) (rows : List (List Value)) (k : Kind) (hk : k.wf = true)
    (hm : k.isMutableMapping = true) (r : Record) (z : Bool) : appendK s rows k r z = append s rows r z := by
  obtain ⟨d, e, m, p⟩ := k
  rw [appendK_spec s rows _ hk, (record_objects d e m p hk).2.1 hm]; rfl

/-- Whatever the object: when `append` returns, `validate` accepts the same object, exactly one row was added
and it holds the values in column order; when it raises, the rows are as before. -/
theorem appendK_safe (s : List Column) (rows : List (List Value)) (k : Kind) (hk : k.wf = true) (r : Record) (z : Bool) :
    ((appendK s rows k r z).2 = .ok →
        (appendK s rows k r z).1 = rows ++ [rowOf s r] ∧ validateK k s r = .ok ∧ Conforms s r ∧ z = true)
    ∧ ((appendK s rows k r z).2 ≠ .ok → (appendK s rows k r z).1 = rows) := by
  rw [appendK_spec s rows k hk, validateK_spec]
  cases hg : guardAccepts k
  · simp
  · simp only [if_true]
    refine ⟨fun h => ?_, fun h => (append_rejected_unchanged s rows r z h).1⟩
    obtain ⟨hv, hz⟩ := (append_ok_iff s rows r z).mp h
    subst hz
    exact ⟨(append_ok s rows r hv).1 ▸ rfl, hv, (validate_ok_iff s r).mp hv, rfl⟩

/-- The appends of a history of arbitrary objects that are accepted. -/
def acceptedK (s : List Column) (l : List (Kind × Record × Bool)) : List (Kind × Record × Bool) :=
  l.filter fun p => guardAccepts p.1 && decide (validate s p.2.1 = .ok) && p.2.2

/-- After any sequence of appends of arbitrary objects the frame holds its original rows followed by exactly
the rows of the accepted ones, in order; every stored row conforms when the original ones did. -/
theorem appendsK_invariant (s : List Column) (l : List (Kind × Record × Bool)) (hl : ∀ p ∈ l, p.1.wf = true) :
    ∀ rows, appendsK s rows l = rows ++ (acceptedK s l).map (fun p => rowOf s p.2.1)
      ∧ ((∀ row ∈ rows, rowConforms s row = true) → ∀ row ∈ appendsK s rows l, rowConforms s row = true) := by
  induction l with
  | nil => intro rows; simp [appendsK, acceptedK]
  | cons q l ih =>
    obtain ⟨k, r, z⟩ := q
    intro rows
    have hk : k.wf = true := hl (k, r, z) List.mem_cons_self
    have ih' := ih (fun p hp => hl p (List.mem_cons_of_mem _ hp))
    have hsafe := appendK_safe s rows k hk r z
    have hspec := appendK_spec s rows k hk r z
    by_cases hok : (appendK s rows k r z).2 = .ok
    · obtain ⟨h1, h2, h3, h4⟩ := hsafe.1 hok
      subst h4
      rw [validateK_spec] at h2
      have hg : guardAccepts k = true := by
        cases hg : guardAccepts k
        · simp [hg] at h2
        · rfl
      have hv : validate s r = .ok := by simpa [hg] using h2
      obtain ⟨ih1, ih2⟩ := ih' (rows ++ [rowOf s r])
      refine ⟨by simp [appendsK, h1, ih1, acceptedK, hg, hv], ?_⟩
      intro hall row hrow
      simp only [appendsK, h1] at hrow
      apply ih2 _ row hrow
      intro row' hr'
      rcases List.mem_append.mp hr' with hr' | hr'
      · exact hall row' hr'
      · simp only [List.mem_singleton] at hr'; subst hr'; exact rowOf_conforms s r hv
    · have h1 := hsafe.2 hok
      have hf : (guardAccepts k && decide (validate s r = .ok) && z) = false := by
        cases hg : guardAccepts k
        · simp
        · rw [hspec, hg] at hok
          simp only [if_true] at hok
          have := mt (append_ok_iff s rows r z).mpr hok
          cases z <;> simp_all
      obtain ⟨ih1, ih2⟩ := ih' rows
      refine ⟨by simp [appendsK, h1, ih1, acceptedK, hf], ?_⟩
      intro hall row hrow
      simp only [appendsK, h1] at hrow
      exact ih2 hall row hrow

/-! ## 7. families of frames: every frame is a register of its own append history -/

/-- **No method hands out the parent's own row list**: no `return` of `DataFrame.slice` (hence of `head` and
`tail`) builds the new frame on `self._rows` itself, and `query`, `distinct`, `filter`, `take`, `to_batches`
and `+` build theirs on a new list or on a generator over a snapshot — never on the parent's list, never on a
generator that reads the parent's list later. -/
theorem frames_own_their_rows :
    Family.sharesSomewhere Gen.AppendFlow.sliceTree = false
    ∧ ∀ p ∈ Gen.AppendFlow.derivedRows, p.2 = .fresh ∨ p.2 = .snapshot := by decide

theorem no_sharing : Family.NoSharing := by
  refine ⟨frames_own_their_rows.1, fun p hp => ?_⟩
  rcases frames_own_their_rows.2 p hp with h | h <;> rw [h] <;> decide

/-- **Refinement**: for every program of appends and derivations (slice, head, tail, query, distinct, filter,
take, to_batches, +) the frames of the heap machine — where a frame is a pointer to a row list and `append`
writes through it — show exactly what the register machine holds, in which every frame has rows of its own. -/
theorem family_refines_registers (s : List Column) (st : Family.St) (h : Family.Inv st) (ops : List Family.FOp) :
    (Family.runH s st ops).view = Family.runR s st.view ops :=
  (Family.run_refines s no_sharing ops st h).1

/-- **Every frame holds exactly its own history**: take any program, stop anywhere; a frame that exists then and
shows `rows` shows, after the rest of the program, `rows` followed by exactly the records accepted by the
appends that went to *it*, in order — whatever was appended to the frames it was derived from or that were
derived from it. -/
theorem family_frame_holds_its_own (s : List Column) (st : Family.St) (h : Family.Inv st) (pre post : List Family.FOp)
    (hwf : ∀ op ∈ post, op.wf = true) (j : Nat) (rows : List Family.Row)
    (hj : (Family.runH s st pre).view[j]? = some rows) :
    (Family.runH s st (pre ++ post)).view[j]? =
      some (rows ++ (acceptedK s (Family.appendsTo j post)).map (fun p => rowOf s p.2.1)) := by
  rw [Family.runH_append]
  obtain ⟨_, hinv⟩ := Family.run_refines s no_sharing pre st h
  rw [(Family.run_refines s no_sharing post _ hinv).1, Family.runR_frame s j post _ rows hj,
    (appendsK_invariant s _ (Family.appendsTo_wf j post hwf) rows).1]

/-- An append to one frame changes no other frame. -/
theorem family_append_is_local (s : List Column) (st : Family.St) (h : Family.Inv st) (i j : Nat) (hij : i ≠ j)
    (k : Kind) (hk : k.wf = true) (r : Record) (z : Bool) :
    (Family.stepH s st (.append i k r z)).view[j]? = st.view[j]? := by
  cases hj : st.view[j]? with
  | none =>
    have := (Family.step_refines s no_sharing st h (.append i k r z)).1
    rw [this]
    simp only [Family.stepR]
    cases hi : st.view[i]? with
    | none => exact hj
    | some rows_i =>
      simp only [List.getElem?_set, hij, if_false]; exact hj
  | some rows =>
    have := family_frame_holds_its_own s st h [] [.append i k r z] (by simpa [Family.FOp.wf] using hk) j rows hj
    simpa [Family.runH, Family.appendsTo, hij, acceptedK] using this

/-- Non-vacuity of parts 6 and 7: `head(5)` of a two-row frame is the whole of it on a list of its own, so an
append to the parent leaves it alone; frames taken later start from what their parent holds then; a UserDict is
appended like the dict it stands for, a read-only mapping is refused by `validate` and by `append` alike. -/

example :
    let s : List Column := [⟨"a", some "INTEGER", false, []⟩, ⟨"b", some "VARCHAR", true, []⟩]
    let good : Record := [("b", some "str"), ("a", some "int")]
    let st0 : Family.St := ⟨[[[some "int", some "str"], [some "int", none]]], [0]⟩
    let proxy : Kind := ⟨false, false, false, true⟩
    let userDict : Kind := ⟨false, false, true, true⟩
    -- head(5) of a two-row frame is the whole of it, on a list of its own: an append to the parent leaves it alone
    (Family.runH s st0 [.derive 0 (.head 5), .append 0 Kind.dict good true, .derive 0 (.tail 1), .append 1 userDict good true,
                 .append 2 proxy good true, .derive 1 (.slice (-1) none)]).view
      = [[[some "int", some "str"], [some "int", none], [some "int", some "str"]],
         [[some "int", some "str"], [some "int", none], [some "int", some "str"]],
         [[some "int", some "str"]],
         [[some "int", some "str"]]]
    ∧ (appendK s [] proxy good true) = ([], .rejected .other)
    ∧ (appendK s [] userDict good true) = ([[some "int", some "str"]], .ok)
    ∧ validateK proxy s good = .other := by decide

/-! ## 8. one process, many features: where a frame's row class comes from -/

/-- **The classes `Row.create_class` hands out do not depend on who asked before** (decided on the facts regenerated
from row.py, dataframe.py and converters.py): the `DataFrame` constructor asks for a class with Row's own constructor —
the one that reads a record by key —, and if `create_class` keeps the classes it makes in module-level state, the key
is built from everything the class depends on: the field names, and `tuples_only` unless both values give the same
constructor. -/
theorem row_classes_sound : RowClass.genCfg.sound = true := by decide

/-- Non-vacuity of part 8: on the working tree's configuration, an arrow-made frame stores the values in column order
whatever was asked before. -/
example :
    let s : List Column := [⟨"a", some "INTEGER", false, []⟩, ⟨"b", some "VARCHAR", true, []⟩]
    let good : Record := [("b", some "str"), ("a", some "int")]
    (RowClass.runP RowClass.genCfg s ⟨[], []⟩
        [.feature ["a", "b"] .reader, .feature ["b", "a"] (.direct true), .frame true [[some "int", none]],
         .fop (.append 0 Kind.dict good true), .feature ["a", "b"] (.direct true), .fop (.derive 0 (.head 5)),
         .fop (.append 1 Kind.dict good true), .fop (.append 0 Kind.dict [("a", some "str")] true)]).regs
      = [[[some "int", none], [some "int", some "str"]],
         [[some "int", none], [some "int", some "str"], [some "int", some "str"]]] := by decide

/-- What the callers pass, as the source has it now: a frame never asks for a tuples-only class, the arrow reader
does, and a tuples-only class is the one that would store a dict's keys. -/
theorem row_class_callers :
    Gen.RowClass.classNew Gen.RowClass.frameFlag = .rowNew ∧ Gen.RowClass.classNew Gen.RowClass.dictFrameFlag = .rowNew
    ∧ (Gen.RowClass.arrowFlag = true → Gen.RowClass.classNew true = .tupleNew →
        ∀ k r, RowClass.buildRow ⟨[], Gen.RowClass.classNew Gen.RowClass.arrowFlag⟩ k r = keysRow r) := by
  refine ⟨by decide, by decide, ?_⟩
  intro h1 h2 k r
  simp [RowClass.buildRow, h1, h2]

/-- A request for a row class is answered as if nothing had been asked before, whatever was: the class has the fields
asked for and the constructor `tuples_only` selects. -/
theorem create_class_history_independent (cache : RowClass.Cache) (h : RowClass.CacheOk RowClass.genCfg cache)
    (fields : List String) (flag : Bool) :
    (RowClass.createClass RowClass.genCfg cache fields flag).1 = ⟨fields, Gen.RowClass.classNew flag⟩
    ∧ RowClass.CacheOk RowClass.genCfg (RowClass.createClass RowClass.genCfg cache fields flag).2 :=
  RowClass.createClass_sound RowClass.genCfg row_classes_sound cache h fields flag

/-- **Refinement**: for every program of a process — other features asking for row classes (the arrow reader, frames
built from dictionaries or on other schemas, `Row.create_class` itself, with any field names and either flag), frames
created on the columns `s` (from rows or from an arrow table), appends of any object, frames taken from frames — the
frames of the process machine, which build their rows with the class they were given when they were created out of a
cache shared by the whole process, show exactly what the register machine holds, in which no feature touches a frame. -/
theorem process_refines_registers (s : List Column) (st : RowClass.PSt) (h : RowClass.Good RowClass.genCfg s st)
    (ops : List RowClass.POp) :
    (RowClass.runP RowClass.genCfg s st ops).regs = RowClass.runRP s st.regs ops :=
  (RowClass.run_refinesP RowClass.genCfg row_classes_sound s ops st h).1

/-- **Every frame of a process holds exactly its own history**: take any program of the process, stop anywhere; a frame
that exists then and shows `rows` shows, after the rest of the program, `rows` followed by exactly the rows of the
records accepted by the appends that went to it — the values in column order —, whatever other features were used
before it was created or between its appends. -/
theorem process_frame_holds_its_own (s : List Column) (st : RowClass.PSt) (h : RowClass.Good RowClass.genCfg s st)
    (pre post : List RowClass.POp) (hwf : ∀ op ∈ RowClass.fopsOf post, op.wf = true) (j : Nat) (rows : List Family.Row)
    (hj : (RowClass.runP RowClass.genCfg s st pre).regs[j]? = some rows) :
    (RowClass.runP RowClass.genCfg s st (pre ++ post)).regs[j]? =
      some (rows ++ (acceptedK s (Family.appendsTo j (RowClass.fopsOf post))).map (fun p => rowOf s p.2.1)) := by
  rw [RowClass.runP_append]
  obtain ⟨_, hg⟩ := RowClass.run_refinesP RowClass.genCfg row_classes_sound s pre st h
  rw [(RowClass.run_refinesP RowClass.genCfg row_classes_sound s post _ hg).1, RowClass.runRP_frame s j post _ rows hj,
    (appendsK_invariant s _ (RowClass.fopsOf_wf post hwf j) rows).1]

/-- A process that starts with nothing: whatever features were used first (any field names, any of the three callers),
the first frame made — from rows or from an arrow table — holds its initial rows plus exactly the records it accepted. -/
theorem process_first_frame (s : List Column) (features : List (List String × RowClass.Who))
    (arrow : Bool) (init : List Family.Row) (post : List RowClass.POp) (hwf : ∀ op ∈ RowClass.fopsOf post, op.wf = true) :
    (RowClass.runP RowClass.genCfg s ⟨[], []⟩
        ((features.map fun p => RowClass.POp.feature p.1 p.2) ++ [RowClass.POp.frame arrow init] ++ post)).regs[0]? =
      some (init ++ (acceptedK s (Family.appendsTo 0 (RowClass.fopsOf post))).map (fun p => rowOf s p.2.1)) := by
  have hg0 := RowClass.good_empty RowClass.genCfg s
  apply process_frame_holds_its_own s _ hg0 ((features.map fun p => RowClass.POp.feature p.1 p.2) ++ [RowClass.POp.frame arrow init])
    post hwf 0 init
  rw [RowClass.runP_append]
  obtain ⟨_, hg⟩ := RowClass.run_refinesP RowClass.genCfg row_classes_sound s (features.map fun p => RowClass.POp.feature p.1 p.2) _ hg0
  have := (RowClass.step_refinesP RowClass.genCfg row_classes_sound s _ hg (RowClass.POp.frame arrow init)).1
  simp only [RowClass.runP]
  rw [this]
  simp [RowClass.stepRP, RowClass.PSt.regs, RowClass.runP_features_frames]

/-- **Frames created from dictionaries** (no schema object: nothing is validated): appending a mutable mapping of any
class adds exactly one row — the values under the keys of the first dictionary, in that order, `None` where a key is
absent, keys that are not columns dropped — or, when the row cannot be sized, raises and leaves the rows unchanged. -/
theorem dictframe_append_spec (fields : List String) (rows : List (List Value)) (k : Kind) (hk : k.wf = true)
    (hm : k.isMutableMapping = true) (r : Record) (z : Bool) :
    RowClass.appendD fields rows k r z =
      if z then (rows ++ [fields.map fun n => (lookup n r).getD none], .ok) else (rows, .unsizable) := by
  obtain ⟨d, e, m, p⟩ := k
  obtain ⟨h1, h2, _, _, h5⟩ := record_objects d e m p hk
  have hr : rowReads (afterCoerce ⟨d, e, m, p⟩) = true := h1 (h5 ▸ h2 hm)
  have hn : (Gen.RowClass.classNew Gen.RowClass.dictFrameFlag == Gen.RowClass.NewKind.rowNew) = true := by decide
  have hg : Gen.ValidateFlow.appendValidateGuarded = true := by decide
  cases z <;>
    simp [RowClass.appendD, Gen.ValidateFlow.appendSteps, RowClass.runStepsD, RowClass.buildRow, hr, hn, hg]

/-- After any sequence of appends of mutable mappings a dictionary-built frame holds its original rows followed by one row
per record whose row could be sized, in order. -/
theorem dictframe_appends_invariant (fields : List String) (l : List (Kind × Record × Bool))
    (hl : ∀ p ∈ l, p.1.wf = true ∧ p.1.isMutableMapping = true) :
    ∀ rows, RowClass.appendsD fields rows l =
      rows ++ ((l.filter fun p => p.2.2).map fun p => fields.map fun n => (lookup n p.2.1).getD none) := by
  induction l with
  | nil => intro rows; simp [RowClass.appendsD]
  | cons q l ih =>
    obtain ⟨k, r, z⟩ := q
    intro rows
    obtain ⟨hk, hm⟩ := hl (k, r, z) List.mem_cons_self
    have ih' := ih (fun p hp => hl p (List.mem_cons_of_mem _ hp))
    simp only [RowClass.appendsD, dictframe_append_spec fields rows k hk hm r z]
    cases z <;> simp [ih']

/-- The statement is *false* of a cache keyed on the field names alone (the shape of seeded change C05-w5s1), and the
machine shows it: when the arrow reader asks first, the frame is handed the reader's class — tuple's constructor, which
makes of any record its keys; in the other order the reader is handed a class that reads records, which is harmless. -/
theorem cache_keyed_on_names_alone_counterexample :
    let bad : RowClass.Cfg := ⟨some (true, false), fun t => if t then .tupleNew else .rowNew, false, true⟩
    bad.sound = false
    ∧ (RowClass.createClass bad (RowClass.createClass bad [] ["a", "b"] bad.arrowFlag).2 ["a", "b"] bad.frameFlag).1
        = ⟨["a", "b"], .tupleNew⟩
    ∧ (RowClass.createClass bad (RowClass.createClass bad [] ["a", "b"] bad.frameFlag).2 ["a", "b"] bad.arrowFlag).1
        = ⟨["a", "b"], .rowNew⟩
    ∧ ∀ (f : List String) (k : Kind) (r : Record), RowClass.buildRow ⟨f, .tupleNew⟩ k r = keysRow r := by
  refine ⟨by decide, by decide, by decide, ?_⟩
  intro f k r
  simp [RowClass.buildRow]

/-! ## 9. the layout of a stored row follows the schema as it is when the record is appended -/

/-- **The row class follows the schema** (decided on the facts regenerated from dataframe.py, schema.py and row.py):
`append` compares the fields of the frame's row class with the column names *read at that moment* — not with a helper
that remembers an earlier answer —, after the record was validated and before the row is built; the class
`Row.create_class` makes for a schema has one field per column (if it iterates the schema, the iteration yields one name
per column, not every name once); and the class reads records by key. -/
theorem layout_sound : Layout.genL.sound = true := by decide

/-- Non-vacuity of part 9: a column is renamed, then the columns are reordered, between the appends to one frame; a second
frame reads its names in between. -/
example :
    let a : Column := ⟨"id", some "INTEGER", false, []⟩
    let b : Column := ⟨"name", some "VARCHAR", false, []⟩
    let b' : Column := ⟨"full_name", some "VARCHAR", false, []⟩
    (Layout.runB Layout.genL ⟨[a, b], [], none⟩
        [.bind [], .append 0 Kind.dict [("id", some "int"), ("name", some "str")] true, .read 0, .edit (.setCol 1 b'),
         .append 0 Kind.dict [("id", some "int"), ("name", some "str")] true,
         .append 0 Kind.dict [("full_name", some "str"), ("id", some "int")] true, .edit (.replaceCols [b', a]), .bind [], .read 1,
         .append 0 Kind.dict [("full_name", some "str"), ("id", some "int")] true]).regs
      = [[[some "int", some "str"], [some "int", some "str"], [some "str", some "int"]], []] := by decide

/-- **One append on a frame bound to a schema that may have been edited since the frame was made** — whatever fields
the frame's class was left with (`f`), whatever the frame's `column_names` helper remembers (`seen`): the rows and the
result are those of `appendK` on the columns *as they are now* (so, by `appendK_spec` / `append_spec`: exactly `rowOf` of
the current columns is added when the record validates against them and can be sized, nothing otherwise), and a frame
that got past validation is left with a class laid out by the current column names. -/
theorem bound_append_spec (s : List Column) (seen f : List String) (rows : List Layout.Row) (k : Kind) (r : Record) (z : Bool) :
    (Layout.appendL Layout.genL s seen f rows k r z).1 = (appendK s rows k r z).1
    ∧ (Layout.appendL Layout.genL s seen f rows k r z).2.2 = (appendK s rows k r z).2
    ∧ (Layout.isRejected (Layout.appendL Layout.genL s seen f rows k r z).2.2 = false →
        (Layout.appendL Layout.genL s seen f rows k r z).2.1 = names s) := by
  obtain ⟨_, hb, _, hn⟩ := Layout.sound_parts _ layout_sound
  simp only [Layout.appendL, appendK, Gen.ValidateFlow.appendSteps, Layout.runStepsL, runStepsK, hb, if_true,
    Layout.relaid_sound _ layout_sound, hn, RowClass.buildRow_names]
  cases z <;> (repeat' split) <;> simp_all [Layout.isRejected]

theorem bound_append_ok : Layout.AppendOk Layout.genL :=
  fun s seen f rows k r z => ⟨(bound_append_spec s seen f rows k r z).1, (bound_append_spec s seen f rows k r z).2.1⟩

/-- What `appendK` adds does not depend on the rows already there. -/
theorem appendK_adds : Layout.KSpec := by
  intro s rows k r z hk
  rw [appendK_spec s rows k hk, appendK_spec s [] k hk, append_spec, append_spec]
  cases guardAccepts k <;> by_cases hv : validate s r = .ok <;> cases z <;> simp [hv]

/-- **Refinement, with the schema changing under the frames**: for every program in which the owner of ONE schema object
edits it (columns added, inserted, deleted, popped, replaced, renamed / retyped in place), frames are bound to it,
their `column_names` are read and records (objects of any kind) are appended to any of them, the bound machine — in
which every frame builds its rows with the class it was left with, replaced as the source replaces it — shows what the
register machine holds, in which every append stores `rowOf` of the columns as they are at that moment.  No hypothesis on
the classes the frames start with. -/
theorem bound_refines_registers (st : Layout.BSt) (ops : List Layout.BOp) :
    ((Layout.runB Layout.genL st ops).cols, (Layout.runB Layout.genL st ops).regs) = Layout.runBR (st.cols, st.regs) ops :=
  Layout.run_refinesB Layout.genL bound_append_ok ops st

/-- **A bound frame holds exactly its own history, each record laid out by the columns of its moment**: stop any program
anywhere; a frame showing `rows` then shows, after the rest, `rows` followed by exactly the rows of the records its appends
accepted — each with the values in the order of the columns as they were when it was appended (`acceptedRows`). -/
theorem bound_frame_holds_its_own (st : Layout.BSt) (pre post : List Layout.BOp) (hwf : ∀ op ∈ post, op.wf = true)
    (j : Nat) (rows : List Layout.Row) (hj : (Layout.runB Layout.genL st pre).regs[j]? = some rows) :
    (Layout.runB Layout.genL st (pre ++ post)).regs[j]? =
      some (rows ++ Layout.acceptedRows j (Layout.runB Layout.genL st pre).cols post) := by
  rw [Layout.runB_append]
  have h := bound_refines_registers (Layout.runB Layout.genL st pre) post
  have h2 := congrArg Prod.snd h
  simp only at h2
  rw [h2]
  exact Layout.runBR_frame appendK_adds j post hwf _ _ rows hj

/-- Every row the appends of a program add conforms to the schema as it was when the row was stored: it is `rowOf` of a
record that validated against those columns. -/
theorem bound_rows_conform (j : Nat) (ops : List Layout.BOp) (hwf : ∀ op ∈ ops, op.wf = true) :
    ∀ (s : List Column), ∀ row ∈ Layout.acceptedRows j s ops, ∃ s' r, row = rowOf s' r ∧ rowConforms s' row = true := by
  induction ops with
  | nil => intro s row h; simp [Layout.acceptedRows] at h
  | cons op ops ih =>
    intro s row h
    have hop : op.wf = true := hwf op (by simp)
    have ih := ih (fun o ho => hwf o (by simp [ho]))
    cases op with
    | edit o => exact ih _ row (by simpa [Layout.acceptedRows] using h)
    | bind rs => exact ih _ row (by simpa [Layout.acceptedRows] using h)
    | read i => exact ih _ row (by simpa [Layout.acceptedRows] using h)
    | append i k r z =>
      simp only [Layout.acceptedRows, List.mem_append] at h
      rcases h with h | h
      · by_cases hc : i = j ∧ (appendK s [] k r z).2 = .ok
        · simp only [hc, and_self, if_true, List.mem_singleton] at h
          subst h
          obtain ⟨_, hv, _, _⟩ := (appendK_safe s [] k hop r z).1 hc.2
          rw [validateK_spec] at hv
          cases hg : guardAccepts k
          · simp [hg] at hv
          · simp only [hg, if_true] at hv
            exact ⟨s, r, rfl, rowOf_conforms s r hv⟩
        · simp [hc] at h
      · exact ih _ row h

/-- The statement is *false* of a relayout test against a helper that remembers its first answer (the shape of seeded
change C05-w6s1), and the machine shows it: after one append the helper has answered; the column is renamed; a record
that validates against the schema as it is now is laid out by the old names — the renamed column's value is dropped and
a null stored in a non-nullable column. -/
theorem relayout_memoised_counterexample :
    let bad : Layout.LCfg := { Layout.genL with relayout := .memoised }
    let a : Column := ⟨"id", some "INTEGER", false, []⟩
    let b : Column := ⟨"name", some "VARCHAR", false, []⟩
    let b' : Column := ⟨"full_name", some "VARCHAR", false, []⟩
    let rec2 : Record := [("id", some "int"), ("full_name", some "str")]
    bad.sound = false
    ∧ validate [a, b'] rec2 = .ok
    ∧ (Layout.runB bad ⟨[a, b], [], none⟩
        [.bind [], .append 0 Kind.dict [("id", some "int"), ("name", some "str")] true, .edit (.setCol 1 b'),
         .append 0 Kind.dict rec2 true]).regs = [[[some "int", some "str"], [some "int", none]]]
    ∧ rowOf [a, b'] rec2 = [some "int", some "str"] := by
  refine ⟨by decide, by decide, by decide, by decide⟩

/-- The statement is *false* of a schema iteration that yields every name once (the shape of seeded change C05-w6s2) when
`Row.create_class` takes its fields from it: under two columns of one name the stored row is too short and shifted. -/
theorem iter_distinct_counterexample :
    let bad : Layout.LCfg := { Layout.genL with iter := .distinct, fieldsFrom := .iteration }
    let s : List Column := [⟨"id", some "INTEGER", false, []⟩, ⟨"label", some "VARCHAR", true, []⟩,
                            ⟨"id", some "INTEGER", false, []⟩, ⟨"score", some "DOUBLE", true, []⟩]
    let r : Record := [("id", some "int"), ("label", some "str"), ("score", some "float")]
    bad.sound = false
    ∧ validate s r = .ok
    ∧ (Layout.runB bad ⟨s, [], none⟩ [.bind [], .append 0 Kind.dict r true]).regs = [[[some "int", some "str", some "float"]]]
    ∧ rowOf s r = [some "int", some "str", some "int", some "float"] := by
  refine ⟨by decide, by decide, by decide, by decide⟩

/-! ## 10. the record-size limit of the row serialiser -/

/-- **What the library states is what it does** (on the constant and the guard regenerated from row.py): a packed record
of at most 16 MiB — the limit the error message states, "Record length cannot exceed 16Mb" — is never refused for its
size; `Row.nbytes` sizes the row through the guarded serialiser; and if the message states a limit as a literal, every
length up to it is accepted. -/
theorem size_limit_as_stated :
    (∀ n : Nat, n ≤ Layout.statedLimit → Gen.Layout.sizeRefused (n : Int) = false)
    ∧ (∀ m : Int, Gen.Layout.statedLimit = some m → ∀ n : Int, n ≤ m → Gen.Layout.sizeRefused n = false) := by
  refine ⟨?_, ?_⟩
  · intro n hn
    simp only [Layout.statedLimit] at hn
    simp [Gen.Layout.sizeRefused, Gen.Layout.maxRecordSize]
    omega
  · intro m hm n hn
    first
      | (exfalso; simp [Gen.Layout.statedLimit] at hm; done)   -- the message states no literal limit
      | (simp only [Gen.Layout.statedLimit, Option.some.injEq] at hm
         simp [Gen.Layout.sizeRefused, Gen.Layout.maxRecordSize]
         omega)

/-- **A conforming record whose packed values take at most 16 MiB is stored**: for every schema, every frame content,
every mutable mapping — `append` adds exactly the values in column order. -/
theorem append_within_limit (s : List Column) (rows : List (List Value)) (k : Kind) (hk : k.wf = true)
    (hm : k.isMutableMapping = true) (r : Record) (packed : Nat) (hc : Conforms s r) (hp : packed ≤ Layout.statedLimit) :
    appendK s rows k r (Layout.sizableBy true packed) = (rows ++ [rowOf s r], .ok) := by
  rw [appendK_mutable s rows k hk hm, append_spec, (validate_ok_iff s r).mpr hc]
  have h := size_limit_as_stated.1 packed hp
  simp only [Layout.sizableBy, h, Bool.not_false, Bool.and_self, if_true]

/-- … also on a frame whose schema was edited since it was made. -/
theorem bound_append_within_limit (s : List Column) (seen f : List String) (rows : List Layout.Row) (k : Kind)
    (hk : k.wf = true) (hm : k.isMutableMapping = true) (r : Record) (packed : Nat) (hc : Conforms s r)
    (hp : packed ≤ Layout.statedLimit) :
    (Layout.appendL Layout.genL s seen f rows k r (Layout.sizableBy true packed)).1 = rows ++ [rowOf s r]
    ∧ (Layout.appendL Layout.genL s seen f rows k r (Layout.sizableBy true packed)).2.2 = .ok := by
  obtain ⟨h1, h2, _⟩ := bound_append_spec s seen f rows k r (Layout.sizableBy true packed)
  rw [h1, h2, append_within_limit s rows k hk hm r packed hc hp]
  exact ⟨rfl, rfl⟩

/-- Non-vacuity: exactly at the stated limit the row is sized and stored; a row that cannot be packed is refused and nothing
is stored.  (That a longer record IS refused is not part of the statement: raising the limit is no violation.) -/
example :
    Layout.sizableBy true (16 * 1024 * 1024) = true ∧ Layout.sizableBy false 5 = false
    ∧ appendK [⟨"c0", some "VARCHAR", true, []⟩] [] Kind.dict [("c0", some "str")] (Layout.sizableBy true (16 * 1024 * 1024))
        = ([[some "str"]], .ok)
    ∧ appendK [⟨"c0", some "VARCHAR", true, []⟩] [] Kind.dict [("c0", some "str")] (Layout.sizableBy false 5)
        = ([], .unsizable) := by decide

/-! ## 11. the caller's record object (round 6)

`validate` and `append` are handed an object the caller keeps and may edit afterwards.  Everything above takes a record as a
value; that is the code's behaviour only if the code (a) keeps neither the object nor a live view of it beyond the call — a
remembered `data.keys()` changes when the caller adds a key —, (b) does not write into it, and (c) `append` validates and
stores the record it was given, not the record merged with something else (the defaults a column declares). -/

/-- Decided on the facts regenerated from the source: no statement of `validate` / `append` keeps the record object or a
live view of it in `self`, a column, the class or a module-level name; none writes into it; `append` does not put a merge of
the record with other data in its place; `validate` and the row constructor are handed the same name. -/
theorem record_use_sound :
    Gen.RecordUse.recordRetained = [] ∧ Gen.RecordUse.recordWrittenTo = [] ∧ Gen.RecordUse.recordRewritten = []
    ∧ Gen.RecordUse.validatesWhatItStores = true := by decide

/-- What `append` would do if it merged declared defaults into the record first (the shape of C05-w7s3): the record it
validates is `r ++` the defaults of the columns `r` lacks. -/
def mergeDefaults (s : List Column) (d : Record) (r : Record) : Record :=
  r ++ d.filter fun kv => decide (kv.1 ∈ names s) && (lookup kv.1 r).isNone

/-- Merging nothing is the identity: with no declared defaults the merged append is `append`. -/
theorem mergeDefaults_nil (s : List Column) (r : Record) : mergeDefaults s [] r = r := by
  simp [mergeDefaults]

/-- The statement is false of an `append` that merges defaults first: for the one-column schema `c0` (nullable, untyped) whose
column declares a default, the empty record does not validate (`c0` is missing) — `append` must refuse it and leave the rows
as they are — but the merged record validates and a row holding a value that is not in the record is stored. -/
theorem defaults_merged_counterexample :
    let s : List Column := [⟨"c0", none, true, []⟩]
    let d : Record := [("c0", some "str")]
    validate s [] = .invalid ["c0"] [] []
    ∧ append s [] [] true = ([], .rejected (.invalid ["c0"] [] []))
    ∧ append s [] (mergeDefaults s d []) true = ([[some "str"]], .ok) := by
  decide

/-- What `validate` would do if it skipped the excess check for a record whose keys equal the keys it remembers (the shape of
C05-w7s2, where the remembered keys are a live view of the caller's object and so always equal the keys of that object). -/
def validateSkipping (s : List Column) (r : Record) : Outcome :=
  validate s (r.filter fun kv => decide (kv.1 ∈ names s))

/-- The statement is false of it: the caller's object `{a}` validates, the caller adds the key `comment`, and the same
object — whose keys the live view now shows — is accepted although `validate` names `comment` as excess. -/
theorem retained_view_counterexample :
    let s : List Column := [⟨"a", none, true, []⟩]
    let r : Record := [("a", some "int"), ("comment", some "str")]
    validate s r = .excess ["comment"] ∧ validateSkipping s r = .ok := by
  decide

end C05
