import OrsoVerif.Generated.TypeNameDict
/-!
`FlatColumn.from_dict` (orso/schema.py): the reader of the dictionary form of a column, which
`RelationSchema.from_dict`, `FlatColumn.from_json` and the subclasses go through.  Its statements are read from the
source on every run (`Gen.TypeNameDict.fromDictRewrites`); here they are run over the two keys they look at.
-/
namespace TypeNameDict
open Gen.TypeNameDict

/-- the value of one key of the dictionary: not there, `None`, a text, or (after a rewrite) an `OrsoTypes` member -/
inductive DVal where
  | absent
  | null
  | text (s : List Char)
  | member (m : List Char)
  deriving Repr, DecidableEq

/-- the two keys `from_dict` looks at -/
structure Decl where
  type : DVal
  elem : DVal
  deriving Repr, DecidableEq

def typeKey : List Char := ['t', 'y', 'p', 'e']
def elemKey : List Char := ['e', 'l', 'e', 'm', 'e', 'n', 't', '_', 't', 'y', 'p', 'e']

def Decl.get (d : Decl) (k : List Char) : DVal :=
  if k = typeKey then d.type else if k = elemKey then d.elem else .absent

def Decl.set (d : Decl) (k : List Char) (v : DVal) : Decl :=
  if k = typeKey then { d with type := v } else if k = elemKey then { d with elem := v } else d

/-- `str(member.value)`: the member's name, except for the "no type" member -/
def memberValue (m : List Char) : List Char :=
  if m = ['_', 'M', 'I', 'S', 'S', 'I', 'N', 'G', '_', 'T', 'Y', 'P', 'E'] then untypedValue else m

/-- `OrsoTypes` is a `str` enumeration: a member equals the text of its value -/
def DVal.eqText (v : DVal) (s : List Char) : Bool :=
  match v with
  | .text t => decide (t = s)
  | .member m => decide (memberValue m = s)
  | _ => false

/-- one conjunct; `none` = the test raises (`dic[K]` for a key that is not there: KeyError) -/
def evalTest (d : Decl) : DictTest → Option Bool
  | .valueIs k v => some ((d.get k).eqText v)
  | .hasKey k => some (decide (d.get k ≠ .absent))
  | .isNull k => if d.get k = .absent then none else some (decide (d.get k = .null))
  | .getIsNone k => some (decide (d.get k = .absent ∨ d.get k = .null))

/-- `a and b and …`, left to right, stopping at the first false conjunct -/
def evalTests (d : Decl) : List DictTest → Option Bool
  | [] => some true
  | t :: ts =>
    match evalTest d t with
    | none => none
    | some false => some false
    | some true => evalTests d ts

/-- the statements of `from_dict` in order; `none` = an exception other than the constructor's -/
def readDict (d : Decl) : Option Decl :=
  fromDictRewrites.foldl
    (fun acc r => match acc with
      | none => none
      | some d => match evalTests d r.1 with
        | none => none
        | some true => some (d.set r.2.1 (.member r.2.2))
        | some false => some d)
    (some d)

end TypeNameDict
