/-!
# C10 — Python dictionaries whose keys need not be text

`Row.__new__` (`orso/row.py`) hands `extract_dict_columns` whatever dictionary the caller built.  The
helper looks every field name (an exact `str`) up with `PyDict_GetItem`; a key of the dictionary that is
*not* text (the number `1`, `None`, `True`, `b'a'`, a tuple, a date, an instance of a `str` subclass with
its own `__eq__` / `__hash__`) is never equal to a field name, whatever `str(key)` prints.  This file is
the vocabulary in which the statements of `Row.__new__` in front of the helper call are translated
(`Generated/DictGlue.lean`): what a dictionary compares (`KeyId`), what `type(key) is str`,
`isinstance(key, str)` and `str(key)` answer, `dict(data)`, a dictionary comprehension over
`data.items()`, `all(… for key in data)`.
-/
namespace PyDictM

variable {α : Type}

/-- What a dictionary compares when a key is looked up. -/
inductive KeyId where
  /-- equal to the plain string `s`: an exact `str`, or an instance of a subclass that compares and hashes like it -/
  | text (s : String)
  /-- equal to no string: a number, `None`, bytes, a tuple, a date, a `str` subclass with its own `__eq__`/`__hash__` -/
  | other (n : Nat)
  deriving Repr, DecidableEq

/-- A key as the glue code can observe it. -/
structure PyKey where
  id : KeyId
  /-- `type(key) is str` -/
  exact : Bool
  /-- `isinstance(key, str)` -/
  isStr : Bool
  /-- `str(key)` -/
  text : String
  deriving Repr, DecidableEq

/-- The exact `str` object `s` as a key. -/
def PyKey.ofStr (s : String) : PyKey := ⟨.text s, true, true, s⟩

/-- `str(key)`: always an exact `str`. -/
def pyStr (k : PyKey) : PyKey := PyKey.ofStr k.text

/-- A dictionary-like argument: `exact` = `type(data) is dict`; `isDict` = `isinstance(data, dict)` (an exact dict or an
instance of a subclass: OrderedDict, defaultdict, …; `false`: a `Mapping` that is no dict -- UserDict, ChainMap,
MappingProxyType, a class of the caller's); `mutable` = `isinstance(data, MutableMapping)`; the items in iteration
order.  In a real mapping the `id`s are pairwise different; nothing below needs that (a lookup takes the first item),
nor that `exact → isDict → mutable`. -/
structure PyDict (α : Type) where
  exact : Bool
  isDict : Bool
  mutable : Bool
  items : List (PyKey × α)
  deriving Repr

/-- `data.get(<exact str f>)` / `PyDict_GetItem(data, f)`. -/
def lookupId (kid : KeyId) : List (PyKey × α) → Option α
  | [] => none
  | (k, v) :: rest => if k.id = kid then some v else lookupId kid rest

def PyDict.get (d : PyDict α) (f : String) : Option α := lookupId (.text f) d.items

/-- `d[k] = v`: an equal key keeps its place (and the key object first inserted), its value is replaced. -/
def setItem (k : PyKey) (v : α) : List (PyKey × α) → List (PyKey × α)
  | [] => [(k, v)]
  | (k', v') :: rest => if k'.id = k.id then (k', v) :: rest else (k', v') :: setItem k v rest

/-- `dict(data)` / `data.copy()` / `{**data}`: an exact dictionary with the same items (for a `Mapping` that is no dict:
`dict(m)` reads `m.keys()` and `m[key]`, the items of the mapping it stands for). -/
def PyDict.copy (d : PyDict α) : PyDict α := ⟨true, true, true, d.items⟩

/-- `{<fk>: <fv> for key, value in data.items()}`. -/
def PyDict.comp (fk : PyKey → α → PyKey) (fv : PyKey → α → α) (d : PyDict α) : PyDict α :=
  ⟨true, true, true, d.items.foldl (fun acc kv => setItem (fk kv.1 kv.2) (fv kv.1 kv.2) acc) []⟩

/-- `all(<p> for key in data)` / `any(…)`. -/
def PyDict.allKeys (p : PyKey → Bool) (d : PyDict α) : Bool := d.items.all fun kv => p kv.1
def PyDict.anyKeys (p : PyKey → Bool) (d : PyDict α) : Bool := d.items.any fun kv => p kv.1

/-- What `extract_dict_columns` can find in the dictionary: the items whose key equals some plain string, under it. -/
def helperView : List (PyKey × α) → List (String × α)
  | [] => []
  | (k, v) :: rest =>
    match k.id with
    | .text s => (s, v) :: helperView rest
    | .other _ => helperView rest

/-- A dictionary whose keys are all exact `str` (what the test-suite feeds). -/
def ofTextItems (d : List (String × α)) : List (PyKey × α) := d.map fun kv => (PyKey.ofStr kv.1, kv.2)

end PyDictM
