import OrsoVerif.Model.DictSchema
/-!
# C02 — row classes as OBJECTS: the rows built earlier and the class they are instances of

A row is an instance of the class its frame's row factory was when the row was built; `keys()`, `get`, `as_map`,
`as_dict`, `as_json` read the field names off THE CLASS (`self._fields`), every time they are asked.  When
`append` finds the shared schema object edited it needs a factory for the new names (orso/dataframe.py:144-150).
Making a NEW class leaves the earlier rows alone; writing the new names onto the existing class relabels every
row built so far.  Which of the two the working tree does is `Gen.SchemaCode.appendRefreshMakesNewClass`.
-/
namespace DictClass
open DictRow

/-- a stored row: the class it is an instance of (index into the heap of classes), its cells, and — ghost — the
schema's column names when it was built and the dictionary it was built from -/
structure Row (α : Type) where
  cls : Nat
  cells : List α
  built : List String
  src : List (String × α)

/-- one frame bound to one schema object -/
structure St (α : Type) where
  /-- the row classes made so far: their `_fields` -/
  heap : List (List String)
  /-- the schema object's column names now -/
  names : List String
  /-- the class the frame's row factory is -/
  factory : Nat
  rows : List (Row α)

inductive Op (α : Type) where
  /-- the caller edits the schema object: any function on its column names -/
  | edit (f : List String → List String)
  /-- a dictionary the schema accepts is appended -/
  | append (d : List (String × α))

variable {α : Type}

/-- `if self._row_factory._fields != <names now>: …` -/
def refresh (newClass : Bool) (st : St α) : St α :=
  if st.heap.getD st.factory [] = st.names then st
  else if newClass then { st with heap := st.heap ++ [st.names], factory := st.heap.length }
  else { st with heap := st.heap.set st.factory st.names }

def step (newClass : Bool) (null : α) (st : St α) : Op α → St α
  | .edit f => { st with names := f st.names }
  | .append d =>
    let st' := refresh newClass st
    { st' with rows := st'.rows ++ [⟨st'.factory, extract null (st'.heap.getD st'.factory []) d, st'.names, d⟩] }

def run (newClass : Bool) (null : α) : St α → List (Op α) → St α
  | st, [] => st
  | st, op :: ops => run newClass null (step newClass null st op) ops

/-- `DataFrame(rows=[], schema=<schema object with these column names>)` -/
def init (names : List String) : St α := ⟨[names], names, 0, []⟩

/-- what `row.keys()` returns NOW: the `_fields` of the row's class -/
def fieldsOf (st : St α) (r : Row α) : List String := st.heap.getD r.cls []

/-- every row still reads the names it was built with off its class, and holds the extracted cells -/
def Inv (null : α) (st : St α) : Prop :=
  st.factory < st.heap.length ∧
  ∀ r ∈ st.rows, st.heap[r.cls]? = some r.built ∧ r.cells = extract null r.built r.src

end DictClass
