import OrsoVerif.Generated.Sanitise
/-!
# C20 — the log sanitiser of `orso/logging/log_formatter.py` (as repaired)

Text is `List Char` throughout (`Str`).  The model follows `LogFormatter` function by function:

* `sensitive`        — `any(regex.<mode>(key) for regex in COMPILED_KEYS_TO_SANITIZE)` (l.129); the
                       pattern table, the IGNORECASE flag and the method (`match`/`search`/`fullmatch`)
                       come from `Generated/Sanitise.lean`, i.e. from the source on every run;
* `cleanObj`         — `clean_record` (l.107-137): key tested first, then recursion into objects,
                       every other value rendered with `str()` and quote-coloured;
* `isolate`          — the loop of `sanitize_record` that finds the JSON message: the longest run of
                       trailing `|`-separated fields that parses as a JSON object;
* `sanitize`         — `sanitize_record` (both branches), `colorCode` = `color_code`,
                       `colorizer` = `orso.display.colorizer`;
* `redactUrl`, `format` — `format()` (l.60-68).

Parameters (outside the model, supplied by the harness from the running code): the digest
`h : Json → Str` (`hash_it(str(value))`), the JSON parser `parse : Str → Option obj`
(`json.loads(...)` succeeded *and* gave a dict), Python's `str()` of numbers (carried inside
`Json.num`).  Arrays are structured and rendered by the model (`pyRepr`, Python's `str(list)`).

Two readings of "nested objects" are defined side by side: `eraseObj` / `cleanObj` — what orso
implements and what the check enforces: arrays are values, not looked into — and `eraseDeepObj` /
`cleanDeepObj`, in which objects inside arrays count as nested objects (not implemented by orso).
`Model/SanitiseEvent.lean` adds the structured logger (`GoogleLogger.write_event`).
-/
namespace Sanitise

abbrev Str := List Char

/-! ## small text functions -/

/-- `pat` is a prefix of `s`: the rest after it. -/
def stripPrefix (eq : Char → Char → Bool) : Str → Str → Option Str
  | [], s => some s
  | _ :: _, [] => none
  | p :: ps, c :: cs => if eq p c then stripPrefix eq ps cs else none

def charEq (a b : Char) : Bool := a == b

/-- Python `pat in s`. -/
def isInfix (pat : Str) : Str → Bool
  | [] => pat.isEmpty
  | c :: r => (stripPrefix charEq pat (c :: r)).isSome || isInfix pat r

/-- Python `s.replace(pat, rep)` for non-empty `pat`: leftmost, non-overlapping. -/
def replaceAllF (pat rep : Str) : Nat → Str → Str
  | 0, s => s
  | _, [] => []
  | n + 1, c :: r =>
    match stripPrefix charEq pat (c :: r) with
    | some rest => rep ++ replaceAllF pat rep n rest
    | none => c :: replaceAllF pat rep n r

def replaceAll (pat rep s : Str) : Str :=
  if pat.isEmpty then s else replaceAllF pat rep (s.length + 1) s

/-- Python `s.split(sep)` for a one-character separator: always at least one field. -/
def splitOn (sep : Char) : Str → List Str
  | [] => [[]]
  | c :: r =>
    if c = sep then [] :: splitOn sep r
    else match splitOn sep r with
      | [] => [[c]]            -- unreachable: `splitOn` never returns `[]`
      | f :: fs => (c :: f) :: fs

/-- Python `sep.join(fields)`. -/
def joinWith (sep : Char) : List Str → Str
  | [] => []
  | [f] => f
  | f :: g :: fs => f ++ sep :: joinWith sep (g :: fs)

def hexDigit (n : Nat) : Char := if n < 10 then Char.ofNat (48 + n) else Char.ofNat (87 + n)

/-! ## sensitive keys -/

/-- Case folding of `re.IGNORECASE` on `str` patterns, restricted to what can match an ASCII
pattern character: ASCII upper case, and the four non-ASCII characters whose simple case
mapping lands on an ASCII letter (`ſ`→s, KELVIN SIGN→k, `ı`→i, `İ`→i).  The harness compares
this table against `re` over every code point. -/
def foldChar (c : Char) : Char :=
  if 'A' ≤ c ∧ c ≤ 'Z' then Char.ofNat (c.toNat + 32)
  else if c = Char.ofNat 0x17f then 's'
  else if c = Char.ofNat 0x212a then 'k'
  else if c = Char.ofNat 0x131 then 'i'
  else if c = Char.ofNat 0x130 then 'i'
  else c

def keyCharEq (p c : Char) : Bool :=
  if Gen.Sanitise.ignoreCase then foldChar p == foldChar c else p == c

/-- The pattern fragment: optional leading `.*`, literal, optional `$`. -/
structure Pat where
  lead : Bool
  lit : Str
  dollar : Bool

def patterns : List Pat := Gen.Sanitise.keyPatterns.map fun (a, l, d) => ⟨a, l, d⟩

/-- The literal matches at the front of `s` and what follows satisfies the end condition:
`full` (fullmatch) needs the end of the text; `$` accepts the end or one final newline. -/
def matchHere (p : Pat) (full : Bool) (s : Str) : Bool :=
  match stripPrefix keyCharEq p.lit s with
  | some rest => if full then rest.isEmpty else if p.dollar then rest.isEmpty || rest == ['\n'] else true
  | none => false

/-- `f` holds of `s` or of one of its tails; with `line` the scan does not cross a newline
(`.` does not match `\n`). -/
def anyTail (f : Str → Bool) (line : Bool) : Str → Bool
  | [] => f []
  | c :: r => f (c :: r) || (!(line && c == '\n') && anyTail f line r)

/-- `regex.match(key)`, `regex.search(key)` or `regex.fullmatch(key)` is not `None`. -/
def patMatches (mode : Nat) (p : Pat) (s : Str) : Bool :=
  if mode = 1 then anyTail (matchHere p false) false s
  else if mode = 0 then (if p.lead then anyTail (matchHere p false) true s else matchHere p false s)
  else (if p.lead then anyTail (matchHere p true) true s else matchHere p true s)

/-- l.129: `any(regex.search(key) for regex in COMPILED_KEYS_TO_SANITIZE)`. -/
def sensitive (k : Str) : Bool := patterns.any fun p => patMatches Gen.Sanitise.matchMode p k

/-! ## JSON values -/

/-- What `json.loads` returns.  Numbers carry Python's `str()` of the value (a parameter: float
`repr`).  Arrays are structured, so that both readings of "nested objects" can be stated: the
implementation renders an array with `str(value)` and never looks inside it (`cleanObj`), the
deep reading also descends into arrays (`cleanDeepObj`). -/
inductive Json where
  | null
  | bool (b : Bool)
  | num (text : Str)
  | str (s : Str)
  | arr (xs : List Json)
  | obj (kvs : List (Str × Json))
  deriving BEq, Repr, Inhabited

structure Colors where
  key : Str
  off : Str
  purple : Str
  yellow : Str
  value : Str

/-- l.120: `COLOR_CODES if colorize else {key: "" ...}`. -/
def colorsFor (colorize : Bool) : Colors :=
  if colorize then
    ⟨Gen.Sanitise.codeKey, Gen.Sanitise.codeOff, Gen.Sanitise.codePurple, Gen.Sanitise.codeYellow, Gen.Sanitise.codeValue⟩
  else ⟨[], [], [], [], []⟩

/-- The text up to the next `q` (not crossing a newline when `line`), and the rest after it. -/
def findClose (q : Char) (line : Bool) : Str → Option (Str × Str)
  | [] => none
  | c :: r =>
    if c = q then some ([], r)
    else if line && c == '\n' then none
    else match findClose q line r with
      | some (inner, rest) => some (c :: inner, rest)
      | none => none

/-- l.40, l.122-123, l.132: `QUOTES_OR_BACKTICKS_RE.sub(color_value, text)` with
``(['`])(.*?)\1``: a quoted run becomes quote, YELLOW, run, VALUE, quote. -/
def quoteColourF (c : Colors) : Nat → Str → Str
  | 0, s => s
  | _, [] => []
  | n + 1, q :: r =>
    if q = '\'' ∨ q = '`' then
      match findClose q true r with
      | some (inner, rest) => q :: (c.yellow ++ inner ++ c.value ++ q :: quoteColourF c n rest)
      | none => q :: quoteColourF c n r
    else q :: quoteColourF c n r

def quoteColour (c : Colors) (s : Str) : Str := quoteColourF c (s.length + 1) s

def hex2 (n : Nat) : Str := [hexDigit (n / 16 % 16), hexDigit (n % 16)]
def hex4 (n : Nat) : Str := [hexDigit (n / 4096 % 16), hexDigit (n / 256 % 16), hexDigit (n / 16 % 16), hexDigit (n % 16)]

/-- One character inside Python's `repr(str)` with quote `q`.  Non-ASCII characters other than
U+0080..U+00A0, U+00AD and the format / separator characters listed below are taken to be printable
(the harness compares this with `str.isprintable()` on every case and judges a case outside the
assumption by the oracle alone). -/
def pyEsc (q c : Char) : Str :=
  if c = q ∨ c = '\\' then ['\\', c]
  else if c = '\n' then ['\\', 'n']
  else if c = '\r' then ['\\', 'r']
  else if c = '\t' then ['\\', 't']
  else if c.toNat < 32 ∨ c.toNat = 127 ∨ (128 ≤ c.toNat ∧ c.toNat ≤ 160) ∨ c.toNat = 173 then
    '\\' :: 'x' :: hex2 c.toNat
  else if (0x200b ≤ c.toNat ∧ c.toNat ≤ 0x200f) ∨ (0x2028 ≤ c.toNat ∧ c.toNat ≤ 0x202e) ∨
      (0x2060 ≤ c.toNat ∧ c.toNat ≤ 0x2064) ∨ c.toNat = 0xfeff then
    '\\' :: 'u' :: hex4 c.toNat
  else [c]

/-- Python `repr(str)`: quote choice and escapes. -/
def pyReprStr (s : Str) : Str :=
  let q : Char := if s.contains '\'' && !s.contains '"' then '"' else '\''
  q :: (s.flatMap (pyEsc q) ++ [q])

def commaSep : List Str → Str
  | [] => []
  | [x] => x
  | x :: y :: r => x ++ ',' :: ' ' :: commaSep (y :: r)

/-- Python `str(dict)` of a dictionary of text to text. -/
def pyReprDict (kvs : List (Str × Str)) : Str :=
  '{' :: (commaSep (kvs.map fun (k, v) => pyReprStr k ++ ':' :: ' ' :: pyReprStr v) ++ ['}'])

mutual
/-- Python `repr(value)` of what `json.loads` returned (what `str(list)` shows of its elements). -/
def pyRepr : Json → Str
  | .null => ['N', 'o', 'n', 'e']
  | .bool true => ['T', 'r', 'u', 'e']
  | .bool false => ['F', 'a', 'l', 's', 'e']
  | .num t => t
  | .str s => pyReprStr s
  | .arr xs => '[' :: (pyReprItems xs ++ [']'])
  | .obj kvs => '{' :: (pyReprMembers kvs ++ ['}'])
def pyReprItems : List Json → Str
  | [] => []
  | x :: rest =>
    match rest with
    | [] => pyRepr x
    | _ :: _ => pyRepr x ++ ',' :: ' ' :: pyReprItems rest
def pyReprMembers : List (Str × Json) → Str
  | [] => []
  | (k, v) :: rest =>
    match rest with
    | [] => pyReprStr k ++ ':' :: ' ' :: pyRepr v
    | _ :: _ => pyReprStr k ++ ':' :: ' ' :: pyRepr v ++ ',' :: ' ' :: pyReprMembers rest
end

/-- Python `str(value)`: a text is itself, everything else is its `repr`. -/
def pyStr : Json → Str
  | .str s => s
  | v => pyRepr v

/-- l.130: the placeholder. -/
def placeholder (c : Colors) (digest : Str) : Str :=
  c.purple ++ ['<', 'r', 'e', 'd', 'a', 'c', 't', 'e', 'd', ':'] ++ digest ++ '>' :: c.off

mutual
/-- The cleaned text of a value stored under a key that is *not* sensitive (l.131-132, l.128). -/
def cleanVal (h : Json → Str) (c : Colors) : Json → Str
  | .obj kvs => pyReprDict (cleanObj h c kvs)
  | .null => quoteColour c (pyStr .null)
  | .bool b => quoteColour c (pyStr (.bool b))
  | .num t => quoteColour c (pyStr (.num t))
  | .str s => quoteColour c (pyStr (.str s))
  | .arr xs => quoteColour c (pyStr (.arr xs))
/-- `clean_record` (l.125-137): one cleaned (key, value) pair of texts per member. -/
def cleanObj (h : Json → Str) (c : Colors) : List (Str × Json) → List (Str × Str)
  | [] => []
  | (k, v) :: rest =>
    (c.key ++ k ++ c.off,
      c.value ++ (if sensitive k then placeholder c (h v) else cleanVal h c v) ++ c.off)
      :: cleanObj h c rest
end

/-! ## `json.dumps`, colour exchange, colouriser -/

/-- One character inside `json.dumps` of a text (ensure_ascii). -/
def jsonEsc (c : Char) : Str :=
  if c = '"' then ['\\', '"']
  else if c = '\\' then ['\\', '\\']
  else if c = '\n' then ['\\', 'n']
  else if c = '\r' then ['\\', 'r']
  else if c = '\t' then ['\\', 't']
  else if c.toNat = 8 then ['\\', 'b']
  else if c.toNat = 12 then ['\\', 'f']
  else if 32 ≤ c.toNat ∧ c.toNat ≤ 126 then [c]
  else if c.toNat < 65536 then '\\' :: 'u' :: hex4 c.toNat
  else
    let v := c.toNat - 65536
    '\\' :: 'u' :: hex4 (55296 + v / 1024) ++ '\\' :: 'u' :: hex4 (56320 + v % 1024)

/-- `json.dumps` of a text (ensure_ascii). -/
def jsonStr (s : Str) : Str := '"' :: (s.flatMap jsonEsc ++ ['"'])

/-- `json.dumps(clean_record)`. -/
def dumps (kvs : List (Str × Str)) : Str :=
  '{' :: (commaSep (kvs.map fun (k, v) => jsonStr k ++ ':' :: ' ' :: jsonStr v) ++ ['}'])

/-- `color_code` (l.84-89): the first level token present is replaced everywhere. -/
def colorCodeWith : List (Str × Str) → Str → Str
  | [], s => s
  | (k, v) :: rest, s => if isInfix k s then replaceAll k v s else colorCodeWith rest s

def colorCode (can : Bool) (s : Str) : Str :=
  if can then colorCodeWith Gen.Sanitise.colorExchanges s else s

/-- `orso.display.colorizer`. -/
def colorizer (can : Bool) (s : Str) : Str :=
  let s := replaceAll ['\\', 'u', '0', '0', '0', '1'] [Char.ofNat 1] s
  Gen.Sanitise.displayColors.foldl (fun acc (k, v) => replaceAll k (if can then v else []) acc) s

/-! ## isolating the message -/

/-- The guard of the loop: `parts[index].lstrip(" \\t\\r\\n\\ufeff").startswith("{")`; the characters
stripped and the text looked for are read from the source (`Gen.Sanitise.guardStrip`, `guardOpen`). -/
def opensObject (p : Str) : Bool :=
  (stripPrefix charEq Gen.Sanitise.guardOpen (p.dropWhile fun c => Gen.Sanitise.guardStrip.contains c)).isSome

/-- What the isolation theorems need of the extracted guard: it strips (at least) JSON white space,
does not strip `{`, and looks for `{`. -/
def GuardOK : Prop :=
  (∀ c : Char, (c == ' ' || c == '\t' || c == '\n' || c == '\r') = true → c ∈ Gen.Sanitise.guardStrip)
  ∧ '{' ∉ Gen.Sanitise.guardStrip ∧ Gen.Sanitise.guardOpen = ['{']

/-- The loop of `sanitize_record`: `index` runs over the fields; fields that cannot open an object
are skipped; the first (= longest) run of trailing fields that parses as an object is the message,
the fields before it the header. -/
def isolate (parse : Str → Option (List (Str × Json))) : List Str → List Str → Option (List Str × List (Str × Json))
  | _, [] => none
  | head, p :: ps =>
    if opensObject p then
      match parse (joinWith '|' (p :: ps)) with
      | some d => some (head, d)
      | none => isolate parse (head ++ [p]) ps
    else isolate parse (head ++ [p]) ps

/-- One of the three `re.sub` calls of the plain-text branch: ``q([^q]*)q`` becomes
`q' YELLOW \1 OFF q'`. -/
def pairColourF (q q' : Char) : Nat → Str → Str
  | 0, s => s
  | _, [] => []
  | n + 1, c :: r =>
    if c = q then
      match findClose q false r with
      | some (inner, rest) =>
        q' :: (Gen.Sanitise.codeYellow ++ inner ++ Gen.Sanitise.codeOff ++ q' :: pairColourF q q' n rest)
      | none => c :: pairColourF q q' n r
    else c :: pairColourF q q' n r

def pairColour (q q' : Char) (s : Str) : Str := pairColourF q q' (s.length + 1) s

def isSpace (c : Char) : Bool :=
  c.toNat = 32 || (9 ≤ c.toNat && c.toNat ≤ 13) || (28 ≤ c.toNat && c.toNat ≤ 31) || c.toNat = 133 || c.toNat = 160

/-- Python `str.strip()` (the white space the generators use). -/
def strip (s : Str) : Str := ((s.dropWhile isSpace).reverse.dropWhile isSpace).reverse

/-- The JSON branch of `sanitize_record`: coloured header fields, then the cleaned message. -/
def renderJson (h : Json → Str) (can : Bool) (head : List Str) (d : List (Str × Json)) : Str :=
  let msg := ' ' :: dumps (cleanObj h (colorsFor true) d)
  let parts := if head.isEmpty then [] else splitOn '|' (colorCode can (joinWith '|' head))
  colorizer can (joinWith '|' (parts ++ [msg]))

/-- The plain-text branch of `sanitize_record`. -/
def renderPlain (can : Bool) (record : Str) : Str :=
  let parts := splitOn '|' (colorCode can record)
  let last := parts.getLast?.getD []
  let last := pairColour '`' '`' last
  let last := pairColour '\'' '\'' last
  let last := pairColour '"' '\'' last
  colorizer can (joinWith '|' (parts.dropLast ++ [' ' :: (strip last ++ [' ', '*'])]))

/-- `sanitize_record`. -/
def sanitize (h : Json → Str) (can : Bool) (parse : Str → Option (List (Str × Json))) (record : Str) : Str :=
  let parts := splitOn '|' record
  -- `for index in range(<isolateStart>, len(parts))`: the first index tried is read from the source
  match isolate parse (parts.take Gen.Sanitise.isolateStart) (parts.drop Gen.Sanitise.isolateStart) with
  | some (head, d) => renderJson h can head d
  | none => renderPlain can record

/-! ## URL user-info -/

/-- The rest after the first closing character, provided no newline comes before it
(`(.*?)` then `@`). -/
def findAt (close : Char) : Str → Option Str
  | [] => none
  | c :: r => if c = close then some r else if c = '\n' then none else findAt close r

/-- `re.sub(r"://(.*?)@", replacement, msg)`: leftmost, non-overlapping, lazy; `rep` is the
replacement text (the text formatter and the structured logger use different ones). -/
def redactUrlWF (rep : Str) : Nat → Str → Str
  | 0, s => s
  | _, [] => []
  | n + 1, c :: r =>
    match (stripPrefix charEq Gen.Sanitise.urlOpen (c :: r)).bind (findAt Gen.Sanitise.urlClose) with
    | some rest => rep ++ redactUrlWF rep n rest
    | none => c :: redactUrlWF rep n r

/-- `format()` l.67: the replacement of the text formatter. -/
abbrev redactUrlF : Nat → Str → Str := redactUrlWF Gen.Sanitise.urlReplacement

def redactUrlWith (rep : Str) (s : Str) : Str := redactUrlWF rep (s.length + 1) s

def redactUrl (s : Str) : Str := redactUrlF (s.length + 1) s

/-- `format()` l.65-68 (after the inner formatter produced `record`). -/
def format (h : Json → Str) (can : Bool) (parse : Str → Option (List (Str × Json))) (record : Str) : Str :=
  let msg := sanitize h can parse record
  if isInfix Gen.Sanitise.urlGuard msg then redactUrl msg else msg

/-! ## the record `format()` is handed (round 4)

`LogFormatter.format(record)` receives a `logging.LogRecord`, not a text: the caller's *template*
(`record.msg`), the %-arguments (`record.args`) and whatever the inner formatter appends after the message
(`exc_info` / `stack_info`).  The text that is sanitised and scrubbed is what the inner formatter makes of
all of them — never the template. -/

/-- A `logging.LogRecord` as far as `format()` can look into it.  `msg` is `str(record.msg)`, the
message *template*; `args` are the %-arguments, each as `%s` / `%d` renders it; `trailer` is what
`logging.Formatter.format` puts after the message (`"\n" + exc_text`, `"\n" + stack_info`). -/
structure LogRec where
  msg : Str
  args : List Str
  trailer : Str

/-- Python's `template % args` for the directives `%s`, `%d` (arguments already rendered) and `%%`.
`none`: Python raises (`TypeError` "not enough arguments" / "not all arguments converted", `ValueError`
for a directive outside this fragment) — `logging` then reports the record on stderr, nothing is emitted. -/
def pctFormat : Str → List Str → Option Str
  | [], as => if as.isEmpty then some [] else none
  | c :: r, as =>
    if c = '%' then
      match r with
      | [] => none
      | d :: r' =>
        if d = '%' then (pctFormat r' as).map ('%' :: ·)
        else if d = 's' ∨ d = 'd' then
          match as with
          | a :: as' => (pctFormat r' as').map (a ++ ·)
          | [] => none
        else none
    else (pctFormat r as).map (c :: ·)

/-- `LogRecord.getMessage()`: `msg = str(self.msg); if self.args: msg = msg % self.args`. -/
def LogRec.getMessage (r : LogRec) : Option Str :=
  if r.args.isEmpty then some r.msg else pctFormat r.msg r.args

/-- `logging.Formatter.format` for a layout that ends in the message: header fields, the message,
the trailer.  (The header is the parameter "logging.Formatter's line" of the earlier rounds.) -/
def stdLine (header : Str) (r : LogRec) : Option Str :=
  r.getMessage.map fun m => header ++ m ++ r.trailer

/-- `LogFormatter.format(record)` as a whole: the inner formatter (`orig`, a parameter) turns the record
into a line; that *line* is sanitised and scrubbed. -/
def formatRec (h : Json → Str) (can : Bool) (parse : Str → Option (List (Str × Json)))
    (orig : LogRec → Str) (r : LogRec) : Str :=
  format h can parse (orig r)

/-! ## the specification side: erasure -/

mutual
/-- Replace every value stored under a sensitive key — at any depth of nested objects, of any
type — by its digest. -/
def erase (h : Json → Str) : Json → Json
  | .obj kvs => .obj (eraseObj h kvs)
  | .null => .null
  | .bool b => .bool b
  | .num t => .num t
  | .str s => .str s
  | .arr xs => .arr xs
def eraseObj (h : Json → Str) : List (Str × Json) → List (Str × Json)
  | [] => []
  | (k, v) :: rest => (k, if sensitive k then .str (h v) else erase h v) :: eraseObj h rest
end

/-! ## the other reading: objects inside arrays count as nested objects

Nothing in this section is implemented by orso; it states what a sanitiser that also descends
into arrays would compute, so that the two readings can be compared (`Props/C20.lean`). -/

mutual
/-- A value inside an array, or an object / array value, under the deep reading: objects are
cleaned, arrays are descended into, everything else is shown as Python shows it inside a list. -/
def deepItem (h : Json → Str) (c : Colors) : Json → Str
  | .obj kvs => pyReprDict (cleanDeepObj h c kvs)
  | .arr xs => '[' :: (deepItems h c xs ++ [']'])
  | .null => pyRepr .null
  | .bool b => pyRepr (.bool b)
  | .num t => pyRepr (.num t)
  | .str s => pyRepr (.str s)
def deepItems (h : Json → Str) (c : Colors) : List Json → Str
  | [] => []
  | x :: rest =>
    match rest with
    | [] => deepItem h c x
    | _ :: _ => deepItem h c x ++ ',' :: ' ' :: deepItems h c rest
/-- A value stored under a non-sensitive key, under the deep reading. -/
def deepValue (h : Json → Str) (c : Colors) : Json → Str
  | .obj kvs => pyReprDict (cleanDeepObj h c kvs)
  | .arr xs => '[' :: (deepItems h c xs ++ [']'])
  | .null => quoteColour c (pyStr .null)
  | .bool b => quoteColour c (pyStr (.bool b))
  | .num t => quoteColour c (pyStr (.num t))
  | .str s => quoteColour c (pyStr (.str s))
/-- `clean_record` under the deep reading. -/
def cleanDeepObj (h : Json → Str) (c : Colors) : List (Str × Json) → List (Str × Str)
  | [] => []
  | (k, v) :: rest =>
    (c.key ++ k ++ c.off,
      c.value ++ (if sensitive k then placeholder c (h v) else deepValue h c v) ++ c.off)
      :: cleanDeepObj h c rest
end

mutual
/-- Erasure under the deep reading: also inside arrays. -/
def eraseDeep (h : Json → Str) : Json → Json
  | .obj kvs => .obj (eraseDeepObj h kvs)
  | .arr xs => .arr (eraseDeepItems h xs)
  | .null => .null
  | .bool b => .bool b
  | .num t => .num t
  | .str s => .str s
def eraseDeepItems (h : Json → Str) : List Json → List Json
  | [] => []
  | x :: rest => eraseDeep h x :: eraseDeepItems h rest
def eraseDeepObj (h : Json → Str) : List (Str × Json) → List (Str × Json)
  | [] => []
  | (k, v) :: rest => (k, if sensitive k then .str (h v) else eraseDeep h v) :: eraseDeepObj h rest
end

mutual
/-- No array anywhere (reachable through non-sensitive keys or not). -/
def arrayFree : Json → Bool
  | .obj kvs => arrayFreeObj kvs
  | .arr _ => false
  | _ => true
def arrayFreeObj : List (Str × Json) → Bool
  | [] => true
  | (_, v) :: rest => arrayFree v && arrayFreeObj rest
end

mutual
/-- No sensitive key anywhere inside the value. -/
def keyFree : Json → Bool
  | .obj kvs => keyFreeObj kvs
  | .arr xs => keyFreeItems xs
  | _ => true
def keyFreeItems : List Json → Bool
  | [] => true
  | x :: rest => keyFree x && keyFreeItems rest
def keyFreeObj : List (Str × Json) → Bool
  | [] => true
  | (k, v) :: rest => !sensitive k && keyFree v && keyFreeObj rest
end

mutual
/-- The two readings agree on this value: wherever an array is reachable through non-sensitive
keys, nothing inside it is stored under a sensitive key. -/
def readingsAgree : Json → Bool
  | .obj kvs => readingsAgreeObj kvs
  | .arr xs => keyFreeItems xs
  | _ => true
def readingsAgreeObj : List (Str × Json) → Bool
  | [] => true
  | (k, v) :: rest => (sensitive k || readingsAgree v) && readingsAgreeObj rest
end

/-- `k` ends in the word `w`, letter case ignored (`w` is given folded, i.e. in lower case). -/
def EndsIn (w k : Str) : Prop := ∃ pre m, k = pre ++ m ∧ m.map foldChar = w

/-- `k` contains the word `w`, letter case ignored. -/
def Contains (w k : Str) : Prop := ∃ pre m post, k = pre ++ m ++ post ∧ m.map foldChar = w

/-- The first character of a text after JSON white space (space, tab, newline, carriage return). -/
def firstNonSpace (t : Str) : Option Char :=
  (t.dropWhile fun c => c == ' ' || c == '\t' || c == '\n' || c == '\r').head?

/-- Characters a marker token is made of: ASCII digits and letters (no quote, no escape). -/
def plainChar (c : Char) : Bool :=
  (48 ≤ c.toNat && c.toNat ≤ 57) || (65 ≤ c.toNat && c.toNat ≤ 90) || (97 ≤ c.toNat && c.toNat ≤ 122)

/-- The text `t` occurs in a value that is reachable from the record through non-sensitive keys
only (through nested objects), the value itself not being an object. -/
inductive VisibleAt (t : Str) : List (Str × Json) → Prop
  | leaf (d : List (Str × Json)) (k : Str) (v : Json) : (k, v) ∈ d → sensitive k = false →
      (∀ kvs, v ≠ .obj kvs) → t <:+: pyStr v → VisibleAt t d
  | inner (d kvs : List (Str × Json)) (k : Str) : (k, .obj kvs) ∈ d → sensitive k = false →
      VisibleAt t kvs → VisibleAt t d

/-- A run of text without the closing character of the URL rule and without a newline: what the
user-info of a URL is made of. -/
def cleanRun (close : Char) (a : Str) : Bool := a.all fun x => x != close && x != '\n'

/-- The text from the `://` of a URL with user-info `u` onwards: `://u@post`. -/
def urlTail (u post : Str) : Str := Gen.Sanitise.urlOpen ++ u ++ Gen.Sanitise.urlClose :: post

/-- The `://user-info@` of a URL. -/
def urlCore (u : Str) : Str := Gen.Sanitise.urlOpen ++ u ++ [Gen.Sanitise.urlClose]

/-- The characters RFC 3986 allows in user-info (unreserved, `%` of pct-encoded, sub-delims, `:`)
except the apostrophe: no quote, backtick, white space, `|`, `\`, `/`, `@`, control character. -/
def urlSafeChar (c : Char) : Bool :=
  plainChar c || ['-', '.', '_', '~', '%', '!', '$', '&', '(', ')', '*', '+', ',', ';', '=', ':'].contains c

def UrlSafe (u : Str) : Prop := ∀ c ∈ u, urlSafeChar c = true

/-- The first character of a token may not occur in any pattern `colorizer` replaces (the literal
`\u0001` and the keys of `orso.display.COLORS`): digits 2..9 and most lower-case letters qualify. -/
def tokenHeadOK (c : Char) : Bool :=
  !(['\\', 'u', '0', '0', '0', '1'].contains c) && Gen.Sanitise.displayColors.all fun kv => !(kv.1.contains c)

/-- One attempt of the URL regular expression at the front of `s`: the text after the `@`. -/
def urlStep (s : Str) : Option Str :=
  (stripPrefix charEq Gen.Sanitise.urlOpen s).bind (findAt Gen.Sanitise.urlClose)

/-! ## glue for the functions generated from the source (`Generated/SanitiseFns.lean`)

`harness/extractors/c20_fns.py` translates the loop body of `clean_record`, `format`, the tail of
`sanitize_record` and the two branches of `write_event` statement by statement; the translations take
the helpers they call as parameters, and `Props/C20.lean` instantiates them with the definitions
below and proves the result equal to the model above (`generated_*_eq_model`). -/

def Json.isObj : Json → Bool
  | .obj _ => true
  | _ => false

/-- `str(self.clean_record(value, colorize))`: what the recursive call contributes to the member's
text (the call is only reached for objects). -/
def cleanRecText (h : Json → Str) (c : Colors) : Json → Str
  | .obj kvs => pyReprDict (cleanObj h c kvs)
  | _ => []

/-- `QUOTES_OR_BACKTICKS_RE.sub(color_value, str(value))`. -/
def renderVal (c : Colors) (v : Json) : Str := quoteColour c (pyStr v)

/-- `colors[name]`. -/
def colorOf (c : Colors) (n : Str) : Str :=
  if n = ['K', 'E', 'Y'] then c.key
  else if n = ['O', 'F', 'F'] then c.off
  else if n = ['P', 'U', 'R', 'P', 'L', 'E'] then c.purple
  else if n = ['Y', 'E', 'L', 'L', 'O', 'W'] then c.yellow
  else if n = ['V', 'A', 'L', 'U', 'E'] then c.value
  else []

end Sanitise
