/-!
# numpy's numeric dtypes and dtype kinds (names only)

The tables over these names — `dtype.kind`, item size, `iinfo`, `finfo` and the whole
`numpy.promote_types` table — are *not* written here: `harness/extractors/c09.py` asks the
installed numpy for them on every run and writes `Generated/NpDtypes.lean`.
-/
namespace Enc

/-- `numpy.dtype.kind` characters. -/
inductive Kind where
  | b | i | u | f | c | U | S | O | M | m | V
  deriving DecidableEq, Repr

/-- `len(set(xs))`: the number of distinct members. -/
def distinctCount {α : Type} [DecidableEq α] : List α → Nat
  | [] => 0
  | x :: t => if x ∈ t then distinctCount t else distinctCount t + 1

/-- The numeric dtypes an encoder can meet: what `numpy.array(list)` infers (`bool`, `int64`,
`float64`), what a caller's array or a numpy scalar default may carry, and what an element-wise
function on the stored values may return. -/
inductive Num where
  | bool | i8 | i16 | i32 | i64 | u8 | u16 | u32 | u64 | f16 | f32 | f64 | c64 | c128
  deriving DecidableEq, Repr

def Num.all : List Num :=
  [.bool, .i8, .i16, .i32, .i64, .u8, .u16, .u32, .u64, .f16, .f32, .f64, .c64, .c128]

theorem Num.mem_all (n : Num) : n ∈ Num.all := by cases n <;> decide

/-- numpy's name of the dtype. -/
def Num.name : Num → String
  | .bool => "bool" | .i8 => "int8" | .i16 => "int16" | .i32 => "int32" | .i64 => "int64"
  | .u8 => "uint8" | .u16 => "uint16" | .u32 => "uint32" | .u64 => "uint64"
  | .f16 => "float16" | .f32 => "float32" | .f64 => "float64"
  | .c64 => "complex64" | .c128 => "complex128"

def Num.ofName (s : String) : Option Num := Num.all.find? fun n => n.name == s

end Enc
