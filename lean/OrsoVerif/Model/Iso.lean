import OrsoVerif.Generated.Iso
/-!
# C08 — `orso.tools.parse_iso` and the DATE / TIME / TIMESTAMP casts built on it

The model follows `orso/tools.py:681-779` line by line.  Text is `List Char`; every slice and
index uses the offsets extracted from the source (`Gen.Iso`).  Exceptions are *data*: each
primitive (`int()`, `datetime(...)`, `fromtimestamp`, `bytes.decode`, `str[i]`) yields the class
CPython raises, and the extracted `except (...)` tuple decides which of them become `None`.

Platform parameters (validated by correspondence, see `design_notes/C08.md`):
`time_t` is 64 bit (`OverflowError` outside), `struct tm.tm_year` is a C `int`
(`OSError` when `year - 1900` does not fit), `sys.get_int_max_str_digits() = 4300`.
The model of `str.isdigit`, `int(str)` is exact on ASCII text and on non-ASCII characters that
are neither digits nor white space; other characters are outside the compared domain.
-/
namespace Iso

/-! ## Exceptions as data -/

inductive Exc where
  | valueError | unicodeDecodeError | typeError | overflowError | osError | indexError
  deriving DecidableEq, Repr

/-- The class and its bases, most derived first (names as they can appear in an `except`). -/
def Exc.mro : Exc → List String
  | .valueError => ["ValueError", "Exception", "BaseException"]
  | .unicodeDecodeError => ["UnicodeDecodeError", "UnicodeError", "ValueError", "Exception", "BaseException"]
  | .typeError => ["TypeError", "Exception", "BaseException"]
  | .overflowError => ["OverflowError", "ArithmeticError", "Exception", "BaseException"]
  | .osError => ["OSError", "EnvironmentError", "IOError", "Exception", "BaseException"]
  | .indexError => ["IndexError", "LookupError", "Exception", "BaseException"]

def Exc.name (e : Exc) : String := e.mro.headD "?"

/-- `except (c₁, …, cₙ)` catches `e` iff one of its bases is named. -/
def caughtBy (caught : List String) (e : Exc) : Bool := e.mro.any (fun c => caught.contains c)

structure DateTime where
  year : Nat
  month : Nat
  day : Nat
  hour : Nat
  minute : Nat
  second : Nat
  micro : Nat
  deriving DecidableEq, Repr

inductive Outcome where
  | value (dt : DateTime)
  | none
  | raises (e : Exc)
  deriving DecidableEq, Repr

/-! ## Calendar -/

def isLeap (y : Nat) : Bool := y % 4 == 0 && (y % 100 != 0 || y % 400 == 0)

def daysInMonthL (leap : Bool) : Nat → Nat
  | 1 => 31 | 2 => if leap then 29 else 28 | 3 => 31 | 4 => 30 | 5 => 31 | 6 => 30
  | 7 => 31 | 8 => 31 | 9 => 30 | 10 => 31 | 11 => 30 | 12 => 31 | _ => 0

def daysInMonth (y m : Nat) : Nat := daysInMonthL (isLeap y) m

def validDate (y m d : Nat) : Bool :=
  1 ≤ y && y ≤ 9999 && 1 ≤ m && m ≤ 12 && 1 ≤ d && d ≤ daysInMonth y m

def validDateTime (dt : DateTime) : Bool :=
  validDate dt.year dt.month dt.day && dt.hour ≤ 23 && dt.minute ≤ 59 && dt.second ≤ 59
    && dt.micro ≤ 999999

/-- Days in the months before month `m` (CPython `_days_before_month`). -/
def daysBeforeMonthL (leap : Bool) : Nat → Nat
  | 0 => 0
  | 1 => 0
  | m + 1 => daysBeforeMonthL leap m + daysInMonthL leap m

/-- Days before January 1st of year `y ≥ 1` (CPython `_days_before_year`). -/
def daysBeforeYear (y : Nat) : Nat :=
  let p := y - 1
  365 * p + p / 4 - p / 100 + p / 400

/-- Proleptic Gregorian ordinal, 0001-01-01 = 1 (`datetime.date.toordinal`). -/
def toOrdinal (y m d : Nat) : Nat := daysBeforeYear y + daysBeforeMonthL (isLeap y) m + d

/-- Ordinal of 1970-01-01. -/
def epochOrdinal : Nat := 719163

/-- Unix seconds of a (naive, read as UTC) date-time. -/
def toEpoch (dt : DateTime) : Int :=
  ((toOrdinal dt.year dt.month dt.day : Int) - epochOrdinal) * 86400
    + dt.hour * 3600 + dt.minute * 60 + dt.second

/-- Year and 0-based day of the year of an ordinal (CPython `_ord2ymd`, extended to all
integers by floor division on the 400-year cycle; the year is the astronomical year). -/
def yearDoy (ord : Int) : Int × Nat :=
  let n := ord - 1
  let n400 := n / 146097
  let r := (n % 146097).toNat
  let n100 := r / 36524
  let r1 := r % 36524
  let n4 := r1 / 1461
  let r2 := r1 % 1461
  let n1 := r2 / 365
  let r3 := r2 % 365
  let y : Int := n400 * 400 + (n100 * 100 + n4 * 4 + n1 : Nat) + 1
  if n1 = 4 ∨ n100 = 4 then (y - 1, 365) else (y, r3)

def monthDayGo (leap : Bool) : Nat → Nat → Nat → Nat × Nat
  | 0, m, doy => (m, doy + 1)
  | fuel + 1, m, doy =>
    let dim := daysInMonthL leap m
    if doy < dim then (m, doy + 1) else monthDayGo leap fuel (m + 1) (doy - dim)

/-- Month and day of a 0-based day of the year. -/
def monthDay (leap : Bool) (doy : Nat) : Nat × Nat := monthDayGo leap 11 1 doy

/-- `datetime.datetime.fromtimestamp(n, tz=utc).replace(tzinfo=None)` for a Python `int` `n`. -/
def fromTimestamp (n : Int) : Except Exc DateTime :=
  if n < -9223372036854775808 ∨ n > 9223372036854775807 then .error .overflowError
  else
    let days := n / 86400
    let secs := (n % 86400).toNat
    let yd := yearDoy (days + epochOrdinal)
    if yd.1 - 1900 < -2147483648 ∨ yd.1 - 1900 > 2147483647 then .error .osError
    else if yd.1 < 1 ∨ yd.1 > 9999 then .error .valueError
    else
      let md := monthDay (isLeap yd.1.toNat) yd.2
      .ok ⟨yd.1.toNat, md.1, md.2, secs / 3600, secs % 3600 / 60, secs % 60, 0⟩

def cIntOk (x : Int) : Bool := -2147483648 ≤ x && x ≤ 2147483647

def buildDatetime (y m d H M S : Int) : Except Exc DateTime :=
  if !(cIntOk y && cIntOk m && cIntOk d && cIntOk H && cIntOk M && cIntOk S) then .error .overflowError
  else if y < 1 ∨ y > 9999 then .error .valueError
  else if m < 1 ∨ m > 12 then .error .valueError
  else if d < 1 ∨ d > (daysInMonth y.toNat m.toNat : Nat) then .error .valueError
  else if H < 0 ∨ H > 23 then .error .valueError
  else if M < 0 ∨ M > 59 then .error .valueError
  else if S < 0 ∨ S > 59 then .error .valueError
  else .ok ⟨y.toNat, m.toNat, d.toNat, H.toNat, M.toNat, S.toNat, 0⟩

/-- `datetime.datetime(*args)` for 3, 5 or 6 integer arguments. -/
def mkDatetime : List Int → Except Exc DateTime
  | [y, m, d] => buildDatetime y m d 0 0 0
  | [y, m, d, H, M] => buildDatetime y m d H M 0
  | [y, m, d, H, M, S] => buildDatetime y m d H M S
  | _ => .error .typeError

/-! ## `int(str)` -/

/-- ASCII white space as skipped by `int()`. -/
def isWs (c : Char) : Bool :=
  c == ' ' || c == '\t' || c == '\n' || c == '\r' || c == Char.ofNat 11 || c == Char.ofNat 12

def rstrip : List Char → List Char
  | [] => []
  | c :: r =>
    match rstrip r with
    | [] => if isWs c then [] else [c]
    | r' => c :: r'

def strip (s : List Char) : List Char := rstrip (s.dropWhile isWs)

def digitVal (c : Char) : Nat := c.toNat - 48

/-- Decimal digits with single underscores between digits. `prev` = the previous character was a digit. -/
def digitsGo (acc : Nat) (prev : Bool) : List Char → Option Nat
  | [] => if prev then some acc else none
  | c :: r =>
    if c.isDigit then digitsGo (10 * acc + digitVal c) true r
    else if c == '_' && prev then digitsGo acc false r
    else none

def maxStrDigits : Nat := 4300

def pyNat (s : List Char) : Except Exc Nat :=
  if (s.filter Char.isDigit).length > maxStrDigits then .error .valueError
  else match digitsGo 0 false s with
    | some n => .ok n
    | none => .error .valueError

/-- `int(s)` for a `str` `s` (base 10). -/
def pyInt (s : List Char) : Except Exc Int :=
  match strip s with
  | [] => .error .valueError
  | c :: r =>
    if c = '-' then (pyNat r).bind fun n => .ok (-(n : Int))
    else if c = '+' then (pyNat r).bind fun n => .ok (n : Int)
    else (pyNat (c :: r)).bind fun n => .ok (n : Int)

/-- `str.isdigit()` (ASCII model). -/
def isDigitStr (s : List Char) : Bool := !s.isEmpty && s.all Char.isDigit

/-! ## `int(float)` -/

inductive FloatInt where
  | nan | inf | fin (z : Int)
  deriving DecidableEq, Repr

/-- Truncation toward zero of the IEEE-754 double with the given bit pattern. -/
def floatTrunc (bits : UInt64) : FloatInt :=
  let b := bits.toNat
  let neg := b / 2 ^ 63 == 1
  let e := (b / 2 ^ 52) % 2048
  let m := b % 2 ^ 52
  if e == 2047 then (if m == 0 then .inf else .nan)
  else
    let mant := if e == 0 then m else m + 2 ^ 52
    let ex := if e == 0 then 1 else e
    let mag : Nat := if ex ≥ 1075 then mant * 2 ^ (ex - 1075) else mant / 2 ^ (1075 - ex)
    .fin (if neg then -(mag : Int) else (mag : Int))

def intOfFloat (bits : UInt64) : Except Exc Int :=
  match floatTrunc bits with
  | .nan => .error .valueError
  | .inf => .error .overflowError
  | .fin z => .ok z

/-! ## The text path (`orso/tools.py:734-776`) -/

def slice (v : List Char) (ab : Nat × Nat) : List Char := (v.drop ab.1).take (ab.2 - ab.1)

def idx (v : List Char) (i : Nat) : Except Exc Char :=
  match v[i]? with
  | some c => .ok c
  | none => .error .indexError

/-- `map(int, [value[a:b], …])`, left to right. -/
def ints (v : List Char) : List (Nat × Nat) → Except Exc (List Int)
  | [] => .ok []
  | ab :: r => (pyInt (slice v ab)).bind fun x => (ints v r).bind fun xs => .ok (x :: xs)

/-- `datetime.datetime(*map(int, [value[a:b], …]))` -/
def fields (v : List Char) (sl : List (Nat × Nat)) : Except Exc (Option DateTime) :=
  (ints v sl).bind fun xs => (mkDatetime xs).bind fun dt => .ok (some dt)

/-- Python's short-circuit `a and b` / `a or b` where only `b` can raise. -/
def shortCircuit (joinAnd : Bool) (a : Bool) (b : Except Exc Bool) : Except Exc Bool :=
  if joinAnd then (if a then b else .ok false) else (if a then .ok true else b)

/-- `value[4] != "-" or value[7] != "-"`: the generated operand tests, the generated operator,
the second subscript only read when the first operand does not decide. -/
def dashReject (v : List Char) : Except Exc Bool :=
  (idx v Gen.Iso.dashA).bind fun c4 =>
    shortCircuit Gen.Iso.dashJoinAnd (decide (Gen.Iso.dashTestA c4))
      ((idx v Gen.Iso.dashB).bind fun c7 => .ok (decide (Gen.Iso.dashTestB c7)))

/-- `value[10] not in ("T", " ") and value[13] != ":"` (generated operands and operator). -/
def sepReject (v : List Char) : Except Exc Bool :=
  (idx v Gen.Iso.sepIdx).bind fun c10 =>
    shortCircuit Gen.Iso.sepJoinAnd (decide (Gen.Iso.sepTestA c10))
      ((idx v Gen.Iso.colonA).bind fun c13 => .ok (decide (Gen.Iso.sepTestB c13)))

/-- `val_len >= 19 and value[16] == ":"` (generated operands; `and` asserted by the extractor). -/
def hasSeconds (v : List Char) : Except Exc Bool :=
  shortCircuit true (decide (Gen.Iso.secLenTest v.length))
    ((idx v Gen.Iso.colonB).bind fun c16 => .ok (decide (Gen.Iso.secCharTest c16)))

/-- After the `Z` strip and the `+` split: lines 742-776.  Control flow by hand, every test a
generated expression. -/
def shaped (v : List Char) : Except Exc (Option DateTime) :=
  (dashReject v).bind fun rej =>
  if rej then .ok none else
  if Gen.Iso.dateLenTest v.length then fields v Gen.Iso.slicesDate
  else if Gen.Iso.timeLenTest v.length then
    (sepReject v).bind fun reject =>
    if reject then .ok none else
    (hasSeconds v).bind fun secs =>
    if secs then fields v Gen.Iso.slicesSec
    else if Gen.Iso.minLenTest v.length then fields v Gen.Iso.slicesMin
    else .ok none
  else .ok none

/-- Lines 734-741: length window, trailing `Z`, the `+` split and its second window. -/
def textPath (v0 : List Char) : Except Exc (Option DateTime) :=
  if Gen.Iso.lenWindow v0.length then
    let v1 := if v0.getLast? = some Gen.Iso.zChar then v0.dropLast else v0
    if v1.contains Gen.Iso.plusChar then
      let v2 := v1.takeWhile (· != Gen.Iso.plusChar)
      if Gen.Iso.plusReject v2.length then .ok none
      else shaped v2
    else shaped v1
  else .ok none

/-! ## Inputs and the whole function -/

inductive Input where
  | int (n : Int)             -- exactly `int`
  | npInt (n : Int)           -- `numpy.int64`
  | float (bits : UInt64)     -- exactly `float`
  | npFloat (bits : UInt64)   -- `numpy.float64`
  | str (s : List Char)       -- exactly `str`
  | bytes (b : List UInt8)    -- `bytes` or a subclass
  | date (y m d : Nat)        -- exactly `datetime.date`
  | datetime (dt : DateTime)  -- exactly `datetime.datetime`
  | time (H M S us : Nat)     -- a `datetime.time` (None for the parser; the TIME cast keeps it)
  | other                     -- any other object without `to_pydatetime`
  deriving Repr

def decodeUtf8 (b : List UInt8) : Option (List Char) :=
  (String.fromUTF8? (ByteArray.mk b.toArray)).map String.toList

def epoch (tyName : String) (n : Except Exc Int) : Except Exc (Option DateTime) :=
  if Gen.Iso.epochTypes.contains tyName then
    n.bind fun k => (fromTimestamp k).bind fun dt => .ok (some dt)
  else .ok none

/-- `str` input (also reached by decoded bytes): the `isdigit` branch, then the text path. -/
def strBody (s : List Char) : Except Exc (Option DateTime) :=
  if isDigitStr s then epoch "int" (pyInt s) else textPath s

/-- The body of the `try`. -/
def body : Input → Except Exc (Option DateTime)
  | .other => .ok none
  | .time .. => .ok none
  | .date y m d => .ok (some ⟨y, m, d, 0, 0, 0, 0⟩)
  | .datetime dt => .ok (some { dt with micro := 0 })
  | .int n => epoch "int" (.ok n)
  | .npInt n => epoch "numpy.int64" (.ok n)
  | .float b => epoch "float" (intOfFloat b)
  | .npFloat b => epoch "numpy.float64" (intOfFloat b)
  | .bytes b =>
    match decodeUtf8 b with
    | none => .error .unicodeDecodeError
    | some s => strBody s
  | .str s => strBody s

/-- The body under `except <caught>: return None`. -/
def parseIsoWith (caught : List String) (i : Input) : Outcome :=
  match body i with
  | .ok (some dt) => .value dt
  | .ok none => .none
  | .error e => if caughtBy caught e then .none else .raises e

/-- `parse_iso(value)` with the `except` tuple of the current source. -/
def parseIso (i : Input) : Outcome := parseIsoWith Gen.Iso.caught i

/-! ## The casts (`orso/types.py:303-314,347-351`) -/

inductive CastKind where
  | date | time | timestamp
  deriving DecidableEq, Repr

inductive CastOut where
  | date (y m d : Nat)
  | time (H M S us : Nat)
  | timestamp (dt : DateTime)
  | raises (e : Exc)
  deriving DecidableEq, Repr

/-- `parse_time` returns a value that already is a `datetime.time` unchanged (types.py, the
`isinstance(x, datetime.time)` test) before it consults the parser. -/
def cast (k : CastKind) (i : Input) : CastOut :=
  match k, i with
  | .time, .time H M S us => .time H M S us
  | _, _ =>
    match parseIso i with
    | .raises e => .raises e
    | .none => .raises .valueError
    | .value dt =>
      match k with
      | .date => .date dt.year dt.month dt.day
      | .time => .time dt.hour dt.minute dt.second dt.micro
      | .timestamp => .timestamp dt

/-! ## Canonical renderings -/

def digit (n : Nat) : Char := Char.ofNat (48 + n % 10)

def pad2 (n : Nat) : List Char := [digit (n / 10), digit n]
def pad4 (n : Nat) : List Char := [digit (n / 1000), digit (n / 100), digit (n / 10), digit n]
def pad6 (n : Nat) : List Char :=
  [digit (n / 100000), digit (n / 10000), digit (n / 1000), digit (n / 100), digit (n / 10), digit n]

def renderDate (y m d : Nat) : List Char := pad4 y ++ '-' :: pad2 m ++ '-' :: pad2 d

def renderMinute (dt : DateTime) (sep : Char) : List Char :=
  renderDate dt.year dt.month dt.day ++ sep :: pad2 dt.hour ++ ':' :: pad2 dt.minute

def renderSecond (dt : DateTime) (sep : Char) : List Char :=
  renderMinute dt sep ++ ':' :: pad2 dt.second

inductive Suffix where
  | none
  | z
  | plus (hh mm : Nat)
  | minus (hh mm : Nat)
  deriving Repr

def Suffix.text : Suffix → List Char
  | .none => []
  | .z => ['Z']
  | .plus h m => '+' :: pad2 h ++ ':' :: pad2 m
  | .minus h m => '-' :: pad2 h ++ ':' :: pad2 m

/-- The suffixes after which the minute and date-only forms are still read (the code drops a
trailing `Z` and everything from the first `+`; a `-HH:MM` suffix is *not* understood there). -/
def Suffix.dropped : Suffix → Bool
  | .none | .z | .plus _ _ => true
  | .minus _ _ => false

/-- The fraction: the first `k` digits of the six-digit microsecond field (`k = 0`: no fraction). -/
def fraction (micro k : Nat) : List Char := if k = 0 then [] else '.' :: (pad6 micro).take k

/-- `YYYY-MM-DD<sep>HH:MM:SS[.f{k}][Z|±HH:MM]` -/
def render (dt : DateTime) (sep : Char) (k : Nat) (suf : Suffix) : List Char :=
  renderSecond dt sep ++ fraction dt.micro k ++ suf.text

def truncSeconds (dt : DateTime) : DateTime := { dt with micro := 0 }

end Iso
