import OrsoVerif.Generated.Iso
import OrsoVerif.Model.IsoPrim
import OrsoVerif.Generated.IsoText
import OrsoVerif.Model.IsoTime
/-!
# C08 — `orso.tools.parse_iso` and the DATE / TIME / TIMESTAMP casts built on it

Primitives (exceptions as data, calendar, `int()`, `datetime(...)`, `fromtimestamp`, Python text
operations) are in `Model/IsoPrim.lean`.  The string branch that `parseIso` *runs* is
`Gen.IsoText.textBranch`, a program regenerated statement by statement from the AST of
`orso/tools.py` on every run (`harness/pystmt.py`).  The hand-written skeleton below (`textPath`,
`shaped`, assembled from the expression-level guards `Gen.Iso.*`) is the form the lemmas reason
about; `C08.text_branch_refines_skeleton` proves, on every run, that the generated program equals
it on every text.
-/
namespace Iso

/-- Python's short-circuit `a and b` / `a or b` where only `b` can raise. -/
def shortCircuit (joinAnd : Bool) (a : Bool) (b : Except Exc Bool) : Except Exc Bool :=
  if joinAnd then (if a then b else .ok false) else (if a then .ok true else b)

/-- `value[4] != "-" or value[7] != "-"`: the generated operand tests, the generated operator,
the second subscript only read when the first operand does not decide. -/
def dashReject (v : List Char) : Except Exc Bool :=
  (idx v Gen.Iso.dashA).bind fun c4 =>
    shortCircuit Gen.Iso.dashJoinAnd (decide (Gen.Iso.dashTestA c4))
      ((idx v Gen.Iso.dashB).bind fun c7 => .ok (decide (Gen.Iso.dashTestB c7)))

/-- `value[10] not in ("T", " ") and value[13] != ":"` (generated operands and operator). -/
def sepReject (v : List Char) : Except Exc Bool :=
  (idx v Gen.Iso.sepIdx).bind fun c10 =>
    shortCircuit Gen.Iso.sepJoinAnd (decide (Gen.Iso.sepTestA c10))
      ((idx v Gen.Iso.colonA).bind fun c13 => .ok (decide (Gen.Iso.sepTestB c13)))

/-- `val_len >= 19 and value[16] == ":"` (generated operands; `and` asserted by the extractor). -/
def hasSeconds (v : List Char) : Except Exc Bool :=
  shortCircuit true (decide (Gen.Iso.secLenTest v.length))
    ((idx v Gen.Iso.colonB).bind fun c16 => .ok (decide (Gen.Iso.secCharTest c16)))

/-- After the `Z` strip and the `+` split: lines 742-776.  Control flow by hand, every test a
generated expression. -/
def shaped (v : List Char) : Except Exc (Option DateTime) :=
  (dashReject v).bind fun rej =>
  if rej then .ok none else
  if Gen.Iso.dateLenTest v.length then fields v Gen.Iso.slicesDate
  else if Gen.Iso.timeLenTest v.length then
    (sepReject v).bind fun reject =>
    if reject then .ok none else
    (hasSeconds v).bind fun secs =>
    if secs then fields v Gen.Iso.slicesSec
    else if Gen.Iso.minLenTest v.length then fields v Gen.Iso.slicesMin
    else .ok none
  else .ok none

/-- Lines 734-741: length window, trailing `Z`, the `+` split and its second window. -/
def textPath (v0 : List Char) : Except Exc (Option DateTime) :=
  if Gen.Iso.lenWindow v0.length then
    let v1 := if v0.getLast? = some Gen.Iso.zChar then v0.dropLast else v0
    if v1.contains Gen.Iso.plusChar then
      let v2 := v1.takeWhile (· != Gen.Iso.plusChar)
      if Gen.Iso.plusReject v2.length then .ok none
      else shaped v2
    else shaped v1
  else .ok none

/-! ## Inputs and the whole function -/

inductive Input where
  | int (n : Int)             -- exactly `int`
  | npInt (n : Int)           -- `numpy.int64`
  | float (bits : UInt64)     -- exactly `float`
  | npFloat (bits : UInt64)   -- `numpy.float64`
  | str (s : List Char)       -- exactly `str`
  | bytes (b : List UInt8)    -- `bytes` or a subclass
  | date (y m d : Nat)        -- exactly `datetime.date`
  | datetime (dt : DateTime)  -- exactly `datetime.datetime`
  | time (H M S us : Nat)     -- a `datetime.time` (None for the parser; the TIME cast keeps it)
  | strSub (s : List Char)    -- an instance of a proper subclass of `str` (None for the parser: `type(value) != str`)
  | num (ty : String) (n : Int) -- an instance of any other numeric class `ty` (`bool`, `numpy.int32`, `decimal.Decimal`, a subclass of
                              -- `int` / `float`, …) for which `int(value)` returns `n`; not text, not a date, no `to_pydatetime`
  | other                     -- any other object without `to_pydatetime`
  deriving Repr

def decodeUtf8 (b : List UInt8) : Option (List Char) :=
  (String.fromUTF8? (ByteArray.mk b.toArray)).map String.toList

/-- The classes a class inherits from (its `__mro__` without `object`), for the numeric classes the correspondence feeds:
what `isinstance` looks at, as opposed to the identity of `type(value)`.  `bool` is an `int`, `numpy.float64` is a `float`,
**`numpy.int64` is not an `int`** (and no other numpy integer or `numpy.float32` / `float16` inherits from a Python number). -/
def mro (ty : String) : List String :=
  if ty = "bool" then ["bool", "int"]
  else if ty = "numpy.float64" then ["numpy.float64", "numpy.floating", "numpy.inexact", "numpy.number", "numpy.generic", "float"]
  else if ty = "int subclass" then ["int subclass", "int"]
  else if ty = "float subclass" then ["float subclass", "float"]
  else if ty = "numpy.float32" ∨ ty = "numpy.float16" then [ty, "numpy.floating", "numpy.inexact", "numpy.number", "numpy.generic"]
  else if ty = "numpy.int64" ∨ ty = "numpy.int32" ∨ ty = "numpy.int16" ∨ ty = "numpy.int8" then
    [ty, "numpy.signedinteger", "numpy.integer", "numpy.number", "numpy.generic"]
  else if ty = "numpy.uint64" ∨ ty = "numpy.uint32" ∨ ty = "numpy.uint16" ∨ ty = "numpy.uint8" then
    [ty, "numpy.unsignedinteger", "numpy.integer", "numpy.number", "numpy.generic"]
  else if ty = "numpy.bool" ∨ ty = "numpy.bool_" then [ty, "numpy.generic"]
  else [ty]

/-- **The test in front of the Unix-seconds branch**, with the class table and the way it is consulted read from the source on
this run: `input_type in (…)` admits exactly the listed classes (`Gen.Iso.epochBySubclass = false`); `isinstance(value, (…))`
admits their subclasses too. -/
def epochAdmits (ty : String) : Bool :=
  if Gen.Iso.epochBySubclass then (mro ty).any Gen.Iso.epochTypes.contains else Gen.Iso.epochTypes.contains ty

def epoch (tyName : String) (n : Except Exc Int) : Except Exc (Option DateTime) :=
  if epochAdmits tyName then
    n.bind fun k => (fromTimestamp k).bind fun dt => .ok (some dt)
  else .ok none

/-- `str` input (also reached by decoded bytes): the `isdigit` branch, then the string branch —
the program generated from the source on this run. -/
def strBody (s : List Char) : Except Exc (Option DateTime) :=
  if isDigitStr s then epoch "int" (pyInt s) else Gen.IsoText.textBranch s

/-- The same with the hand-written skeleton in place of the generated program (what the lemmas
reason about; equal to `strBody` by `C08.text_branch_refines_skeleton`; also run by the driver so
that a text on which the code has moved away from the skeleton is reported concretely). -/
def strBodySkel (s : List Char) : Except Exc (Option DateTime) :=
  if isDigitStr s then epoch "int" (pyInt s) else textPath s

/-- The body of the `try`. -/
def body : Input → Except Exc (Option DateTime)
  | .other => .ok none
  | .time .. => .ok none
  | .strSub _ => .ok none
  | .date y m d => .ok (some ⟨y, m, d, 0, 0, 0, 0⟩)
  | .datetime dt => .ok (some { dt with micro := 0 })
  | .int n => epoch "int" (.ok n)
  | .npInt n => epoch "numpy.int64" (.ok n)
  | .num ty n => epoch ty (.ok n)
  | .float b => epoch "float" (intOfFloat b)
  | .npFloat b => epoch "numpy.float64" (intOfFloat b)
  | .bytes b =>
    match decodeUtf8 b with
    | none => .error .unicodeDecodeError
    | some s => strBody s
  | .str s => strBody s

/-- The body under `except <caught>: return None`. -/
def parseIsoWith (caught : List String) (i : Input) : Outcome :=
  match body i with
  | .ok (some dt) => .value dt
  | .ok none => .none
  | .error e => if caughtBy caught e then .none else .raises e

/-- `parse_iso(value)` with the `except` tuple of the current source. -/
def parseIso (i : Input) : Outcome := parseIsoWith Gen.Iso.caught i

/-- `parse_iso` of a text with the skeleton string branch. -/
def parseTextSkel (s : List Char) : Outcome :=
  match strBodySkel s with
  | .ok (some dt) => .value dt
  | .ok none => .none
  | .error e => if caughtBy Gen.Iso.caught e then .none else .raises e

/-! ## The casts (`orso/types.py:303-314,347-351`) -/

inductive CastKind where
  | date | time | timestamp
  deriving DecidableEq, Repr

inductive CastOut where
  | date (y m d : Nat)
  | time (H M S us : Nat)
  | timestamp (dt : DateTime)
  | raises (e : Exc)
  deriving DecidableEq, Repr

/-- `datetime.time.fromisoformat(s)` as the TIME cast uses it: the time of day, else `ValueError`. -/
def timeOfDay (s : List Char) : CastOut :=
  match timeFromIso s with
  | .ok t => .time t.hour t.minute t.second t.micro
  | .error _ => .raises .valueError

/-- **Specification form of the three casts** (`parse_date`, `parse_time`, `parse_timestamp`).
The programs translated from the source on every run are `Gen.IsoCast.*`; `Iso.castRun`
(`Model/IsoCast.lean`) runs them and `C08.cast_programs_refine_spec` proves, on every run, that they
compute this function on every input.

* `parse_time` returns a value that already is a `datetime.time` unchanged, before the parser is consulted;
* otherwise the parser's value gives its date / its time of day / itself;
* when the parser yields `None`, DATE and TIMESTAMP raise `ValueError`; TIME hands text (a `str`, an
  instance of a `str` subclass, or decodable `bytes`) to `datetime.time.fromisoformat` — a time of
  day written on its own — and raises `ValueError` when that fails too, or for any other object. -/
def cast (k : CastKind) (i : Input) : CastOut :=
  match k, i with
  | .time, .time H M S us => .time H M S us
  | _, _ =>
    match parseIso i with
    | .raises e => .raises e
    | .none =>
      match k, i with
      | .time, .str s => timeOfDay s
      | .time, .strSub s => timeOfDay s
      | .time, .bytes b =>
        match decodeUtf8 b with
        | some s => timeOfDay s
        | none => .raises .valueError
      | _, _ => .raises .valueError
    | .value dt =>
      match k with
      | .date => .date dt.year dt.month dt.day
      | .time => .time dt.hour dt.minute dt.second dt.micro
      | .timestamp => .timestamp dt

end Iso
