import OrsoVerif.Model.SchemaHeap
/-!
# C17 — column objects that are edited between two operations of a schema; the augmented sum

`Model/SchemaOps.lean` treats a column as a value.  On the Python side a `FlatColumn` is an *object* that every schema
listing it shares, and a caller may change it between two lookups: rename it, give it another alias list, or edit the
alias list **in place** (`aliases.append(x)`, `.remove(x)`, `.insert(0, x)`, `aliases[0] = x`, `del aliases[0]`,
`.clear()`, `aliases += [..]`, `.reverse()`), which keeps the very same list object.  The column's state is its current
name and its current alias list; every lookup has to read that.

* `Edit`, `Edit.apply`, `editRegs`, `EOp` / `estep` / `erun` — the machine of `Model/SchemaOps.lean` (`irun`) with one more
  operation, `edit t e`: the column object `t` is edited, in every schema that lists it (what the driver runs);
* `Cell`, `Cell.read` — one column object as `FlatColumn.all_names` sees it when it *keeps its result on the column*
  (a memo): the alias list is an object of its own (`aref`, new only when the list is replaced), the memo remembers the
  name, the list object, a copy of its content and the combined list.  How the memo is revalidated is read from the
  source on every run (`Gen.SchemaOps.allNamesMemo`: `none` = no memo; `some (checksName, "object" | "copy" |
  "unchecked")`).
* `haug` — `a += b` on the heap of `Model/SchemaHeap.lean`: Python evaluates it as `a = a.__iadd__(b)` when the class
  defines `__iadd__` and as `a = a.__add__(b)` when it does not (`Gen.SchemaOps.augmentedInPlace`, re-read every run).
-/
namespace SchemaOps
variable {ι ν : Type} [DecidableEq ι] [DecidableEq ν]

/-- What a caller may do to a column object. -/
inductive Edit (ν : Type) where
  | append (x : ν)
  | remove (x : ν)      -- the first occurrence, nothing when absent
  | insert (x : ν)      -- `aliases.insert(0, x)`
  | setitem (x : ν)     -- `aliases[0] = x` (nothing on an empty list)
  | delitem             -- `del aliases[0]` (nothing on an empty list)
  | clear
  | extend (xs : List ν) -- `aliases += xs`
  | reverse
  | replace (as : Option (List ν))   -- `column.aliases = <another list object>` / `None`
  | rename (x : ν)
  deriving DecidableEq, Repr

/-- the alias list after an in-place edit -/
def Edit.onList : Edit ν → List ν → List ν
  | .append x, l => l ++ [x]
  | .remove x, l => l.erase x
  | .insert x, l => x :: l
  | .setitem x, l => match l with
    | [] => []
    | _ :: t => x :: t
  | .delitem, l => l.drop 1
  | .clear, _ => []
  | .extend xs, l => l ++ xs
  | .reverse, l => l.reverse
  | .replace _, l => l
  | .rename _, l => l

/-- name and aliases after an edit (an in-place edit of `None` is not a legal program; it does nothing here) -/
def Edit.onNA (e : Edit ν) (n : ν) (as : Option (List ν)) : ν × Option (List ν) :=
  match e with
  | .replace as' => (n, as')
  | .rename x => (x, as)
  | e => (n, as.map e.onList)

def Edit.apply (e : Edit ν) (c : Col ι ν) : Col ι ν :=
  { c with name := (e.onNA c.name c.aliases).1, aliases := (e.onNA c.name c.aliases).2 }

/-- the column object `t` is edited: every schema that lists it sees it -/
def editRegs (t : Nat) (e : Edit ν) (regs : List (Schema ι ν)) : List (Schema ι ν) :=
  regs.map fun s => { s with columns := s.columns.map fun c => if c.tag = t then e.apply c else c }

inductive EOp (ν : Type) where
  | io (op : IOp ν)
  | edit (t : Nat) (e : Edit ν)
  deriving DecidableEq, Repr

inductive EOut (ι ν : Type) where
  | io (o : IOut ι ν)
  | edited

def estep (src : Schema ι ν → IterSrc ι ν) (lower : ν → ν) (st : ISt ι ν) : EOp ν → Option (ISt ι ν × EOut ι ν)
  | .io op => (istep src lower st op).map fun r => (r.1, .io r.2)
  | .edit t e => some ({ st with regs := editRegs t e st.regs }, .edited)

def erun (src : Schema ι ν → IterSrc ι ν) (lower : ν → ν) (st : ISt ι ν) : List (EOp ν) → Option (ISt ι ν × List (EOut ι ν))
  | [] => some (st, [])
  | op :: ops =>
    match estep src lower st op with
    | none => none
    | some (st1, o) =>
      match erun src lower st1 ops with
      | none => none
      | some (st2, os) => some (st2, o :: os)

/-! ## `all_names` with a memo kept on the column -/

/-- `all_names` of a column that has this name and these aliases (`Col.allNames`). -/
def namesOf (name : ν) (aliases : Option (List ν)) : List ν :=
  match aliases with
  | some as => if Gen.SchemaOps.aliasesFirst then as ++ [name] else [name] ++ as
  | none => [name]

/-- What a memo remembers: the name, *which list object* the aliases were, a copy of that list's content, the result. -/
structure Memo (ν : Type) where
  name : ν
  aref : Nat
  copy : Option (List ν)
  names : List ν

/-- A column object: current name, current alias list (an object: `aref` changes only when the list is replaced), and
what an earlier `all_names` left on it. -/
structure Cell (ν : Type) where
  name : ν
  aliases : Option (List ν)
  aref : Nat
  memo : Option (Memo ν)

def Cell.edit (e : Edit ν) (c : Cell ν) : Cell ν :=
  { c with name := (e.onNA c.name c.aliases).1, aliases := (e.onNA c.name c.aliases).2,
           aref := match e with
             | .replace _ => c.aref + 1
             | _ => c.aref }

/-- Is the memo still believed?  `p.1`: the name is compared; `p.2`: the aliases are compared as the list *object*
(`cached is self.aliases`, or `==` against a stored reference to the same list — an in-place edit changes both sides
alike), as a *copy* of the content compared by value, or not at all. -/
def memoValid (p : Bool × String) (c : Cell ν) (m : Memo ν) : Bool :=
  (!p.1 || decide (m.name = c.name)) &&
  (if p.2 = "copy" then decide (m.copy = c.aliases) else if p.2 = "object" then decide (m.aref = c.aref) else true)

def Cell.remember (c : Cell ν) : Cell ν :=
  { c with memo := some { name := c.name, aref := c.aref, copy := c.aliases, names := namesOf c.name c.aliases } }

/-- `column.all_names` under a memo policy (`none`: computed afresh at every call). -/
def Cell.read (p : Option (Bool × String)) (c : Cell ν) : List ν × Cell ν :=
  match p, c.memo with
  | some p, some m => if memoValid p c m then (m.names, c) else (namesOf c.name c.aliases, c.remember)
  | some _, none => (namesOf c.name c.aliases, c.remember)
  | none, _ => (namesOf c.name c.aliases, c)

/-- A history on one column object: `none` = `all_names` is read (a lookup passes by), `some e` = an edit.
The answers of the reads. -/
def Cell.run (p : Option (Bool × String)) (c : Cell ν) : List (Option (Edit ν)) → List (List ν)
  | [] => []
  | none :: rest => (c.read p).1 :: Cell.run p (c.read p).2 rest
  | some e :: rest => Cell.run p (c.edit e) rest

/-- What the reads have to answer: the names of the column *as it is then*. -/
def namesAlong (n : ν) (as : Option (List ν)) : List (Option (Edit ν)) → List (List ν)
  | [] => []
  | none :: rest => namesOf n as :: namesAlong n as rest
  | some e :: rest => namesAlong (e.onNA n as).1 (e.onNA n as).2 rest

end SchemaOps

namespace SchemaHeap
open SchemaOps
variable {ι ν : Type} [DecidableEq ι] [DecidableEq ν]

/-- `regs[i] += regs[j]`, the name then bound to a new register.  Python: `a = a.__iadd__(b)` if the class defines
`__iadd__` — `inPlace`: that method extends `a`'s own column list and returns `a` — else `a = a.__add__(b)`. -/
def haug (inPlace copies : Bool) (lower : ν → ν) (st : St ι ν) (i j : Nat) : Option (St ι ν × POut ι ν) :=
  hstep (copies && !inPlace) lower st (.add i j)

end SchemaHeap
