import OrsoVerif.Generated.DisplayExpr
/-!
# C18 — rendering a DataFrame as a text table (`orso/display.py`)

Import-free executable model of `ascii_table` **as repaired** (see `findings/C18.json`):

1. row selection and labelling (`display.py:183-203` selection, `:388-416` labelling; line numbers
   are those of the repaired file) for eager
   and lazily backed frames, with the pinned eager label arithmetic kept as `fixed := false`;
2. text primitives: `str.ljust/rjust/center`, the escape-skipping state machine of
   `trunc_printable` (`:314-338`), printed width `pwidth` measured with the same machine;
3. `type_formatter` (`:235-307`) over a closed enumeration of cell kinds, with `bytes.decode`
   as an explicit step that fails in strict mode (pinned) and is total in replace mode (repaired);
4. column-width arithmetic (`:342-363`), box / header / type / data lines (`:366-417`) and the
   final per-line truncation to the display width (`:419-422`).

The control-flow skeleton is written by hand; the **arithmetic** (thresholds, guards, label shifts,
width formulas, paddings, divisors) enters through a record `Arith`.  `srcArith` is built from
`Generated/DisplayExpr.lean`, i.e. from the expressions the source contains on this run (translated
from the AST by `harness/extractors/displayexpr.py`); it is what the driver executes.  `specArith` is
the reference arithmetic the lemmas are proved for; `Props/C18.lean` proves, expression by expression,
that the two coincide (`src_*` theorems) — so a changed operator or constant in `display.py` breaks a
named theorem.  `pinnedArith` keeps the two pinned defects for the counterexample lemmas.

Parameters (compared by the harness, not modelled): Python's `str()` of floats, decimals, dates,
containers and arbitrary objects (they arrive as text), `len(str(v))` of those values, and the
East-Asian width table behind `character_width` (the function `cw`).
-/
namespace Display

abbrev Str := List Char

def natStr (n : Nat) : Str := Nat.toDigits 10 n
def intStr (i : Int) : Str := if i < 0 then '-' :: natStr i.natAbs else natStr i.natAbs

/-! ## 0. The arithmetic of `display.py` as a parameter -/

/-- Every arithmetic expression of `ascii_table`, `trunc_printable`, `markdown` and the interval
formatter that the property depends on.  Argument order is given in the comments. -/
@[ext] structure Arith where
  headTail : Nat → Nat → Bool              -- n limit        `table.rowcount >= 2*limit + 1`
  lazyLenInit : Nat                        --                `lazy_length = 0`
  lazyLenUpd : Nat → Nat → Nat             -- ll len(head)   `lazy_length += len(head) + 1`
  lazyHeadOnly : Nat → Nat                 -- t.rowcount     `lazy_length = t.rowcount` (head-only)
  idxLazy : Nat → Nat                      -- ll             `len(str(lazy_length + 1)) + 2`
  idxEager : Nat → Nat                     -- n              `len(str(len(table))) + 2`
  colWidth : Nat → Nat → Nat → Nat → Nat   -- cw ctw dw max  `min(max(cw, ctw, dw), max_column_width)`
  measure : Nat → Nat → Nat                -- t.rowcount lim how many rows of `t` `calculate_data_width(t.collect(i))` measures
  lazyHeadOnlyTake : Nat → Nat             -- limit          `islice(table._rows, limit)` (head-only)
  lazyHeadTake : Nat → Nat                 -- limit          `head = list(islice(table._rows, limit))`
  dequeMax : Nat → Nat                     -- limit          `deque(maxlen=limit)`
  eagerHeadSize : Nat → Nat                -- limit          `table.head(size=limit)`
  eagerTailSize : Nat → Nat                -- limit          `table.tail(size=limit)`
  eagerSliceLen : Nat → Nat                -- limit          `table.slice(length=limit)`
  eagerSplit : Nat → Nat → Bool            -- n limit        `table.rowcount > 2*limit`
  eagerAtEll : Nat → Nat → Bool            -- i limit        `i == limit`
  eagerInTail : Nat → Nat → Bool           -- i limit        `i >= limit`
  eagerShift : Nat → Nat → Nat → Nat → Nat -- i n tlen limit `i += table.rowcount - 2*limit`
  eagerLabel : Nat → Nat                   -- i              `str(i + 1)`
  labelPad : Nat → Nat                     -- index_width    `.rjust(index_width - 1)`
  lazyOffset0 : Nat                        --                `offset = 1`
  lazyEll : Nat → Nat → Nat → Bool         -- i limit ll     `i == limit and lazy_length > 2*limit`
  lazyOffsetUpd : Nat → Nat → Nat → Nat    -- offset ll lim  `offset += lazy_length - 2*limit`
  lazyLabel : Nat → Nat → Nat              -- i offset       `str(i + offset)`
  truncStop : Nat → Nat → Bool             -- offset width   `offset >= width`
  truncPad : Nat → Nat → Nat               -- width offset   `" " * (width - offset)`
  truncNl : Nat → Nat                      -- offset         `offset += 1` (line break)
  mdIdx : Nat → Nat                        -- n              markdown `len(str(len(table)))`
  mdColWidth : Nat → Nat → Nat → Nat       -- cw dw max      markdown `min(max(cw, dw), max_column_width)`
  mdHeadPad : Nat → Nat                    -- index_width    markdown `" " * (index_width - 2)`
  mdSepLen : Nat → Nat                     -- index_width    markdown `"-" * index_width`
  mdLabel : Nat → Nat                      -- i              markdown `str(i + 1)`
  mdLabelPad : Nat → Nat                   -- index_width    markdown `.rjust(index_width - 1)`
  mdFloor : Nat                            --                markdown data-width floor `[4]`
  hourDiv : Int                            --                `divmod(seconds, 3600)`
  minuteDiv : Int                          --                `divmod(seconds, 60)`
  monthDiv : Int                           --                `divmod(months, 12)`

/-- `len(str(x))` for the non-negative integers the width formulas are applied to. -/
def digitsI (x : Int) : Int := ((natStr x.toNat).length : Int)

open Gen.DisplayExpr in
/-- **The arithmetic the source contains now** (Python ints are Lean `Int`s; the skeleton works on
naturals — counts and widths — so results are brought back with `toNat`, which is also what
`" " * negative` and `str.rjust(negative)` do). -/
def srcArith : Arith where
  headTail n limit := decide (headTailTest (n : Int) (limit : Int))
  lazyLenInit := lazyLenInit.toNat
  lazyLenUpd ll h := (lazyLenUpdate (ll : Int) (h : Int)).toNat
  lazyHeadOnly tlen := (lazyHeadOnlyLen (tlen : Int)).toNat
  idxLazy ll := (idxWidthLazy digitsI (ll : Int)).toNat
  idxEager n := (idxWidthEager digitsI (n : Int)).toNat
  colWidth cw ctw dw m := (Gen.DisplayExpr.colWidth (cw : Int) (ctw : Int) (dw : Int) (m : Int)).toNat
  measure tlen limit := (measureRows (tlen : Int) (limit : Int)).toNat
  lazyHeadOnlyTake limit := (Gen.DisplayExpr.lazyHeadOnlyTake (limit : Int)).toNat
  lazyHeadTake limit := (Gen.DisplayExpr.lazyHeadTake (limit : Int)).toNat
  dequeMax limit := (Gen.DisplayExpr.dequeMax (limit : Int)).toNat
  eagerHeadSize limit := (Gen.DisplayExpr.eagerHeadSize (limit : Int)).toNat
  eagerTailSize limit := (Gen.DisplayExpr.eagerTailSize (limit : Int)).toNat
  eagerSliceLen limit := (Gen.DisplayExpr.eagerSliceLen (limit : Int)).toNat
  eagerSplit n limit := decide (eagerSplitTest (n : Int) (limit : Int))
  eagerAtEll i limit := decide (eagerEllipsisTest (i : Int) (limit : Int))
  eagerInTail i limit := decide (eagerTailTest (i : Int) (limit : Int))
  eagerShift i n tlen limit := (Gen.DisplayExpr.eagerShift (i : Int) (n : Int) (tlen : Int) (limit : Int)).toNat
  eagerLabel i := (Gen.DisplayExpr.eagerLabel (i : Int)).toNat
  labelPad iw := (Gen.DisplayExpr.labelPad (iw : Int)).toNat
  lazyOffset0 := lazyOffsetInit.toNat
  lazyEll i limit ll := decide (lazyEllipsisTest (i : Int) (limit : Int) (ll : Int))
  lazyOffsetUpd off ll limit := (lazyOffsetUpdate (off : Int) (ll : Int) (limit : Int)).toNat
  lazyLabel i off := (Gen.DisplayExpr.lazyLabel (i : Int) (off : Int)).toNat
  truncStop off w := decide (truncStopTest (off : Int) (w : Int))
  truncPad w off := (Gen.DisplayExpr.truncPad (w : Int) (off : Int)).toNat
  truncNl off := (truncNewlineStep (off : Int)).toNat
  mdIdx n := (mdIdxWidth digitsI (n : Int)).toNat
  mdColWidth cw dw m := (Gen.DisplayExpr.mdColWidth (cw : Int) (dw : Int) (m : Int)).toNat
  mdHeadPad iw := (Gen.DisplayExpr.mdHeadPad (iw : Int)).toNat
  mdSepLen iw := (Gen.DisplayExpr.mdSepLen (iw : Int)).toNat
  mdLabel i := (Gen.DisplayExpr.mdLabel (i : Int)).toNat
  mdLabelPad iw := (Gen.DisplayExpr.mdLabelPad (iw : Int)).toNat
  mdFloor := Gen.DisplayExpr.mdFloor.toNat
  hourDiv := Gen.DisplayExpr.hourDiv
  minuteDiv := Gen.DisplayExpr.minuteDiv
  monthDiv := Gen.DisplayExpr.monthDiv

/-- **The reference arithmetic** (what `display.py` is meant to compute, on naturals). -/
def specArith : Arith where
  headTail n limit := decide (2 * limit + 1 ≤ n)
  lazyLenInit := 0
  lazyLenUpd ll h := ll + (h + 1)
  lazyHeadOnly tlen := tlen
  idxLazy ll := (natStr (ll + 1)).length + 2
  idxEager n := (natStr n).length + 2
  colWidth cw ctw dw m := min (max (max cw ctw) dw) m
  measure tlen _ := tlen
  lazyHeadOnlyTake limit := limit
  lazyHeadTake limit := limit
  dequeMax limit := limit
  eagerHeadSize limit := limit
  eagerTailSize limit := limit
  eagerSliceLen limit := limit
  eagerSplit n limit := decide (2 * limit < n)
  eagerAtEll i limit := decide (i = limit)
  eagerInTail i limit := decide (limit ≤ i)
  eagerShift i n _ limit := i + n - 2 * limit
  eagerLabel i := i + 1
  labelPad iw := iw - 1
  lazyOffset0 := 1
  lazyEll i limit ll := decide (i = limit ∧ 2 * limit < ll)
  lazyOffsetUpd off ll limit := off + ll - 2 * limit
  lazyLabel i off := i + off
  truncStop off w := decide (w ≤ off)
  truncPad w off := w - off
  truncNl off := off + 1
  mdIdx n := (natStr n).length
  mdColWidth cw dw m := min (max cw dw) m
  mdHeadPad iw := iw - 2
  mdSepLen iw := iw
  mdLabel i := i + 1
  mdLabelPad iw := iw - 1
  mdFloor := 4
  hourDiv := 3600
  minuteDiv := 60
  monthDiv := 12

/-- The two arithmetic defects of the pinned tree: the eager label shift uses `t.rowcount` (the cut
frame) and `lazy_length` stays 0 in head-only mode. -/
def pinnedArith : Arith :=
  { specArith with
    eagerShift := fun i _ tlen limit => i + (tlen - 2 * limit)
    lazyHeadOnly := fun _ => 0 }

/-! ## 1. Row selection -/

inductive Line (α : Type) where
  | data (label : Nat) (row : α)
  | ellipsis
  deriving Repr, DecidableEq

variable {α : Type}

/-- Python index normalisation for `seq[a:b]` on a sequence of length `n`. -/
def pyIdx (n : Nat) (i : Int) : Nat :=
  if i < 0 then (i + n).toNat else min i.toNat n

/-- Python `rows[a:b]`. -/
def pySlice (rows : List α) (a b : Int) : List α :=
  (rows.take (pyIdx rows.length b)).drop (pyIdx rows.length a)

/-- `DataFrame.slice(offset, length)` (`dataframe.py:243-251`). -/
def dfSlice (rows : List α) (offset : Int) (length : Option Nat) : List α :=
  let offset := if offset < 0 then (rows.length : Int) + offset else offset
  match length with
  | none => rows.drop (pyIdx rows.length offset)
  | some l => if l = 0 then [] else pySlice rows offset (offset + l)

/-- `DataFrame.head(size)` / `DataFrame.tail(size)` (`dataframe.py:143-147`). -/
def dfHead (rows : List α) (size : Nat) : List α := dfSlice rows 0 (some size)
def dfTail (rows : List α) (size : Nat) : List α := dfSlice rows (0 - (size : Int)) (some size)

/-- The cut frame `t` of an eager table (`display.py:183-203`, `is_lazy = False`). -/
def eagerCut (A : Arith) (rows : List α) (limit : Nat) (tt : Bool) : List α :=
  if 0 < limit ∧ tt = false then dfSlice rows 0 (some (A.eagerSliceLen limit))                 -- :187
  else if 0 < limit ∧ tt = true then
    if A.headTail rows.length limit then dfHead rows (A.eagerHeadSize limit) ++ dfTail rows (A.eagerTailSize limit)   -- :190-191
    else rows                                                                     -- :200-201
  else rows                                                                       -- :202-203

/-- The lines produced for row `i` of the cut frame of an eager table (`display.py:403-416`).
`n` = `table.rowcount`, `tlen` = `t.rowcount`. -/
def eagerLineAt (A : Arith) (n tlen limit : Nat) (tt : Bool) (i : Nat) (row : α) : List (Line α) :=
  if tt = true ∧ A.eagerSplit n limit = true then
    (if A.eagerAtEll i limit then [Line.ellipsis] else []) ++
      [Line.data (A.eagerLabel (if A.eagerInTail i limit then A.eagerShift i n tlen limit else i)) row]
  else [Line.data (A.eagerLabel i) row]

/-- `for i, row in enumerate(t)` of the eager branch. -/
def eagerGo (A : Arith) (n tlen limit : Nat) (tt : Bool) : Nat → List α → List (Line α)
  | _, [] => []
  | i, row :: rest => eagerLineAt A n tlen limit tt i row ++ eagerGo A n tlen limit tt (i + 1) rest

def eagerLines (A : Arith) (rows : List α) (limit : Nat) (tt : Bool) : List (Line α) :=
  let t := eagerCut A rows limit tt
  eagerGo A rows.length t.length limit tt 0 t

/-- `collections.deque(maxlen=m).append(x)`. -/
def dequePush (maxlen : Nat) (d : List α) (x : α) : List α :=
  if maxlen < (d ++ [x]).length then (d ++ [x]).drop 1 else d ++ [x]

/-- The cut frame and `lazy_length` of a lazily backed table (`display.py:184-186, 192-199`).
`rows` is what the generator will yield.  `islice` takes the head; the `for … enumerate` loop
runs over the rows that REMAIN, pushing into a bounded deque, and leaves `lazy_length` at the
index of the last remaining row (its initial value when none remain); then
`lazy_length += len(head) + 1`. -/
def lazySelect (A : Arith) (rows : List α) (limit : Nat) (tt : Bool) : List α × Nat :=
  if 0 < limit ∧ tt = false then
    let t := rows.take (A.lazyHeadOnlyTake limit)
    (t, A.lazyHeadOnly t.length)
  else if 0 < limit ∧ tt = true then
    let head := rows.take (A.lazyHeadTake limit)
    let rest := rows.drop (A.lazyHeadTake limit)
    let tail := rest.foldl (dequePush (A.dequeMax limit)) []
    let ll := if rest.isEmpty then A.lazyLenInit else rest.length - 1
    (head ++ tail, A.lazyLenUpd ll head.length)
  else (rows, A.lazyLenInit)

/-- `for i, row in enumerate(t)` of the lazy branch, with the running `offset` (`display.py:388-401`). -/
def lazyGo (A : Arith) (limit ll : Nat) : Nat → Nat → List α → List (Line α)
  | _, _, [] => []
  | i, offset, row :: rest =>
    if A.lazyEll i limit ll then
      Line.ellipsis :: Line.data (A.lazyLabel i (A.lazyOffsetUpd offset ll limit)) row
        :: lazyGo A limit ll (i + 1) (A.lazyOffsetUpd offset ll limit) rest
    else Line.data (A.lazyLabel i offset) row :: lazyGo A limit ll (i + 1) offset rest

def lazyLines (A : Arith) (rows : List α) (limit : Nat) (tt : Bool) : List (Line α) :=
  lazyGo A limit (lazySelect A rows limit tt).2 0 A.lazyOffset0 (lazySelect A rows limit tt).1

/-- The cut frame `t`. -/
def cutRows (A : Arith) (rows : List α) (limit : Nat) (tt lazy : Bool) : List α :=
  if lazy then (lazySelect A rows limit tt).1 else eagerCut A rows limit tt

/-- Data and ellipsis lines of the table, in order. -/
def visibleRows (A : Arith) (rows : List α) (limit : Nat) (tt lazy : Bool) : List (Line α) :=
  if lazy then lazyLines A rows limit tt else eagerLines A rows limit tt

/-- Index form: the frame has `n` rows, a row is identified by its 0-based position. -/
def visible (A : Arith) (n limit : Nat) (tt lazy : Bool) : List (Line Nat) :=
  visibleRows A (List.range n) limit tt lazy

/-- Reference labelling: consecutive labels starting at `k`. -/
def labelFrom : Nat → List α → List (Line α)
  | _, [] => []
  | k, r :: rs => Line.data k r :: labelFrom (k + 1) rs

def isEllipsis : Line α → Bool
  | .ellipsis => true
  | _ => false

/-! ## 2. Text primitives -/

/-- width of the index column (`display.py:206`). -/
def indexWidth (A : Arith) (n limit : Nat) (tt lazy : Bool) (rows : List α) : Nat :=
  if lazy then A.idxLazy (lazySelect A rows limit tt).2 else A.idxEager n

def spaces (n : Nat) : Str := List.replicate n ' '
def ljust (w : Nat) (s : Str) : Str := s ++ spaces (w - s.length)
def rjust (w : Nat) (s : Str) : Str := spaces (w - s.length) ++ s
/-- CPython `str.center`: `left = marg/2 + (marg & width & 1)`. -/
def center (w : Nat) (s : Str) : Str :=
  let marg := w - s.length
  let left := marg / 2 + (if marg % 2 = 1 ∧ w % 2 = 1 then 1 else 0)
  spaces left ++ s ++ spaces (marg - left)

def joinWith (sep : Str) : List Str → Str
  | [] => []
  | [x] => x
  | x :: y :: rest => x ++ sep ++ joinWith sep (y :: rest)

-- colour tokens used by `ascii_table` (keys of `COLORS`)
def T_OFF : Str := ['\x01', 'O', 'F', 'F', 'm']
def T_NULL : Str := ['\x01', 'N', 'U', 'L', 'L', 'm']
def T_CONST : Str := ['\x01', 'C', 'O', 'N', 'S', 'T', 'm']
def T_INTEGER : Str := ['\x01', 'I', 'N', 'T', 'E', 'G', 'E', 'R', 'm']
def T_FLOAT : Str := ['\x01', 'F', 'L', 'O', 'A', 'T', 'm']
def T_VARCHAR : Str := ['\x01', 'V', 'A', 'R', 'C', 'H', 'A', 'R', 'm']
def T_DATE : Str := ['\x01', 'D', 'A', 'T', 'E', 'm']
def T_TIME : Str := ['\x01', 'T', 'I', 'M', 'E', 'm']
def T_BLOB : Str := ['\x01', 'B', 'L', 'O', 'B', 'm']
def T_PUNC : Str := ['\x01', 'P', 'U', 'N', 'C', 'm']
def T_KEY : Str := ['\x01', 'K', 'E', 'Y', 'm']
def T_VALUE : Str := ['\x01', 'V', 'A', 'L', 'U', 'E', 'm']
def T_INTERVAL : Str := ['\x01', 'I', 'N', 'T', 'E', 'R', 'V', 'A', 'L', 'm']
def T_HEAD : Str := ['\x01', 'H', 'E', 'A', 'D', 'm']
def T_TYPE : Str := ['\x01', 'T', 'Y', 'P', 'E', 'm']
def T_CRLF : Str := ['\x01', 'C', 'R', 'L', 'F', 'm']
def usedTokens : List Str :=
  [T_OFF, T_NULL, T_CONST, T_INTEGER, T_FLOAT, T_VARCHAR, T_DATE, T_TIME, T_BLOB, T_PUNC, T_KEY,
   T_VALUE, T_INTERVAL, T_HEAD, T_TYPE, T_CRLF]

def isEsc (c : Char) : Bool := c == '\x1b' || c == '\x01'

/-- One character of the escape-skipping machine of `trunc_printable` (`display.py:327-332`):
the new `ignoring` flag and whether the character is counted as printed. -/
def scanStep (ign : Bool) (c : Char) : Bool × Bool :=
  let ign1 := ign || isEsc c
  (if ign1 && c == 'm' then false else ign1, !ign1)

/-- Printed characters of `s` and the final `ignoring` flag, starting with flag `ign`. -/
def scan : Bool → Str → Nat × Bool
  | ign, [] => (0, ign)
  | ign, c :: cs =>
    ((if (scanStep ign c).2 then 1 else 0) + (scan (scanStep ign c).1 cs).1, (scan (scanStep ign c).1 cs).2)

/-- Printed width: characters outside `\x01…m` tokens and `\x1b…m` escape sequences. -/
def pwidth (s : Str) : Nat := (scan false s).1

/-- The loop of `trunc_printable(value, width, full_line)` (`display.py:314-338`); the emitted
text is only ever appended to, so it is returned directly. -/
def truncGo (A : Arith) (cw : Char → Nat) (width : Nat) (full : Bool) : Str → Nat → Bool → Str
  | [], offset, _ => T_OFF ++ (if full then spaces (A.truncPad width offset) else [])
  | c :: cs, offset, ign =>
    if c = '\n' then T_CRLF ++ ['↵'] ++ T_VARCHAR ++ truncGo A cw width full cs (A.truncNl offset) ign
    else if c = '\r' then truncGo A cw width full cs offset ign
    else
      let ign1 := ign || isEsc c
      let offset1 := if ign1 then offset else offset + cw c
      let ign2 := if ign1 && c == 'm' then false else ign1
      if !ign2 && A.truncStop offset1 width then c :: T_OFF
      else c :: truncGo A cw width full cs offset1 ign2

def truncPrintable (A : Arith) (cw : Char → Nat) (value : Str) (width : Nat) (full : Bool) : Str :=
  truncGo A cw width full value 0 false

/-! ## 3. UTF-8 decoding (`bytes.decode("utf-8", errors=…)`, CPython's error spans) -/

inductive Err where
  | unicodeDecode
  deriving Repr, DecidableEq

def isCont (b : UInt8) : Bool := 0x80 ≤ b && b ≤ 0xBF
def second3 (b0 b1 : UInt8) : Bool :=
  if b0 = 0xE0 then 0xA0 ≤ b1 && b1 ≤ 0xBF else if b0 = 0xED then 0x80 ≤ b1 && b1 ≤ 0x9F else isCont b1
def second4 (b0 b1 : UInt8) : Bool :=
  if b0 = 0xF0 then 0x90 ≤ b1 && b1 ≤ 0xBF else if b0 = 0xF4 then 0x80 ≤ b1 && b1 ≤ 0x8F else isCont b1

def replacement : Char := Char.ofNat 0xFFFD

def consOk (c : Char) : Except Err Str → Except Err Str
  | .ok s => .ok (c :: s)
  | .error e => .error e

/-- `strict = true`: `errors="strict"` (the pinned call); `false`: `errors="replace"`.  An invalid
sequence is replaced as one U+FFFD covering its longest valid prefix (at least one byte), and
decoding resumes at the offending byte; a truncated sequence at the end is one U+FFFD. -/
def utf8Go (strict : Bool) : Nat → List UInt8 → Except Err Str
  | 0, _ => .ok []
  | _, [] => .ok []
  | fuel + 1, b0 :: rest =>
    let emit (c : Char) (r : List UInt8) : Except Err Str := consOk c (utf8Go strict fuel r)
    let bad (r : List UInt8) : Except Err Str :=
      if strict then .error .unicodeDecode else emit replacement r
    if b0 < 0x80 then emit (Char.ofNat b0.toNat) rest
    else if b0 < 0xC2 then bad rest
    else if b0 < 0xE0 then
      match rest with
      | [] => bad []
      | b1 :: r1 =>
        if isCont b1 then emit (Char.ofNat ((b0.toNat - 0xC0) * 64 + (b1.toNat - 0x80))) r1 else bad rest
    else if b0 < 0xF0 then
      match rest with
      | [] => bad []
      | b1 :: r1 =>
        if !second3 b0 b1 then bad rest else
        match r1 with
        | [] => bad []
        | b2 :: r2 =>
          if isCont b2 then
            emit (Char.ofNat ((b0.toNat - 0xE0) * 4096 + (b1.toNat - 0x80) * 64 + (b2.toNat - 0x80))) r2
          else bad r1
    else if b0 < 0xF5 then
      match rest with
      | [] => bad []
      | b1 :: r1 =>
        if !second4 b0 b1 then bad rest else
        match r1 with
        | [] => bad []
        | b2 :: r2 =>
          if !isCont b2 then bad r1 else
          match r2 with
          | [] => bad []
          | b3 :: r3 =>
            if isCont b3 then
              emit (Char.ofNat ((b0.toNat - 0xF0) * 262144 + (b1.toNat - 0x80) * 4096
                + (b2.toNat - 0x80) * 64 + (b3.toNat - 0x80))) r3
            else bad r2
    else bad rest

def utf8Decode (strict : Bool) (bs : List UInt8) : Except Err Str := utf8Go strict (bs.length + 1) bs

/-! ## 4. Cells and `type_formatter` -/

/-- Cell kinds after `numpy_type_mapper`, in the order `type_formatter` tests them.  Text that
Python's `str()` / `strftime` / f-strings produce arrives as a parameter; `slen` is
`len(str(value))` of the original value (what `calculate_data_width` measures). -/
inductive Cell where
  | null                                   -- None, NaN (slen ≤ 3, below the floor of 4)
  | bool (b : Bool)
  | int (i : Int)
  | num (s : Str) (slen : Nat)             -- float, Decimal
  | text (s : Str)
  | datetime (d t : Str) (slen : Nat)
  | date (d : Str) (slen : Nat)
  | bytes (b : List UInt8) (slen : Nat)
  | dict (kvs : List (Str × Str)) (slen : Nat)
  | interval (parts : List Str) (slen : Nat)                  -- fractional seconds: the pieces are parameters
  | intervalInt (months days secs : Int) (slen : Nat)         -- whole seconds: the pieces are computed
  | list (items : List Str) (slen : Nat)
  | other (s : Str)                        -- everything else: `str(value)`
  deriving Repr

def boolStr (b : Bool) : Str := if b then ['T', 'r', 'u', 'e'] else ['F', 'a', 'l', 's', 'e']
def nullStr : Str := ['n', 'u', 'l', 'l']

def dictItem (kv : Str × Str) : Str :=
  ['\''] ++ T_KEY ++ kv.1 ++ T_PUNC ++ ['\'', ':', '\''] ++ T_VALUE ++ kv.2 ++ T_PUNC ++ ['\'']

def dictText (kvs : List (Str × Str)) : Str :=
  T_PUNC ++ ['{'] ++ joinWith (T_PUNC ++ [',', ' ']) (kvs.map dictItem) ++ ['}'] ++ T_OFF

def listText (items : List Str) : Str :=
  T_PUNC ++ ['[', '\''] ++ T_VALUE ++ joinWith (T_PUNC ++ ['\'', ',', ' ', '\''] ++ T_VALUE) items
    ++ T_PUNC ++ ['\'', ']'] ++ T_OFF

def intervalText (parts : List Str) : Str := T_INTERVAL ++ joinWith [' '] parts ++ T_OFF

/-- The decomposition of an interval (`display.py:281-284`): `hours, seconds = divmod(seconds, 3600)`,
`minutes, seconds = divmod(seconds, 60)`, `years, months = divmod(months, 12)`.  Python's `divmod` with a
positive divisor is floor division, which is Lean's `/` and `%` on `Int` for a positive divisor. -/
structure Ymdhms where
  years : Int
  months : Int
  hours : Int
  minutes : Int
  seconds : Int
  deriving Repr, DecidableEq

def splitInterval (A : Arith) (months secs : Int) : Ymdhms :=
  let hours := secs / A.hourDiv
  let s1 := secs % A.hourDiv
  let minutes := s1 / A.minuteDiv
  let s2 := s1 % A.minuteDiv
  { years := months / A.monthDiv, months := months % A.monthDiv, hours := hours, minutes := minutes, seconds := s2 }

/-- The text pieces (`display.py:285-297`): a piece is written only when its value is non-zero;
whole seconds are formatted by `{seconds:.2f}` as `N.00s`. -/
def intervalParts (A : Arith) (months days secs : Int) : List Str :=
  let p := splitInterval A months secs
  (if p.years ≠ 0 then [intStr p.years ++ ['y']] else [])
  ++ (if p.months ≠ 0 then [intStr p.months ++ ['m', 'o']] else [])
  ++ (if days ≠ 0 then [intStr days ++ ['d']] else [])
  ++ (if p.hours ≠ 0 then [intStr p.hours ++ ['h']] else [])
  ++ (if p.minutes ≠ 0 then [intStr p.minutes ++ ['m']] else [])
  ++ (if p.seconds ≠ 0 then [intStr p.seconds ++ ['.', '0', '0', 's']] else [])

/-- `type_formatter(value, width, type_)` (`display.py:235-307`). -/
def formatCell (A : Arith) (cw : Char → Nat) (strict : Bool) (c : Cell) (w : Nat) : Except Err Str :=
  match c with
  | .null => .ok (T_NULL ++ (rjust w nullStr).take w ++ T_OFF)
  | .bool b => .ok (T_CONST ++ (rjust w (boolStr b)).take w ++ T_OFF)
  | .int i => .ok (T_INTEGER ++ (rjust w (intStr i)).take w ++ T_OFF)
  | .num s _ => .ok (T_FLOAT ++ (rjust w s).take w ++ T_OFF)
  | .text s => .ok (T_VARCHAR ++ truncPrintable A cw (ljust w s) w true ++ T_OFF)
  | .datetime d t _ => .ok (T_DATE ++ truncPrintable A cw (rjust w (d ++ [' '] ++ T_TIME ++ t)) w true ++ T_OFF)
  | .date d _ => .ok (T_DATE ++ truncPrintable A cw (rjust w d) w true ++ T_OFF)
  | .bytes b _ =>
    match utf8Decode strict b with
    | .ok s => .ok (T_BLOB ++ truncPrintable A cw (ljust w s) w true ++ T_OFF)
    | .error e => .error e
  | .dict kvs _ => .ok (truncPrintable A cw (dictText kvs) w true)
  | .interval parts _ => .ok (truncPrintable A cw (intervalText parts) w true)
  | .intervalInt months days secs _ => .ok (truncPrintable A cw (intervalText (intervalParts A months days secs)) w true)
  | .list items _ => .ok (truncPrintable A cw (listText items) w true)
  | .other s => .ok ((ljust w s).take w)

/-- `len(str(value))` as seen by `calculate_data_width` (`None` is skipped). -/
def cellSlen : Cell → Nat
  | .null => 0
  | .bool b => (boolStr b).length
  | .int i => (intStr i).length
  | .num _ n => n
  | .text s => s.length
  | .datetime _ _ n => n
  | .date _ n => n
  | .bytes _ n => n
  | .dict _ n => n
  | .interval _ n => n
  | .intervalInt _ _ _ n => n
  | .list _ n => n
  | .other s => s.length

/-! ## 5. The table -/

structure Params where
  limit : Nat
  tt : Bool            -- top_and_tail
  lazy : Bool
  showTypes : Bool
  maxCol : Nat         -- max_column_width
  displayWidth : Nat
  strict : Bool        -- bytes.decode errors="strict" (pinned) / "replace" (repaired)
  deriving Repr

structure Frame where
  names : List Str               -- `column_names`
  types : List Str               -- rendered type of each column (`"0"` for a names-only schema)
  rows : List (List Cell)
  deriving Repr

/-- `calculate_data_width` (`compiled.pyx:157-168`): floor 4. -/
def dataWidth (col : List Cell) : Nat := col.foldl (fun m c => max m (cellSlen c)) 4

def column (t : List (List Cell)) (i : Nat) : List Cell := t.filterMap (fun r => r[i]?)

/-- `min(max(cw, ctw, dw), max_column_width)` per column (`display.py:342-363`). -/
def colWidthsGo (A : Arith) (showTypes : Bool) (maxCol : Nat) (t : List (List Cell)) :
    Nat → List Str → List Str → List Nat
  | i, n :: ns, ty :: tys =>
    A.colWidth n.length (if showTypes then ty.length else 0) (dataWidth (column t i)) maxCol
      :: colWidthsGo A showTypes maxCol t (i + 1) ns tys
  | _, _, _ => []

def border (l m r fill : Char) (iw : Nat) (ws : List Nat) : Str :=
  [l] ++ List.replicate iw fill ++ [m, fill]
    ++ joinWith [fill, m, fill] (ws.map (fun w => List.replicate w fill)) ++ [fill, r]

def headCell (token : Str) (v : Str) (w : Nat) : Str := token ++ (center w v).take w ++ T_OFF

def zipWithTrunc {β γ : Type} (f : α → β → γ) : List α → List β → List γ
  | a :: as, b :: bs => f a b :: zipWithTrunc f as bs
  | _, _ => []

def headerLine (token : Str) (iw : Nat) (vs : List Str) (ws : List Nat) : Str :=
  ['│'] ++ spaces iw ++ ['│', ' '] ++ joinWith [' ', '│', ' '] (zipWithTrunc (headCell token) vs ws) ++ [' ', '│']

def formatRow (A : Arith) (cw : Char → Nat) (strict : Bool) : List Cell → List Nat → Except Err (List Str)
  | c :: cs, w :: ws =>
    match formatCell A cw strict c w with
    | .error e => .error e
    | .ok s =>
      match formatRow A cw strict cs ws with
      | .error e => .error e
      | .ok rest => .ok (s :: rest)
  | _, _ => .ok []

def dataLine (A : Arith) (iw label : Nat) (cells : List Str) : Str :=
  ['│'] ++ T_TYPE ++ rjust (A.labelPad iw) (natStr label) ++ T_OFF ++ [' ', '│', ' ']
    ++ joinWith [' ', '│', ' '] cells ++ [' ', '│']

def ellipsisLine (lazy : Bool) : Str :=
  if lazy then ['.', '.', '.'] else T_PUNC ++ ['.', '.', '.'] ++ T_OFF

/-- A rendered line, tagged: `true` for the box lines (everything but the ellipsis). -/
abbrev Tagged := Bool × Str

def bodyLines (A : Arith) (cw : Char → Nat) (p : Params) (iw : Nat) (ws : List Nat) :
    List (Line (List Cell)) → Except Err (List Tagged)
  | [] => .ok []
  | .ellipsis :: rest =>
    match bodyLines A cw p iw ws rest with
    | .error e => .error e
    | .ok ls => .ok ((false, ellipsisLine p.lazy) :: ls)
  | .data label row :: rest =>
    match formatRow A cw p.strict row ws with
    | .error e => .error e
    | .ok cells =>
      match bodyLines A cw p iw ws rest with
      | .error e => .error e
      | .ok ls => .ok ((true, dataLine A iw label cells) :: ls)

/-- The rows of the printed frame `t` whose values are measured for the column widths
(`t.collect(i)`: all of them; `collect(i, k)` would be the first `k`). -/
def measuredRows (A : Arith) (p : Params) (f : Frame) : List (List Cell) :=
  let t := cutRows A f.rows p.limit p.tt p.lazy
  t.take (A.measure t.length p.limit)

def colWidths (A : Arith) (p : Params) (f : Frame) : List Nat :=
  colWidthsGo A p.showTypes p.maxCol (measuredRows A p f) 0 f.names f.types

def idxWidth (A : Arith) (p : Params) (f : Frame) : Nat :=
  indexWidth A f.rows.length p.limit p.tt p.lazy f.rows

/-- The lines `_inner()` yields (`display.py:340-417`), before truncation and colouring. -/
def rawLines (A : Arith) (cw : Char → Nat) (p : Params) (f : Frame) : Except Err (List Tagged) :=
  let ws := colWidths A p f
  let iw := idxWidth A p f
  match bodyLines A cw p iw ws (visibleRows A f.rows p.limit p.tt p.lazy) with
  | .error e => .error e
  | .ok body =>
    .ok ([(true, border '┌' '┬' '┐' '─' iw ws), (true, headerLine T_HEAD iw f.names ws)]
      ++ (if p.showTypes then [(true, headerLine T_TYPE iw f.types ws)] else [])
      ++ [(true, border '╞' '╪' '╡' '═' iw ws)]
      ++ body
      ++ [(true, border '└' '┴' '┘' '─' iw ws)])

/-- What `ascii_table` joins (`display.py:419-422`), before `colorizer` substitutes the tokens. -/
def renderLines (A : Arith) (cw : Char → Nat) (p : Params) (f : Frame) : Except Err (List Tagged) :=
  match rawLines A cw p f with
  | .error e => .error e
  | .ok ls => .ok (ls.map fun l => (l.1, truncPrintable A cw l.2 p.displayWidth false))

/-- Natural printed width of every box line. -/
def totalW : List Nat → Nat
  | [] => 0
  | w :: ws => w + totalW ws

def tableWidth (iw : Nat) (ws : List Nat) : Nat :=
  1 + iw + 2 + (totalW ws + 3 * (ws.length - 1)) + 2

/-- The width table the driver uses for `character_width` on the characters it is sent
(ASCII, the box characters, `↵`); compared with `unicodedata` by the harness on every run. -/
def cwModel (c : Char) : Nat :=
  if c.toNat < 32 ∨ c.toNat = 127 then 2
  else if c.toNat < 127 then 1
  else if c = '↵' then 2
  else 1

/-! ## 6. `colorizer` (`display.py:70-82`, called with `unescape=False`) -/

/-- Python `str.replace(pat, rep)` for a non-empty `pat`: leftmost, non-overlapping occurrences.
`skip` counts the characters of a matched occurrence still to be dropped. -/
def replGo (pat rep : Str) : Nat → Str → Str
  | _, [] => []
  | skip + 1, _ :: cs => replGo pat rep skip cs
  | 0, c :: cs =>
    if pat.isPrefixOf (c :: cs) then rep ++ replGo pat rep (pat.length - 1) cs
    else c :: replGo pat rep 0 cs

def replaceAll (pat rep s : Str) : Str := replGo pat rep 0 s

/-- `for k, v in COLORS.items(): record = record.replace(k, v)` (or `""` when colour is off). -/
def colorize (table : List (Str × Str)) (on : Bool) (s : Str) : Str :=
  table.foldl (fun acc kv => replaceAll kv.1 (if on then kv.2 else []) acc) s

/-! ## 7. `markdown` (`display.py:425-456`) -/

/-- A Markdown cell: whether the value is `None`, and `str(value)` (a parameter). -/
structure MdCell where
  isNone : Bool
  text : Str
  deriving Repr

structure MdFrame where
  names : List Str
  rows : List (List MdCell)
  deriving Repr

/-- `max(list(map(len, map(str, [p for p in h if p is not None]))) + [4])`. -/
def mdDataWidth (A : Arith) (col : List MdCell) : Nat :=
  (col.filter (fun c => !c.isNone)).foldl (fun m c => max m c.text.length) A.mdFloor

def mdColumn (t : List (List MdCell)) (i : Nat) : List MdCell := t.filterMap (fun r => r[i]?)

def mdColWidthsGo (A : Arith) (maxCol : Nat) (t : List (List MdCell)) : Nat → List Str → List Nat
  | _, [] => []
  | i, n :: ns => A.mdColWidth n.length (mdDataWidth A (mdColumn t i)) maxCol :: mdColWidthsGo A maxCol t (i + 1) ns

/-- A Markdown line, split into its index-column part and its columns part. -/
structure MdLine where
  idx : Str
  cols : Str
  deriving Repr

def MdLine.text (l : MdLine) : Str := l.idx ++ l.cols

def mdRowsGo (A : Arith) (iw : Nat) (ws : List Nat) : Nat → List (List MdCell) → List MdLine
  | _, [] => []
  | i, row :: rest =>
    { idx := ['|'] ++ rjust (A.mdLabelPad iw) (natStr (A.mdLabel i)) ++ [' ', '|', ' '],
      cols := joinWith [' ', '|', ' '] (zipWithTrunc (fun (c : MdCell) w => (rjust w c.text).take w) row ws) ++ [' ', '|'] }
      :: mdRowsGo A iw ws (i + 1) rest

/-- The lines `markdown(table, limit, max_column_width)` yields, for `limit ≥ 1`
(`t = table.slice(length=limit)`; the index width is that of the whole table). -/
def markdownLines (A : Arith) (limit maxCol : Nat) (f : MdFrame) : List MdLine :=
  let t := dfSlice f.rows 0 (some limit)
  let iw := A.mdIdx f.rows.length
  let ws := mdColWidthsGo A maxCol t 0 f.names
  [ { idx := ['|', ' ', '#'] ++ spaces (A.mdHeadPad iw) ++ ['|', ' '],
      cols := joinWith [' ', '|', ' '] (zipWithTrunc (fun (v : Str) w => (ljust w v).take w) f.names ws) ++ [' ', '|'] },
    { idx := ['|'] ++ List.replicate (A.mdSepLen iw) '-' ++ ['|', '-'],
      cols := joinWith ['-', '|', '-'] (ws.map fun w => List.replicate w '-') ++ ['-', '|'] } ]
  ++ mdRowsGo A iw ws 0 t

end Display
