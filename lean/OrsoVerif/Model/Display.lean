/-!
# C18 — rendering a DataFrame as a text table (`orso/display.py`)

Import-free executable model of `ascii_table` **as repaired** (see `findings/C18.json`):

1. row selection and labelling (`display.py:183-203` selection, `:388-416` labelling; line numbers
   are those of the repaired file) for eager
   and lazily backed frames, with the pinned eager label arithmetic kept as `fixed := false`;
2. text primitives: `str.ljust/rjust/center`, the escape-skipping state machine of
   `trunc_printable` (`:314-338`), printed width `pwidth` measured with the same machine;
3. `type_formatter` (`:235-307`) over a closed enumeration of cell kinds, with `bytes.decode`
   as an explicit step that fails in strict mode (pinned) and is total in replace mode (repaired);
4. column-width arithmetic (`:342-363`), box / header / type / data lines (`:366-417`) and the
   final per-line truncation to the display width (`:419-422`).

Parameters (compared by the harness, not modelled): Python's `str()` of floats, decimals, dates,
containers and arbitrary objects (they arrive as text), `len(str(v))` of those values, and the
East-Asian width table behind `character_width` (the function `cw`).
-/
namespace Display

/-! ## 1. Row selection -/

inductive Line (α : Type) where
  | data (label : Nat) (row : α)
  | ellipsis
  deriving Repr, DecidableEq

variable {α : Type}

/-- Python index normalisation for `seq[a:b]` on a sequence of length `n`. -/
def pyIdx (n : Nat) (i : Int) : Nat :=
  if i < 0 then (i + n).toNat else min i.toNat n

/-- Python `rows[a:b]`. -/
def pySlice (rows : List α) (a b : Int) : List α :=
  (rows.take (pyIdx rows.length b)).drop (pyIdx rows.length a)

/-- `DataFrame.slice(offset, length)` (`dataframe.py:243-251`). -/
def dfSlice (rows : List α) (offset : Int) (length : Option Nat) : List α :=
  let offset := if offset < 0 then (rows.length : Int) + offset else offset
  match length with
  | none => rows.drop (pyIdx rows.length offset)
  | some l => if l = 0 then [] else pySlice rows offset (offset + l)

/-- `DataFrame.head(size)` / `DataFrame.tail(size)` (`dataframe.py:143-147`). -/
def dfHead (rows : List α) (size : Nat) : List α := dfSlice rows 0 (some size)
def dfTail (rows : List α) (size : Nat) : List α := dfSlice rows (0 - (size : Int)) (some size)

/-- The cut frame `t` of an eager table (`display.py:183-203`, `is_lazy = False`). -/
def eagerCut (rows : List α) (limit : Nat) (tt : Bool) : List α :=
  if 0 < limit ∧ tt = false then dfSlice rows 0 (some limit)                 -- :187
  else if 0 < limit ∧ tt = true then
    if 2 * limit + 1 ≤ rows.length then dfHead rows limit ++ dfTail rows limit   -- :190-191
    else rows                                                                     -- :200-201
  else rows                                                                       -- :202-203

/-- The lines produced for row `i` of the cut frame of an eager table (`display.py:403-416`).
`n` = `table.rowcount`, `tlen` = `t.rowcount`; `fixed = true` is the repaired arithmetic
(`i += table.rowcount - 2*limit`), `fixed = false` the pinned one (`t.rowcount`). -/
def eagerLineAt (n tlen limit : Nat) (tt fixed : Bool) (i : Nat) (row : α) : List (Line α) :=
  if tt = true ∧ 2 * limit < n then
    (if i = limit then [Line.ellipsis] else []) ++
      [Line.data ((if limit ≤ i then i + ((if fixed then n else tlen) - 2 * limit) else i) + 1) row]
  else [Line.data (i + 1) row]

/-- `for i, row in enumerate(t)` of the eager branch. -/
def eagerGo (n tlen limit : Nat) (tt fixed : Bool) : Nat → List α → List (Line α)
  | _, [] => []
  | i, row :: rest => eagerLineAt n tlen limit tt fixed i row ++ eagerGo n tlen limit tt fixed (i + 1) rest

def eagerLines (rows : List α) (limit : Nat) (tt fixed : Bool) : List (Line α) :=
  let t := eagerCut rows limit tt
  eagerGo rows.length t.length limit tt fixed 0 t

/-- `collections.deque(maxlen=m).append(x)`. -/
def dequePush (maxlen : Nat) (d : List α) (x : α) : List α :=
  if maxlen < (d ++ [x]).length then (d ++ [x]).drop 1 else d ++ [x]

/-- The cut frame and `lazy_length` of a lazily backed table (`display.py:184-186, 192-199`).
`rows` is what the generator will yield.  `islice` takes the head; the `for … enumerate` loop
runs over the rows that REMAIN, pushing into a bounded deque, and leaves `lazy_length` at the
index of the last remaining row (0, its initial value, when none remain — which is what
truncated subtraction gives); then `lazy_length += len(head) + 1`. -/
def lazySelect (rows : List α) (limit : Nat) (tt : Bool) : List α × Nat :=
  if 0 < limit ∧ tt = false then
    let t := rows.take limit
    (t, t.length)                      -- repaired: `lazy_length = t.rowcount` (pinned: stays 0)
  else if 0 < limit ∧ tt = true then
    let head := rows.take limit
    let rest := rows.drop limit
    let tail := rest.foldl (dequePush limit) []
    (head ++ tail, (rest.length - 1) + head.length + 1)
  else (rows, 0)

/-- `for i, row in enumerate(t)` of the lazy branch, with the running `offset` (`display.py:388-401`). -/
def lazyGo (limit ll : Nat) : Nat → Nat → List α → List (Line α)
  | _, _, [] => []
  | i, offset, row :: rest =>
    if i = limit ∧ 2 * limit < ll then
      Line.ellipsis :: Line.data (i + (offset + (ll - 2 * limit))) row
        :: lazyGo limit ll (i + 1) (offset + (ll - 2 * limit)) rest
    else Line.data (i + offset) row :: lazyGo limit ll (i + 1) offset rest

def lazyLines (rows : List α) (limit : Nat) (tt : Bool) : List (Line α) :=
  lazyGo limit (lazySelect rows limit tt).2 0 1 (lazySelect rows limit tt).1

/-- The cut frame `t`. -/
def cutRows (rows : List α) (limit : Nat) (tt lazy : Bool) : List α :=
  if lazy then (lazySelect rows limit tt).1 else eagerCut rows limit tt

/-- Data and ellipsis lines of the (repaired) table, in order. -/
def visibleRows (rows : List α) (limit : Nat) (tt lazy : Bool) : List (Line α) :=
  if lazy then lazyLines rows limit tt else eagerLines rows limit tt true

/-- Index form: the frame has `n` rows, a row is identified by its 0-based position. -/
def visible (n limit : Nat) (tt lazy : Bool) : List (Line Nat) :=
  visibleRows (List.range n) limit tt lazy

/-- Reference labelling: consecutive labels starting at `k`. -/
def labelFrom : Nat → List α → List (Line α)
  | _, [] => []
  | k, r :: rs => Line.data k r :: labelFrom (k + 1) rs

def isEllipsis : Line α → Bool
  | .ellipsis => true
  | _ => false

/-! ## 2. Text primitives -/

abbrev Str := List Char

def natStr (n : Nat) : Str := Nat.toDigits 10 n
def intStr (i : Int) : Str := if i < 0 then '-' :: natStr i.natAbs else natStr i.natAbs

/-- width of the index column (`display.py:206`). -/
def indexWidth (n limit : Nat) (tt lazy : Bool) (rows : List α) : Nat :=
  if lazy then (natStr ((lazySelect rows limit tt).2 + 1)).length + 2 else (natStr n).length + 2

def spaces (n : Nat) : Str := List.replicate n ' '
def ljust (w : Nat) (s : Str) : Str := s ++ spaces (w - s.length)
def rjust (w : Nat) (s : Str) : Str := spaces (w - s.length) ++ s
/-- CPython `str.center`: `left = marg/2 + (marg & width & 1)`. -/
def center (w : Nat) (s : Str) : Str :=
  let marg := w - s.length
  let left := marg / 2 + (if marg % 2 = 1 ∧ w % 2 = 1 then 1 else 0)
  spaces left ++ s ++ spaces (marg - left)

def joinWith (sep : Str) : List Str → Str
  | [] => []
  | [x] => x
  | x :: y :: rest => x ++ sep ++ joinWith sep (y :: rest)

-- colour tokens used by `ascii_table` (keys of `COLORS`)
def T_OFF : Str := ['\x01', 'O', 'F', 'F', 'm']
def T_NULL : Str := ['\x01', 'N', 'U', 'L', 'L', 'm']
def T_CONST : Str := ['\x01', 'C', 'O', 'N', 'S', 'T', 'm']
def T_INTEGER : Str := ['\x01', 'I', 'N', 'T', 'E', 'G', 'E', 'R', 'm']
def T_FLOAT : Str := ['\x01', 'F', 'L', 'O', 'A', 'T', 'm']
def T_VARCHAR : Str := ['\x01', 'V', 'A', 'R', 'C', 'H', 'A', 'R', 'm']
def T_DATE : Str := ['\x01', 'D', 'A', 'T', 'E', 'm']
def T_TIME : Str := ['\x01', 'T', 'I', 'M', 'E', 'm']
def T_BLOB : Str := ['\x01', 'B', 'L', 'O', 'B', 'm']
def T_PUNC : Str := ['\x01', 'P', 'U', 'N', 'C', 'm']
def T_KEY : Str := ['\x01', 'K', 'E', 'Y', 'm']
def T_VALUE : Str := ['\x01', 'V', 'A', 'L', 'U', 'E', 'm']
def T_INTERVAL : Str := ['\x01', 'I', 'N', 'T', 'E', 'R', 'V', 'A', 'L', 'm']
def T_HEAD : Str := ['\x01', 'H', 'E', 'A', 'D', 'm']
def T_TYPE : Str := ['\x01', 'T', 'Y', 'P', 'E', 'm']
def T_CRLF : Str := ['\x01', 'C', 'R', 'L', 'F', 'm']
def usedTokens : List Str :=
  [T_OFF, T_NULL, T_CONST, T_INTEGER, T_FLOAT, T_VARCHAR, T_DATE, T_TIME, T_BLOB, T_PUNC, T_KEY,
   T_VALUE, T_INTERVAL, T_HEAD, T_TYPE, T_CRLF]

def isEsc (c : Char) : Bool := c == '\x1b' || c == '\x01'

/-- One character of the escape-skipping machine of `trunc_printable` (`display.py:327-332`):
the new `ignoring` flag and whether the character is counted as printed. -/
def scanStep (ign : Bool) (c : Char) : Bool × Bool :=
  let ign1 := ign || isEsc c
  (if ign1 && c == 'm' then false else ign1, !ign1)

/-- Printed characters of `s` and the final `ignoring` flag, starting with flag `ign`. -/
def scan : Bool → Str → Nat × Bool
  | ign, [] => (0, ign)
  | ign, c :: cs =>
    ((if (scanStep ign c).2 then 1 else 0) + (scan (scanStep ign c).1 cs).1, (scan (scanStep ign c).1 cs).2)

/-- Printed width: characters outside `\x01…m` tokens and `\x1b…m` escape sequences. -/
def pwidth (s : Str) : Nat := (scan false s).1

/-- The loop of `trunc_printable(value, width, full_line)` (`display.py:314-338`); the emitted
text is only ever appended to, so it is returned directly. -/
def truncGo (cw : Char → Nat) (width : Nat) (full : Bool) : Str → Nat → Bool → Str
  | [], offset, _ => T_OFF ++ (if full then spaces (width - offset) else [])
  | c :: cs, offset, ign =>
    if c = '\n' then T_CRLF ++ ['↵'] ++ T_VARCHAR ++ truncGo cw width full cs (offset + 1) ign
    else if c = '\r' then truncGo cw width full cs offset ign
    else
      let ign1 := ign || isEsc c
      let offset1 := if ign1 then offset else offset + cw c
      let ign2 := if ign1 && c == 'm' then false else ign1
      if !ign2 && decide (width ≤ offset1) then c :: T_OFF
      else c :: truncGo cw width full cs offset1 ign2

def truncPrintable (cw : Char → Nat) (value : Str) (width : Nat) (full : Bool) : Str :=
  truncGo cw width full value 0 false

/-! ## 3. UTF-8 decoding (`bytes.decode("utf-8", errors=…)`, CPython's error spans) -/

inductive Err where
  | unicodeDecode
  deriving Repr, DecidableEq

def isCont (b : UInt8) : Bool := 0x80 ≤ b && b ≤ 0xBF
def second3 (b0 b1 : UInt8) : Bool :=
  if b0 = 0xE0 then 0xA0 ≤ b1 && b1 ≤ 0xBF else if b0 = 0xED then 0x80 ≤ b1 && b1 ≤ 0x9F else isCont b1
def second4 (b0 b1 : UInt8) : Bool :=
  if b0 = 0xF0 then 0x90 ≤ b1 && b1 ≤ 0xBF else if b0 = 0xF4 then 0x80 ≤ b1 && b1 ≤ 0x8F else isCont b1

def replacement : Char := Char.ofNat 0xFFFD

def consOk (c : Char) : Except Err Str → Except Err Str
  | .ok s => .ok (c :: s)
  | .error e => .error e

/-- `strict = true`: `errors="strict"` (the pinned call); `false`: `errors="replace"`.  An invalid
sequence is replaced as one U+FFFD covering its longest valid prefix (at least one byte), and
decoding resumes at the offending byte; a truncated sequence at the end is one U+FFFD. -/
def utf8Go (strict : Bool) : Nat → List UInt8 → Except Err Str
  | 0, _ => .ok []
  | _, [] => .ok []
  | fuel + 1, b0 :: rest =>
    let emit (c : Char) (r : List UInt8) : Except Err Str := consOk c (utf8Go strict fuel r)
    let bad (r : List UInt8) : Except Err Str :=
      if strict then .error .unicodeDecode else emit replacement r
    if b0 < 0x80 then emit (Char.ofNat b0.toNat) rest
    else if b0 < 0xC2 then bad rest
    else if b0 < 0xE0 then
      match rest with
      | [] => bad []
      | b1 :: r1 =>
        if isCont b1 then emit (Char.ofNat ((b0.toNat - 0xC0) * 64 + (b1.toNat - 0x80))) r1 else bad rest
    else if b0 < 0xF0 then
      match rest with
      | [] => bad []
      | b1 :: r1 =>
        if !second3 b0 b1 then bad rest else
        match r1 with
        | [] => bad []
        | b2 :: r2 =>
          if isCont b2 then
            emit (Char.ofNat ((b0.toNat - 0xE0) * 4096 + (b1.toNat - 0x80) * 64 + (b2.toNat - 0x80))) r2
          else bad r1
    else if b0 < 0xF5 then
      match rest with
      | [] => bad []
      | b1 :: r1 =>
        if !second4 b0 b1 then bad rest else
        match r1 with
        | [] => bad []
        | b2 :: r2 =>
          if !isCont b2 then bad r1 else
          match r2 with
          | [] => bad []
          | b3 :: r3 =>
            if isCont b3 then
              emit (Char.ofNat ((b0.toNat - 0xF0) * 262144 + (b1.toNat - 0x80) * 4096
                + (b2.toNat - 0x80) * 64 + (b3.toNat - 0x80))) r3
            else bad r2
    else bad rest

def utf8Decode (strict : Bool) (bs : List UInt8) : Except Err Str := utf8Go strict (bs.length + 1) bs

/-! ## 4. Cells and `type_formatter` -/

/-- Cell kinds after `numpy_type_mapper`, in the order `type_formatter` tests them.  Text that
Python's `str()` / `strftime` / f-strings produce arrives as a parameter; `slen` is
`len(str(value))` of the original value (what `calculate_data_width` measures). -/
inductive Cell where
  | null                                   -- None, NaN (slen ≤ 3, below the floor of 4)
  | bool (b : Bool)
  | int (i : Int)
  | num (s : Str) (slen : Nat)             -- float, Decimal
  | text (s : Str)
  | datetime (d t : Str) (slen : Nat)
  | date (d : Str) (slen : Nat)
  | bytes (b : List UInt8) (slen : Nat)
  | dict (kvs : List (Str × Str)) (slen : Nat)
  | interval (parts : List Str) (slen : Nat)
  | list (items : List Str) (slen : Nat)
  | other (s : Str)                        -- everything else: `str(value)`
  deriving Repr

def boolStr (b : Bool) : Str := if b then ['T', 'r', 'u', 'e'] else ['F', 'a', 'l', 's', 'e']
def nullStr : Str := ['n', 'u', 'l', 'l']

def dictItem (kv : Str × Str) : Str :=
  ['\''] ++ T_KEY ++ kv.1 ++ T_PUNC ++ ['\'', ':', '\''] ++ T_VALUE ++ kv.2 ++ T_PUNC ++ ['\'']

def dictText (kvs : List (Str × Str)) : Str :=
  T_PUNC ++ ['{'] ++ joinWith (T_PUNC ++ [',', ' ']) (kvs.map dictItem) ++ ['}'] ++ T_OFF

def listText (items : List Str) : Str :=
  T_PUNC ++ ['[', '\''] ++ T_VALUE ++ joinWith (T_PUNC ++ ['\'', ',', ' ', '\''] ++ T_VALUE) items
    ++ T_PUNC ++ ['\'', ']'] ++ T_OFF

def intervalText (parts : List Str) : Str := T_INTERVAL ++ joinWith [' '] parts ++ T_OFF

/-- `type_formatter(value, width, type_)` (`display.py:235-307`). -/
def formatCell (cw : Char → Nat) (strict : Bool) (c : Cell) (w : Nat) : Except Err Str :=
  match c with
  | .null => .ok (T_NULL ++ (rjust w nullStr).take w ++ T_OFF)
  | .bool b => .ok (T_CONST ++ (rjust w (boolStr b)).take w ++ T_OFF)
  | .int i => .ok (T_INTEGER ++ (rjust w (intStr i)).take w ++ T_OFF)
  | .num s _ => .ok (T_FLOAT ++ (rjust w s).take w ++ T_OFF)
  | .text s => .ok (T_VARCHAR ++ truncPrintable cw (ljust w s) w true ++ T_OFF)
  | .datetime d t _ => .ok (T_DATE ++ truncPrintable cw (rjust w (d ++ [' '] ++ T_TIME ++ t)) w true ++ T_OFF)
  | .date d _ => .ok (T_DATE ++ truncPrintable cw (rjust w d) w true ++ T_OFF)
  | .bytes b _ =>
    match utf8Decode strict b with
    | .ok s => .ok (T_BLOB ++ truncPrintable cw (ljust w s) w true ++ T_OFF)
    | .error e => .error e
  | .dict kvs _ => .ok (truncPrintable cw (dictText kvs) w true)
  | .interval parts _ => .ok (truncPrintable cw (intervalText parts) w true)
  | .list items _ => .ok (truncPrintable cw (listText items) w true)
  | .other s => .ok ((ljust w s).take w)

/-- `len(str(value))` as seen by `calculate_data_width` (`None` is skipped). -/
def cellSlen : Cell → Nat
  | .null => 0
  | .bool b => (boolStr b).length
  | .int i => (intStr i).length
  | .num _ n => n
  | .text s => s.length
  | .datetime _ _ n => n
  | .date _ n => n
  | .bytes _ n => n
  | .dict _ n => n
  | .interval _ n => n
  | .list _ n => n
  | .other s => s.length

/-! ## 5. The table -/

structure Params where
  limit : Nat
  tt : Bool            -- top_and_tail
  lazy : Bool
  showTypes : Bool
  maxCol : Nat         -- max_column_width
  displayWidth : Nat
  strict : Bool        -- bytes.decode errors="strict" (pinned) / "replace" (repaired)
  deriving Repr

structure Frame where
  names : List Str               -- `column_names`
  types : List Str               -- rendered type of each column (`"0"` for a names-only schema)
  rows : List (List Cell)
  deriving Repr

/-- `calculate_data_width` (`compiled.pyx:157-168`): floor 4. -/
def dataWidth (col : List Cell) : Nat := col.foldl (fun m c => max m (cellSlen c)) 4

def column (t : List (List Cell)) (i : Nat) : List Cell := t.filterMap (fun r => r[i]?)

/-- `min(max(cw, ctw, dw), max_column_width)` per column (`display.py:342-363`). -/
def colWidthsGo (showTypes : Bool) (maxCol : Nat) (t : List (List Cell)) : Nat → List Str → List Str → List Nat
  | i, n :: ns, ty :: tys =>
    min (max (max n.length (if showTypes then ty.length else 0)) (dataWidth (column t i))) maxCol
      :: colWidthsGo showTypes maxCol t (i + 1) ns tys
  | _, _, _ => []

def border (l m r fill : Char) (iw : Nat) (ws : List Nat) : Str :=
  [l] ++ List.replicate iw fill ++ [m, fill]
    ++ joinWith [fill, m, fill] (ws.map (fun w => List.replicate w fill)) ++ [fill, r]

def headCell (token : Str) (v : Str) (w : Nat) : Str := token ++ (center w v).take w ++ T_OFF

def zipWithTrunc {β γ : Type} (f : α → β → γ) : List α → List β → List γ
  | a :: as, b :: bs => f a b :: zipWithTrunc f as bs
  | _, _ => []

def headerLine (token : Str) (iw : Nat) (vs : List Str) (ws : List Nat) : Str :=
  ['│'] ++ spaces iw ++ ['│', ' '] ++ joinWith [' ', '│', ' '] (zipWithTrunc (headCell token) vs ws) ++ [' ', '│']

def formatRow (cw : Char → Nat) (strict : Bool) : List Cell → List Nat → Except Err (List Str)
  | c :: cs, w :: ws =>
    match formatCell cw strict c w with
    | .error e => .error e
    | .ok s =>
      match formatRow cw strict cs ws with
      | .error e => .error e
      | .ok rest => .ok (s :: rest)
  | _, _ => .ok []

def dataLine (iw label : Nat) (cells : List Str) : Str :=
  ['│'] ++ T_TYPE ++ rjust (iw - 1) (natStr label) ++ T_OFF ++ [' ', '│', ' ']
    ++ joinWith [' ', '│', ' '] cells ++ [' ', '│']

def ellipsisLine (lazy : Bool) : Str :=
  if lazy then ['.', '.', '.'] else T_PUNC ++ ['.', '.', '.'] ++ T_OFF

/-- A rendered line, tagged: `true` for the box lines (everything but the ellipsis). -/
abbrev Tagged := Bool × Str

def bodyLines (cw : Char → Nat) (p : Params) (iw : Nat) (ws : List Nat) :
    List (Line (List Cell)) → Except Err (List Tagged)
  | [] => .ok []
  | .ellipsis :: rest =>
    match bodyLines cw p iw ws rest with
    | .error e => .error e
    | .ok ls => .ok ((false, ellipsisLine p.lazy) :: ls)
  | .data label row :: rest =>
    match formatRow cw p.strict row ws with
    | .error e => .error e
    | .ok cells =>
      match bodyLines cw p iw ws rest with
      | .error e => .error e
      | .ok ls => .ok ((true, dataLine iw label cells) :: ls)

def colWidths (p : Params) (f : Frame) : List Nat :=
  colWidthsGo p.showTypes p.maxCol (cutRows f.rows p.limit p.tt p.lazy) 0 f.names f.types

def idxWidth (p : Params) (f : Frame) : Nat := indexWidth f.rows.length p.limit p.tt p.lazy f.rows

/-- The lines `_inner()` yields (`display.py:340-417`), before truncation and colouring. -/
def rawLines (cw : Char → Nat) (p : Params) (f : Frame) : Except Err (List Tagged) :=
  let ws := colWidths p f
  let iw := idxWidth p f
  match bodyLines cw p iw ws (visibleRows f.rows p.limit p.tt p.lazy) with
  | .error e => .error e
  | .ok body =>
    .ok ([(true, border '┌' '┬' '┐' '─' iw ws), (true, headerLine T_HEAD iw f.names ws)]
      ++ (if p.showTypes then [(true, headerLine T_TYPE iw f.types ws)] else [])
      ++ [(true, border '╞' '╪' '╡' '═' iw ws)]
      ++ body
      ++ [(true, border '└' '┴' '┘' '─' iw ws)])

/-- What `ascii_table` joins (`display.py:419-422`), before `colorizer` substitutes the tokens. -/
def renderLines (cw : Char → Nat) (p : Params) (f : Frame) : Except Err (List Tagged) :=
  match rawLines cw p f with
  | .error e => .error e
  | .ok ls => .ok (ls.map fun l => (l.1, truncPrintable cw l.2 p.displayWidth false))

/-- Natural printed width of every box line. -/
def totalW : List Nat → Nat
  | [] => 0
  | w :: ws => w + totalW ws

def tableWidth (iw : Nat) (ws : List Nat) : Nat :=
  1 + iw + 2 + (totalW ws + 3 * (ws.length - 1)) + 2

/-- The width table the driver uses for `character_width` on the characters it is sent
(ASCII, the box characters, `↵`); compared with `unicodedata` by the harness on every run. -/
def cwModel (c : Char) : Nat :=
  if c.toNat < 32 ∨ c.toNat = 127 then 2
  else if c.toNat < 127 then 1
  else if c = '↵' then 2
  else 1

end Display
