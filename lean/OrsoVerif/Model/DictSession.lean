import OrsoVerif.Model.DictRowCode
/-!
# C02 — several frames, any order of operations (state machine)

One interpreter holds any number of frames.  An operation makes a frame from dictionaries
(`DataFrame(dicts)`), makes one from rows (`DataFrame(rows=, schema=names)`), appends a dictionary to one
of them, builds a free-standing row from a dictionary, reads a frame again, derives a new frame from an
old one (`slice(0, n)`, `query`, `+`), or is *some other feature* (`ctx`: from_arrow, a tuples-only class,
a byte round trip …) — which the model, like the property, gives no effect on any dictionary operation.
Frames are addressed `i % (number of frames)`, so every list of operations is a valid session.
-/
namespace DictSession
open DictRow Gen.DictCode

structure Frame (α : Type) where
  names : List String
  rows : List (List α)
  /-- the `tuples_only` the frame's row factory was made with -/
  tuplesOnly : Bool

inductive Derive where
  | slice (n : Option Nat)
  | query
  | add

inductive Op (α : Type) where
  | ctx
  | frame (ds : List (List (String × α)))
  | rows (fields : List String) (rows : List (List α))
  | append (i : Nat) (d : List (String × α)) (probes : List String) (dflt : α)
  | row (fields : List String) (d : List (String × α)) (probes : List String) (dflt : α)
  | reread (i : Nat)
  | derive (i : Nat) (how : Derive)

/-- the views of one row that the driver reports -/
structure Views (α : Type) where
  row : List α
  asMap : List (String × α)
  asDict : List (String × α)
  gets : List (Option α)
  deriving DecidableEq

inductive Out (α : Type) where
  | ctx
  | skip
  | err
  | frame (names : List String) (rows : List (List α))
  | appended (rows : List (List α)) (v : Views α)
  | row (v : Views α)

variable {α : Type}

def viewsOf (fields : List String) (row : List α) (probes : List String) (dflt : α) : Views α :=
  ⟨row, asMapExpr fields row, asDictExpr fields row, probes.map fun p => getCode fields row p dflt⟩

def deriveRows (rows : List (List α)) : Derive → List (List α)
  | .slice none => rows
  | .slice (some n) => rows.take n
  | .query => rows
  | .add => rows ++ rows

/-- One operation: the new list of frames and what the operation reports. -/
def step (null : α) (ofKey : String → α) (s : List (Frame α)) : Op α → List (Frame α) × Out α
  | .ctx => (s, .ctx)
  | .frame ds =>
    match ds with
    | [] => (s, .skip)
    | _ :: _ =>
      match frameOfDictsCode null ofKey ds with
      | none => (s, .err)
      | some (names, rows) => (s ++ [⟨names, rows, frameDictsTuplesOnly⟩], .frame names rows)
  | .rows fields rows => (s ++ [⟨fields, rows, frameRowsTuplesOnly⟩], .frame fields rows)
  | .append i d probes dflt =>
    match s[i % s.length]? with
    | none => (s, .skip)
    | some f =>
      match appendCode null ofKey (createClass f.names f.tuplesOnly) f.rows d with
      | none => (s, .err)
      | some rows' =>
        (s.set (i % s.length) { f with rows := rows' },
         .appended rows' (viewsOf f.names (rows'.getLast?.getD []) probes dflt))
  | .row fields d probes dflt =>
    match rowNew null ofKey (createClass fields tuplesOnlyDefault) (.dict d) with
    | none => (s, .err)
    | some r => (s, .row (viewsOf fields r probes dflt))
  | .reread i =>
    match s[i % s.length]? with
    | none => (s, .skip)
    | some f => (s, .frame f.names f.rows)
  | .derive i how =>
    match s[i % s.length]? with
    | none => (s, .skip)
    | some f =>
      let rows := deriveRows f.rows how
      (s ++ [⟨f.names, rows, frameRowsTuplesOnly⟩], .frame f.names rows)

/-- A whole session: final frames and the per-operation reports. -/
def run (null : α) (ofKey : String → α) : List (Frame α) → List (Op α) → List (Frame α) × List (Out α)
  | s, [] => (s, [])
  | s, op :: ops =>
    let (s', o) := step null ofKey s op
    let (s'', os) := run null ofKey s' ops
    (s'', o :: os)

/-! ### Specification-side vocabulary for whole sessions (used by the theorems of Props/C02.lean) -/

/-- every frame's row factory handles dictionaries -/
def Inv (s : List (Frame α)) : Prop := ∀ f ∈ s, f.tuplesOnly = false

/-- number of frames after an operation, from the number before -/
def grows (n : Nat) : Op α → Nat
  | .frame (_ :: _) => n + 1
  | .rows _ _ => n + 1
  | .derive _ _ => if n = 0 then 0 else n + 1
  | _ => n

def growsAll : Nat → List (Op α) → Nat
  | n, [] => n
  | n, op :: ops => growsAll (grows n op) ops

/-- the dictionaries one operation appends to frame `k` when there are `n` frames -/
def dictOf (k n : Nat) : Op α → List (List (String × α))
  | .append i d _ _ => if n ≠ 0 ∧ i % n = k then [d] else []
  | _ => []

/-- the dictionaries a list of operations appends to frame `k`, in order -/
def dictsTo (k : Nat) : Nat → List (Op α) → List (List (String × α))
  | _, [] => []
  | n, op :: ops => dictOf k n op ++ dictsTo k (grows n op) ops

/-- frame `f` with one extracted row more per dictionary of `ds` -/
def withDicts (null : α) (f : Frame α) (ds : List (List (String × α))) : Frame α :=
  { f with rows := f.rows ++ ds.map (extract null f.names) }

end DictSession
