import OrsoVerif.Generated.Distogram
import OrsoVerif.Generated.DistogramExpr
import OrsoVerif.Generated.DistogramFlow
import OrsoVerif.Generated.DistogramOps
/-!
# C13 — the streaming histogram of `orso/profiler/distogram/__init__.py`

Two machines over one carrier `K` with `+ - * / < ≤` (instantiated at any linear ordered
field for the theorems, at `Float` and core `Rat` for the executable driver):

* **Stage 1, the reference algorithm** (`insertRef`, `mergeAt`, `trimRef`, `updateRef`, …):
  insert in order, then repeatedly merge the first closest adjacent pair by weighted centroid.
  All theorems of `Props/C13.lean` are about this machine.
* **Stage 2, the faithful machine** (`update`, `searchInPlace`, `trimInPlace`, `updateDiffs`,
  `trim`, `merge`, `add`, `bulk`, `load`): the code as it exists, line by line, with the cached
  `diffs` / `min_diff`, the exact-hit branch, the in-place shortcut, Python's `index = -1` for
  appends and `in_place_index > 0`.  It is executable and compared with the implementation on
  every run; its equality with the reference is compared, not proved (see `design_notes/C13.md`).

Counts live in `K` as well (Python: ints; exact in `Float` below 2^53).

The *arithmetic* (centroid and count of a merge in `_trim` and in `_trim_in_place`, bulk-load
midpoint, `load`'s cached difference, the in-place search) is not written here: it is
`Gen.DistogramExpr.*`, regenerated from the source's AST on every run; so are the loop kind and guard of `_trim`
and the tests of `update` (`Gen.DistogramFlow.*`), and the statements around them — the bounds of `__add__` and
`bulkload`, the `if`/`elif` shape of the bound updates, the guards and tests of `_update_diffs`, the positions `_trim`
reads, pops and refreshes (`Gen.DistogramOps.*`); this file is the skeleton.  `Lemmas/Distogram.lean` proves the
`*_def` equations that give each generated test the meaning the proofs use.
-/
namespace Distogram
open Gen.DistogramExpr (trimCentre trimCount inPlaceCentre inPlaceCount bulkMid loadDiff searchDiff1 searchDiff2
  searchPickLeft searchInPlace)
open Gen.DistogramFlow (trimTurns trimGuard updCountBad updFirst updLast bisectKeyCount hitTest hitCount inPlaceTry
  inPlaceTake bumpMin bumpMax)
open Gen.DistogramOps (addGuard addMin addMax bulkTake bulkFresh bulkMin bulkMax bumpChained appendMinDiff udLeft udRight
  udStale udLower udGap trimKeep trimPopBin trimPopDiff trimRefresh trimStored inPlaceStored udCache trimCachePick
  trimCacheKeep appendCache insertCache searchNoCache isAppend mergeValue mergeCount computeGap loadHasDiffs trimScanIdx
  trimScanGap loadTurns loadNoDiffs)

variable {K : Type} [Add K] [Sub K] [Mul K] [Div K] [LT K] [LE K]
  [DecidableLT K] [DecidableLE K] [OfNat K 0] [OfNat K 1] [OfNat K 2]

/-- Python `a == b` on numbers, through the order (no `DecidableEq Float`). -/
def eqK (a b : K) : Bool := Gen.DistogramExpr.eqK a b

/-- The merged centre of `_trim`: the computed centre (`(v1 * f1 + v2 * f2) / (f1 + f2)` in the source as it is now)
as it is stored — kept within the pair `v1 < v2` it replaces (`min(max(centre, v1), v2)`: the identity in exact
arithmetic, a guard against rounding in floating point; both generated). -/
def centroid (v1 f1 v2 f2 : K) : K := trimStored (trimCentre v1 f1 v2 f2) v1 v2

/-! ## Stage 1: the reference algorithm -/

/-- Insert in order; an equal centre takes the weight (the code's exact-hit branch). -/
def insertRef (v c : K) : List (K × K) → List (K × K)
  | [] => [(v, c)]
  | (w, f) :: rest =>
    if v < w then (v, c) :: (w, f) :: rest
    else if w < v then (w, f) :: insertRef v c rest
    else (w, f + c) :: rest

/-- Differences of adjacent centres. -/
def gaps : List (K × K) → List K
  | a :: b :: rest => (b.1 - a.1) :: gaps (b :: rest)
  | _ => []

/-- Index of the first minimum of a list (0 on the empty list), `acc` = (best index, best value). -/
def argminFrom : Nat → Nat → K → List K → Nat
  | _, bi, _, [] => bi
  | i, bi, bv, x :: xs => if x < bv then argminFrom (i + 1) i x xs else argminFrom (i + 1) bi bv xs

def argminFirst : List K → Nat
  | [] => 0
  | x :: xs => argminFrom 1 0 x xs

/-- Merge bins `i` and `i+1` into their weighted centroid. -/
def mergeAt : Nat → List (K × K) → List (K × K)
  | 0, (v1, f1) :: (v2, f2) :: rest => (centroid v1 f1 v2 f2, trimCount v1 f1 v2 f2) :: rest
  | n + 1, b :: rest => b :: mergeAt n rest
  | _, l => l

/-- Repeatedly merge the first closest adjacent pair while there are more than `cap` bins. -/
def trimRef (cap : Nat) : Nat → List (K × K) → List (K × K)
  | 0, l => l
  | fuel + 1, l =>
    if cap < l.length then trimRef cap fuel (mergeAt (argminFirst (gaps l)) l) else l

def minO (m : Option K) (v : K) : K :=
  match m with
  | none => v
  | some x => if v < x then v else x

def maxO (m : Option K) (v : K) : K :=
  match m with
  | none => v
  | some x => if x < v then v else x

structure RState (K : Type) where
  bins : List (K × K)
  min : Option K
  max : Option K
  cap : Nat

def RState.init (cap : Nat) : RState K := { bins := [], min := none, max := none, cap := cap }

/-- `update(h, value, count)` of the reference machine (count > 0 is the caller's obligation). -/
def updateRef (s : RState K) (v c : K) : RState K :=
  let l := insertRef v c s.bins
  { s with bins := trimRef s.cap l.length l, min := some (minO s.min v), max := some (maxO s.max v) }

/-- The bare `merge(h1, h2)`: every bin of `h2` is inserted into `h1` (:320-341). -/
def mergeRef (s : RState K) (other : List (K × K)) : RState K :=
  other.foldl (fun acc b => updateRef acc b.1 b.2) s

def optMin (a b : Option K) : Option K :=
  match a, b with
  | some x, some y => some (if y < x then y else x)
  | some x, none => some x
  | none, y => y

def optMax (a b : Option K) : Option K :=
  match a, b with
  | some x, some y => some (if x < y then y else x)
  | some x, none => some x
  | none, y => y

/-- `h1 + h2` (:77-82): merge, then the bounds are set to the true ones. -/
def addRef (s t : RState K) : RState K :=
  let m := mergeRef s t.bins
  { m with min := optMin m.min t.min, max := optMax m.max t.max }

/-- `bulkload` (:84-113) once numpy has produced the (value, count) pairs and the data's
minimum and maximum: insert the pairs with a positive count, then widen the bounds. -/
def bulkRef (s : RState K) (pairs : List (K × K)) (lo hi : K) : RState K :=
  let m := (pairs.filter (fun p => decide (0 < p.2))).foldl (fun acc b => updateRef acc b.1 b.2) s
  { m with min := some (minO m.min lo), max := some (maxO m.max hi) }

/-- Midpoints of consecutive histogram edges, `(e[i] + e[i+1]) / 2` (:102, as repaired). -/
def midpoints : List K → List K
  | a :: b :: rest => bulkMid a b :: midpoints (b :: rest)
  | _ => []

/-- `load(**h.dump())`: bins and bounds are kept, the limit becomes the module default. -/
def dumpLoadRef (s : RState K) : RState K := { s with cap := Gen.Distogram.binCount }

/-- Is the smallest adjacent gap attained more than once? -/
def tieIn (l : List (K × K)) : Bool :=
  let g := gaps l
  match g[argminFirst g]? with
  | none => false
  | some m => decide (1 < (g.filter (fun x => eqK x m)).length)

/-- Did some merge step of the reference trim see a tie? -/
def trimTie (cap : Nat) : Nat → List (K × K) → Bool
  | 0, _ => false
  | fuel + 1, l =>
    if cap < l.length then tieIn l || trimTie cap fuel (mergeAt (argminFirst (gaps l)) l) else false

def updateTie (s : RState K) (v c : K) : Bool :=
  let l := insertRef v c s.bins
  trimTie s.cap l.length l

/-- One step of a fold of reference updates with its tie flag (what the driver runs for `+`, `merge`, bulk loads). -/
def refStep (acc : RState K × Bool) (b : K × K) : RState K × Bool :=
  (updateRef acc.1 b.1 b.2, acc.2 || updateTie acc.1 b.1 b.2)

/-- Did some update of the fold `mergeRef s bs` see a tie? -/
def foldTie (s : RState K) : List (K × K) → Bool
  | [] => false
  | b :: bs => updateTie s b.1 b.2 || foldTie (updateRef s b.1 b.2) bs

/-! ## Stage 2: the faithful machine -/

structure Hist (K : Type) where
  bins : List (K × K)
  min : Option K
  max : Option K
  /-- `None` until `_search_in_place_index` first computes them (:243-244), or set by `load`. -/
  diffs : Option (List K)
  /-- `none` stands for Python's `None` / `float("inf")`: larger than every number. -/
  minDiff : Option K
  cap : Nat
  deriving DecidableEq

def Hist.init (cap : Nat) : Hist K :=
  { bins := [], min := none, max := none, diffs := none, minDiff := none, cap := cap }

/-- `min(list)`: the first smallest element; `none` models `ValueError` on an empty list. -/
def listMin : List K → Option K
  | [] => none
  | x :: xs => some (xs.foldl (fun m y => if y < m then y else m) x)

/-- `x < h.min_diff` (the lowering test of `_update_diffs`, generated) where `none` is +∞. -/
def ltMinDiff (x : K) (m : Option K) : Bool :=
  match m with
  | none => true
  | some y => udLower x y

/-- `diff < h.min_diff` of `_search_in_place_index` (generated test), `none` is +∞. -/
def closerThanMin (x : K) (m : Option K) : Bool :=
  match m with
  | none => true
  | some y => searchInPlace x y

/-- `x == h.min_diff` (the stale-minimum test of `_update_diffs`, generated) where `none` is +∞. -/
def eqMinDiff (x : K) (m : Option K) : Bool :=
  match m with
  | none => false
  | some y => udStale x y

/-- `list.index(x)`: first position holding a value equal to `x`. -/
def indexOf (x : K) : List K → Option Nat
  | [] => none
  | y :: ys => if eqK y x then some 0 else (indexOf x ys).map (· + 1)

/-- `bisect_left(h.bins, (value, k))` on a sorted list: the number of leading bins that compare
below the tuple `(value, k)` — `v < value or (v == value and f < k)`; `k` is the source's (`1`). -/
def bisectLeft (value : K) (bins : List (K × K)) : Nat :=
  (bins.takeWhile (fun b => decide (b.1 < value) || (eqK b.1 value && decide (b.2 < bisectKeyCount)))).length

/-- One block of `_update_diffs` (:184-190 and :192-198) on `(diffs, min_diff, update_min)`: compare the
old entry with `min_diff`, store the new gap, lower `min_diff` if the new gap is smaller.
`IndexError` when the cache is shorter than the code assumes. -/
def pointUpdate (st : List K × Option K × Bool) (j : Nat) (nd : K) : Except String (List K × Option K × Bool) :=
  match st.1[j]? with
  | some old =>
    .ok (st.1.set j nd, (if ltMinDiff nd st.2.1 then some nd else st.2.1), st.2.2 || eqMinDiff old st.2.1)
  | none => .error "IndexError"

/-- One `if` block of `_update_diffs`: when it runs it rewrites cache position `j` with the gap between
bins `j` and `j + 1`. -/
def diffBlock (bins : List (K × K)) (st : List K × Option K × Bool) (c : Bool) (j : Nat) :
    Except String (List K × Option K × Bool) :=
  if c then
    match bins[j + 1]?, bins[j]? with
    | some bn, some bi => pointUpdate st j (udGap bi.1 bn.1)
    | _, _ => .error "IndexError"
  else .ok st

/-- `if update_min is True: h.min_diff = min(h.diffs)` (:200-201). -/
def finishMin (st : List K × Option K × Bool) : Except String (Option K) :=
  if st.2.2 then
    match listMin st.1 with
    | some m => .ok (some m)
    | none => .error "ValueError"
  else .ok st.2.1

/-- `_update_diffs(h, i)` (:180-203): the gap left of bin `i` (if `i > 0`: cache position `i - 1`), the gap
right of it (if it is not the last bin: position `i`), then a full recomputation of `min_diff` when an
entry equal to it was overwritten. -/
def updateDiffs (h : Hist K) (i : Nat) : Except String (Hist K) :=
  -- `if h.diffs is not None:` (:184) — the test is the source's (generated): under a bare truthiness test an EMPTY cache
  -- (what `load` of a single bin creates) would be left alone
  if udCache h.diffs then
    match h.diffs with
    | none => .error "TypeError"
    | some d0 =>
      (diffBlock h.bins (d0, h.minDiff, false) (udLeft (i : Int) (h.bins.length : Int)) (i - 1)).bind fun s1 =>
      (diffBlock h.bins s1 (udRight (i : Int) (h.bins.length : Int)) i).bind fun s2 =>
      (finishMin s2).bind fun md =>
      .ok { h with diffs := some s2.1, minDiff := md }
  else .ok h

/-- `_trim` without a cache (:214): the (position, gap) pairs of `enumerate(h.bins[1:], start=1)`; `i` is the index of the
second bin of the pair.  A negative position (Python would index from the end) does not occur for `i ≥ 1`. -/
def scanPairs : Nat → List (K × K) → List (Nat × K)
  | i, a :: b :: rest => ((trimScanIdx (i : Int)).toNat, trimScanGap a.1 b.1) :: scanPairs (i + 1) (b :: rest)
  | _, _ => []

/-- `min(pairs, key=itemgetter(1))[0]`: the position of the first pair with the smallest gap; `none` = `ValueError`. -/
def scanMin : List (Nat × K) → Option Nat
  | [] => none
  | p :: ps => some (ps.foldl (fun m q => if q.2 < m.2 then q else m) p).1

/-- The pair `_trim` merges (:211-215): the first position holding `min_diff` in the cache, or — without a
cache — the first smallest adjacent difference. -/
def trimIndex (h : Hist K) : Except String Nat :=
  -- `if h.diffs is not None:` (:211, the test is the source's)
  if trimCachePick h.diffs then
    match h.diffs with
    | some d =>
      match h.minDiff with
      | some md =>
        match indexOf md d with
        | some i => .ok i
        | none => .error "ValueError"
      | none => .error "ValueError"
    | none => .error "AttributeError"
  else
    -- `diffs = [(i - 1, b[0] - h.bins[i - 1][0]) for i, b in enumerate(h.bins[1:], start=1)]`,
    -- `i, _ = min(diffs, key=itemgetter(1))` (:214-215; position and gap are the source's)
    match scanMin (scanPairs 1 h.bins) with
    | none => .error "ValueError"
    | some i => .ok i

/-- One turn of the `while` loop of `_trim` (:211-224). -/
def trimStep (h : Hist K) : Except String (Hist K) :=
  (trimIndex h).bind fun i =>
  -- `v1, f1 = h.bins[i]`, `v2, f2 = h.bins.pop(i + 1)`, `h.bins[i] = …`, `h.diffs.pop(i)`, `_update_diffs(h, i)`: the
  -- four positions are the source's (generated)
  match h.bins[trimKeep i]?, h.bins[trimPopBin i]? with
  | some (v1, f1), some (v2, f2) =>
    let bins := (h.bins.eraseIdx (trimPopBin i)).set (trimKeep i) (centroid v1 f1 v2 f2, trimCount v1 f1 v2 f2)
    -- `if h.diffs is not None:` (:223, the test is the source's)
    if trimCacheKeep h.diffs then
      match h.diffs with
      | some d =>
        if d.length ≤ trimPopDiff i then .error "IndexError" else
        (updateDiffs { h with bins := bins, diffs := some (d.eraseIdx (trimPopDiff i)) } (trimRefresh i)).bind fun h1 =>
        match h1.diffs.bind listMin with
        | some m => .ok { h1 with minDiff := some m }
        | none => .error "ValueError"
      | none => .error "AttributeError"
    else .ok { h with bins := bins }
  | _, _ => .error "IndexError"

/-- `_trim(h)` (:209-226); `fuel` bounds the `while` loop (one bin disappears per turn). -/
def trim : Nat → Hist K → Except String (Hist K)
  | 0, h => .ok h
  | fuel + 1, h => if trimGuard h.bins.length h.cap then (trimStep h).bind (trim fuel) else .ok h

/-- the list comprehension of `_compute_diffs` -/
def computeGaps : List (K × K) → List K
  | a :: b :: rest => computeGap a.1 b.1 :: computeGaps (b :: rest)
  | _ => []

/-- `_compute_diffs(h)` (:246-250): `[v2 - v1 for (v1, _), (v2, _) in zip(h.bins[:-1], h.bins[1:])]` (the gap is the
source's), `h.min_diff = min(diffs)`. -/
def computeDiffs (h : Hist K) : Except String (Hist K) :=
  let d := computeGaps h.bins
  match listMin d with
  | some m => .ok { h with diffs := some d, minDiff := some m }
  | none => .error "ValueError"

/-- Python's `index` in `update` (:281-288): `(true, n - 1)` stands for `index = -1`. -/
def locate (bins : List (K × K)) (value : K) : Bool × Nat :=
  match bins.head?, bins.getLast? with
  | some b0, some bl =>
    if updFirst value b0.1 bl.1 then (false, 0)
    else if updLast value b0.1 bl.1 then (true, bins.length - 1)
    else (false, bisectLeft value bins)
  | _, _ => (false, 0)

/-- `_search_in_place_index` (:250-262) once `diffs` exist: the bin to update in place, if any
(`none` = Python's `-1`). -/
def searchInPlaceIndex (h : Hist K) (value : K) (idx : Nat) : Except String (Option Nat) :=
  match h.bins[idx - 1]?, h.bins[idx]? with
  | some bp, some bi =>
    let diff1 := searchDiff1 value bp.1 bi.1
    let diff2 := searchDiff2 value bp.1 bi.1
    let (ib, diff) := if searchPickLeft diff1 diff2 then (idx - 1, diff1) else (idx, diff2)
    .ok (if closerThanMin diff h.minDiff then some ib else none)
  | _, _ => .error "IndexError"

/-- `_trim_in_place` (:229-240). -/
def trimInPlace (h : Hist K) (value count : K) (ib : Nat) : Except String (Hist K) :=
  match h.bins[ib]? with
  | some (cv, cf) =>
    updateDiffs { h with bins := h.bins.set ib (inPlaceStored (inPlaceCentre cv cf value count) cv value,
                                                inPlaceCount cv cf value count) } ib
  | none => .error "IndexError"

/-- The insertion of `update` (:301-311) with its cache bookkeeping. -/
def insertBin (h : Hist K) (neg : Bool) (idx : Nat) (value count : K) : Except String (Hist K) :=
  -- `if index == -1:` (:309) and the two `if h.diffs is not None:` (:311, :317) are the source's tests
  if isAppend (if neg then -1 else (idx : Int)) then
    if appendCache h.diffs then
      match h.diffs, h.bins.getLast? with
      | some d, some bl =>
        let diff := value - bl.1
        .ok { h with bins := h.bins ++ [(value, count)], diffs := some (d ++ [diff]),
                     minDiff := some (match h.minDiff with
                                      | none => diff
                                      | some m => appendMinDiff m diff) }
      | _, _ => .ok { h with bins := h.bins ++ [(value, count)] }
    else .ok { h with bins := h.bins ++ [(value, count)] }
  else
    if insertCache h.diffs then
      match h.diffs with
      | some d =>
        updateDiffs { h with bins := h.bins.insertIdx idx (value, count), diffs := some (d.insertIdx idx (0 : K)) } idx
      | none => .ok { h with bins := h.bins.insertIdx idx (value, count) }
    else .ok { h with bins := h.bins.insertIdx idx (value, count) }

/-- `h.min` / `h.max` after an insertion (:318-321): two statements.  `bumpChained` (generated) says whether the second
is an `elif` of the first — then the maximum is left alone whenever the minimum moved. -/
def bumpBounds (h : Hist K) (value : K) : Hist K :=
  { h with min := some (match h.min with
                        | none => value
                        | some m => if bumpMin m value then value else m),
           max := if bumpChained && (match h.min with
                                     | none => true
                                     | some m => bumpMin m value)
                  then h.max
                  else some (match h.max with
                             | none => value
                             | some m => if bumpMax m value then value else m) }

/-- insert (:301-311), bounds (:313-316), `_trim` (:318) -/
def insertTrim (h : Hist K) (neg : Bool) (idx : Nat) (value count : K) : Except String (Hist K) :=
  (insertBin h neg idx value count).bind fun h2 =>
  trim (trimTurns (bumpBounds h2 value).bins.length) (bumpBounds h2 value)

/-- everything after the exact-hit test: the in-place shortcut (:295-299), else insert + trim -/
def afterHit (h : Hist K) (neg : Bool) (idx : Nat) (value count : K) : Except String (Hist K) :=
  if inPlaceTry (if neg then -1 else (idx : Int)) h.bins.length h.cap then
    -- `if h.diffs is None: h.diffs = _compute_diffs(h)` (:254, the test is the source's)
    (if searchNoCache h.diffs then computeDiffs h else .ok h).bind fun h1 =>
    (searchInPlaceIndex h1 value idx).bind fun r =>
    match r with
    | some ib =>
      -- `in_place_index > 0` (:297): bin 0 is never updated in place
      if inPlaceTake (ib : Int) then trimInPlace h1 value count ib else insertTrim h1 neg idx value count
    | none => insertTrim h1 neg idx value count
  else insertTrim h neg idx value count

/-- `update(h, value, count)` (:265-320). -/
def update (h : Hist K) (value count : K) : Except String (Hist K) :=
  if updCountBad count then .error "ValueError" else
  -- exact hit (:290-293): bounds and cache untouched
  match (if 0 < h.bins.length then h.bins[(locate h.bins value).2]? else none) with
  | some (vi, fi) =>
    if hitTest vi value then .ok { h with bins := h.bins.set (locate h.bins value).2 (vi, hitCount fi count) }
    else afterHit h (locate h.bins value).1 (locate h.bins value).2 value count
  | none =>
    if 0 < h.bins.length then .error "IndexError"
    else afterHit h (locate h.bins value).1 (locate h.bins value).2 value count

/-- The bare `merge(h1, h2)` (:320-341): `h1` is updated with every bin of `h2`. -/
def merge (h : Hist K) (other : List (K × K)) : Except String (Hist K) :=
  -- `for value, counts in h2.bins: h = update(h, value, counts)`: which component goes where is the source's
  other.foldlM (fun acc b => update acc (mergeValue b.1 b.2) (mergeCount b.1 b.2)) h

/-- `Distogram.__add__` (:78-84), as repaired: an empty right operand adds nothing.  The test on the operand and the
two bound expressions are the source's (generated); `min(None, x)` is Python's `TypeError`. -/
def add (h t : Hist K) : Except String (Hist K) :=
  (merge h t.bins).bind fun m =>
  if addGuard t.min t.max then
    match m.min, m.max, t.min, t.max with
    | some a, some b, some c, some d => .ok { m with min := some (addMin a c), max := some (addMax b d) }
    | _, _, _, _ => .error "TypeError"
  else .ok m

/-- `bulkload` (:84-113) after numpy: pairs with a positive count are inserted, then the bounds
are widened to the data's. -/
def bulk (h : Hist K) (pairs : List (K × K)) (lo hi : K) : Except String (Hist K) :=
  -- the guard of the loop, the "no bounds yet" test and the two bound expressions are the source's (generated)
  ((pairs.filter (fun p => bulkTake p.2)).foldlM (fun acc b => update acc b.1 b.2) h).bind fun m =>
  if bulkFresh m.min m.max then .ok { m with min := some lo, max := some hi }
  else
    match m.min, m.max with
    | some a, some b => .ok { m with min := some (bulkMin a lo), max := some (bulkMax b hi) }
    | _, _ => .error "TypeError"

/-- `load(bins, minimum, maximum)` (:132-147); the cached difference is the generated `loadDiff`. -/
def loadDiffsFrom (prev : K) : List (K × K) → List K
  | a :: b :: rest => loadDiff prev a.1 b.1 :: loadDiffsFrom a.1 (b :: rest)
  | _ => []

/-- the loop of `load`: `i` runs over `range(len(bins) - 1)` (the bound is the source's, generated); `bins[i - 1]` at `i = 0` is the last bin. -/
def loadDiffs (bins : List (K × K)) : List K :=
  match bins.getLast? with
  | some bl => (loadDiffsFrom bl.1 bins).take (loadTurns (bins.length : Int)).toNat
  | none => []

def load (bins : List (K × K)) (mn mx : Option K) : Hist K :=
  let d := loadDiffs bins
  -- `if dgram.diffs: dgram.min_diff = min(dgram.diffs) else: dgram.min_diff = float("inf")` (:142-145, the test is the source's)
  { bins := bins, min := mn, max := mx, diffs := some d, minDiff := if loadHasDiffs d then listMin d else loadNoDiffs,
    cap := Gen.Distogram.binCount }

def Hist.toR (h : Hist K) : RState K := { bins := h.bins, min := h.min, max := h.max, cap := h.cap }

end Distogram
