import OrsoVerif.Generated.Distogram
/-!
# C13 — the streaming histogram of `orso/profiler/distogram/__init__.py`

Two machines over one carrier `K` with `+ - * / < ≤` (instantiated at any linear ordered
field for the theorems, at `Float` and core `Rat` for the executable driver):

* **Stage 1, the reference algorithm** (`insertRef`, `mergeAt`, `trimRef`, `updateRef`, …):
  insert in order, then repeatedly merge the first closest adjacent pair by weighted centroid.
  All theorems of `Props/C13.lean` are about this machine.
* **Stage 2, the faithful machine** (`update`, `searchInPlace`, `trimInPlace`, `updateDiffs`,
  `trim`, `merge`, `add`, `bulk`, `load`): the code as it exists, line by line, with the cached
  `diffs` / `min_diff`, the exact-hit branch, the in-place shortcut, Python's `index = -1` for
  appends and `in_place_index > 0`.  It is executable and compared with the implementation on
  every run; its equality with the reference is compared, not proved (see `design_notes/C13.md`).

Counts live in `K` as well (Python: ints; exact in `Float` below 2^53).
-/
namespace Distogram

variable {K : Type} [Add K] [Sub K] [Mul K] [Div K] [LT K] [LE K]
  [DecidableLT K] [DecidableLE K] [OfNat K 0] [OfNat K 1] [OfNat K 2]

/-- Python `a == b` on numbers, through the order (no `DecidableEq Float`). -/
def eqK (a b : K) : Bool := decide (a ≤ b) && decide (b ≤ a)

/-- `(v1 * f1 + v2 * f2) / (f1 + f2)`, distogram/__init__.py:215 and :229-231. -/
def centroid (v1 f1 v2 f2 : K) : K := (v1 * f1 + v2 * f2) / (f1 + f2)

/-! ## Stage 1: the reference algorithm -/

/-- Insert in order; an equal centre takes the weight (the code's exact-hit branch). -/
def insertRef (v c : K) : List (K × K) → List (K × K)
  | [] => [(v, c)]
  | (w, f) :: rest =>
    if v < w then (v, c) :: (w, f) :: rest
    else if w < v then (w, f) :: insertRef v c rest
    else (w, f + c) :: rest

/-- Differences of adjacent centres. -/
def gaps : List (K × K) → List K
  | a :: b :: rest => (b.1 - a.1) :: gaps (b :: rest)
  | _ => []

/-- Index of the first minimum of a list (0 on the empty list), `acc` = (best index, best value). -/
def argminFrom : Nat → Nat → K → List K → Nat
  | _, bi, _, [] => bi
  | i, bi, bv, x :: xs => if x < bv then argminFrom (i + 1) i x xs else argminFrom (i + 1) bi bv xs

def argminFirst : List K → Nat
  | [] => 0
  | x :: xs => argminFrom 1 0 x xs

/-- Merge bins `i` and `i+1` into their weighted centroid. -/
def mergeAt : Nat → List (K × K) → List (K × K)
  | 0, (v1, f1) :: (v2, f2) :: rest => (centroid v1 f1 v2 f2, f1 + f2) :: rest
  | n + 1, b :: rest => b :: mergeAt n rest
  | _, l => l

/-- Repeatedly merge the first closest adjacent pair while there are more than `cap` bins. -/
def trimRef (cap : Nat) : Nat → List (K × K) → List (K × K)
  | 0, l => l
  | fuel + 1, l =>
    if cap < l.length then trimRef cap fuel (mergeAt (argminFirst (gaps l)) l) else l

def minO (m : Option K) (v : K) : K :=
  match m with
  | none => v
  | some x => if v < x then v else x

def maxO (m : Option K) (v : K) : K :=
  match m with
  | none => v
  | some x => if x < v then v else x

structure RState (K : Type) where
  bins : List (K × K)
  min : Option K
  max : Option K
  cap : Nat

def RState.init (cap : Nat) : RState K := { bins := [], min := none, max := none, cap := cap }

/-- `update(h, value, count)` of the reference machine (count > 0 is the caller's obligation). -/
def updateRef (s : RState K) (v c : K) : RState K :=
  let l := insertRef v c s.bins
  { s with bins := trimRef s.cap l.length l, min := some (minO s.min v), max := some (maxO s.max v) }

/-- The bare `merge(h1, h2)`: every bin of `h2` is inserted into `h1` (:320-341). -/
def mergeRef (s : RState K) (other : List (K × K)) : RState K :=
  other.foldl (fun acc b => updateRef acc b.1 b.2) s

def optMin (a b : Option K) : Option K :=
  match a, b with
  | some x, some y => some (if y < x then y else x)
  | some x, none => some x
  | none, y => y

def optMax (a b : Option K) : Option K :=
  match a, b with
  | some x, some y => some (if x < y then y else x)
  | some x, none => some x
  | none, y => y

/-- `h1 + h2` (:77-82): merge, then the bounds are set to the true ones. -/
def addRef (s t : RState K) : RState K :=
  let m := mergeRef s t.bins
  { m with min := optMin m.min t.min, max := optMax m.max t.max }

/-- `bulkload` (:84-113) once numpy has produced the (value, count) pairs and the data's
minimum and maximum: insert the pairs with a positive count, then widen the bounds. -/
def bulkRef (s : RState K) (pairs : List (K × K)) (lo hi : K) : RState K :=
  let m := (pairs.filter (fun p => decide (0 < p.2))).foldl (fun acc b => updateRef acc b.1 b.2) s
  { m with min := some (minO m.min lo), max := some (maxO m.max hi) }

/-- Midpoints of consecutive histogram edges, `(e[i] + e[i+1]) / 2` (:102, as repaired). -/
def midpoints : List K → List K
  | a :: b :: rest => (a + b) / 2 :: midpoints (b :: rest)
  | _ => []

/-- `load(**h.dump())`: bins and bounds are kept, the limit becomes the module default. -/
def dumpLoadRef (s : RState K) : RState K := { s with cap := Gen.Distogram.binCount }

/-- Is the smallest adjacent gap attained more than once? -/
def tieIn (l : List (K × K)) : Bool :=
  let g := gaps l
  match g[argminFirst g]? with
  | none => false
  | some m => decide (1 < (g.filter (fun x => eqK x m)).length)

/-- Did some merge step of the reference trim see a tie? -/
def trimTie (cap : Nat) : Nat → List (K × K) → Bool
  | 0, _ => false
  | fuel + 1, l =>
    if cap < l.length then tieIn l || trimTie cap fuel (mergeAt (argminFirst (gaps l)) l) else false

def updateTie (s : RState K) (v c : K) : Bool :=
  let l := insertRef v c s.bins
  trimTie s.cap l.length l

/-! ## Stage 2: the faithful machine -/

structure Hist (K : Type) where
  bins : List (K × K)
  min : Option K
  max : Option K
  /-- `None` until `_search_in_place_index` first computes them (:243-244), or set by `load`. -/
  diffs : Option (List K)
  /-- `none` stands for Python's `None` / `float("inf")`: larger than every number. -/
  minDiff : Option K
  cap : Nat

def Hist.init (cap : Nat) : Hist K :=
  { bins := [], min := none, max := none, diffs := none, minDiff := none, cap := cap }

/-- `min(list)`: the first smallest element; `none` models `ValueError` on an empty list. -/
def listMin : List K → Option K
  | [] => none
  | x :: xs => some (xs.foldl (fun m y => if y < m then y else m) x)

/-- `x < h.min_diff` where `none` is +∞. -/
def ltMinDiff (x : K) (m : Option K) : Bool :=
  match m with
  | none => true
  | some y => decide (x < y)

/-- `x == h.min_diff` where `none` is +∞. -/
def eqMinDiff (x : K) (m : Option K) : Bool :=
  match m with
  | none => false
  | some y => eqK x y

/-- `list.index(x)`: first position holding a value equal to `x`. -/
def indexOf (x : K) : List K → Option Nat
  | [] => none
  | y :: ys => if eqK y x then some 0 else (indexOf x ys).map (· + 1)

/-- `bisect_left(h.bins, (value, 1))` on a sorted list: the number of leading bins that compare
below the tuple `(value, 1)` — `v < value or (v == value and f < 1)`. -/
def bisectLeft (value : K) (bins : List (K × K)) : Nat :=
  (bins.takeWhile (fun b => decide (b.1 < value) || (eqK b.1 value && decide (b.2 < 1)))).length

/-- `_update_diffs(h, i)` (:180-203). `IndexError` when the cache is shorter than the code assumes. -/
def updateDiffs (h : Hist K) (i : Nat) : Except String (Hist K) :=
  match h.diffs with
  | none => .ok h
  | some d0 => do
    let mut d := d0
    let mut md := h.minDiff
    let mut upd := false
    if 0 < i then
      match d[i - 1]?, h.bins[i]?, h.bins[i - 1]? with
      | some old, some bi, some bp =>
        if eqMinDiff old md then upd := true
        let nd := bi.1 - bp.1
        d := d.set (i - 1) nd
        if ltMinDiff nd md then md := some nd
      | _, _, _ => throw "IndexError"
    if i + 1 < h.bins.length then
      match d[i]?, h.bins[i + 1]?, h.bins[i]? with
      | some old, some bn, some bi =>
        if eqMinDiff old md then upd := true
        let nd := bn.1 - bi.1
        d := d.set i nd
        if ltMinDiff nd md then md := some nd
      | _, _, _ => throw "IndexError"
    if upd then
      match listMin d with
      | some m => md := some m
      | none => throw "ValueError"
    return { h with diffs := some d, minDiff := md }

/-- `_trim(h)` (:206-223); `fuel` bounds the `while` loop (one bin disappears per turn). -/
def trim : Nat → Hist K → Except String (Hist K)
  | 0, h => .ok h
  | fuel + 1, h =>
    if h.cap < h.bins.length then do
      let i ←
        match h.diffs with
        | some d =>
          match h.minDiff with
          | some md =>
            match indexOf md d with
            | some i => pure i
            | none => throw "ValueError"
          | none => throw "ValueError"
        | none =>
          match gaps h.bins with
          | [] => throw "ValueError"
          | g => pure (argminFirst g)
      match h.bins[i]?, h.bins[i + 1]? with
      | some (v1, f1), some (v2, f2) =>
        let bins := (h.bins.eraseIdx (i + 1)).set i (centroid v1 f1 v2 f2, f1 + f2)
        match h.diffs with
        | some d =>
          if d.length ≤ i then throw "IndexError"
          let h1 ← updateDiffs { h with bins := bins, diffs := some (d.eraseIdx i) } i
          match h1.diffs.bind listMin with
          | some m => trim fuel { h1 with minDiff := some m }
          | none => throw "ValueError"
        | none => trim fuel { h with bins := bins }
      | _, _ => throw "IndexError"
    else .ok h

/-- `_compute_diffs(h)` (:240-244). -/
def computeDiffs (h : Hist K) : Except String (Hist K) :=
  let d := gaps h.bins
  match listMin d with
  | some m => .ok { h with diffs := some d, minDiff := some m }
  | none => .error "ValueError"

/-- `update(h, value, count)` (:262-317). -/
def update (h : Hist K) (value count : K) : Except String (Hist K) := do
  if count ≤ 0 then throw "ValueError"
  let n := h.bins.length
  -- Python's `index`: `neg` stands for `index = -1`; `idx` is the position it denotes
  let (neg, idx) : Bool × Nat :=
    match h.bins.head?, h.bins.getLast? with
    | some b0, some bl =>
      if value ≤ b0.1 then (false, 0)
      else if bl.1 ≤ value then (true, n - 1)
      else (false, bisectLeft value h.bins)
    | _, _ => (false, 0)
  if 0 < n then
    match h.bins[idx]? with
    | some (vi, fi) =>
      if eqK vi value then
        -- exact hit (:290-293): bounds and cache untouched
        return { h with bins := h.bins.set idx (vi, fi + count) }
    | none => throw "IndexError"
  let mut h := h
  if !neg && 0 < idx && h.cap ≤ n then
    -- `_search_in_place_index` (:248-259)
    if h.diffs.isNone then h ← computeDiffs h
    match h.bins[idx - 1]?, h.bins[idx]? with
    | some bp, some bi =>
      let diff1 := value - bp.1
      let diff2 := bi.1 - value
      let (ib, diff) := if diff1 < diff2 then (idx - 1, diff1) else (idx, diff2)
      -- `in_place_index > 0` (:297): bin 0 is never updated in place
      if ltMinDiff diff h.minDiff && 0 < ib then
        -- `_trim_in_place` (:226-237)
        match h.bins[ib]? with
        | some (cv, cf) =>
          let h1 := { h with bins := h.bins.set ib (centroid cv cf value count, cf + count) }
          return ← updateDiffs h1 ib
        | none => throw "IndexError"
    | _, _ => throw "IndexError"
  if neg then
    let bins := h.bins ++ [(value, count)]
    match h.diffs, h.bins.getLast? with
    | some d, some bl =>
      let diff := value - bl.1
      h := { h with bins := bins, diffs := some (d ++ [diff]),
                    minDiff := some (match h.minDiff with
                                     | none => diff
                                     | some m => if diff < m then diff else m) }
    | _, _ => h := { h with bins := bins }
  else
    let bins := h.bins.take idx ++ (value, count) :: h.bins.drop idx
    match h.diffs with
    | some d =>
      h ← updateDiffs { h with bins := bins, diffs := some (d.take idx ++ (0 : K) :: d.drop idx) } idx
    | none => h := { h with bins := bins }
  let mn := match h.min with
    | none => value
    | some m => if value < m then value else m
  let mx := match h.max with
    | none => value
    | some m => if m < value then value else m
  trim h.bins.length { h with min := some mn, max := some mx }

/-- The bare `merge(h1, h2)` (:320-341): `h1` is updated with every bin of `h2`. -/
def merge (h : Hist K) (other : List (K × K)) : Except String (Hist K) :=
  other.foldlM (fun acc b => update acc b.1 b.2) h

/-- `Distogram.__add__` (:77-82), as repaired: an empty right operand adds nothing. -/
def add (h t : Hist K) : Except String (Hist K) := do
  let m ← merge h t.bins
  match m.min, m.max, t.min, t.max with
  | some a, some b, some c, some d =>
    return { m with min := some (if c < a then c else a), max := some (if b < d then d else b) }
  | _, _, none, _ => return m
  | _, _, _, _ => throw "TypeError"

/-- `bulkload` (:84-113) after numpy: pairs with a positive count are inserted, then the bounds
are widened to the data's. -/
def bulk (h : Hist K) (pairs : List (K × K)) (lo hi : K) : Except String (Hist K) := do
  let m ← (pairs.filter (fun p => decide (0 < p.2))).foldlM (fun acc b => update acc b.1 b.2) h
  match m.min, m.max with
  | some a, some b =>
    return { m with min := some (if lo < a then lo else a), max := some (if b < hi then hi else b) }
  | _, _ => return { m with min := some lo, max := some hi }

/-- `load(bins, minimum, maximum)` (:129-144), as repaired: `diffs[i] = bins[i+1] - bins[i]`. -/
def load (bins : List (K × K)) (mn mx : Option K) : Hist K :=
  let d := gaps bins
  { bins := bins, min := mn, max := mx, diffs := some d, minDiff := listMin d,
    cap := Gen.Distogram.binCount }

def Hist.toR (h : Hist K) : RState K := { bins := h.bins, min := h.min, max := h.max, cap := h.cap }

end Distogram
