import OrsoVerif.Model.PyVal
import OrsoVerif.Model.Persist
/-!
# C16 — the value caster the driver runs: `Caster PyVal`

A small concrete stand-in for `OrsoTypes.<m>.parse` on the values the C16 harness generates (the casts
themselves are C07's subject): values outside the wire universe travel as tagged dictionaries
`{"__t": <class name>, "v": <canonical text>}` (+ `"__falsy__"` when Python's `bool(v)` is false:
`Decimal(0)`, `timedelta(0)`).

* `parse m v` is the identity when `v` already has the class the cast produces (exact class; timestamps
  with whole seconds), reads decimal digits for INTEGER and the canonical ISO text orjson writes for
  DATE / TIMESTAMP / TIME (`'HH:MM:SS[.ffffff]'`, which `parse_time` reads since repair C16-F10), gives `None`
  for NULL, and fails otherwise.  The harness only sends raw defaults inside this domain.
* `json v` = `orjson.loads(orjson.dumps(v))`: bytes, Decimal, timedelta and integers outside
  `-2^63 .. 2^64-1` are TypeErrors; date / datetime / time become their ISO text; non-finite floats
  become null; containers are mapped.
-/
namespace Persist.Py

def lookupKey (k : String) : List (String × PyVal) → Option PyVal
  | [] => none
  | (k', v) :: rest => if k' = k then some v else lookupKey k rest

/-- class name of a wire value -/
def classOf : PyVal → String
  | .none => "None"
  | .bool _ => "bool"
  | .int _ => "int"
  | .float _ => "float"
  | .str _ => "str"
  | .bytes _ => "bytes"
  | .list _ => "list"
  | .dict kvs =>
    match lookupKey "__t" kvs with
    | some (.str t) => t
    | _ => "dict"

def truthy : PyVal → Bool
  | .none => false
  | .bool b => b
  | .int i => i != 0
  | .float b => !(b == 0 || b == 0x8000000000000000)
  | .str s => s != ""
  | .bytes b => !b.isEmpty
  | .list xs => !xs.isEmpty
  | .dict kvs => !kvs.isEmpty && (lookupKey "__falsy__" kvs).isNone

/-- the class of the values `OrsoTypes.<m>.parse` returns (types.py ORSO_TO_PYTHON_PARSER) -/
def producedClass : List (String × String) :=
  [("BOOLEAN", "bool"), ("INTEGER", "int"), ("DOUBLE", "float"), ("DECIMAL", "Decimal"), ("VARCHAR", "str"),
   ("BLOB", "bytes"), ("DATE", "date"), ("TIMESTAMP", "datetime"), ("TIME", "time"), ("INTERVAL", "timedelta"),
   ("STRUCT", "bytes"), ("JSONB", "bytes"), ("ARRAY", "list")]

def tagged (cls text : String) : PyVal := .dict [("__t", .str cls), ("v", .str text)]

/-- `int(<text>)` for an optional sign and ASCII digits -/
def parseIntText (s : String) : Option Int :=
  let cs := s.toList
  let (neg, ds) := match cs with
    | '-' :: r => (true, r)
    | '+' :: r => (false, r)
    | r => (false, r)
  if ds.isEmpty || !ds.all Char.isDigit then none
  else
    let n : Int := Nat.ofDigitChars 10 ds 0
    some (if neg then -n else n)

def parse (m : TypeName.Str) (v : PyVal) : Option PyVal :=
  let name := String.ofList m
  if name = "NULL" then some .none
  else
    match producedClass.lookup name with
    | none => none            -- `_MISSING_TYPE`: no parser
    | some cls =>
      if classOf v = cls then some v
      else
        match name, v with
        | "INTEGER", .str s => (parseIntText s).map .int
        | "DATE", .str s => some (tagged "date" s)
        | "TIMESTAMP", .str s => some (tagged "datetime" s)
        | "TIME", .str s => some (tagged "time" s)     -- 'HH:MM:SS[.ffffff]' as orjson writes a time (repair C16-F10)
        | _, _ => none

mutual
def json : PyVal → Option PyVal
  | .none => some .none
  | .bool b => some (.bool b)
  | .int i => if -9223372036854775808 ≤ i ∧ i ≤ 18446744073709551615 then some (.int i) else none
  | .float b => if (b >>> 52) &&& 0x7FF == 0x7FF then some .none else some (.float b)
  | .str s => some (.str s)
  | .bytes _ => none
  | .list xs => (jsonL xs).map .list
  | .dict kvs =>
    match lookupKey "__t" kvs with
    | some (.str t) =>
      if t = "date" || t = "datetime" || t = "time" then
        match lookupKey "v" kvs with
        | some (.str s) => some (.str s)
        | _ => none
      else none
    | _ => (jsonD kvs).map .dict
def jsonL : List PyVal → Option (List PyVal)
  | [] => some []
  | x :: xs =>
    match json x, jsonL xs with
    | some y, some ys => some (y :: ys)
    | _, _ => none
def jsonD : List (String × PyVal) → Option (List (String × PyVal))
  | [] => some []
  | (k, x) :: xs =>
    match json x, jsonD xs with
    | some y, some ys => some ((k, y) :: ys)
    | _, _ => none
end

def caster : Caster PyVal := { none := .none, truthy := truthy, parse := parse, json := json }

end Persist.Py
