import OrsoVerif.Generated.FrameExpr
/-!
# C03 — DataFrame operators as functions on a plain ordered list of rows

`orso/dataframe.py`.  A frame is its column names and its row listing; every operator is
a function on the listing.  The definitions follow the code (after the `fix:` commits for
`slice`, `select`, `distinct`, `__iter__`, `__add__`):

* `slice` (dataframe.py `slice`): a negative offset counts from the end and is clamped at the
  first row; `length = None` means "to the end".
* `head k = slice 0 k`, `tail k = slice (-k) k`.
* `query`, `filter`, `take` keep the rows at selected positions.
* `select` collects, in the order requested, the indexes of the requested names that exist.
* `distinct` keeps a row unless an equal row has been seen.
* `batches` cuts the listing every `size` rows; `collect` is the column-major transpose.

Round 2: the comprehensions of `select`, the membership test of `take`, the limit normalisation of
`collect` (+ the truncation test of `collect_cython`) and the `range`/window of `to_batches` are the
*generated* definitions of `Gen.Frame` (regenerated from the working tree on every run); the
hand-written reference functions (`indexOf`, `batchesAux`, …) remain as the specification side and the
lemmas of `Lemmas/Frame.lean` tie the two.
-/
namespace Frame

variable {α : Type}

/-- Python's resolution of a slice bound against a list of length `n`: negative bounds count from
the end, everything is clamped into `0..n`. -/
def pyBound (n : Nat) (i : Int) : Nat :=
  if i < 0 then ((n : Int) + i).toNat else min i.toNat n

/-- Python `rows[a:b]`. -/
def pySlice (rows : List α) (a b : Int) : List α :=
  (rows.drop (pyBound rows.length a)).take (pyBound rows.length b - pyBound rows.length a)

/-- Python `rows[a:]`. -/
def pySliceFrom (rows : List α) (a : Int) : List α := rows.drop (pyBound rows.length a)

/-- The offset `slice` works with after its first statement: the *generated* test and replacement
(`if offset < 0: offset = max(len(rows) + offset, 0)` in the source as it is now). -/
def sliceOffset (n : Nat) (offset : Int) : Int :=
  if Gen.Frame.sliceNegTest offset then Gen.Frame.sliceNegStart n offset else offset

/-- `DataFrame.slice(offset, length)`: skeleton by hand, arithmetic from `Gen.Frame`. -/
def slice (rows : List α) (offset : Int) (length : Option Nat) : List α :=
  let off := sliceOffset rows.length offset
  match length with
  | none => pySliceFrom rows off
  | some l =>
    if Gen.Frame.sliceZeroTest l then [] else pySlice rows off (Gen.Frame.sliceStop off l)

/-- `head(k)` and `tail(k)` pass the generated arguments to `slice`. -/
def head (rows : List α) (k : Nat) : List α :=
  slice rows (Gen.Frame.headOffset k) (some (Gen.Frame.headLength k).toNat)

def tail (rows : List α) (k : Nat) : List α :=
  slice rows (Gen.Frame.tailOffset k) (some (Gen.Frame.tailLength k).toNat)

/-- Start index of the window for a list of `n` rows (used by the specifications). -/
def sliceStart (n : Nat) (offset : Int) : Nat := pyBound n (sliceOffset n offset)

/-- Rows at the positions `i` (counted from `start`) for which `sel i` holds, in order. -/
def pickFrom (start : Nat) (sel : Nat → Bool) : List α → List α
  | [] => []
  | r :: rs => if sel start then r :: pickFrom (start + 1) sel rs else pickFrom (start + 1) sel rs

def pick (sel : Nat → Bool) (rows : List α) : List α := pickFrom 0 sel rows

/-- `filter(mask)`: `zip` stops at the shorter of rows and mask. -/
def filter : List α → List Bool → List α
  | r :: rs, m :: ms => if m then r :: filter rs ms else filter rs ms
  | _, _ => []

/-- `take(indexes)`: row `i` is kept iff `i in indexes` (negative indexes never match). -/
def take (rows : List α) (idxs : List Int) : List α :=
  pick (fun i => decide (Gen.Frame.takeTest (i : Int) idxs)) rows

/-- `take` given its index collection as an object of class `kind` whose members are `members` (in whatever order
the object lists them, repeats included): the scan `(m for i, m in enumerate(rows) if i in indexes)` asks the object
only `i in indexes`.  A class for which the method has a return path of its own (`Gen.Frame.ownPathKinds "take"`,
regenerated from the source) is outside what this model describes: `none`. -/
def takeAny (kind : String) (rows : List α) (members : List Int) : Option (List α) :=
  if (Gen.Frame.ownPathKinds "take").any (fun k => k == kind) then none else some (take rows members)

def query (rows : List α) (p : α → Bool) : List α := rows.filter p

/-- Index of the first occurrence of `a` in `names`. -/
def indexOf (names : List String) (a : String) : Option Nat :=
  match names with
  | [] => none
  | n :: ns => if n = a then some 0 else (indexOf ns a).map (· + 1)

/-- `select`: header and source indexes, in the order requested, of the requested names that exist
(`new_header`, `attribute_indices` and the row projection are the generated comprehensions;
`names` is `list(self._schema)`). -/
def selectHeader (names attrs : List String) : List String := Gen.Frame.selectHeader names attrs

def selectIdx (names attrs : List String) : List Nat := Gen.Frame.selectIndices names (selectHeader names attrs)

def project (idxs : List Nat) (row : List α) : List α := Gen.Frame.selectProject idxs row

def select (names : List String) (rows : List (List α)) (attrs : List String) : List String × List (List α) :=
  (selectHeader names attrs, rows.map (project (selectIdx names attrs)))

/-- `distinct`: keep the first of each set of equal rows. -/
def distinctAux [DecidableEq α] (seen : List α) : List α → List α
  | [] => []
  | x :: xs => if x ∈ seen then distinctAux seen xs else x :: distinctAux (x :: seen) xs

def distinct [DecidableEq α] (rows : List α) : List α := distinctAux [] rows

/-- De-duplication through a *key*: a row is dropped when the key of an earlier kept row equals its key (what a
seen-set holding `hash(row)`, `str(row)` or a "hashable form" of the row computes). -/
def distinctOnAux {κ : Type} [DecidableEq κ] (k : α → κ) (seen : List κ) : List α → List α
  | [] => []
  | x :: xs => if k x ∈ seen then distinctOnAux k seen xs else x :: distinctOnAux k (k x :: seen) xs

def distinctOn {κ : Type} [DecidableEq κ] (k : α → κ) (rows : List α) : List α := distinctOnAux k [] rows

/-- `to_batches(size)` for `size ≥ 1` (fuel = number of rows: each step removes at least one). -/
def batchesAux (size : Nat) : Nat → List α → List (List α)
  | 0, _ => []
  | fuel + 1, rows =>
    if rows.isEmpty then [] else rows.take size :: batchesAux size fuel (rows.drop size)

/-- Reference chunking (specification side of `batches`). -/
def chunks (rows : List α) (size : Nat) : List (List α) := batchesAux size rows.length rows

/-- Python `range(start, stop, step)` for a positive step. -/
def pyRange (start stop step : Int) : List Int :=
  if step ≤ 0 then []
  else (List.range (((stop - start).toNat + step.toNat - 1) / step.toNat)).map fun (j : Nat) => start + (j : Int) * step

/-- `to_batches(size)` as the code computes it: one window `rows[lower : upper]` per element of the
generated `range`. -/
def batches (rows : List α) (size : Nat) : List (List α) :=
  (pyRange (Gen.Frame.batchRangeStart rows.length size) (Gen.Frame.batchRangeStop rows.length size)
      (Gen.Frame.batchRangeStep rows.length size)).map
    fun i => pySlice rows (Gen.Frame.batchLower i size) (Gen.Frame.batchUpper i size)

/-- `collect`: the limit after `if limit is None or <neg test>: limit = <all value>`. -/
def effLimit (limit : Option Int) : Int :=
  match limit with
  | none => Gen.Frame.collectAllValue
  | some l => if Gen.Frame.collectNegTest l then Gen.Frame.collectAllValue else l

/-- The limit `DataFrame.collect` hands to `collect_cython`: after the normalisation the generated
clamp `if <collectClampTest>: limit = <collectClampValue>` (a limit at or beyond the row count means all
rows). -/
def passedLimit (n : Nat) (limit : Option Int) : Int :=
  if Gen.Frame.collectClampTest (effLimit limit) n then Gen.Frame.collectClampValue else effLimit limit

/-- Does a limit fit the C type `collect_cython` declares its `limit` parameter with (`int` in
compiled.pyx)?  A value outside raises `OverflowError` when the compiled function is entered. -/
def limitFits (l : Int) : Bool := decide (Gen.Frame.collectLimitMin ≤ l ∧ l ≤ Gen.Frame.collectLimitMax)

/-- Effective number of rows for `collect`'s limit: `collect_cython` truncates `num_rows` to the
limit only under the generated test. -/
def limitRows (n : Nat) (limit : Option Int) : Nat :=
  if Gen.Frame.collectTruncTest (passedLimit n limit) n then (passedLimit n limit).toNat else n

/-- `collect(columns, limit)`: `result[i][j] = rows[j][columns[i]]` for the first `limit` rows;
`none` when a column index is out of range for some row (the real code raises). -/
def collect (rows : List (List α)) (cols : List Nat) (limit : Option Int) : Option (List (List α)) :=
  cols.mapM fun c => ((rows.take (limitRows rows.length limit)).mapM (·[c]?))

end Frame
