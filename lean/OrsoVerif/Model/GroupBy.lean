import OrsoVerif.Model.PyVal
/-!
# C12 — `DataFrame.group_by(...).aggregate(...)`  (`orso/group_by.py`)

The model follows the code as it is after the four `fix:` commits of C12:

* `GroupBy._map` (group_by.py:80-113) walks the rows once and emits, for every row and
  every collected column, a triple `(group_key, column, value)`; `group_key` is the
  *tuple of key values itself* (it used to be `hash(tuple)`), and the first row of a
  group registers the group in `_group_keys` (dict insertion order = first occurrence);
* `GroupBy.aggregate` (group_by.py:115-162) collects every *distinct* requested column
  once (`dict.fromkeys`), registers the group in `column_value_map` before the null
  check, appends the non-null values to `column_value_map[group][column]`, then folds
  every request over that list and lays a row out as a dict: `FUNC(col)` labels in
  request order, then the key columns;
* the aggregators (group_by.py:24-51): `min(default=None)`, `max(default=None)`, `len`,
  `Decimal(sum)/Decimal(len)` (null on no values), `sum` (null on no values).

Two layers.  The *core* is polymorphic in the row type `ρ` and the key type `κ`
(anything with decidable equality): it is the single pass over the emitted triples.
The *frame* layer instantiates it with rows of `PyVal`, looks columns up by name the way
`_map` does and builds the result header and rows with Python's dict semantics.

Numbers: the value columns of the model hold `Int` (null = `none`).  `AVG` is the exact
pair `(sum, n)`, so that no rational arithmetic is needed here; the harness compares it
with orso's `decimal` quotient.  The pseudo column `*` (any requested column that is not a
column of the frame, group_by.py:96-99) has the value `"*"` in every row; the model gives
it the non-null (and, like the text `"*"`, truthy) value `1`; `COUNT` only looks at its being
non-null (the driver refuses any other function on such a column).
-/
namespace GroupBy

/-- The keys of `AGGREGATORS` (group_by.py:51). -/
inductive Func where
  | min | max | count | avg | sum
  deriving DecidableEq, Repr

def Func.all : List Func := [.min, .max, .count, .avg, .sum]

def Func.name : Func → String
  | .min => "MIN" | .max => "MAX" | .count => "COUNT" | .avg => "AVG" | .sum => "SUM"

def Func.ofName (s : String) : Option Func := Func.all.find? (fun f => f.name = s)

/-- The value of one aggregate. -/
inductive Agg where
  | null
  | int (i : Int)
  /-- `AVG`: the exact quotient `sum / n`, `n > 0` -/
  | ratio (sum : Int) (n : Nat)
  deriving DecidableEq, Repr

/-- Python's `sum(values)`: left fold from `0`. -/
def total (vs : List Int) : Int := vs.foldl (· + ·) 0

/-- Python's `min(values, default=None)`: keep the smaller while walking the list. -/
def least : List Int → Option Int
  | [] => none
  | v :: vs => some (vs.foldl min v)

/-- Python's `max(values, default=None)`. -/
def greatest : List Int → Option Int
  | [] => none
  | v :: vs => some (vs.foldl max v)

/-- The aggregators of group_by.py:24-51 on the list of a group's non-null values. -/
def fold : Func → List Int → Agg
  | .count, vs => .int vs.length
  | .min, vs => match least vs with | some m => .int m | none => .null
  | .max, vs => match greatest vs with | some m => .int m | none => .null
  | .sum, [] => .null
  | .sum, vs => .int (total vs)
  | .avg, [] => .null
  | .avg, vs => .ratio (total vs) vs.length

abbrev Req := Func × String

/-- `f"{func}({col})"` -/
def label (q : Req) : String := q.1.name ++ "(" ++ q.2 ++ ")"

/-- Insertion order of a Python dict used as a set: `if x not in seen: seen[x] = …`,
and `list(dict.fromkeys(xs))`. -/
def firstSeen {α : Type} [DecidableEq α] (xs : List α) : List α :=
  xs.foldl (fun seen x => if x ∈ seen then seen else seen ++ [x]) []

section Core
variable {ρ κ : Type} [DecidableEq κ]

/-! `emit`, `collected` and `nonNull` do not look at the values: they are stated for any type `ν` of
values (`Int` here; `XVal` — floats with the infinities and NaN — in `Model/GroupByX.lean`). -/

/-- What `_map` yields (group_by.py:103-113): row-major, one triple per collected column. -/
def emit {ν : Type} (keyOf : ρ → κ) (cell : ρ → String → Option ν) (cols : List String) (rows : List ρ) :
    List (κ × String × Option ν) :=
  rows.flatMap fun r => cols.map fun c => (keyOf r, c, cell r c)

/-- `column_value_map[g][c]` after the collecting loop (group_by.py:133-137): the non-null
values of the triples of group `g` and column `c`, in emission order. -/
def collected {ν : Type} (s : List (κ × String × Option ν)) (g : κ) (c : String) : List ν :=
  s.filterMap fun t => if t.1 = g ∧ t.2.1 = c then t.2.2 else none

/-- `aggregate` up to the layout of the result rows: the groups in insertion order of
`column_value_map`, each with the values of the requests in request order. -/
def aggregate (keyOf : ρ → κ) (cell : ρ → String → Option Int) (rows : List ρ) (reqs : List Req) :
    List (κ × List Agg) :=
  let s := emit keyOf cell (firstSeen (reqs.map (·.2))) rows
  (firstSeen (s.map (·.1))).map fun g => (g, reqs.map fun q => fold q.1 (collected s g q.2))

/-! ### The reference: partition, then fold -/

/-- The group of key `k`: the rows whose key equals `k`, in frame order. -/
def members (keyOf : ρ → κ) (rows : List ρ) (k : κ) : List ρ := rows.filter fun r => keyOf r = k

/-- The non-null values of column `c` over some rows. -/
def nonNull {ν : Type} (cell : ρ → String → Option ν) (rs : List ρ) (c : String) : List ν :=
  rs.filterMap fun r => cell r c

/-- The distinct keys, in order of first occurrence. -/
def groupKeys (keyOf : ρ → κ) (rows : List ρ) : List κ := firstSeen (rows.map keyOf)

/-- Partition-and-fold: one entry per distinct key, each request folded over the non-null
values of that key's rows. -/
def reference (keyOf : ρ → κ) (cell : ρ → String → Option Int) (rows : List ρ) (reqs : List Req) :
    List (κ × List Agg) :=
  (groupKeys keyOf rows).map fun k =>
    (k, reqs.map fun q => fold q.1 (nonNull cell (members keyOf rows k) q.2))

/-- `groups()` (group_by.py:232-251): runs `_map("*")` for its side effect on `_group_keys`
and returns one row per registered group. -/
def groupsOf (keyOf : ρ → κ) (rows : List ρ) : List κ :=
  firstSeen ((emit keyOf (fun _ _ => some (0 : Int)) ["*"] rows).map (·.1))

/-! ### Several calls on one `GroupBy` object

`GroupBy.__init__` creates `self._group_keys = {}` once; every call of `_map` (from `aggregate`,
the wrappers and `groups()`) registers into that same dict, which is never reset.  The value map
`column_value_map` and `aggregated_data` are locals of `aggregate` and start empty on every call
(group_by.py:124-125).  The state of the object between calls is therefore the insertion-ordered
list of registered keys. -/

/-- `if group_key not in self._group_keys: self._group_keys[group_key] = …` over the keys `xs`,
starting from the already registered keys `seen`. -/
def register {α : Type} [DecidableEq α] (seen xs : List α) : List α :=
  xs.foldl (fun seen x => if x ∈ seen then seen else seen ++ [x]) seen

/-- One call on a `GroupBy` object. -/
inductive Op where
  /-- `aggregate(reqs)`, and through it `min/max/sum/avg/count` -/
  | aggregate (reqs : List Req)
  /-- `groups()` -/
  | groups
  deriving Repr

inductive Out (κ : Type) where
  | table (t : List (κ × List Agg))
  | keys (ks : List κ)
  deriving Repr

/-- One call on an object whose `_group_keys` holds `st`: the new `_group_keys` and the result.
`aggregate` walks the groups of its own fresh `column_value_map` and only looks their key values up
in `_group_keys` (always present, and equal to the key itself); `groups()` returns every registered
key. -/
def stepS (keyOf : ρ → κ) (cell : ρ → String → Option Int) (rows : List ρ) (st : List κ) :
    Op → List κ × Out κ
  | .aggregate reqs => (register st (rows.map keyOf), .table (aggregate keyOf cell rows reqs))
  | .groups =>
    let st' := register st ((emit keyOf (fun _ _ => some (0 : Int)) ["*"] rows).map (·.1))
    (st', .keys st')

/-- A sequence of calls on one object, oldest first. -/
def runS (keyOf : ρ → κ) (cell : ρ → String → Option Int) (rows : List ρ) :
    List κ → List Op → List (Out κ)
  | _, [] => []
  | st, op :: ops =>
    (stepS keyOf cell rows st op).2 :: runS keyOf cell rows (stepS keyOf cell rows st op).1 ops

/-- A step of a history of one `GroupBy` object whose frame is also mutated: a call on the object, or
`df.append(row)` on its frame (dataframe.py:136-152; the object holds a reference to the frame, so
later calls walk the longer frame). -/
inductive OpA (ρ : Type) where
  | call (op : Op)
  | append (r : ρ)

/-- The results of the calls of such a history, on an object whose `_group_keys` holds `st`. -/
def runSA (keyOf : ρ → κ) (cell : ρ → String → Option Int) :
    List ρ → List κ → List (OpA ρ) → List (Out κ)
  | _, _, [] => []
  | rows, st, .append r :: ops => runSA keyOf cell (rows ++ [r]) st ops
  | rows, st, .call op :: ops =>
    (stepS keyOf cell rows st op).2 :: runSA keyOf cell rows (stepS keyOf cell rows st op).1 ops

/-- The same calls, each alone on a fresh object of the frame as it is at the time of the call. -/
def aloneA (keyOf : ρ → κ) (cell : ρ → String → Option Int) :
    List ρ → List (OpA ρ) → List (Out κ)
  | _, [] => []
  | rows, .append r :: ops => aloneA keyOf cell (rows ++ [r]) ops
  | rows, .call op :: ops => (stepS keyOf cell rows [] op).2 :: aloneA keyOf cell rows ops

end Core

/-! ### Frames of `PyVal` -/

structure Frame where
  columns : List String
  rows : List (List PyVal)
  deriving Repr

/-- `source_columns.index(target)`; `none` when the name is not a column. -/
def index (c : String) : List String → Option Nat
  | [] => none
  | x :: xs => if x = c then some 0 else (index c xs).map (· + 1)

/-- The numeric reading of a stored value: integers are themselves, null is null.
(The driver refuses frames with anything else in a requested column.) -/
def num : PyVal → Option Int
  | .int i => some i
  | _ => none

/-- `"*" if column == -1 else record[column]` (group_by.py:113), read as a number. -/
def cellOf (columns : List String) (r : List PyVal) (c : String) : Option Int :=
  match index c columns with
  | some i => num (r.getD i .none)
  | none => some 1

/-- `tuple(record[col] for col in group_column_indicies)` -/
def keyAt (idx : List Nat) (r : List PyVal) : List PyVal := idx.map fun i => r.getD i .none

/-- `d[k] = v` on an insertion-ordered dict. -/
def dictSet {β : Type} (d : List (String × β)) (k : String) (v : β) : List (String × β) :=
  match d with
  | [] => [(k, v)]
  | (k', v') :: rest => if k' = k then (k', v) :: rest else (k', v') :: dictSet rest k v

/-- A dict built by successive assignments. -/
def dictOf {β : Type} (kvs : List (String × β)) : List (String × β) :=
  kvs.foldl (fun d kv => dictSet d kv.1 kv.2) []

/-- `d.get(k)` -/
def dictGet {β : Type} (d : List (String × β)) (k : String) : Option β :=
  (d.find? fun kv => kv.1 = k).map (·.2)

/-- The value most recently assigned under `k` in a sequence of assignments (specification side). -/
def lastAssigned {β : Type} (kvs : List (String × β)) (k : String) : Option β :=
  kvs.foldl (fun r kv => if kv.1 = k then some kv.2 else r) none

def Agg.toPyVal : Agg → PyVal
  | .null => .none
  | .int i => .int i
  | .ratio s n => .list [.str "avg", .int s, .int n]

inductive Err where
  /-- `tuple.index` of a key column that is not in the frame -/
  | valueError
  deriving DecidableEq, Repr

/-- The columns of the result: the dict of group_by.py:149-153 has the labels in request
order, then the key columns (a repeated name keeps its first position); the frame takes
its columns from the first such dict, and the empty result is given the same header. -/
def header (keyCols : List String) (reqs : List Req) : List String :=
  (dictOf ((reqs.map fun q => (label q, ())) ++ keyCols.map fun c => (c, ()))).map (·.1)

/-- One result row: `{label: value …}`, then `results[key column] = key value`, read back
in the order of the header (all dicts have the same key sequence). -/
def resultRow (keyCols : List String) (reqs : List Req) (k : List PyVal) (aggs : List Agg) : List PyVal :=
  (dictOf (((reqs.zip aggs).map fun qa => (label qa.1, qa.2.toPyVal)) ++ keyCols.zip k)).map (·.2)

/-- `df.group_by(keyCols).aggregate(reqs)` as (column names, rows). -/
def run (fr : Frame) (keyCols : List String) (reqs : List Req) :
    Except Err (List String × List (List PyVal)) :=
  match keyCols.mapM (fun c => index c fr.columns) with
  | none => .error .valueError
  | some idx =>
    let out := aggregate (keyAt idx) (cellOf fr.columns) fr.rows reqs
    .ok (header keyCols reqs, out.map fun ka => resultRow keyCols reqs ka.1 ka.2)

/-- `df.group_by(keyCols).groups()` as (column names, rows). -/
def runGroups (fr : Frame) (keyCols : List String) : Except Err (List String × List (List PyVal)) :=
  match keyCols.mapM (fun c => index c fr.columns) with
  | none => .error .valueError
  | some idx =>
    .ok ((dictOf (keyCols.map fun c => (c, ()))).map (·.1),
         (groupsOf (keyAt idx) fr.rows).map fun k => (dictOf (keyCols.zip k)).map (·.2))

/-- A sequence of calls on the one object `df.group_by(keyCols)`, each result as
(column names, rows). -/
def runSeq (fr : Frame) (keyCols : List String) (ops : List Op) :
    Except Err (List (List String × List (List PyVal))) :=
  match keyCols.mapM (fun c => index c fr.columns) with
  | none => .error .valueError
  | some idx =>
    .ok ((ops.zip (runS (keyAt idx) (cellOf fr.columns) fr.rows [] ops)).map fun oo =>
      match oo with
      | (.aggregate reqs, .table t) =>
        (header keyCols reqs, t.map fun ka => resultRow keyCols reqs ka.1 ka.2)
      | (_, .keys ks) =>
        ((dictOf (keyCols.map fun c => (c, ()))).map (·.1),
         ks.map fun k => (dictOf (keyCols.zip k)).map (·.2))
      | (.groups, .table _) => ([], []))

end GroupBy
