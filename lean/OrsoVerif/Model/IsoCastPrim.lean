import OrsoVerif.Model.Iso
/-!
# C08 — Python primitives of the cast functions `parse_date` / `parse_time` / `parse_timestamp`

The three functions of `orso/types.py` are translated statement by statement on every run
(`harness/pystmt_text.py`, class `CastProgram`) into `Gen.IsoCast.parseDate / parseTime /
parseTimestamp` (`Generated/IsoCast.lean`).  The generated programs are dynamically typed like the
source: every expression is an `Except Exc Val`, a block is an `Except Exc (Option Val)` — `.ok (some
v)`: the block executed `return v`; `.ok none`: control fell off its end; `.error e`: it raised `e`.
-/
namespace Iso

/-- The Python values the cast functions handle. -/
inductive Val where
  | inp (i : Input)            -- the argument, as given
  | noneV                      -- `None`
  | text (s : List Char)       -- a `str` made on the way (`x.decode("utf-8")`)
  | dtv (d : DateTime)         -- a `datetime.datetime` (what `parse_iso` returns)
  | date (y m d : Nat)         -- a `datetime.date`
  | time (H M S us : Nat)      -- a `datetime.time`
  deriving Repr

/-- The classes (as they are written in the source) a value is an instance of. -/
def Val.classes : Val → List String
  | .inp (.int _) => ["int"]
  | .inp (.npInt _) => ["numpy.int64"]
  | .inp (.float _) => ["float"]
  | .inp (.npFloat _) => ["numpy.float64", "float"]
  | .inp (.str _) => ["str"]
  | .inp (.strSub _) => ["str"]
  | .inp (.bytes _) => ["bytes"]
  | .inp (.date ..) => ["datetime.date"]
  | .inp (.datetime _) => ["datetime.datetime", "datetime.date"]
  | .inp (.time ..) => ["datetime.time"]
  | .inp (.num ..) => []       -- a numeric class: by the constructor's contract none of the classes the casts test (text, bytes, date, time)
  | .inp .other => []
  | .noneV => []
  | .text _ => ["str"]
  | .dtv _ => ["datetime.datetime", "datetime.date"]
  | .date .. => ["datetime.date"]
  | .time .. => ["datetime.time"]

/-- `isinstance(v, (C₁, …))` -/
def pyIsInstance (v : Val) (cs : List String) : Bool := cs.any fun c => v.classes.contains c

/-- `v is None` -/
def pyIsNone : Val → Bool
  | .noneV => true
  | _ => false

/-- `parse_iso(v)` -/
def callParseIso : Val → Except Exc Val
  | .inp i =>
    match parseIso i with
    | .value dt => .ok (.dtv dt)
    | .none => .ok .noneV
    | .raises e => .error e
  | .text s =>
    match parseIso (.str s) with
    | .value dt => .ok (.dtv dt)
    | .none => .ok .noneV
    | .raises e => .error e
  | .noneV => .ok .noneV
  | .dtv d => .ok (.dtv { d with micro := 0 })
  | .date y m d => .ok (.dtv ⟨y, m, d, 0, 0, 0, 0⟩)
  | .time .. => .ok .noneV

/-- `v.date()` -/
def methDate : Val → Except Exc Val
  | .dtv d => .ok (.date d.year d.month d.day)
  | .inp (.datetime d) => .ok (.date d.year d.month d.day)
  | _ => .error .attributeError

/-- `v.time()` -/
def methTime : Val → Except Exc Val
  | .dtv d => .ok (.time d.hour d.minute d.second d.micro)
  | .inp (.datetime d) => .ok (.time d.hour d.minute d.second d.micro)
  | _ => .error .attributeError

/-- `v.decode("utf-8")` -/
def methDecode : Val → Except Exc Val
  | .inp (.bytes b) =>
    match decodeUtf8 b with
    | some s => .ok (.text s)
    | none => .error .unicodeDecodeError
  | _ => .error .attributeError

/-- `datetime.time.fromisoformat(v)`: `TypeError` unless `v` is a `str`. -/
def callTimeFromIso : Val → Except Exc Val
  | .inp (.str s) | .inp (.strSub s) | .text s =>
    (timeFromIso s).bind fun t => .ok (.time t.hour t.minute t.second t.micro)
  | _ => .error .typeError

/-- `raise C(...)` for a class named in the source. -/
def excOfName : String → Exc
  | "ValueError" => .valueError
  | "TypeError" => .typeError
  | "OverflowError" => .overflowError
  | "OSError" => .osError
  | "IndexError" => .indexError
  | "UnicodeDecodeError" => .unicodeDecodeError
  | _ => .attributeError

/-- a variable or `None` as an expression -/
def pyVal (v : Val) : Except Exc Val := .ok v

/-- `return e` -/
def pyReturn (e : Except Exc Val) : Except Exc (Option Val) := e.bind fun v => .ok (some v)

/-- statement `a`, then the statements `rest` unless `a` returned or raised. -/
def pySeq (a rest : Except Exc (Option Val)) : Except Exc (Option Val) :=
  match a with
  | .ok none => rest
  | r => r

/-- `try: body  except (C₁, …): handler` -/
def pyTry (body : Except Exc (Option Val)) (cs : List String) (handler : Except Exc (Option Val)) :
    Except Exc (Option Val) :=
  match body with
  | .error e => if caughtBy cs e then handler else .error e
  | r => r

end Iso
