import OrsoVerif.Model.Cast
/-!
# C07 — the JSON text → elements step of `parse_array` (orso/types.py:325-332)

`parse_array` hands text and bytes to `orjson.loads` and casts the elements of what comes back.  This
file models that reader for the JSON subset canonical renderings of arrays use — `null`, `true` /
`false`, numbers, strings (every escape, surrogate pairs), nested arrays, JSON white space — so the
array theorems start from *text*.  Objects are outside the model (`Err.unsupported`).

What `orjson.loads` does with numbers is modelled as measured: an integer token (no fraction, no
exponent) inside `[-2^63, 2^64)` is an `int` (`-0` is `0`); every other number — integer tokens beyond
64 bits included, open finding C07-K01 — is read as a double through the parameter `fot`
(`float(token)`), and a token whose double is infinite is rejected.

The writer `render` is `orjson.dumps` / `json.dumps` for this subset: compact or with white space after
`[`, after `,` and before `]`; strings escaped as orjson does (`\"`, `\\`, `\b \f \n \r \t`, `\u00XX`
for the other control characters, everything else raw); floats through the parameter `rep`.
-/
namespace Cast.Json

/-- JSON values of the modelled subset (floats by bit pattern). -/
inductive J where
  | null
  | bool (b : Bool)
  | int (n : Int)
  | float (bits : UInt64)
  | str (s : List Char)
  | arr (xs : List J)
  deriving Repr, Inhabited

inductive Err where
  | bad           -- orjson.loads raises JSONDecodeError
  | unsupported   -- valid or not, the text leaves the modelled subset (an object)
  deriving DecidableEq, Repr

/-! ## reader -/

/-- JSON white space (RFC 8259): space, tab, line feed, carriage return — nothing else. -/
def isWs (c : Char) : Bool := c == ' ' || c == '\t' || c == '\n' || c == '\r'

def skipWs (s : List Char) : List Char := s.dropWhile isWs

/-- Characters a number token is made of. -/
def isNumChar (c : Char) : Bool :=
  c.isDigit || c == '-' || c == '+' || c == '.' || c == 'e' || c == 'E'

/-- `0` or a non-zero digit followed by digits (no leading zero). -/
def intPartOk : List Char → Bool
  | [] => false
  | c :: r => c.isDigit && allDigits r && (c != '0' || r.isEmpty)

/-- `.` and at least one digit, or nothing. -/
def fracOk : List Char → Bool
  | [] => true
  | _ :: r => !r.isEmpty && allDigits r

/-- `e`/`E`, an optional sign, at least one digit, or nothing. -/
def expOk : List Char → Bool
  | [] => true
  | _ :: r => !(splitSign r).2.isEmpty && allDigits (splitSign r).2

/-- Split off a leading minus sign. -/
def splitMinus : List Char → Bool × List Char
  | [] => (false, [])
  | c :: r => if c = '-' then (true, r) else (false, c :: r)

/-- The JSON number grammar `-? int frac? exp?` on a whole token. -/
def numberOk (tok : List Char) : Bool :=
  let body := (splitMinus tok).2
  let mant := body.takeWhile notE
  intPartOk (mant.takeWhile notDot) && fracOk (mant.dropWhile notDot) && expOk (body.dropWhile notE)

/-- An integer token: no fraction, no exponent. -/
def isIntTok (tok : List Char) : Bool := tok.all fun c => c.isDigit || c == '-'

def isInfBits (b : UInt64) : Bool := (b &&& 0x7FFFFFFFFFFFFFFF) == 0x7FF0000000000000

/-- The value `orjson.loads` gives a number token (`fot` = `float(token)`). -/
def numValue (fot : List Char → Option UInt64) (tok : List Char) : Option J :=
  if !numberOk tok then none
  else
    let sm := splitMinus tok
    let n : Int := if sm.1 then -(natOf sm.2 : Int) else (natOf sm.2 : Int)
    if isIntTok tok && decide (-9223372036854775808 ≤ n) && decide (n < 18446744073709551616) then some (.int n)
    else
      match fot tok with
      | some b => if isInfBits b then none else some (.float b)
      | none => none

def hexVal (c : Char) : Option Nat :=
  if c.isDigit then some (c.toNat - 48)
  else if 'a' ≤ c ∧ c ≤ 'f' then some (c.toNat - 87)
  else if 'A' ≤ c ∧ c ≤ 'F' then some (c.toNat - 55)
  else none

/-- Four hexadecimal digits. -/
def hex4 : List Char → Option (Nat × List Char)
  | a :: b :: c :: d :: r =>
    match hexVal a, hexVal b, hexVal c, hexVal d with
    | some x, some y, some z, some w => some (x * 4096 + y * 256 + z * 16 + w, r)
    | _, _, _, _ => none
  | _ => none

/-- The single-character escapes. -/
def unescape (e : Char) : Option Char :=
  if e = '"' then some '"' else if e = '\\' then some '\\' else if e = '/' then some '/'
  else if e = 'b' then some (Char.ofNat 8) else if e = 'f' then some (Char.ofNat 12)
  else if e = 'n' then some '\n' else if e = 'r' then some '\r' else if e = 't' then some '\t'
  else none

def consFst (c : Char) : Option (List Char × List Char) → Option (List Char × List Char)
  | some (s, r) => some (c :: s, r)
  | none => none

/-- After the opening quote: the string's characters up to the closing quote, and what follows it.
Raw control characters, unknown escapes, lone or misordered surrogates are rejected. -/
def readStr : Nat → List Char → Option (List Char × List Char)
  | 0, _ => none
  | _ + 1, [] => none
  | fuel + 1, c :: r =>
    if c = '"' then some ([], r)
    else if c = '\\' then
      match r with
      | [] => none
      | e :: r2 =>
        if e = 'u' then
          match hex4 r2 with
          | none => none
          | some (u, r3) =>
            if 0xD800 ≤ u ∧ u < 0xDC00 then
              match r3 with
              | b :: v :: r4 =>
                if b = '\\' ∧ v = 'u' then
                  match hex4 r4 with
                  | some (l, r5) =>
                    if 0xDC00 ≤ l ∧ l < 0xE000 then
                      consFst (Char.ofNat (0x10000 + (u - 0xD800) * 1024 + (l - 0xDC00))) (readStr fuel r5)
                    else none
                  | none => none
                else none
              | _ => none
            else if 0xDC00 ≤ u ∧ u < 0xE000 then none
            else consFst (Char.ofNat u) (readStr fuel r3)
        else
          match unescape e with
          | some ch => consFst ch (readStr fuel r2)
          | none => none
    else if c.toNat < 0x20 then none
    else consFst c (readStr fuel r)

/-- `w` is a prefix of `s`: what follows it. -/
def lit (w s : List Char) : Option (List Char) :=
  if w.isPrefixOf s then some (s.drop w.length) else none

/-- The elements of a non-empty array after `[` and white space: a value, white space, then `,`
(white space, more elements) or `]`. -/
def readItems (rd : List Char → Except Err (J × List Char)) : Nat → List Char → Except Err (List J × List Char)
  | 0, _ => .error .bad
  | fuel + 1, s =>
    match rd s with
    | .error e => .error e
    | .ok (v, r) =>
      match skipWs r with
      | [] => .error .bad
      | d :: r2 =>
        if d = ']' then .ok ([v], r2)
        else if d = ',' then
          match readItems rd fuel (skipWs r2) with
          | .ok (vs, r3) => .ok (v :: vs, r3)
          | .error e => .error e
        else .error .bad

/-- One JSON value at the head of `s` (no leading white space) and what follows it. -/
def readValue (fot : List Char → Option UInt64) : Nat → List Char → Except Err (J × List Char)
  | 0, _ => .error .bad
  | _ + 1, [] => .error .bad
  | fuel + 1, c :: r =>
    if c = '-' ∨ c.isDigit = true then
      match numValue fot ((c :: r).takeWhile isNumChar) with
      | some v => .ok (v, (c :: r).dropWhile isNumChar)
      | none => .error .bad
    else if c = '[' then
      if (skipWs r).head? = some ']' then .ok (.arr [], (skipWs r).tail)
      else
        match readItems (readValue fot fuel) (skipWs r).length (skipWs r) with
        | .ok (vs, r3) => .ok (.arr vs, r3)
        | .error e => .error e
    else if c = '"' then
      match readStr (r.length + 1) r with
      | some (t, r2) => .ok (.str t, r2)
      | none => .error .bad
    else if c = '{' then .error .unsupported
    else if c = 'n' then
      match lit ['u', 'l', 'l'] r with | some r2 => .ok (.null, r2) | none => .error .bad
    else if c = 't' then
      match lit ['r', 'u', 'e'] r with | some r2 => .ok (.bool true, r2) | none => .error .bad
    else if c = 'f' then
      match lit ['a', 'l', 's', 'e'] r with | some r2 => .ok (.bool false, r2) | none => .error .bad
    else .error .bad

/-- `orjson.loads(text)`: white space, one value, white space, end of input. -/
def readJson (fot : List Char → Option UInt64) (s : List Char) : Except Err J :=
  match readValue fot (s.length + 1) (skipWs s) with
  | .error e => .error e
  | .ok (v, r) => if (skipWs r).isEmpty then .ok v else .error .bad

/-! ## writer -/

def hexDigit (n : Nat) : Char := if n < 10 then Char.ofNat (48 + n) else Char.ofNat (87 + n)

/-- One character inside a JSON string, as `orjson.dumps` writes it. -/
def escChar (c : Char) : List Char :=
  if c = '"' then ['\\', '"'] else if c = '\\' then ['\\', '\\']
  else if c.toNat = 8 then ['\\', 'b'] else if c.toNat = 12 then ['\\', 'f']
  else if c = '\n' then ['\\', 'n'] else if c = '\r' then ['\\', 'r'] else if c = '\t' then ['\\', 't']
  else if c.toNat < 0x20 then ['\\', 'u', '0', '0', hexDigit (c.toNat / 16), hexDigit (c.toNat % 16)]
  else [c]

def escBody : List Char → List Char
  | [] => []
  | c :: s => escChar c ++ escBody s

def renderStr (s : List Char) : List Char := '"' :: (escBody s ++ ['"'])

/-- White space a writer may put after `[`, after `,` and before `]` (`orjson.dumps`: none;
`json.dumps`: a space after `,`). -/
structure Ws where
  afterOpen : List Char
  afterComma : List Char
  beforeClose : List Char

def Ws.compact : Ws := ⟨[], [], []⟩
def Ws.jsonDumps : Ws := ⟨[], [' '], []⟩

def Ws.ok (w : Ws) : Prop :=
  (∀ c ∈ w.afterOpen, isWs c = true) ∧ (∀ c ∈ w.afterComma, isWs c = true) ∧ (∀ c ∈ w.beforeClose, isWs c = true)

mutual
/-- The JSON text of a value (`rep` = the float rendering). -/
def render (w : Ws) (rep : UInt64 → List Char) : J → List Char
  | .null => ['n', 'u', 'l', 'l']
  | .bool true => ['t', 'r', 'u', 'e']
  | .bool false => ['f', 'a', 'l', 's', 'e']
  | .int n => renderInt n
  | .float b => rep b
  | .str s => renderStr s
  | .arr [] => ['[', ']']
  | .arr (x :: xs) => '[' :: (w.afterOpen ++ (render w rep x ++ renderTail w rep xs))
/-- The remaining elements, each after `,`, and the closing bracket. -/
def renderTail (w : Ws) (rep : UInt64 → List Char) : List J → List Char
  | [] => w.beforeClose ++ [']']
  | x :: xs => ',' :: (w.afterComma ++ (render w rep x ++ renderTail w rep xs))
end

/-- What the round trip needs of a value: integers inside orjson's 64-bit range, and for every float
the parameter facts — its rendering is a JSON number with a fraction or an exponent that
`float()` reads back to the same finite double. -/
def FloatParam (fot : List Char → Option UInt64) (rep : UInt64 → List Char) (b : UInt64) : Prop :=
  (∀ c ∈ rep b, isNumChar c = true) ∧ numberOk (rep b) = true ∧ isIntTok (rep b) = false ∧
  fot (rep b) = some b ∧ isInfBits b = false

mutual
def Wf (fot : List Char → Option UInt64) (rep : UInt64 → List Char) : J → Prop
  | .int n => -9223372036854775808 ≤ n ∧ n < 18446744073709551616
  | .float b => FloatParam fot rep b
  | .arr xs => WfL fot rep xs
  | _ => True
def WfL (fot : List Char → Option UInt64) (rep : UInt64 → List Char) : List J → Prop
  | [] => True
  | x :: xs => Wf fot rep x ∧ WfL fot rep xs
end

mutual
/-- Nesting depth (a scalar 0, an array one more than its deepest element). -/
def depth : J → Nat
  | .arr xs => depthL xs + 1
  | _ => 0
def depthL : List J → Nat
  | [] => 0
  | x :: xs => max (depth x) (depthL xs)
end

/-! ## from JSON to the array cast -/

/-- The Python object an element is when it reaches the element type's parser (a nested list is an
object of another class). -/
def J.toVal : J → Option Val
  | .null => none
  | .bool b => some (.bool b)
  | .int n => some (.int n)
  | .float b => some (.float b)
  | .str s => some (.str s)
  | .arr _ => some .other

/-- Iterating what `orjson.loads` returned: a list gives its elements, a string its characters; `None`,
`True`, a number are not iterable (`TypeError`). -/
def elementsOf : J → Except Exc (List (Option Val))
  | .arr xs => .ok (xs.map J.toVal)
  | .str s => .ok (s.map fun c => some (.str [c]))
  | _ => .error .typeError

/-- `x = orjson.loads(x)` for text and bytes (bytes must be UTF-8); `none`: outside the modelled
subset.  `JSONDecodeError` is a `ValueError`. -/
def loadElements (fot : List Char → Option UInt64) : Val → Option (Except Exc (List (Option Val)))
  | .str s =>
    match readJson fot s with
    | .ok j => some (elementsOf j)
    | .error .bad => some (.error .valueError)
    | .error .unsupported => none
  | .bytes b =>
    match Iso.decodeUtf8 b with
    | none => some (.error .valueError)
    | some s =>
      match readJson fot s with
      | .ok j => some (elementsOf j)
      | .error .bad => some (.error .valueError)
      | .error .unsupported => none
  | _ => none

/-- `ARRAY.parse(text, element_type=…)` (types.py:325-332): decode, then cast element-wise. -/
def parseArrayText (fot : List Char → Option UInt64) (elem : Option Ty) (v : Val) :
    Option (Except Exc (List (Option Val))) :=
  (loadElements fot v).map fun r => r.bind (parseArray fot elem)

end Cast.Json
