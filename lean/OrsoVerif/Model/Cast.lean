import OrsoVerif.Generated.Cast
import OrsoVerif.Model.Iso
/-!
# C07 — `OrsoTypes.<T>.parse` (orso/types.py:117-120, 221-262, 288-373; orso/tools.py:515-585)

Per-type parsers as total functions to `Except Exc Val`.  Tables and constants come from
`Gen.Cast` (extracted from the source on every run).  `int(str)` is `Iso.pyInt`, DATE / TIMESTAMP
go through the C08 model (`Iso.cast`).

Parameters (not modelled; validated by correspondence / sampling, see `design_notes/C07.md`):
`float(text)` / `repr(float)` (CPython shortest repr), `orjson.loads` / `orjson.dumps`,
Unicode case mapping / digit / white-space tables outside ASCII, the decimal context's
`Emax`/`Emin` (exponents are unbounded here).
-/
namespace Cast

inductive Exc where
  | valueError | typeError | overflowError | unicodeDecodeError | invalidOperation | attributeError
  deriving DecidableEq, Repr

def Exc.name : Exc → String
  | .valueError => "ValueError" | .typeError => "TypeError" | .overflowError => "OverflowError"
  | .unicodeDecodeError => "UnicodeDecodeError" | .invalidOperation => "InvalidOperation"
  | .attributeError => "AttributeError"

/-- A `decimal.Decimal`: `(-1)^neg * coeff * 10^exp`, an infinity, or a (quiet) NaN. -/
inductive Dec where
  | fin (neg : Bool) (coeff : Nat) (exp : Int)
  | inf (neg : Bool)
  | nan
  deriving DecidableEq, Repr

/-- Scalar values that enter and leave a cast. -/
inductive Val where
  | bool (b : Bool)
  | int (n : Int)
  | float (bits : UInt64)
  | str (s : List Char)
  | bytes (b : List UInt8)
  | dec (d : Dec)
  | date (y m d : Nat)
  | datetime (dt : Iso.DateTime)
  | other                     -- any other non-null object (containers, foreign classes)
  deriving DecidableEq, Repr

inductive Ty where
  | boolean | integer | double
  | decimal (p s : Option Nat)
  | varchar (n : Option Nat)
  | blob (n : Option Nat)
  | date | timestamp
  deriving DecidableEq, Repr

def Ty.name : Ty → String
  | .boolean => "BOOLEAN" | .integer => "INTEGER" | .double => "DOUBLE" | .decimal _ _ => "DECIMAL"
  | .varchar _ => "VARCHAR" | .blob _ => "BLOB" | .date => "DATE" | .timestamp => "TIMESTAMP"

/-- The Python class of a value, as named in `ORSO_TO_PYTHON_MAP`. -/
def Val.cls : Val → String
  | .bool _ => "bool" | .int _ => "int" | .float _ => "float" | .str _ => "str" | .bytes _ => "bytes"
  | .dec _ => "decimal.Decimal" | .date .. => "datetime.date" | .datetime _ => "datetime.datetime"
  | .other => "object"

/-! ## text helpers (ASCII models) -/

def upperC (c : Char) : Char := if 'a' ≤ c ∧ c ≤ 'z' then Char.ofNat (c.toNat - 32) else c
def upper (s : List Char) : List Char := s.map upperC
def lowerC (c : Char) : Char := if 'A' ≤ c ∧ c ≤ 'Z' then Char.ofNat (c.toNat + 32) else c
def lower (s : List Char) : List Char := s.map lowerC

/-- The case fold `parse_boolean` applies before the membership test (method name extracted from the
source: `.upper()` today). -/
def fold (s : List Char) : List Char :=
  if Gen.Cast.boolFold == "upper" then upper s else if Gen.Cast.boolFold == "lower" then lower s else s

def asciiChars (b : List UInt8) : List Char := b.map fun x => Char.ofNat x.toNat

def renderNat (n : Nat) : List Char := Nat.toDigits 10 n
/-- `str(n)` for an `int`. -/
def renderInt (n : Int) : List Char :=
  if n < 0 then '-' :: renderNat n.natAbs else renderNat n.natAbs

def renderBool (b : Bool) : List Char := if b then "True".toList else "False".toList

def utf8 (s : List Char) : List UInt8 := (String.ofList s).toUTF8.data.toList

/-- `str(x)` for the values whose `str` is modelled. -/
def strOf : Val → Option (List Char)
  | .bool b => some (renderBool b)
  | .int n => some (renderInt n)
  | .str s => some s
  | _ => none

/-! ## BOOLEAN (types.py:288-289) -/

def parseBoolean : Val → Except Exc Val
  | .str s => .ok (.bool (Gen.Cast.boolStrings.contains (String.ofList (fold s))))
  | .bytes b => .ok (.bool (Gen.Cast.boolBytes.contains (String.ofList (fold (asciiChars b))) && b.all (· < 128)))
  | .bool b => .ok (.bool (Gen.Cast.boolStrings.contains (String.ofList (fold (renderBool b)))))
  | .int n => .ok (.bool (Gen.Cast.boolStrings.contains (String.ofList (fold (renderInt n)))))
  | .float bits => .ok (.bool (bits == 0x3FF0000000000000 && Gen.Cast.boolStrings.contains "1.0"))
  | _ => .ok (.bool false)   -- str(x).upper() of dates, decimals …: never a truthy word (compared)

/-! ## INTEGER (types.py:339-340) -/

def liftIso : Except Iso.Exc Int → Except Exc Int
  | .ok n => .ok n
  | .error .overflowError => .error .overflowError
  | .error _ => .error .valueError

def parseInteger : Val → Except Exc Val
  | .int n => .ok (.int n)
  | .bool b => .ok (.int (if b then 1 else 0))
  | .float bits => (liftIso (Iso.intOfFloat bits)).bind fun n => .ok (.int n)
  | .str s => (liftIso (Iso.pyInt s)).bind fun n => .ok (.int n)
  | .bytes b =>
    if b.all (· < 128) then (liftIso (Iso.pyInt (asciiChars b))).bind fun n => .ok (.int n)
    else .error .valueError
  | _ => .error .typeError

/-! ## DOUBLE (types.py:335-336): `float(text)` is a parameter -/

def parseDouble (floatOfText : List Char → Option UInt64) : Val → Except Exc Val
  | .float bits => .ok (.float bits)
  | .str s => match floatOfText s with | some f => .ok (.float f) | none => .error .valueError
  | .bytes b =>
    if b.all (· < 128) then
      match floatOfText (asciiChars b) with | some f => .ok (.float f) | none => .error .valueError
    else .error .valueError
  | .bool b => .ok (.float (if b then 0x3FF0000000000000 else 0))
  | .int n =>
    if n.natAbs ≥ 2 ^ 1024 then .error .overflowError else .ok (.float (Float.ofInt n).toBits)
  | _ => .error .typeError

/-! ## VARCHAR / BLOB (types.py:292-300, 317-322) -/

/-- Python `xs[:stop]` for an integer `stop` (a negative stop counts from the end). -/
def pyPrefix {α : Type} (xs : List α) (stop : Int) : List α :=
  if stop ≥ 0 then xs.take stop.toNat else xs.take ((xs.length : Int) + stop).toNat

/-- `if <test>: value = value[:<stop>]` with the generated test and stop; `length=None` is falsy. -/
def limitWith {α : Type} (test : Int → Bool) (stop : Int → Int) (n : Option Nat) (xs : List α) : List α :=
  match n with
  | none => xs
  | some k => if test k then pyPrefix xs (stop k) else xs

def limitVarchar {α : Type} (n : Option Nat) (xs : List α) : List α :=
  limitWith (fun k => decide (Gen.Cast.varcharLimitTest k)) Gen.Cast.varcharStop n xs

def limitBlob {α : Type} (n : Option Nat) (xs : List α) : List α :=
  limitWith (fun k => decide (Gen.Cast.blobLimitTest k)) Gen.Cast.blobStop n xs

def parseVarchar (n : Option Nat) : Val → Except Exc Val
  | .bytes b =>
    match Iso.decodeUtf8 b with
    | some s => .ok (.str (limitVarchar n s))
    | none => .error .unicodeDecodeError
  | v =>
    match strOf v with
    | some s => .ok (.str (limitVarchar n s))
    | none => .error .typeError   -- outside the modelled domain (never sent by the harness)

def parseBlob (n : Option Nat) : Val → Except Exc Val
  | .bytes b => .ok (.bytes (limitBlob n b))
  | v =>
    match strOf v with
    | some s => .ok (.bytes (limitBlob n (utf8 s)))
    | none => .error .typeError   -- outside the modelled domain

/-! ## DATE / TIMESTAMP through the C08 model -/

def isoInput : Val → Iso.Input
  | .int n => .int n
  | .float b => .float b
  | .str s => .str s
  | .bytes b => .bytes b
  | .date y m d => .date y m d
  | .datetime dt => .datetime dt
  | _ => .other

def parseTemporal (k : Iso.CastKind) (v : Val) : Except Exc Val :=
  match Iso.cast k (isoInput v) with
  | .date y m d => .ok (.date y m d)
  | .timestamp dt => .ok (.datetime dt)
  | .time .. => .error .valueError
  | .raises _ => .error .valueError

/-! ## DECIMAL (types.py:239-262, tools.py:515-556) -/

def numDigits (n : Nat) : Nat := (Nat.toDigits 10 n).length

/-- `c / 10^k` rounded half to even (`k ≥ 1`). -/
def roundQuot (c k : Nat) : Nat :=
  let q := c / 10 ^ k
  let r := c % 10 ^ k
  if 2 * r > 10 ^ k ∨ (2 * r = 10 ^ k ∧ q % 2 = 1) then q + 1 else q

/-- Round a coefficient to at most `p` digits, half to even (context rounding of `create_decimal`). -/
def roundTo (p : Nat) : Dec → Dec
  | .fin neg c e =>
    if numDigits c ≤ p then .fin neg c e
    else
      let k := numDigits c - p
      let q' := roundQuot c k
      if numDigits q' > p then .fin neg (q' / 10) (e + k + 1) else .fin neg q' (e + k)
  | d => d

/-- Coefficient of `d` rescaled to exponent `target` (rounded half to even when digits are dropped). -/
def rescale (c : Nat) (e target : Int) : Nat :=
  if e ≥ target then c * 10 ^ (e - target).toNat else roundQuot c (target - e).toNat

/-- `d.quantize(Decimal(10) ** target, context)` with precision `p`: `none` = `InvalidOperation`. -/
def quantize (p : Nat) (target : Int) : Dec → Option Dec
  | .fin neg c e => if numDigits (rescale c e target) > p then none else some (.fin neg (rescale c e target) target)
  | .inf _ => none
  | .nan => some .nan

def isWsD (c : Char) : Bool :=
  c == ' ' || (9 ≤ c.toNat && c.toNat ≤ 13) || (28 ≤ c.toNat && c.toNat ≤ 31)

def stripD (s : List Char) : List Char :=
  ((s.dropWhile isWsD).reverse.dropWhile isWsD).reverse

def allDigits (s : List Char) : Bool := s.all Char.isDigit

def natOf (s : List Char) : Nat := Nat.ofDigitChars 10 s 0

/-- An optional sign. -/
def splitSign : List Char → Bool × List Char
  | [] => (false, [])
  | c :: r => if c = '-' then (true, r) else if c = '+' then (false, r) else (false, c :: r)

def notE (c : Char) : Bool := c != 'e' && c != 'E'
def notDot (c : Char) : Bool := c != '.'

/-- The exponent part: empty, or `e`/`E`, an optional sign and at least one digit. -/
def parseExp : List Char → Option Int
  | [] => some 0
  | _ :: r =>
    let sd := splitSign r
    if !sd.2.isEmpty && allDigits sd.2 then some (if sd.1 then -(natOf sd.2 : Int) else (natOf sd.2 : Int))
    else none

/-- `digits [. digits] [exponent]` with at least one digit. -/
def decNumber (neg : Bool) (s : List Char) : Option Dec :=
  let mant := s.takeWhile notE
  let rest := s.dropWhile notE
  let ip := mant.takeWhile notDot
  let fp := (mant.dropWhile notDot).drop 1
  if !(allDigits ip && allDigits fp) || (ip.isEmpty && fp.isEmpty) then none
  else
    match parseExp rest with
    | none => none
    | some x => some (.fin neg (natOf (ip ++ fp)) (x - fp.length))

/-- The numeric-string grammar of `decimal.Decimal` (ASCII, no underscores). -/
def decOfText (s0 : List Char) : Option Dec :=
  let ns := splitSign s0
  let u := upper ns.2
  if u == "INF".toList || u == "INFINITY".toList then some (.inf ns.1)
  else if u == "NAN".toList || u == "SNAN".toList then some .nan
  else decNumber ns.1 ns.2

/-- Where `Decimal.__str__` puts the point: plain notation when the exponent is not positive and
there are at most five leading fractional zeros, else scientific with one leading digit. -/
def dotPlace (e left : Int) : Int := if e ≤ 0 ∧ left > -6 then left else 1

def renderBody (ds : List Char) (dot : Int) : List Char :=
  if dot ≤ 0 then '0' :: '.' :: (List.replicate (-dot).toNat '0' ++ ds)
  else if dot ≥ ds.length then ds ++ List.replicate (dot - ds.length).toNat '0'
  else ds.take dot.toNat ++ '.' :: ds.drop dot.toNat

/-- `"E%+d" % x`, nothing for 0. -/
def renderExp (x : Int) : List Char :=
  if x = 0 then [] else 'E' :: (if x < 0 then '-' else '+') :: Nat.toDigits 10 x.natAbs

def renderFin (neg : Bool) (ds : List Char) (e : Int) : List Char :=
  (if neg then ['-'] else []) ++ renderBody ds (dotPlace e (e + ds.length))
    ++ renderExp (e + ds.length - dotPlace e (e + ds.length))

/-- `str(d)` for a `decimal.Decimal` (CPython `Decimal.__str__`). -/
def renderDec : Dec → List Char
  | .nan => "NaN".toList
  | .inf neg => (if neg then ['-'] else []) ++ "Infinity".toList
  | .fin neg c e => renderFin neg (Nat.toDigits 10 c) e

/-- The text handed to `create_decimal`: all-digit text gets `"." + "0" * <generated count>`. -/
def padText (s : Nat) (t : List Char) : List Char :=
  if !t.isEmpty && allDigits t then t ++ '.' :: List.replicate (Gen.Cast.padCount s).toNat '0' else t

/-- `context.create_decimal(value)`: parse, then round to the context precision. -/
def created (prec s : Nat) : Sum (List Char) Dec → Option Dec
  | .inl t => (decOfText (stripD (padText s t))).map (roundTo prec)
  | .inr d => some (roundTo prec d)

/-- `DecimalFactory.__call__` on a value that is already text or a Decimal: the generated context
precision, the generated quantisation exponent, the `InvalidOperation` fallback. -/
def factory (p s : Nat) (v : Sum (List Char) Dec) : Except Exc Val :=
  if Gen.Cast.contextPrec p < 1 then .error .valueError   -- decimal.Context(prec=0)
  else
    let prec := (Gen.Cast.contextPrec p).toNat
    match created prec s v with
    | none => .error .invalidOperation
    | some d =>
      match quantize prec (Gen.Cast.quantExp (Gen.Cast.quantScale s)) d with
      | some r => .ok (.dec r)
      | none => .ok (.dec d)     -- the InvalidOperation fallback

def parseDecimal (p s : Option Nat) (v : Val) : Except Exc Val :=
  let p := p.getD Gen.Cast.defaultPrecision
  let s := s.getD Gen.Cast.defaultScale
  match v with
  | .int n => factory p s (.inl (stripD (renderInt n)))
  | .bool b => factory p s (.inl (stripD (renderBool b)))
  | .str t => factory p s (.inl (stripD t))
  | .bytes b =>
    match Iso.decodeUtf8 b with
    | some t => factory p s (.inl (stripD t))
    | none => .error .unicodeDecodeError
  | .dec d => factory p s (.inr d)
  | _ => .error .typeError   -- floats go through repr (parameter); other objects: compared as "raises"

/-! ## dispatch (types.py:117-120, 363-378) -/

/-- The `length=` keyword a type carries. -/
def Ty.length : Ty → Option Nat
  | .varchar n => n | .blob n => n | _ => none
def Ty.precision : Ty → Option Nat
  | .decimal p _ => p | _ => none
def Ty.scale : Ty → Option Nat
  | .decimal _ s => s | _ => none

/-- The parser functions of `orso/types.py` by name, applied with the keywords the type carries
(`parse_bytes` is the BLOB parser; parsers of types outside the statement are not modelled). -/
def parserByName (floatOfText : List Char → Option UInt64) (t : Ty) (name : String) : Option (Val → Except Exc Val) :=
  if name == "parse_boolean" then some parseBoolean
  else if name == "parse_integer" then some parseInteger
  else if name == "parse_double" then some (parseDouble floatOfText)
  else if name == "parse_decimal" then some (parseDecimal t.precision t.scale)
  else if name == "parse_varchar" then some (parseVarchar t.length)
  else if name == "parse_bytes" then some (parseBlob t.length)
  else if name == "parse_date" then some (parseTemporal .date)
  else if name == "parse_timestamp" then some (parseTemporal .timestamp)
  else none

/-- `ORSO_TO_PYTHON_PARSER[self.value](value, **kwargs)`: the parser is looked up in the table
extracted from the source on this run. -/
def parseWith (floatOfText : List Char → Option UInt64) (t : Ty) (v : Val) : Except Exc Val :=
  match (Gen.Cast.parserOf.lookup t.name).bind (parserByName floatOfText t) with
  | some f => f v
  | none => .error .typeError   -- no entry (KeyError) or a parser outside the model

/-- Python truthiness of a value (`not value`). -/
def Val.falsy : Val → Bool
  | .bool b => !b
  | .int n => n == 0
  | .float b => b == 0 || b == 0x8000000000000000
  | .str s => s.isEmpty
  | .bytes b => b.isEmpty
  | .dec (.fin _ c _) => c == 0
  | _ => false

/-- `OrsoTypes.parse(value)` around any parser `run`: the early `return None` under the test
extracted from the source (`value is None` today), then the parser.  `none` is Python's `None`. -/
def parseVia (run : Val → Except Exc Val) : Option Val → Except Exc (Option Val)
  | none => if Gen.Cast.nullGuard True True then .ok none else .error .typeError
  | some v =>
    if Gen.Cast.nullGuard False (v.falsy = true) then .ok none
    else (run v).bind fun r => .ok (some r)

/-- `OrsoTypes.<T>.parse(value)`. -/
def parse (floatOfText : List Char → Option UInt64) (t : Ty) : Option Val → Except Exc (Option Val) :=
  parseVia (parseWith floatOfText t)

/-- `parse_array` after JSON decoding: element-wise through the element type's `parse`. -/
def parseArray (floatOfText : List Char → Option UInt64) (elem : Option Ty) :
    List (Option Val) → Except Exc (List (Option Val))
  | [] => .ok []
  | x :: xs =>
    match elem with
    | none => .ok (x :: xs)
    | some t =>
      (parse floatOfText t x).bind fun r => (parseArray floatOfText elem xs).bind fun rs => .ok (r :: rs)

/-- `FlatColumn(default=d)` (orso/schema.py:203-210): under the test extracted from the source
(`if self.default:` today) the default is replaced by `run d` — the column type's cast, no options;
otherwise it is kept as given.  `isInst`: whether `d` passes any `isinstance` test the guard mentions. -/
def columnDefault (run : Option Val → Except Exc (Option Val)) (isInst : Bool) (d : Option Val) :
    Except Exc (Option Val) :=
  let truthy : Bool := match d with | none => false | some v => !v.falsy
  if Gen.Cast.defaultGuard (truthy = true) (d.isNone = true) (isInst = true) then run d else .ok d

/-- The class a cast to `t` must return. -/
def Ty.cls (t : Ty) : String := (Gen.Cast.pythonClass.lookup t.name).getD "?"

end Cast
