/-!
# C02 — dictionary records onto rows by field name

`orso/row.py` (`Row.__new__`, `get`, `as_map`, `as_dict`, `values`, `keys`),
`extract_dict_columns` in `orso/compute/compiled.pyx`, and the dictionary constructor /
`append` of `orso/dataframe.py`.  A Python dictionary is a key-unique association list in
insertion order; `null` is the value used for absent fields (`None`).
-/
namespace DictRow

variable {α : Type}

/-- Dictionary lookup (first pair with that key; keys are unique in a real dictionary). -/
def lookup (k : String) : List (String × α) → Option α
  | [] => none
  | (k', v) :: rest => if k' = k then some v else lookup k rest

/-- `extract_dict_columns(data, fields)`: per-field lookup, `None` when absent. -/
def extract (null : α) (fields : List String) (d : List (String × α)) : List α :=
  fields.map fun f => (lookup f d).getD null

/-- `dict[k] = v` on an insertion-ordered dictionary. -/
def insert (k : String) (v : α) : List (String × α) → List (String × α)
  | [] => [(k, v)]
  | (k', v') :: rest => if k' = k then (k', v) :: rest else (k', v') :: insert k v rest

/-- `dict(pairs)`: first-insertion order, last value wins. -/
def ofPairs (m : List (String × α)) : List (String × α) :=
  m.foldl (fun acc p => insert p.1 p.2 acc) []

/-- `as_map`: `tuple(zip(fields, row))`. -/
def asMap (fields : List String) (row : List α) : List (String × α) := fields.zip row

/-- `as_dict`: `dict(as_map)`. -/
def asDict (fields : List String) (row : List α) : List (String × α) := ofPairs (asMap fields row)

def indexOf (fields : List String) (a : String) : Option Nat :=
  match fields with
  | [] => none
  | n :: ns => if n = a then some 0 else (indexOf ns a).map (· + 1)

/-- `Row.get(item, default)`: the value at the first position of `item`, else the default. -/
def get (fields : List String) (row : List α) (item : String) (default : α) : α :=
  match indexOf fields item with
  | some i => (row[i]?).getD default
  | none => default

/-- `DataFrame(dictionaries)`: columns from the first dictionary, one row per dictionary;
`none` for an empty sequence (the real constructor raises `StopIteration`). -/
def frameOfDicts (null : α) (ds : List (List (String × α))) : Option (List String × List (List α)) :=
  match ds with
  | [] => none
  | d :: _ => some (d.map (·.1), ds.map (extract null (d.map (·.1))))

/-- `append(dict)` on a frame with the given fields. -/
def append (null : α) (fields : List String) (rows : List (List α)) (d : List (String × α)) : List (List α) :=
  rows ++ [extract null fields d]

/-- The views of a row the property names: `as_map`, `as_dict`, `values`, `keys()`, `as_json`
(for `as_json`: the object it serialises). -/
inductive View where
  | asMap | asDict | values | keys | asJson
  deriving DecidableEq, Repr

/-- A stretch of the records the constructor `DataFrame(dictionaries)` builds rows from: the record `next(dicts)`
took off (`first`), what the iterator `dicts = iter(dictionaries)` still has (`rest`), a NEW iteration of the
caller's object (`again`). -/
inductive Seg where
  | first | rest | again
  deriving DecidableEq, Repr

/-- Where `RelationSchema.__iter__` takes the column names from: the column objects as they are now
(`[col.name for col in self.columns]`) or the `column_names` accessor. -/
inductive IterVia where
  | columns | columnNames
  deriving DecidableEq, Repr

/-- Where a piece of code takes a schema's column names from: the column objects as they are now, the
`column_names` accessor, or iteration over the schema object (`for s in schema`, `list(schema)`). -/
inductive Via where
  | columns | columnNames | iter
  deriving DecidableEq, Repr

end DictRow
