import OrsoVerif.Model.GroupBy
import OrsoVerif.Model.GroupByX
import OrsoVerif.Model.GroupByIR
import OrsoVerif.Model.GroupByEq
import OrsoVerif.Generated.GroupByCode
/-!
# C12 — `group_by.py` read statement by statement

`Model/GroupBy.lean` is the *functional* model (one pass over emitted triples, written by hand).
This file is the *code-level* model: an interpreter for the terms `harness/extractors/c12_code.py`
regenerates from the AST of the working tree on every run (`Generated/GroupByCode.lean`):

* `_map` (group_by.py:66-104): what identifies a group (`KeyExpr`), whether the row loop registers
  the group in `self._group_keys`, which value is yielded for a requested column (`ValExpr`), the
  tests a `yield` sits under, and what the row loop iterates (`RowsVia`);
* `aggregate` (group_by.py:106-149): the argument handed to `_map` (`CollectExpr`), the collection
  loop as a list of *guarded actions* on `column_value_map` (every statement with the conjunction of
  the tests on `value` it sits under — `if … : continue` guards what follows it), the label
  f-strings, the branch for a result without groups;
* the five aggregator functions as expressions over `values` (`AExpr`);
* `DataFrame.__iter__` / `materialize` (dataframe.py:183-188, 433-435): whether iterating a lazily
  backed frame turns its backing store into a list first.

`column_value_map` (a `defaultdict` of `defaultdict(list)`) is represented by the insertion-ordered
list of its group keys and the log of `append`s; `column_value_map[g].get(c, [])` is the projection
of the log on `(g, c)`.  Values are `Option Int` (null = `none`); a body that appends without a null
test appends nulls, and an aggregator meeting a null raises (`AVal.err`).

`Lemmas/GroupByCode.lean` proves that every program satisfying the decidable conditions `bodyOk`,
`yieldOk` … computes what the functional model computes; `Props/C12.lean` discharges the conditions
for the generated program (`source`) by evaluation.
-/
namespace GroupByCode
open GroupBy GroupByIR

/-- Everything the extractor reads from the source. -/
structure Program where
  key : KeyExpr
  registers : Bool
  value : ValExpr
  /-- how the position of a requested column is found -/
  colIndex : ColIndexExpr
  yieldGuards : List Guard
  via : RowsVia
  collect : CollectExpr
  body : List (List Guard × Action)
  aggs : List (String × AExpr)
  labels : List (List LabelPart)
  /-- the value written into a result row under a label -/
  cell : CellExpr
  aggEmptyHeader : Bool
  groupsEmptyHeader : Bool
  iterMaterialises : Bool
  materializeMakesList : Bool
  /-- `column_value_map = defaultdict(…)` is created inside `aggregate` (not kept on the object) -/
  freshValueMap : Bool
  /-- `self._group_keys = {}` is created in `__init__` (not shared by the objects of the class) -/
  registryPerObject : Bool
  deriving Repr

/-- The program in the working tree (regenerated on every run). -/
def source : Program :=
  { key := Gen.GroupByCode.groupKey
    registers := Gen.GroupByCode.mapRegisters
    value := Gen.GroupByCode.mapValue
    colIndex := Gen.GroupByCode.collectIndex
    yieldGuards := Gen.GroupByCode.mapYieldGuards
    via := Gen.GroupByCode.rowsVia
    collect := Gen.GroupByCode.collectColumns
    body := Gen.GroupByCode.collectBody
    aggs := Gen.GroupByCode.aggregators
    labels := Gen.GroupByCode.labelFormats
    cell := Gen.GroupByCode.resultCell
    aggEmptyHeader := Gen.GroupByCode.aggregateEmptyHeader
    groupsEmptyHeader := Gen.GroupByCode.groupsEmptyHeader
    iterMaterialises := Gen.GroupByCode.iterMaterialises
    materializeMakesList := Gen.GroupByCode.materializeMakesList
    freshValueMap := Gen.GroupByCode.freshValueMap
    registryPerObject := Gen.GroupByCode.registryPerObject }

/-! ### the aggregator functions -/

/-- What an aggregator returns: `None`, a number, the exact quotient `sum / n` (`n > 0`), or an
exception (its class). -/
inductive AVal where
  | none
  | int (i : Int)
  | ratio (sum : Int) (n : Nat)
  /-- `sum / n` in float arithmetic (`int / int`, no `Decimal` operand): the double nearest to the
  quotient, which is the quotient itself only when that is representable — not beyond `2**53` -/
  | fratio (sum : Int) (n : Nat)
  | err (cls : String)
  deriving DecidableEq, Repr

def AVal.ofAgg : Agg → AVal
  | .null => .none
  | .int i => .int i
  | .ratio s n => .ratio s n

/-- back to the functional model's cell (an exception has no cell; callers test `isErr` first) -/
def AVal.toAgg : AVal → Agg
  | .none => .null
  | .int i => .int i
  | .ratio s n => .ratio s n
  | .fratio s n => .ratio s n  -- rendered as the quotient it approximates
  | .err _ => .null

def AVal.isErr : AVal → Bool
  | .err _ => true
  | _ => false

/-- Python truthiness of a result (`x or y`). -/
def AVal.falsy : AVal → Bool
  | .none => true
  | .int i => i = 0
  | .ratio s _ => s = 0
  | .fratio s _ => s = 0
  | .err _ => false

/-- The values as numbers, when none of them is null. -/
def clean : List (Option Int) → Option (List Int)
  | [] => some []
  | none :: _ => none
  | some v :: vs => (clean vs).map (v :: ·)

/-- `decimal.Decimal(…)`: a division with such an operand is exact (28 significant digits, modelled as
exact); `int / int` is float division. -/
def isDec : AExpr → Bool
  | .decimal _ => true
  | _ => false

/-- The meaning of an aggregator body on the list `column_values.get(col, [])`. -/
def evalA : AExpr → List (Option Int) → AVal
  | .none, _ => .none
  | .lit i, _ => .int i
  | .len, vs => .int vs.length
  | .sum, vs =>
    match clean vs with
    | some xs => .int (total xs)
    | none => .err "TypeError"
  | .minE, vs =>
    match clean vs with
    | some xs => (match least xs with | some m => .int m | none => .err "ValueError")
    | none => .err "TypeError"
  | .maxE, vs =>
    match clean vs with
    | some xs => (match greatest xs with | some m => .int m | none => .err "ValueError")
    | none => .err "TypeError"
  | .minD d, vs =>
    match clean vs with
    | some xs => (match least xs with | some m => .int m | none => evalA d vs)
    | none => .err "TypeError"
  | .maxD d, vs =>
    match clean vs with
    | some xs => (match greatest xs with | some m => .int m | none => evalA d vs)
    | none => .err "TypeError"
  | .decimal e, vs =>
    match evalA e vs with
    | .none => .err "TypeError"
    | v => v
  | .div a b, vs =>
    match evalA a vs, evalA b vs with
    | .int s, .int n =>
      if 0 < n then (if isDec a || isDec b then .ratio s n.toNat else .fratio s n.toNat)
      else if n < 0 then (if isDec a || isDec b then .ratio (-s) (-n).toNat else .fratio (-s) (-n).toNat)
      else .err "ZeroDivisionError"
    | .err c, _ => .err c
    | _, .err c => .err c
    | _, _ => .err "TypeError"
  | .orElse a b, vs => if (evalA a vs).falsy then evalA b vs else evalA a vs
  | .ifEmpty a b, vs => if vs.isEmpty then evalA a vs else evalA b vs
  | .raise, _ => .err "KeyError"

/-- `AGGREGATORS[func]` -/
def aggOf (P : Program) (f : Func) : AExpr := (P.aggs.lookup f.name).getD .raise

/-! ### tests on the value of a triple -/

def holds : Guard → Option Int → Bool
  | .notNone, v => v.isSome
  | .isNone, v => v.isNone
  | .truthy, some x => x != 0
  | .truthy, none => false
  | .falsy, some x => x == 0
  | .falsy, none => true
  | .isNaN, _ => false  -- no integer (and not `None`) differs from itself
  | .notNaN, _ => true

def guardsHold (gs : List Guard) (v : Option Int) : Bool := gs.all (holds · v)

/-- The actions of a loop body that run for a value `v`, in order. -/
def effect (body : List (List Guard × Action)) (v : Option Int) : List Action :=
  (body.filter fun ga => guardsHold ga.1 v).map (·.2)

def isAppend : Action → Bool
  | .append => true
  | .touch => false

/-- The collection loop does what the property needs: on a null it registers the group and appends
nothing; on a non-null value (zero or not — the tests cannot tell other values apart) it appends the
value exactly once.  Decided by running the body on the three kinds of value. -/
def bodyOk (body : List (List Guard × Action)) : Bool :=
  (effect body none != []) && (effect body none).all (· == .touch)
  && ((effect body (some 0)).filter isAppend).length == 1
  && ((effect body (some 1)).filter isAppend).length == 1

/-- `_map` yields every triple, whatever its value. -/
def yieldOk (gs : List Guard) : Bool :=
  guardsHold gs none && guardsHold gs (some 0) && guardsHold gs (some 1)

/-! ### the same tests on the values of a float column (`Model/GroupByX.lean`)

A float column can hold a NaN, and a test can tell it from every other value (`value != value`,
`math.isnan(value)`).  The statement folds the group's *non-null* values and a NaN is not a null, so
the collection loop must append a NaN (and an infinity, and a zero) exactly once as well. -/

def holdsX : Guard → Option XVal → Bool
  | .notNone, v => v.isSome
  | .isNone, v => v.isNone
  | .truthy, some (.fin i) => i != 0
  | .truthy, some _ => true  -- NaN and the infinities are truthy
  | .truthy, none => false
  | .falsy, some (.fin i) => i == 0
  | .falsy, some _ => false
  | .falsy, none => true
  | .isNaN, some .nan => true
  | .isNaN, _ => false
  | .notNaN, some .nan => false
  | .notNaN, _ => true

def guardsHoldX (gs : List Guard) (v : Option XVal) : Bool := gs.all (holdsX · v)

/-- The actions of a loop body that run for a float value `v` (or a null), in order. -/
def effectX (body : List (List Guard × Action)) (v : Option XVal) : List Action :=
  (body.filter fun ga => guardsHoldX ga.1 v).map (·.2)

/-- The kinds of float value the tests can tell apart: zero, another finite number, the two
infinities, NaN. -/
def xKinds : List XVal := [.fin 0, .fin 1, .pinf, .ninf, .nan]

/-- On a null the loop registers the group and appends nothing; on every kind of float value —
NaN included — it appends exactly once. -/
def bodyOkX (body : List (List Guard × Action)) : Bool :=
  (effectX body none != []) && (effectX body none).all (· == .touch)
  && xKinds.all fun v => ((effectX body (some v)).filter isAppend).length == 1

/-- `_map` yields every triple, whatever float its value is. -/
def yieldOkX (gs : List Guard) : Bool := guardsHoldX gs none && xKinds.all fun v => guardsHoldX gs (some v)

section Core
variable {ρ κ ι : Type} [DecidableEq κ] [DecidableEq ι]

/-! ### `column_value_map` -/

/-- `column_value_map`: its keys in insertion order and the log of appended values. -/
structure CVM (ι : Type) where
  groups : List ι
  log : List (ι × String × Option Int)
  deriving Repr

/-- `if x not in seen: seen[x] = …` -/
def insKey (seen : List ι) (x : ι) : List ι := if x ∈ seen then seen else seen ++ [x]

/-- One action for the triple `t`. -/
def act (m : CVM ι) (t : ι × String × Option Int) : Action → CVM ι
  | .touch => { groups := insKey m.groups t.1, log := m.log }
  | .append => { groups := insKey m.groups t.1, log := m.log ++ [t] }

/-- The loop body for one triple: every action whose tests hold, in source order. -/
def stepBody (body : List (List Guard × Action)) (m : CVM ι) (t : ι × String × Option Int) : CVM ι :=
  body.foldl (fun m ga => if guardsHold ga.1 t.2.2 then act m t ga.2 else m) m

/-- `for group_key, column, value in self._map(collect_columns): …` starting from the map `m0` -/
def collectFrom (body : List (List Guard × Action)) (m0 : CVM ι) (s : List (ι × String × Option Int)) : CVM ι :=
  s.foldl (stepBody body) m0

/-- … starting from the fresh map `column_value_map = defaultdict(…)` -/
def collectLoop (body : List (List Guard × Action)) (s : List (ι × String × Option Int)) : CVM ι :=
  collectFrom body { groups := [], log := [] } s

/-- `column_value_map[g].get(c, [])` -/
def CVM.get (m : CVM ι) (g : ι) (c : String) : List (Option Int) :=
  m.log.filterMap fun t => if t.1 = g ∧ t.2.1 = c then some t.2.2 else none

/-! ### `_map` -/

/-- The triples `_map` yields: row-major, one per collected column whose `yield` is reached. -/
def mapTriples (gs : List Guard) (ident : κ → ι) (keyOf : ρ → κ) (cell : ρ → String → Option Int)
    (cols : List String) (rows : List ρ) : List (ι × String × Option Int) :=
  rows.flatMap fun r =>
    (cols.map fun c => (ident (keyOf r), c, cell r c)).filter fun t => guardsHold gs t.2.2

/-- `if group_key not in self._group_keys: self._group_keys[group_key] = [key columns of this row]`
over the rows, starting from the entries `st` left by earlier calls on the object. -/
def registerRows (ident : κ → ι) (keyOf : ρ → κ) (st : List (ι × κ)) (rows : List ρ) : List (ι × κ) :=
  rows.foldl (fun st r =>
    if st.any (fun e => e.1 = ident (keyOf r)) then st else st ++ [(ident (keyOf r), keyOf r)]) st

/-- `self._group_keys[group]` -/
def lookupKey (st : List (ι × κ)) (g : ι) : Option κ := (st.find? fun e => e.1 = g).map (·.2)

/-- The argument `aggregate` hands to `_map`. -/
def collectCols : CollectExpr → List Req → List String
  | .dedup, reqs => firstSeen (reqs.map (·.2))
  | .all, reqs => reqs.map (·.2)

/-- What a `GroupBy` object keeps between calls: `_group_keys`, and — only when the source keeps
the value map on the object — the `column_value_map` left by the last `aggregate`. -/
structure ObjState (ι κ : Type) where
  keys : List (ι × κ)
  vmap : CVM ι

def ObjState.empty : ObjState ι κ := { keys := [], vmap := { groups := [], log := [] } }

/-- `aggregate` on an object in state `st`, over the rows the row loop sees: the new state, and the
groups of `column_value_map` in insertion order, each with its key values (from `_group_keys`) and
the requests folded over its collected values.  `none`: a group is missing from `_group_keys`
(`KeyError`). -/
def aggregateC (P : Program) (ident : κ → ι) (keyOf : ρ → κ) (cell : ρ → String → Option Int)
    (st : ObjState ι κ) (rows : List ρ) (reqs : List Req) :
    ObjState ι κ × Option (List (κ × List AVal)) :=
  let s := mapTriples P.yieldGuards ident keyOf cell (collectCols P.collect reqs) rows
  let st' := if P.registers then registerRows ident keyOf st.keys rows else st.keys
  let m := if P.freshValueMap then collectLoop P.body s else collectFrom P.body st.vmap s
  ({ keys := st', vmap := m },
   if m.groups.all (fun g => (lookupKey st' g).isSome) then
     some (m.groups.filterMap fun g =>
       (lookupKey st' g).map fun k => (k, reqs.map fun q => evalA (aggOf P q.1) (m.get g q.2)))
   else none)

/-- The result of one call at this level. -/
inductive OutC (κ : Type) where
  | table (t : Option (List (κ × List AVal)))
  | keys (ks : List κ)
  deriving Repr

/-- One call on an object whose `_group_keys` holds `st`.  `groups()` runs `_map("*")` for its
registrations and returns every registered key. -/
def stepC (P : Program) (ident : κ → ι) (keyOf : ρ → κ) (cell : ρ → String → Option Int)
    (rows : List ρ) (st : ObjState ι κ) : Op → ObjState ι κ × OutC κ
  | .aggregate reqs =>
    ((aggregateC P ident keyOf cell st rows reqs).1, .table (aggregateC P ident keyOf cell st rows reqs).2)
  | .groups =>
    ({ keys := (if P.registers then registerRows ident keyOf st.keys rows else st.keys), vmap := st.vmap },
     .keys ((if P.registers then registerRows ident keyOf st.keys rows else st.keys).map (·.2)))

/-! ### the frame behind the `GroupBy` objects: lazily backed or materialised -/

/-- `DataFrame._rows`: a list, or a generator that can be walked once. -/
inductive Source (ρ : Type) where
  | list (rows : List ρ)
  | gen (rows : List ρ) (consumed : Bool)
  deriving Repr

/-- What one walk of the row loop of `_map` sees, and what it leaves behind.  Through
`DataFrame.__iter__` a lazily backed frame is materialised first (when `__iter__` calls
`materialize` and `materialize` makes a list); otherwise the generator itself is walked and is
empty afterwards. -/
def iterate (P : Program) : Source ρ → List ρ × Source ρ
  | .list rows => (rows, .list rows)
  | .gen rows consumed =>
    if P.via = .frame ∧ P.iterMaterialises = true ∧ P.materializeMakesList = true then
      ((if consumed then [] else rows), .list (if consumed then [] else rows))
    else ((if consumed then [] else rows), .gen rows true)

/-- Where object `g` keeps its state: its own slot, or — when `_group_keys` belongs to the class —
the one slot all objects share. -/
def slot (P : Program) (g : Nat) : Nat := if P.registryPerObject then g else 0

/-- Any sequence of calls on any number of `GroupBy` objects (numbered; object `g` groups by
`keyOfs g`) of ONE frame.  The objects share the frame's backing store; each has its own state. -/
def runCallsC (P : Program) (ident : κ → ι) (keyOfs : Nat → ρ → κ) (cell : ρ → String → Option Int) :
    Source ρ → (Nat → ObjState ι κ) → List (Nat × Op) → List (OutC κ)
  | _, _, [] => []
  | src, sts, (g, op) :: rest =>
    (stepC P ident (keyOfs g) cell (iterate P src).1 (sts (slot P g)) op).2 ::
      runCallsC P ident keyOfs cell (iterate P src).2
        (fun j => if j = slot P g then (stepC P ident (keyOfs g) cell (iterate P src).1 (sts (slot P g)) op).1
                  else sts j) rest

end Core

/-! ### frames of `PyVal` -/

/-- CPython's hash of an integer: the value modulo `2**61 - 1` with the sign kept, `-1` avoided. -/
def pyIntHash (i : Int) : Int :=
  let m : Int := (i.natAbs % (2 ^ 61 - 1) : Nat)
  let h := if i < 0 then -m else m
  if h = -1 then -2 else h

/-- A stand-in for `hash(tuple(key values))` that collides exactly when the component hashes of
integers do (`hash(-1) == hash(-2)`, `hash(0) == hash(2**61-1)`); other values count as hashed
perfectly.  Only used when the source keys groups by `hash(…)`. -/
def pyHashKey (k : List PyVal) : List PyVal :=
  k.map fun
    | .int i => .int (pyIntHash i)
    | v => v

/-- The identity of a group as `_map` computes it. -/
def identOf {κ : Type} (h : κ → κ) : KeyExpr → κ → κ
  | .tuple, k => k
  | .hashTuple, k => h k
  | .typedTuple, k => k

/-- Python's `==` of the identities of two groups whose keys are `a` and `b`, given `==` on keys
(`eqv`), the Python types of the key values (`ty`) and the hash (`h`): the dictionaries `_group_keys`
and `column_value_map` find a group by it.  `(type(x), x) == (type(y), y)` needs the same type *and*
`x == y`. -/
def identEq {κ τ : Type} [DecidableEq κ] [DecidableEq τ] (eqv : κ → κ → Bool) (ty : κ → τ) (h : κ → κ) :
    KeyExpr → κ → κ → Bool
  | .tuple, a, b => eqv a b
  | .hashTuple, a, b => decide (h a = h b)
  | .typedTuple, a, b => decide (ty a = ty b) && eqv a b

/-- What `hash` leaves of a key value as `==` sees it: an integral number is hashed like the integer
(`hash(1.0) == hash(1) == hash(True)`), everything else counts as hashed perfectly. -/
def hashC : CKey → CKey
  | .num m e => if 0 ≤ e then dyadic (pyIntHash (m * 2 ^ e.toNat)) 0 else .num m e
  | c => c

/-- The identity of a group as the dictionaries of `_map` / `aggregate` see it when key values may be
equal without being written alike: two identities are the same dictionary key iff these are equal.
`tuple(…)`: the values as `==` sees them; `hash(tuple(…))`: their hashes; `(type(x), x)` pairs: the
Python type next to the value. -/
def identKeyOf : KeyExpr → List PyVal → List (Nat × CKey)
  | .tuple, k => k.map fun v => (0, canonVal v)
  | .hashTuple, k => k.map fun v => (0, hashC (canonVal v))
  | .typedTuple, k => k.map fun v => (pyType v, canonVal v)

/-- The position `_map` computes for the requested column `c` (`none`: `-1`). -/
def posOf : ColIndexExpr → String → List String → Option Nat
  | .indexIfPresent, c, columns => index c columns
  | .getDefault, c, columns => index c columns
  | .getOrMinusOne, c, columns =>
    match index c columns with
    | some 0 => none
    | p => p

/-- The value `_map` yields for column `c` of row `r`, read as a number. -/
def cellOfC (ve : ValExpr) (ie : ColIndexExpr) (columns : List String) (r : List PyVal) (c : String) : Option Int :=
  match posOf ie c columns with
  | some i => num (r.getD i .none)
  | none =>
    match ve with
    | .starIfMissing => some 1
    | .cell => num (r.getLastD .none)

/-- A label f-string. -/
def labelC (fmt : List LabelPart) (q : Req) : String :=
  String.join (fmt.map fun
    | .func => q.1.name
    | .col => q.2
    | .lit s => s)

/-- The standard label `f"{func}({col})"`. -/
def stdLabel : List LabelPart := [.func, .lit "(", .col, .lit ")"]

/-- The cell of a result row for the aggregate `v`. -/
def applyCell : CellExpr → AVal → AVal
  | .get, v => v
  | .getOrNone, v => if v.falsy then .none else v
  | .getOrLit i, v => if v.falsy then .int i else v

/-- One call's result as the caller sees it: (column names, rows) or the class of the exception. -/
def render (P : Program) (keyCols : List String) : Op → OutC (List PyVal) →
    Except String (List String × List (List PyVal))
  | .aggregate _, .table none => .error "KeyError"
  | .aggregate reqs, .table (some t) =>
    match (t.flatMap (·.2)).find? AVal.isErr with
    | some (.err c) => .error c
    | _ =>
      if t.isEmpty then
        (if P.aggEmptyHeader then .ok (header keyCols reqs, []) else .error "StopIteration")
      else .ok (header keyCols reqs,
                t.map fun ka => resultRow keyCols reqs ka.1 (ka.2.map fun v => (applyCell P.cell v).toAgg))
  | .groups, .keys ks =>
    if ks.isEmpty then
      (if P.groupsEmptyHeader then .ok ((dictOf (keyCols.map fun c => (c, ()))).map (·.1), [])
       else .error "StopIteration")
    else .ok ((dictOf (keyCols.map fun c => (c, ()))).map (·.1),
              ks.map fun k => (dictOf (keyCols.zip k)).map (·.2))
  | .aggregate _, .keys _ => .error "internal"
  | .groups, .table _ => .error "internal"

/-- Any sequence of calls on the `GroupBy` objects `df.group_by(objs[g])` of one frame `df`, lazily
backed (`lazy`) or materialised; `idxs[g]` are the positions of the key columns of object `g`. -/
def runCallsF (P : Program) (fr : Frame) (lazy : Bool) (objs : List (List String)) (idxs : List (List Nat))
    (calls : List (Nat × Op)) : List (Except String (List String × List (List PyVal))) :=
  (calls.zip (runCallsC P (identOf pyHashKey P.key) (fun g => keyAt (idxs.getD g [])) (cellOfC P.value P.colIndex fr.columns)
      (if lazy then .gen fr.rows false else .list fr.rows) (fun _ => ObjState.empty) calls)).map fun co =>
    render P (objs.getD co.1.1 []) co.1.2 co.2

/-- `runCallsF` for frames whose key columns hold equal values written differently (`1`, `1.0`, `True`):
the dictionaries find a group by `identKeyOf`, the key a result row shows is the one stored by the first
row of the group. -/
def runCallsEqF (P : Program) (fr : Frame) (lazy : Bool) (objs : List (List String)) (idxs : List (List Nat))
    (calls : List (Nat × Op)) : List (Except String (List String × List (List PyVal))) :=
  (calls.zip (runCallsC P (identKeyOf P.key) (fun g => keyAt (idxs.getD g [])) (cellOfC P.value P.colIndex fr.columns)
      (if lazy then .gen fr.rows false else .list fr.rows) (fun _ => ObjState.empty) calls)).map fun co =>
    render P (objs.getD co.1.1 []) co.1.2 co.2

/-! ### sessions: the caller keeps, and may edit, the list of key columns it handed to `group_by`

A `GroupBy` object is evaluated lazily: `_map` reads `self._columns` when a call is made
(group_by.py:88-91), not when the object is created.  Whether `__init__` stored a new object
(`tuple(columns)`, `[columns]`) or the caller's own list decides what a call sees after the caller
edited that list in place. -/

/-- An event of a session on one frame: the caller edits, in place, the list object it handed to
`df.group_by(…)` when object `g` was created (`ks` is its content afterwards), or calls object `g`. -/
inductive Ev where
  | edit (g : Nat) (ks : List String)
  | call (g : Nat) (op : Op)
  deriving Repr

/-- The calls of a session, in order. -/
def callsOf : List Ev → List (Nat × Op)
  | [] => []
  | .edit _ _ :: rest => callsOf rest
  | .call g op :: rest => (g, op) :: callsOf rest

/-- `self._columns` of object `g` as a call reads it: the names given at creation (`objs[g]`) when
`__init__` stored a new object, the present content of the caller's list (`cur g`) when it stored the
list itself. -/
def keyColsAt (copied : Bool) (objs : List (List String)) (cur : Nat → List String) (g : Nat) : List String :=
  if copied then objs.getD g [] else cur g

/-- A session: `src` the frame's backing store, `sts` the state of the objects, `cur` the present content
of the caller's argument objects.  A call resolves the positions of `self._columns` as it is then
(`array.array("i", (source_columns.index(target) for target in self._columns))` raises `ValueError` for a
name that is not a column, before any row is read). -/
def runSessionC (P : Program) (copied : Bool) (fr : Frame) (objs : List (List String)) :
    Source (List PyVal) → (Nat → ObjState (List PyVal) (List PyVal)) → (Nat → List String) → List Ev →
      List (Except String (List String × List (List PyVal)))
  | _, _, _, [] => []
  | src, sts, cur, .edit g ks :: rest =>
    runSessionC P copied fr objs src sts (fun j => if j = g then ks else cur j) rest
  | src, sts, cur, .call g op :: rest =>
    match (keyColsAt copied objs cur g).mapM (fun n => index n fr.columns) with
    | none => .error "ValueError" :: runSessionC P copied fr objs src sts cur rest
    | some idx =>
      render P (keyColsAt copied objs cur g) op
          (stepC P (identOf pyHashKey P.key) (keyAt idx) (cellOfC P.value P.colIndex fr.columns)
            (iterate P src).1 (sts (slot P g)) op).2 ::
        runSessionC P copied fr objs (iterate P src).2
          (fun j => if j = slot P g then
              (stepC P (identOf pyHashKey P.key) (keyAt idx) (cellOfC P.value P.colIndex fr.columns)
                (iterate P src).1 (sts (slot P g)) op).1
            else sts j) cur rest

/-- A session on the objects `df.group_by(objs[g])` of one frame, lazily backed or materialised; every
argument object holds, to begin with, the names it was created with. -/
def runSessionF (P : Program) (copied : Bool) (fr : Frame) (lazy : Bool) (objs : List (List String))
    (evs : List Ev) : List (Except String (List String × List (List PyVal))) :=
  runSessionC P copied fr objs (if lazy then .gen fr.rows false else .list fr.rows) (fun _ => ObjState.empty)
    (fun g => objs.getD g []) evs

end GroupByCode
