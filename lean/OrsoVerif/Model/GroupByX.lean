import OrsoVerif.Model.GroupBy
/-!
# C12 — value columns of floats: the infinities, NaN, the negative zero

`Model/GroupBy.lean` computes on integers (dyadic floats, Decimals, texts and booleans reach it through
exact embeddings).  A column of doubles can also hold `inf`, `-inf` and `nan`.  The statement folds
"that group's non-null values", and a NaN is a value, not a null (`None` is the null): `aggregate`
(group_by.py:128-132) appends every value that `is not None`, so

* `COUNT(col)` counts a NaN like any other value (`len`),
* `SUM(col)` is Python's `sum`: a left fold of float addition from `0`, where NaN absorbs, `inf + -inf`
  is NaN and an infinity absorbs every finite number,
* `AVG(col)` is `Decimal(sum) / Decimal(len)`: NaN / ±Infinity when the sum is, the exact quotient otherwise,
* `MIN` / `MAX` are Python's walk with `<`, every comparison with a NaN being false (so the result
  depends on the order of the rows as soon as a NaN is among the values, `Props/C12.lean`).

The negative zero is the number zero here (`-0.0 == 0.0`; cells are compared by value).  Finite values are
the integers `x` of `x / scale` (dyadic, so finite sums are exact and no finite sum overflows in the
generated range).

`aggregateX` / `referenceX` are `aggregate` / `reference` with this fold; `emit`, `collected`,
`nonNull`, `members`, `groupKeys` are the same functions (they never look at a value).
-/
namespace GroupBy

/-- A non-null cell of a float column. -/
inductive XVal where
  | fin (i : Int)
  | pinf
  | ninf
  | nan
  deriving DecidableEq, Repr

/-- Float addition on the extended line (IEEE 754): NaN absorbs, `inf + -inf = nan`, an infinity
absorbs finite numbers; finite sums are exact. -/
def XVal.add : XVal → XVal → XVal
  | .nan, _ => .nan
  | _, .nan => .nan
  | .pinf, .ninf => .nan
  | .ninf, .pinf => .nan
  | .pinf, _ => .pinf
  | _, .pinf => .pinf
  | .ninf, _ => .ninf
  | _, .ninf => .ninf
  | .fin a, .fin b => .fin (a + b)

/-- `a < b` on floats: false as soon as a NaN is involved. -/
def XVal.lt : XVal → XVal → Bool
  | .nan, _ => false
  | _, .nan => false
  | .ninf, .ninf => false
  | .ninf, _ => true
  | _, .ninf => false
  | .pinf, _ => false
  | .fin _, .pinf => true
  | .fin a, .fin b => decide (a < b)

/-- Python's `sum(values)`: left fold from the integer `0`. -/
def xtotal (vs : List XVal) : XVal := vs.foldl XVal.add (.fin 0)

/-- Python's `min(values, default=None)`: the first value is kept until a later one is `<` it. -/
def xleast : List XVal → Option XVal
  | [] => none
  | v :: vs => some (vs.foldl (fun m x => if x.lt m then x else m) v)

/-- Python's `max(values, default=None)`: … until a later one is `>` it. -/
def xgreatest : List XVal → Option XVal
  | [] => none
  | v :: vs => some (vs.foldl (fun m x => if m.lt x then x else m) v)

/-- The value of one aggregate over floats. -/
inductive XAgg where
  | null
  | val (v : XVal)
  /-- `AVG` with a finite sum: the exact quotient `sum / n`, `n > 0` -/
  | ratio (sum : Int) (n : Nat)
  deriving DecidableEq, Repr

/-- The aggregators of group_by.py:24-46 on the list of a group's non-null float values. -/
def xfold : Func → List XVal → XAgg
  | .count, vs => .val (.fin vs.length)
  | .min, vs => match xleast vs with | some m => .val m | none => .null
  | .max, vs => match xgreatest vs with | some m => .val m | none => .null
  | .sum, [] => .null
  | .sum, vs => .val (xtotal vs)
  | .avg, [] => .null
  | .avg, vs => match xtotal vs with | .fin s => .ratio s vs.length | x => .val x

/-- An aggregate of the integer model, read as an aggregate over floats. -/
def XAgg.ofAgg : Agg → XAgg
  | .null => .null
  | .int i => .val (.fin i)
  | .ratio s n => .ratio s n

section Core
variable {ρ κ : Type} [DecidableEq κ]

/-- `aggregate` (the code's single pass) on a frame whose value cells are floats. -/
def aggregateX (keyOf : ρ → κ) (cell : ρ → String → Option XVal) (rows : List ρ) (reqs : List Req) :
    List (κ × List XAgg) :=
  let s := emit keyOf cell (firstSeen (reqs.map (·.2))) rows
  (firstSeen (s.map (·.1))).map fun g => (g, reqs.map fun q => xfold q.1 (collected s g q.2))

/-- Partition-and-fold on such a frame. -/
def referenceX (keyOf : ρ → κ) (cell : ρ → String → Option XVal) (rows : List ρ) (reqs : List Req) :
    List (κ × List XAgg) :=
  (groupKeys keyOf rows).map fun k =>
    (k, reqs.map fun q => xfold q.1 (nonNull cell (members keyOf rows k) q.2))

end Core

/-! ### frames of `PyVal` -/

/-- The float reading of a stored value: an integer `x` (of `x / scale`), one of the tokens the
harness uses for the non-finite floats, null. -/
def xnum : PyVal → Option XVal
  | .int i => some (.fin i)
  | .str "nan" => some .nan
  | .str "inf" => some .pinf
  | .str "-inf" => some .ninf
  | _ => none

/-- `"*" if column == -1 else record[column]` (group_by.py:104), read as a float. -/
def cellOfX (columns : List String) (r : List PyVal) (c : String) : Option XVal :=
  match index c columns with
  | some i => xnum (r.getD i .none)
  | none => some (.fin 1)

def XVal.toPyVal : XVal → PyVal
  | .fin i => .int i
  | .pinf => .list [.str "x", .str "inf"]
  | .ninf => .list [.str "x", .str "-inf"]
  | .nan => .list [.str "x", .str "nan"]

def XAgg.toPyVal : XAgg → PyVal
  | .null => .none
  | .val v => v.toPyVal
  | .ratio s n => .list [.str "avg", .int s, .int n]

/-- One result row from the cells already rendered (`resultRow` is this on `aggs.map Agg.toPyVal`). -/
def rowOfVals (keyCols : List String) (reqs : List Req) (k : List PyVal) (vals : List PyVal) : List PyVal :=
  (dictOf (((reqs.zip vals).map fun qv => (label qv.1, qv.2)) ++ keyCols.zip k)).map (·.2)

/-- `df.group_by(keyCols).aggregate(reqs)` on a frame with float value columns. -/
def runX (fr : Frame) (keyCols : List String) (reqs : List Req) :
    Except Err (List String × List (List PyVal)) :=
  match keyCols.mapM (fun c => index c fr.columns) with
  | none => .error .valueError
  | some idx =>
    let out := aggregateX (keyAt idx) (cellOfX fr.columns) fr.rows reqs
    .ok (header keyCols reqs, out.map fun ka => rowOfVals keyCols reqs ka.1 (ka.2.map XAgg.toPyVal))

end GroupBy
