import OrsoVerif.Model.Cast
import OrsoVerif.Model.CastJson
/-!
# C07 — Python primitives for the *generated* cast functions (`Generated/CastFns.lean`)

`harness/pystmt_cast.py` translates every `parse_*` function of `orso/types.py` and `OrsoTypes.parse`
statement by statement into a Lean program over dynamically typed objects (`Obj`) in the `Except Exc`
monad.  This file says what each Python primitive that occurs in those bodies means on `Obj`:
`isinstance`, `str()`, `int()`, `float()`, `.upper()`, `.decode()`, `value[:n]`, truthiness, `in`,
`kwargs.get`, `orjson.loads`, iteration, `parse_iso`, the decimal factory, table subscription.
The conversions that the hand-written model already describes (`int(x)` = `Cast.parseInteger`,
`float(x)` = `Cast.parseDouble`, `parse_iso` = `Iso.parseIso`, the factory = `Cast.factory`, `orjson.loads`
= `Cast.Json.readJson`) are *defined by* those model functions: the generated program says in which order,
under which tests and on which operands the source applies them; `Props/C07.lean`
(`generated_*_eq_model`) proves on every run that this program is the hand-written model.

Values outside the modelled domain (`Val.other`, `Obj.opaque`; `str()` of floats / decimals / dates)
answer `TypeError` here exactly where the hand-written model does ("outside the modelled domain").
-/
namespace Cast.Prim
open Cast

/-- Python classes named in `isinstance` tests of the cast functions. -/
inductive Cls where
  | bool | int | float | str | bytes | bytearray | memoryview | list | tuple | set | dict | date | datetime | time | timedelta | decimal
  deriving DecidableEq, Repr

/-- A Python object as a cast function sees it. -/
inductive Obj where
  | none
  | val (v : Val)
  | seq (xs : List (Option Val))   -- a list / tuple / set of scalars and `None` (the three are not told apart)
  | ty (t : Ty)                    -- a member of `OrsoTypes`
  | json (j : Json.J)              -- what `orjson.loads` returned
  | opaque                         -- an object the model does not describe (e.g. decoded JSON containing an object)
  deriving Repr

/-- The keyword options a cast is called with. -/
structure Kw where
  length : Option Nat := none
  precision : Option Nat := none
  scale : Option Nat := none
  elementType : Option Ty := none
  deriving Repr

inductive KwName where
  | length | precision | scale | elementType | unknown
  deriving DecidableEq, Repr

inductive Codec where
  | utf8 | utf8sig
  deriving DecidableEq, Repr

abbrev Fot := List Char → Option UInt64
abbrev M := Except Exc
abbrev Parser := Obj → Kw → Except Exc Obj

def ofOpt : Option Val → Obj
  | .none => .none
  | .some v => .val v

/-- an element of a list result as the scalar model sees it (containers are "another object") -/
def toOpt : Obj → Option Val
  | .none => .none
  | .val v => some v
  | _ => some .other

/-- the elements of a sequence result (for examples and the driver) -/
def seqOf : Obj → Option (List (Option Val))
  | .seq xs => some xs
  | _ => none

def natObj : Option Nat → Obj
  | .none => .none
  | .some k => .val (.int k)

def intLit (n : Int) : Obj := .val (.int n)
def boolObj (b : Bool) : Obj := .val (.bool b)

/-- `kwargs.get(name)` (also: a keyword-only parameter with default `None`). -/
def kwGet (kw : Kw) : KwName → Obj
  | .length => natObj kw.length
  | .precision => natObj kw.precision
  | .scale => natObj kw.scale
  | .elementType => match kw.elementType with | some t => .ty t | none => .none
  | .unknown => .none

/-- The classes a value is an instance of (`bool` is a subclass of `int`, `datetime` of `date`). -/
def classesOf : Val → List Cls
  | .bool _ => [.bool, .int]
  | .int _ => [.int]
  | .float _ => [.float]
  | .str _ => [.str]
  | .bytes _ => [.bytes]
  | .dec _ => [.decimal]
  | .date .. => [.date]
  | .datetime _ => [.datetime, .date]
  | .other => []

/-- `isinstance(x, (c₁, …))`.  A native sequence is a list, a tuple or a set — the model does not tell them
apart, so the test is true only when all three are named. -/
def pyIsInstance (x : Obj) (cs : List Cls) : Bool :=
  match x with
  | .val v => (classesOf v).any fun c => cs.contains c
  | .seq _ => cs.contains .list && cs.contains .tuple && cs.contains .set
  | _ => false

def pyIsNone : Obj → Bool
  | .none => true
  | _ => false

/-- `bool(x)` -/
def pyTruthy : Obj → Bool
  | .none => false
  | .val v => !v.falsy
  | .seq xs => !xs.isEmpty
  | _ => true

/-- `hasattr(x, name)` for the foreign-scalar methods (`as_py`, `item`): no modelled value has them. -/
def pyHasAttr (_x : Obj) (_name : String) : Bool := false

/-- `x.<name>()` for such a method: `AttributeError`. -/
def pyForeignMethod (_x : Obj) (_name : String) : M Obj := .error .attributeError

/-- `str(x)` -/
def pyStr : Obj → M Obj
  | .val v => match strOf v with | some s => .ok (.val (.str s)) | none => .error .typeError
  | .none => .ok (.val (.str "None".toList))
  | _ => .error .typeError

def upperB (x : UInt8) : UInt8 := if 97 ≤ x ∧ x ≤ 122 then x - 32 else x
def lowerB (x : UInt8) : UInt8 := if 65 ≤ x ∧ x ≤ 90 then x + 32 else x

/-- `x.upper()` on text or bytes -/
def pyUpper : Obj → M Obj
  | .val (.str s) => .ok (.val (.str (upper s)))
  | .val (.bytes b) => .ok (.val (.bytes (b.map upperB)))
  | _ => .error .attributeError

def pyLower : Obj → M Obj
  | .val (.str s) => .ok (.val (.str (lower s)))
  | .val (.bytes b) => .ok (.val (.bytes (b.map lowerB)))
  | _ => .error .attributeError

/-- `x.strip()` (text; ASCII white space, see `Cast.stripD`) -/
def pyStrip : Obj → M Obj
  | .val (.str s) => .ok (.val (.str (stripD s)))
  | _ => .error .attributeError

/-- The tuple `BOOLEAN_STRINGS`: its text entries and its (ASCII) bytes entries, from `Gen.Cast`. -/
structure Words where
  strs : List String
  bytes : List String

def boolWords : Words := ⟨Gen.Cast.boolStrings, Gen.Cast.boolBytes⟩

/-- `x in WORDS`: text equals a text entry, bytes equal a bytes entry (text never equals bytes). -/
def pyIn (x : Obj) (w : Words) : Obj :=
  boolObj (match x with
    | .val (.str s) => w.strs.contains (String.ofList s)
    | .val (.bytes b) => w.bytes.contains (String.ofList (asciiChars b)) && b.all (· < 128)
    | _ => false)

def stripBom : List Char → List Char
  | c :: r => if c.toNat = 0xFEFF then r else c :: r
  | [] => []

/-- `x.decode(codec)` -/
def pyDecode (x : Obj) (c : Codec) : M Obj :=
  match x with
  | .val (.bytes b) =>
    match Iso.decodeUtf8 b with
    | some s => .ok (.val (.str (match c with | .utf8 => s | .utf8sig => stripBom s)))
    | none => .error .unicodeDecodeError
  | _ => .error .attributeError

/-- `x.encode(codec)` -/
def pyEncode (x : Obj) (c : Codec) : M Obj :=
  match x with
  | .val (.str s) => .ok (.val (.bytes (match c with | .utf8 => utf8 s | .utf8sig => utf8 (Char.ofNat 0xFEFF :: s))))
  | _ => .error .attributeError

/-- `x[:stop]` -/
def pySliceTo (x stop : Obj) : M Obj :=
  match stop with
  | .none => match x with
    | .val (.str _) | .val (.bytes _) | .seq _ => .ok x
    | _ => .error .typeError
  | .val (.int k) => match x with
    | .val (.str s) => .ok (.val (.str (pyPrefix s k)))
    | .val (.bytes b) => .ok (.val (.bytes (pyPrefix b k)))
    | .seq xs => .ok (.seq (pyPrefix xs k))
    | _ => .error .typeError
  | .val (.bool b) => match x with      -- a bool is an index too
    | .val (.str s) => .ok (.val (.str (pyPrefix s (if b then 1 else 0))))
    | .val (.bytes bs) => .ok (.val (.bytes (pyPrefix bs (if b then 1 else 0))))
    | .seq xs => .ok (.seq (pyPrefix xs (if b then 1 else 0)))
    | _ => .error .typeError
  | _ => .error .typeError

/-- `int(x)`: the hand-written model of the builtin (`Cast.parseInteger`). -/
def pyInt : Obj → M Obj
  | .val v => (parseInteger v).map .val
  | _ => .error .typeError

/-- `float(x)`: the hand-written model of the builtin (`Cast.parseDouble`; text through the parameter `fot`). -/
def pyFloat (fot : Fot) : Obj → M Obj
  | .val v => (parseDouble fot v).map .val
  | _ => .error .typeError

/-- `orjson.dumps(x)` of a container: not modelled. -/
def orjsonDumps (_x : Obj) : M Obj := .error .typeError

/-- `orjson.loads(x)` (text, or bytes that must be UTF-8); JSON the model does not read gives `opaque`. -/
def orjsonLoads (fot : Fot) : Obj → M Obj
  | .val (.str s) =>
    match Json.readJson fot s with
    | .ok j => .ok (.json j)
    | .error .bad => .error .valueError
    | .error .unsupported => .ok .opaque
  | .val (.bytes b) =>
    match Iso.decodeUtf8 b with
    | none => .error .valueError
    | some s =>
      match Json.readJson fot s with
      | .ok j => .ok (.json j)
      | .error .bad => .error .valueError
      | .error .unsupported => .ok .opaque
  | _ => .ok .opaque

/-- iterating an object: a native sequence, or what `orjson.loads` returned (`Json.elementsOf`) -/
def pyIter : Obj → M (List (Option Val))
  | .seq xs => .ok xs
  | .json j => Json.elementsOf j
  | _ => .error .typeError

/-- `list(x)` -/
def pyList (x : Obj) : M Obj := (pyIter x).map .seq

/-- element-wise application, left to right, stopping at the first exception -/
def mapE (f : Obj → M Obj) : List (Option Val) → M (List (Option Val))
  | [] => .ok []
  | e :: es => (f (ofOpt e)).bind fun r => (mapE f es).bind fun rs => .ok (toOpt r :: rs)

/-- `[f(v) for v in x]` -/
def pyListComp (f : Obj → M Obj) (x : Obj) : M Obj :=
  (pyIter x).bind fun xs => (mapE f xs).map .seq

/-- `parse_iso(x)` (the C08 model): a `datetime`, `None`, or an exception (any exception the parser lets
through is reported as the cast model reports it, `ValueError`). -/
def parseIso : Obj → M Obj
  | .val v =>
    match Iso.parseIso (isoInput v) with
    | .value dt => .ok (.val (.datetime dt))
    | .none => .ok .none
    | .raises _ => .error .valueError
  | _ => .ok .none

/-- `x.date()` -/
def pyDateOf : Obj → M Obj
  | .val (.datetime dt) => .ok (.val (.date dt.year dt.month dt.day))
  | _ => .error .attributeError

/-- `DecimalFactory.new_factory(precision, scale)(value)` (`Cast.factory`: `DecimalFactory.__call__`,
its expressions lifted into `Gen.Cast`). -/
def decimalFactory (precision scale value : Obj) : M Obj :=
  match precision, scale with
  | .val (.int p), .val (.int s) =>
    if p < 0 ∨ s < 0 then .error .valueError
    else
      match value with
      | .val (.str t) => (factory p.toNat s.toNat (.inl t)).map .val
      | .val (.dec d) => (factory p.toNat s.toNat (.inr d)).map .val
      | _ => .error .typeError
  | _, _ => .error .typeError

/-- `self.value` of an `OrsoTypes` member -/
def tyValue : Obj → M Obj
  | .ty t => .ok (.val (.str t.name.toList))
  | _ => .error .attributeError

/-- `TABLE[key]` (`KeyError` is reported as the model reports a missing parser, `TypeError`) -/
def tableGet (tbl : List (String × Parser)) (k : Obj) : M Parser :=
  match k with
  | .val (.str s) => match tbl.lookup (String.ofList s) with | some p => .ok p | none => .error .typeError
  | _ => .error .typeError

/-- values whose `str()` the model describes (typed booleans / integers, text, bytes) -/
def textual : Val → Bool
  | .bool _ | .int _ | .str _ | .bytes _ => true
  | _ => false

/-- a parser of `orso/types.py` that is outside the statement (TIME, INTERVAL) and not translated -/
def notModelled : Parser := fun _ _ => .error .typeError

/-- the options a modelled type carries -/
def kwOf (t : Ty) : Kw := { length := t.length, precision := t.precision, scale := t.scale }

end Cast.Prim

namespace Cast
/-- **Parameter table**: text forms of doubles at the boundaries — NaN / infinity spellings, the largest finite double and
the first text that rounds to infinity, overflow and underflow, the smallest subnormal and the half-way point below it,
the smallest normal, signed zeros, underscores, missing integer / fraction part, integers beyond 2^53 — with the bit
pattern CPython's `float(text)` gives.  Not proved (it is a fact about CPython's correctly rounded `float()`): every run
compares the table with the interpreter (`floatspecials` driver op; a mismatch is a harness error) and casts every
entry, as text, bytes and padded, with `OrsoTypes.DOUBLE.parse`. -/
def floatSpecials : List (String × UInt64) :=
  [("nan", 0x7FF8000000000000),
   ("NaN", 0x7FF8000000000000),
   ("-nan", 0xFFF8000000000000),
   ("+nan", 0x7FF8000000000000),
   ("inf", 0x7FF0000000000000),
   ("-inf", 0xFFF0000000000000),
   ("+inf", 0x7FF0000000000000),
   ("Infinity", 0x7FF0000000000000),
   ("-INFINITY", 0xFFF0000000000000),
   ("iNf", 0x7FF0000000000000),
   ("1e308", 0x7FE1CCF385EBC8A0),
   ("1.7976931348623157e308", 0x7FEFFFFFFFFFFFFF),
   ("1.7976931348623158e308", 0x7FEFFFFFFFFFFFFF),
   ("1.7976931348623159e308", 0x7FF0000000000000),
   ("1e309", 0x7FF0000000000000),
   ("-1e309", 0xFFF0000000000000),
   ("1e400", 0x7FF0000000000000),
   ("-1e-400", 0x8000000000000000),
   ("0e999999999", 0x0),
   ("5e-324", 0x1),
   ("4.9406564584124654e-324", 0x1),
   ("2e-324", 0x0),
   ("3e-324", 0x1),
   ("2.4703282292062327e-324", 0x0),
   ("2.4703282292062328e-324", 0x1),
   ("2.2250738585072014e-308", 0x10000000000000),
   ("2.225073858507201e-308", 0xFFFFFFFFFFFFF),
   ("-0.0", 0x8000000000000000),
   ("0.0", 0x0),
   ("-0", 0x8000000000000000),
   ("+0", 0x0),
   ("1_0.5", 0x4025000000000000),
   ("1_000.0", 0x408F400000000000),
   ("1e5", 0x40F86A0000000000),
   ("1E5", 0x40F86A0000000000),
   (".5", 0x3FE0000000000000),
   ("5.", 0x4014000000000000),
   ("-.5e-1", 0xBFA999999999999A),
   ("9007199254740993", 0x4340000000000000),
   ("18446744073709551616", 0x43F0000000000000)]
end Cast
