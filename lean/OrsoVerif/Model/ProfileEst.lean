import OrsoVerif.Model.Estimators
import OrsoVerif.Generated.ProfileEstExpr
/-!
# C14 — sequences on one column profile: estimate, add, estimate again
(`ColumnProfile` in `orso/profiler/profiler.py`: the three `estimate_values_*` methods and `__add__`)

The estimators do not read the profile's fields directly: on first use they build a `Distogram`
(`distogram.load(self.histogram, self.minimum, self.maximum)`) and keep it on the object; later
estimates reuse it.  `__add__` starts from `self.deep_copy()` — which copies *everything* on the
object, the kept `Distogram` included — then recomputes `count`, `missing`, `minimum`, `maximum`
and `histogram`.  Whether the sum still carries the left operand's old `Distogram` is decided by
`Gen.ProfileEst.addDropsCache`, regenerated from the source on every run.

`EProf` is what the estimators can see of a profile; `View` is what they can see of a `Distogram`.
-/
namespace Distogram
open Gen.ProfileEst (estimateUsesCache addDropsCache addCount addMissing addSwapTest)

variable {K : Type} [Add K] [Sub K] [Mul K] [Div K] [LT K] [LE K]
  [DecidableLT K] [DecidableLE K] [OfNat K 0] [OfNat K 1] [OfNat K 2]

/-- What `count_at` reads of a `Distogram`. -/
structure View (K : Type) where
  bins : List (K × K)
  min : Option K
  max : Option K

/-- The fields of a `ColumnProfile` the estimators depend on, and the `Distogram` an earlier
estimate left on the object (`none`: the attribute does not exist yet). -/
structure EProf (K : Type) where
  count : K
  missing : K
  minimum : Option K
  maximum : Option K
  hist : List (K × K)
  cache : Option (View K)

/-- Python's `given or fallback` on an optional number: `None` and zero are falsy (the fallback is a bin
centre; without bins the statement is not reached and the argument stays). -/
def orFalsy (given fallback : Option K) : Option K :=
  match fallback with
  | none => given
  | some f =>
    match given with
    | none => some f
    | some x => if eqK x 0 then some f else some x

/-- A bound of the histogram `distogram.load` returns, as the source sets it now (`Gen.ProfileEst.loadMin/loadMax`). -/
def loadBound (how : Gen.ProfileEst.LoadBound) (given : Option K) (bins : List (K × K)) : Option K :=
  match how with
  | .given => given
  | .falsyFirst => orFalsy given (bins.head?.map (·.1))
  | .falsyLast => orFalsy given (bins.getLast?.map (·.1))

/-- `distogram.load(self.histogram, self.minimum, self.maximum)` as the estimators see it. -/
def EProf.fresh (p : EProf K) : View K :=
  ⟨p.hist, loadBound Gen.ProfileEst.loadMin p.minimum p.hist, loadBound Gen.ProfileEst.loadMax p.maximum p.hist⟩

/-- The `Distogram` an estimate works on: `if not hasattr(self, "distogram"): self.distogram = load(…)`. -/
def EProf.view (p : EProf K) : View K :=
  if estimateUsesCache then p.cache.getD p.fresh else p.fresh

/-- The object after any of the three estimates: the `Distogram` it worked on is kept. -/
def EProf.touch (p : EProf K) : EProf K := { p with cache := some p.view }

/-- `estimate_values_below(point)`. -/
def EProf.below (p : EProf K) (x : K) : Option K := estimateBelow p.view.bins p.view.min p.view.max x

/-- `estimate_values_above(point)`: the generated expression over `count`, `missing`, the kept
histogram's own total and `count_at(point)`. -/
def EProf.above (p : EProf K) (x : K) : Option K :=
  estimateAbove p.count p.missing p.view.bins p.view.min p.view.max x

/-- The `histogram` of a sum (profiler.py `__add__`): both present — the longer one receives the
other one's bins through `merge`; only the right one present — it is taken over; else the copy's. -/
def mergedHist (mrg : View K → List (K × K) → Except String (List (K × K))) (a b : EProf K) :
    Except String (List (K × K)) :=
  match a.hist, b.hist with
  | _ :: _, _ :: _ =>
    if addSwapTest a.hist.length b.hist.length then mrg b.fresh a.hist else mrg a.fresh b.hist
  | [], _ :: _ => .ok b.hist
  | _, [] => .ok a.hist

/-- `a + b` with the cache discipline `drop` and the histogram merge `mrg` as parameters. -/
def EProf.addWith (drop : Bool) (mrg : View K → List (K × K) → Except String (List (K × K)))
    (a b : EProf K) : Except String (EProf K) :=
  (mergedHist mrg a b).map fun h =>
    { count := addCount a.count b.count, missing := addMissing a.missing b.missing,
      minimum := optMin a.minimum b.minimum, maximum := optMax a.maximum b.maximum,
      hist := h, cache := if drop then none else a.cache }

/-- `distogram.merge(load(h1…), load(h2…)).bins` on the faithful machine of `Model/Distogram.lean`. -/
def faithfulMerge (v : View K) (other : List (K × K)) : Except String (List (K × K)) :=
  (merge (load v.bins v.min v.max) other).map (·.bins)

/-- The same on the reference machine (what C13's theorems are about). -/
def refMerge (v : View K) (other : List (K × K)) : Except String (List (K × K)) :=
  .ok (mergeRef ⟨v.bins, v.min, v.max, Gen.Distogram.binCount⟩ other).bins

/-- `ColumnProfile.__add__` as the source has it now (executable; compared on every run). -/
def EProf.add (a b : EProf K) : Except String (EProf K) := EProf.addWith addDropsCache faithfulMerge a b

/-- The same over the reference merge (the theorems of `Props/C14.lean`). -/
def EProf.addRef (a b : EProf K) : Except String (EProf K) := EProf.addWith addDropsCache refMerge a b

end Distogram
