import OrsoVerif.Model.Arrow
import OrsoVerif.Generated.ArrowExpr
/-!
# Separate conversions whose results are edited by their owners (C11, fourth pass)

`from_arrow` / `DataFrame.from_arrow` / `convert_arrow_schema_to_orso_schema` / `FlatColumn.from_arrow` hand their
caller *mutable* objects (a `RelationSchema`, its list of columns, `FlatColumn`s) built from an Arrow schema that is
immutable and compares by value.  This file models a process in which such conversions are made one after the other
and the owner of an earlier result edits it in between (`frame.schema.columns[0].name = …`, `….nullable = …`,
`columns.pop(j)`), with a **heap**: a conversion returns the *address* of an object; an edit goes to the object at
the address the edited result holds.  Whether a conversion allocates a new object or hands out the address it
returned before for an equal key is read from the source (`Gen.ArrowExpr.fromArrowSchemaViaHelper`,
`schemaHelperMemoised`, `columnFromArrowMemoised`: a cache decorator on the place that builds the objects).

The specification is the same session **by value** (`spec`): every result is the caller's own.
`Lemmas/ArrowShare.lean` proves that the heap machine refines it exactly when nothing is memoised.
-/
namespace Arrow.Share

/-- the places a caller gets columns built from Arrow fields from -/
inductive Site where
  | fromArrow   -- converters.from_arrow / DataFrame.from_arrow (converters.py:107-111)
  | helper      -- schema.convert_arrow_schema_to_orso_schema (schema.py:767-771)
  | field       -- FlatColumn.from_arrow, field by field (schema.py:218-261)
  deriving DecidableEq, Repr

/-- The memo a place consults before building (none: it builds new objects on every call).
`from_arrow` shares the helper's memo when it calls the helper. -/
def memoGroup (viaHelper helperMemo columnMemo : Bool) : Site → Option Nat
  | .fromArrow => if viaHelper && helperMemo then some 0 else none
  | .helper => if helperMemo then some 0 else none
  | .field => if columnMemo then some 1 else none

/-- …as the working tree's source has it -/
def memoGroupGen : Site → Option Nat :=
  memoGroup Gen.ArrowExpr.fromArrowSchemaViaHelper Gen.ArrowExpr.schemaHelperMemoised
    Gen.ArrowExpr.columnFromArrowMemoised

/-- `l[i] := f l[i]` (nothing when there is no such position) -/
def modifyAt {α : Type} : List α → Nat → (α → α) → List α
  | [], _, _ => []
  | x :: xs, 0, f => f x :: xs
  | x :: xs, n + 1, f => x :: modifyAt xs n f

/-- one step of a session: a conversion of key `k` (the Arrow schema) at a site, or an edit through the result of
the `r`-th conversion -/
inductive Step (K α : Type) where
  | conv (s : Site) (k : K)
  | edit (r : Nat) (f : α → α)

structure St (K α : Type) where
  /-- the objects conversions have built -/
  heap : List α
  /-- (memo, key) ↦ address handed out for it -/
  memo : List ((Nat × K) × Nat)
  /-- the address each conversion returned, in order -/
  results : List Nat
  /-- what each conversion returned, read at the moment it returned -/
  seen : List α

def lookup {K : Type} [DecidableEq K] (g : Nat) (k : K) : List ((Nat × K) × Nat) → Option Nat
  | [] => none
  | ((g', k'), a) :: rest => if g' = g ∧ k' = k then some a else lookup g k rest

def alloc {K α : Type} (st : St K α) (v : α) (memo : List ((Nat × K) × Nat)) : St K α :=
  { heap := st.heap ++ [v], memo := memo, results := st.results ++ [st.heap.length], seen := st.seen ++ [v] }

def step {K α : Type} [DecidableEq K] (grp : Site → Option Nat) (build : K → α) (st : St K α) : Step K α → St K α
  | .conv s k =>
    match grp s with
    | none => alloc st (build k) st.memo
    | some g =>
      match lookup g k st.memo with
      | some a =>
        match st.heap[a]? with
        | some v => { st with results := st.results ++ [a], seen := st.seen ++ [v] }   -- the objects returned before
        | none => alloc st (build k) st.memo
      | none => alloc st (build k) (((g, k), st.heap.length) :: st.memo)
  | .edit r f =>
    match st.results[r]? with
    | some a => { st with heap := modifyAt st.heap a f }
    | none => st

def St.empty {K α : Type} : St K α := { heap := [], memo := [], results := [], seen := [] }

def run {K α : Type} [DecidableEq K] (grp : Site → Option Nat) (build : K → α) (steps : List (Step K α)) : St K α :=
  steps.foldl (step grp build) St.empty

/-- what each result shows now -/
def St.reads {K α : Type} (st : St K α) : List (Option α) := st.results.map (fun a => st.heap[a]?)

/-! ## the same session by value -/

structure Sp (α : Type) where
  vals : List α
  seen : List α

def specStep {K α : Type} (build : K → α) (sp : Sp α) : Step K α → Sp α
  | .conv _ k => { vals := sp.vals ++ [build k], seen := sp.seen ++ [build k] }
  | .edit r f => { sp with vals := modifyAt sp.vals r f }

def spec {K α : Type} (build : K → α) (steps : List (Step K α)) : Sp α :=
  steps.foldl (specStep build) { vals := [], seen := [] }

/-- the keys of the conversions of a session, in order -/
def convKeys {K α : Type} : List (Step K α) → List K
  | [] => []
  | .conv _ k :: rest => k :: convKeys rest
  | .edit _ _ :: rest => convKeys rest

/-! ## the instance: columns built from Arrow fields -/

/-- what a conversion builds: one column per field, or nothing when a field's type is not mapped (`ValueError`) -/
def buildCols (fields : List ArrowField) : Option (List Col) := fields.mapM (fromArrowField false)

/-- the edits the owner of a result makes (plain attribute assignments and list operations) -/
inductive Edit where
  | rename (j : Nat) (name : String)
  | nullable (j : Nat) (b : Bool)
  | type (j : Nat) (t : OrsoTy)
  | pop (j : Nat)
  | append (c : Col)
  | precision (j : Nat) (p : Option Nat)
  | scale (j : Nat) (s : Option Nat)
  | elem (j : Nat) (t : Option OrsoTy)

def Edit.onCols : Edit → List Col → List Col
  | .rename j n, cs => modifyAt cs j (fun c => { c with name := n })
  | .nullable j b, cs => modifyAt cs j (fun c => { c with nullable := b })
  | .type j t, cs => modifyAt cs j (fun c => { c with type := t })
  | .pop j, cs => cs.eraseIdx j
  | .append c, cs => cs ++ [c]
  | .precision j p, cs => modifyAt cs j (fun c => { c with precision := p })
  | .scale j v, cs => modifyAt cs j (fun c => { c with scale := v })
  | .elem j t, cs => modifyAt cs j (fun c => { c with elem := t })

def Edit.apply (e : Edit) : Option (List Col) → Option (List Col) := Option.map e.onCols

abbrev Session := List (Step (List ArrowField) (Option (List Col)))

/-- a session on the code as it is in the working tree -/
def runGen (steps : Session) : St (List ArrowField) (Option (List Col)) := run memoGroupGen buildCols steps

/-! ## the other direction: Orso schema objects converted to Arrow, edited, converted again

`convert_orso_schema_to_arrow_schema` (schema.py:774-783), `FlatColumn.arrow_field` column by column
(schema.py:290-319) and `DataFrame.arrow` (converters.py:75-89, names only) read a *mutable* schema object and return
an immutable Arrow value.  A place that keeps what it returned for the object (a cached property, a cache decorator
- keyed on the object, not on its columns) answers from before the edit. -/
namespace To

inductive Site where
  | fields | helper | frame
  deriving DecidableEq, Repr

inductive Out where
  | fields (fs : List ArrowField)
  | names (ns : List String)
  deriving DecidableEq, Repr

/-- what a conversion at a site says about the columns as they are -/
def describe : Site → List Col → Out
  | .fields, cs => .fields (cs.map arrowField)
  | .helper, cs => .fields (cs.map arrowField)
  | .frame, cs => .names (cs.map (·.name))

/-- does the site answer from what it kept for the object?  (the helper reads `col.arrow_field`, so a kept
`arrow_field` makes the helper keep answers as well - in a cache of its own here: an approximation that only
matters when something is kept) -/
def memoised (fieldMemo helperMemo frameMemo : Bool) : Site → Bool
  | .fields => fieldMemo
  | .helper => helperMemo || fieldMemo
  | .frame => frameMemo

def memoisedGen : Site → Bool :=
  memoised Gen.ArrowExpr.arrowFieldMemoised Gen.ArrowExpr.toArrowSchemaHelperMemoised Gen.ArrowExpr.toArrowMemoised

inductive Step where
  | conv (s : Site) (k : Nat)
  | edit (k : Nat) (f : List Col → List Col)

structure St where
  objs : List (List Col)
  cache : List ((Site × Nat) × Out)
  out : List (Option Out)

def find (s : Site) (k : Nat) : List ((Site × Nat) × Out) → Option Out
  | [] => none
  | ((s', k'), o) :: rest => if s' = s ∧ k' = k then some o else find s k rest

def step (memo : Site → Bool) (st : St) : Step → St
  | .conv s k =>
    match st.objs[k]? with
    | none => { st with out := st.out ++ [none] }
    | some cs =>
      if memo s then
        match find s k st.cache with
        | some o => { st with out := st.out ++ [some o] }
        | none => { st with cache := ((s, k), describe s cs) :: st.cache, out := st.out ++ [some (describe s cs)] }
      else { st with out := st.out ++ [some (describe s cs)] }
  | .edit k f => { st with objs := modifyAt st.objs k f }

def run (memo : Site → Bool) (objs : List (List Col)) (steps : List Step) : List (Option Out) :=
  (steps.foldl (step memo) { objs := objs, cache := [], out := [] }).out

/-- by value: every conversion describes the columns as they are when it is made -/
def specStep (sp : List (List Col) × List (Option Out)) : Step → List (List Col) × List (Option Out)
  | .conv s k => (sp.1, sp.2 ++ [sp.1[k]?.map (describe s)])
  | .edit k f => (modifyAt sp.1 k f, sp.2)

def spec (objs : List (List Col)) (steps : List Step) : List (Option Out) :=
  (steps.foldl specStep (objs, [])).2

end To

end Arrow.Share
