import OrsoVerif.Model.Display
import OrsoVerif.Generated.DisplayTd
/-!
# C18 — `numpy_type_mapper` on a `numpy.timedelta64` (orso/display.py, the timedelta branch as repaired by C18-F08)

A timedelta64 holds a 64-bit tick count `raw`, a unit and a step (`numpy.datetime_data(value.dtype)`:
`timedelta64[25s]` has unit `s`, step 25).  The repaired code works the length out of these three with
Python integers — the unit tables and every arithmetic expression below are the ones the source contains
now (`Generated/DisplayTd.lean`).  The only floating-point step is the final `float(numer) / denom`; the
model keeps the quotient as the pair `(numer, denom)` and follows the code exactly where the double
arithmetic is exact (whole seconds, `|numer| ≤ 2^53`); elsewhere the text pieces are a parameter
(computed by the harness with the same double arithmetic and compared).

`pinnedSeconds` is numpy's own conversion, which the code used before the repair: both sides of
`value / numpy.timedelta64(1, "s")` are converted to their common unit **in 64 bits**.
-/
namespace DisplayTd
open Gen.DisplayTd Display

/-- Every unit name `numpy.datetime_data` can return (a fact about numpy, compared on every run). -/
def numpyUnits : List String :=
  ["Y", "M", "W", "D", "h", "m", "s", "ms", "us", "ns", "ps", "fs", "as", "generic"]

/-- The reference tables (what the units mean): months per tick; `(seconds, ticks per second)`. -/
def specMonths : List (String × Int) := [("Y", 12), ("M", 1)]
def specSeconds : List (String × Int × Int) :=
  [("W", 604800, 1), ("D", 86400, 1), ("h", 3600, 1), ("m", 60, 1), ("s", 1, 1), ("generic", 1, 1),
   ("ms", 1, 10 ^ 3), ("us", 1, 10 ^ 6), ("ns", 1, 10 ^ 9), ("ps", 1, 10 ^ 12), ("fs", 1, 10 ^ 15), ("as", 1, 10 ^ 18)]

inductive Mapped where
  | months (m : Int)                 -- `SimpleNamespace(months=m, days=0, nanoseconds=0)`
  | seconds (numer denom : Int)      -- `seconds = float(numer) / denom`
  | keyError                         -- `TIMEDELTA_SECONDS[unit]` without the unit
  | zeroDivision                     -- `// 0` or `/ 0`
  deriving Repr, DecidableEq

/-- The timedelta branch of `numpy_type_mapper` after the NaT test, statement by statement. -/
def mapTd (unit : String) (step raw : Int) : Mapped :=
  let t := ticks raw
  match monthsTable.lookup unit with
  | some perTick => .months (months t step perTick)
  | none =>
    match secondsTable.lookup unit with
    | none => .keyError
    | some (length, perSecond) =>
      let c := common step length perSecond
      if c = 0 then .zeroDivision
      else if denom perSecond c = 0 then .zeroDivision
      else .seconds (numer t step length c) (denom perSecond c)

/-- Largest magnitude a double represents exactly together with all smaller integers. -/
def exactBound : Int := 2 ^ 53

/-- `days=int(seconds // 86400)`, `(seconds % 86400)` for a whole number of seconds. -/
def wholeDays (s : Int) : Int := Int.fdiv s dayFloor
def wholeRest (s : Int) : Int := Int.fmod s dayMod

/-- The model cell of a timedelta64 value.  `parts`: the text pieces for the values whose double arithmetic
is not exact (a parameter). -/
def tdCell (unit : String) (step raw : Int) (parts : List Str) (slen : Nat) : Option Cell :=
  match mapTd unit step raw with
  | .months m => some (.intervalInt m 0 0 slen)
  | .seconds n d =>
    if n % d = 0 ∧ -exactBound ≤ n ∧ n ≤ exactBound then
      some (.intervalInt 0 (wholeDays (n / d)) (wholeRest (n / d)) slen)
    else some (.interval parts slen)
  | _ => none

/-- 64-bit range of a tick count. -/
def fits64 (x : Int) : Bool := decide (-(2 ^ 63) ≤ x) && decide (x < 2 ^ 63)

/-- numpy's `value / numpy.timedelta64(1, "s")` (the code before C18-F08): the value is converted to the
common unit of both sides in 64 bits (`none` = `OverflowError`); attoseconds have no common unit with
seconds at all in 64 bits. -/
def pinnedSeconds (unit : String) (step raw : Int) : Option (Int × Int) :=
  match specSeconds.lookup unit with
  | none => none
  | some (length, perSecond) =>
    if unit = "as" then none
    else
      let c := igcd (step * length) perSecond
      let n := raw * (step * length / c)
      if fits64 n then some (n, perSecond / c) else none

/-- numpy's `value.astype("timedelta64[M]")` (the code before C18-F08), in 64 bits. -/
def pinnedMonths (unit : String) (step raw : Int) : Option Int :=
  match specMonths.lookup unit with
  | none => none
  | some k => if fits64 (raw * step * k) then some (raw * step * k) else none

end DisplayTd
