import OrsoVerif.Model.Frame
/-!
# C03 — programs of DataFrame operators: the list specification and the lazy-state machine

Two evaluators for the same programs (`Op`):

* `specStep` / `specEval` — the **list-of-tuples model** of the property: a frame is its schema and
  its row listing, every operator is a function on listings, an iterator is a listing and a position.
* `implStep` / `implEval` — the **state machine of `orso/dataframe.py`**: a frame register is
  `(schema, lazily backed and not yet materialised?, rows)`; an operator first *materialises* its
  source (`self.materialize()`, decided per method by the generated table
  `Gen.Frame.materialisesFirst`), or iterates the source's generator directly (then a lazily backed
  source is *spent*), or — a method that needs a list but does not materialise — raises `TypeError`.
  `filter`, `take`, `select` return lazily backed frames.  `__iter__` materialises and hands out a
  list iterator (the generated flag; without it the frame's own generator would be handed out:
  `IReg.giter`, the behaviour before the repair of C03-F04).

`Props/C03.lean` proves that the two agree on every live register for every well-formed program.

What is *not* in this model (the harness avoids it): `append` while an unread lazily backed frame or
an open iterator on the same frame exists (Python's list iterators and generators would see the new
row), `append` on typed frames (validation: C05), rows of the wrong width.
-/
namespace Frame

variable {α : Type}

/-- Predicates `query` is exercised with. -/
inductive Pred (α : Type) where
  | tt
  | ff
  | eq (j : Nat) (v : α)
  | ne (j : Nat) (v : α)

def Pred.eval [DecidableEq α] : Pred α → List α → Bool
  | .tt, _ => true
  | .ff, _ => false
  | .eq j v, r => decide (r[j]? = some v)
  | .ne j v, r => !decide (r[j]? = some v)

/-- How the schema was given: a list of names, a tuple of names, or a `RelationSchema`. -/
inductive Kind where
  | list
  | tuple
  | typed
  deriving DecidableEq, Repr

structure Col where
  name : String
  aliases : List String
  deriving DecidableEq, Repr

structure Schema where
  kind : Kind
  cols : List Col
  deriving DecidableEq, Repr

/-- `DataFrame.column_names`. -/
def Schema.names (s : Schema) : List String := s.cols.map (·.name)

/-- `list(self._schema)`: for a `RelationSchema` the generated `__iter__`. -/
def Schema.iter (s : Schema) : List String :=
  match s.kind with
  | .typed => Gen.Frame.schemaIter (s.cols.map fun c => (c.name, c.aliases))
  | _ => s.names

/-- The schema `select` gives its result: the plain list `new_header`. -/
def Schema.ofNames (names : List String) : Schema := ⟨.list, names.map fun n => ⟨n, []⟩⟩

inductive ColRef where
  | idx (i : Int)
  | name (s : String)

/-- Values returned by the non-frame operators. -/
inductive Val (α : Type) where
  | none
  | nat (n : Nat)
  | row (r : List α)
  | table (t : List (List α))
  | batches (bs : List (List (List α)))
  | pairs (ps : List (List α × List α))

/-- Operators with one source frame that do not change it (other than materialising it). -/
inductive UnOp (α : Type) where
  | head (k : Nat)
  | tail (k : Nat)
  | slice (o : Int) (l : Option Nat)
  | filter (mask : List Bool)
  | take (ix : List Int)
  | query (p : Pred α)
  | select (attrs : List String)
  | distinct
  | batches (size : Nat)
  | collect (cols : List ColRef) (limit : Option Int)
  | row (i : Int)
  | len (how : Nat)
  /-- `hash(frame)`: the value is not modelled, only what it does to the frame -/
  | hash

inductive Op (α : Type) where
  | un (u : UnOp α) (s : Nat)
  | add (s t : Nat)
  | append (s : Nat) (r : List α)
  | iter (s : Nat)
  | next (it k : Nat)
  | zip (s t : Nat)

/-- Result of one operator in the list specification. -/
inductive SReg (α : Type) where
  | frame (sch : Schema) (rows : List (List α))
  | val (v : Val α)
  | err (cls : String)
  | iter (rows : List (List α)) (pos : Nat)

/-- Column references of `collect`: a name is resolved by `self.column_names.index(c)`. -/
def resolveCols (names : List String) : List ColRef → Except String (List Int)
  | [] => .ok []
  | .idx i :: xs => (resolveCols names xs).map (i :: ·)
  | .name s :: xs =>
    match indexOf names s with
    | some i => (resolveCols names xs).map ((i : Int) :: ·)
    | none => .error "ValueError"

/-- `collect` as `DataFrame.collect` + `collect_cython` compute it (name resolution, conversion of the
limit to the C parameter, early exit, bounds check against the width of the first row, transpose). -/
def collectOp (sch : Schema) (rows : List (List α)) (cols : List ColRef) (limit : Option Int) : SReg α :=
  match resolveCols sch.names cols with
  | .error c => .err c
  | .ok cs =>
    if !limitFits (passedLimit rows.length limit) then .err "OverflowError"
    else if rows.isEmpty ∨ cs.isEmpty then .val (.table (cs.map fun _ => []))
    else if cs.any (fun c => c < 0 ∨ c ≥ ((rows.head?.map List.length).getD 0 : Nat)) then .err "IndexError"
    else
      match collect rows (cs.map Int.toNat) limit with
      | some m => .val (.table m)
      | none => .err "IndexError"

/-- What the loop of `DataFrame.collect` (`column_indicies[i] = self.column_names.index(c)` for every `c` that is not
an `int`) leaves in the list it writes into: positions where names were, up to the first name the frame does not
have (there `index` raises and the rest is as it was). -/
def resolveInPlace (names : List String) : List ColRef → List ColRef
  | [] => []
  | .idx i :: xs => .idx i :: resolveInPlace names xs
  | .name s :: xs =>
    match indexOf names s with
    | some i => .idx (i : Int) :: resolveInPlace names xs
    | none => .name s :: xs

/-- The list object the caller passed to `collect` / `[]`, after the call: the generated table
`Gen.Frame.writesCallerArgument "collect" kind` says whether the method's argument handling (the `isinstance` branches,
`columns = [columns]` / `columns = list(columns)`, the alias `column_indicies = columns`) lets the loop write into
the caller's own object (`kind`: 0 bare, 1 list, 2 set, 3 tuple). -/
def collectArgAfter (kind : Nat) (names : List String) (arg : List ColRef) : List ColRef :=
  if Gen.Frame.writesCallerArgument "collect" kind then resolveInPlace names arg else arg

/-- `row(i)`: Python list indexing. -/
def rowOp (rows : List (List α)) (i : Int) : SReg α :=
  let n : Int := rows.length
  let j := if i < 0 then n + i else i
  if j < 0 ∨ j ≥ n then .err "IndexError"
  else match rows[j.toNat]? with
    | some r => .val (.row r)
    | none => .err "IndexError"

def selectOp (sch : Schema) (rows : List (List α)) (attrs : List String) : SReg α :=
  let r := select sch.iter rows attrs
  .frame (Schema.ofNames r.1) r.2

/-- What a one-source operator yields on a listing. -/
def apply1 [DecidableEq α] (u : UnOp α) (sch : Schema) (rows : List (List α)) : SReg α :=
  match u with
  | .head k => .frame sch (head rows k)
  | .tail k => .frame sch (tail rows k)
  | .slice o l => .frame sch (slice rows o l)
  | .filter m => .frame sch (filter rows m)
  | .take ix => .frame sch (take rows ix)
  | .query p => .frame sch (query rows p.eval)
  | .select attrs => selectOp sch rows attrs
  | .distinct => .frame sch (distinct rows)
  | .batches size => .val (.batches (batches rows size))
  | .collect cols limit => collectOp sch rows cols limit
  | .row i => rowOp rows i
  | .len _ => .val (.nat rows.length)
  | .hash => .val .none

/-- `a + b`: the schemas are compared first. -/
def addOp (sa : Schema) (ra : List (List α)) (sb : Schema) (rb : List (List α)) : SReg α :=
  if sa = sb then .frame sa (ra ++ rb) else .err "ValueError"

/-- One step of the list specification (`none`: the program refers to a register that is not there
or not of the right kind). -/
def specStep [DecidableEq α] (rs : List (SReg α)) : Op α → Option (List (SReg α))
  | .un u s =>
    match rs[s]? with
    | some (.frame sch rows) => some (rs ++ [apply1 u sch rows])
    | _ => none
  | .add s t =>
    match rs[s]?, rs[t]? with
    | some (.frame sa ra), some (.frame sb rb) => some (rs ++ [addOp sa ra sb rb])
    | _, _ => none
  | .append s r =>
    match rs[s]? with
    | some (.frame sch rows) =>
      if sch.kind = .typed then none else some (rs.set s (.frame sch (rows ++ [r])) ++ [.val .none])
    | _ => none
  | .iter s =>
    match rs[s]? with
    | some (.frame _ rows) => some (rs ++ [.iter rows 0])
    | _ => none
  | .next it k =>
    match rs[it]? with
    | some (.iter rows pos) =>
      let out := (rows.drop pos).take k
      some (rs.set it (.iter rows (pos + out.length)) ++ [.val (.table out)])
    | _ => none
  | .zip s t =>
    match rs[s]?, rs[t]? with
    | some (.frame _ ra), some (.frame _ rb) => some (rs ++ [.val (.pairs (ra.zip rb))])
    | _, _ => none

def specEval [DecidableEq α] (rs : List (SReg α)) : List (Op α) → Option (List (SReg α))
  | [] => some rs
  | op :: ops => (specStep rs op).bind fun rs' => specEval rs' ops

/-! ## The state machine of the implementation -/

inductive IReg (α : Type) where
  /-- `lazy = true`: `_rows` is a generator nobody has read yet; it will yield `rows`. -/
  | frame (sch : Schema) (lazy : Bool) (rows : List (List α))
  /-- the result of `select` on a frame that was not materialised at the time: the projection generator
  (`_inner_projection`, dataframe.py `select`) has not started; it iterates whatever `src._rows` is when
  it is first advanced — the source's list if the source has been materialised by then, the source's own
  generator otherwise (and then the source is spent).  `rows` is what it yields as long as the source
  still holds its rows (registers whose source lost them are turned into `spent`: `spendSet`). -/
  | defer (src : Nat) (sch : Schema) (rows : List (List α))
  /-- a lazily backed frame whose generator was iterated by an operator that does not materialise -/
  | spent
  | val (v : Val α)
  | err (cls : String)
  /-- a list iterator over the materialised `_rows` -/
  | iter (rows : List (List α)) (pos : Nat)
  /-- the frame's own generator, handed out by an `__iter__` that does not materialise -/
  | giter (src : Nat)

/-- The `DataFrame` method an operator enters through (key of `Gen.Frame.materialisesFirst`). -/
def UnOp.method : UnOp α → String
  | .head _ | .tail _ | .slice _ _ => "slice"
  | .filter _ => "filter"
  | .take _ => "take"
  | .query _ => "query"
  | .select _ => "select"
  | .distinct => "distinct"
  | .batches _ => "to_batches"
  | .collect _ _ => "collect"
  | .row _ => "row"
  | .len 0 => "__len__"
  | .len _ => "rowcount"
  | .hash => "__hash__"

/-- Operators that only iterate `self._rows` (a generator is enough for them). -/
def UnOp.iterates : UnOp α → Bool
  | .filter _ | .take _ | .query _ | .select _ | .distinct | .hash => true
  | _ => false

/-- Operators whose result is backed by a generator. -/
def UnOp.lazyResult : UnOp α → Bool
  | .filter _ | .take _ | .select _ => true
  | _ => false

/-- `select` (dataframe.py `select`) reads `self._rows` inside the projection generator, i.e. when the
selection is first read, not when `select` is called — the generated flag. -/
def UnOp.readsLate : UnOp α → Bool
  | .select _ => Gen.Frame.selectReadsLate
  | _ => false

def ofSpec (lazy : Bool) : SReg α → IReg α
  | .frame sch rows => .frame sch lazy rows
  | .val v => .val v
  | .err c => .err c
  | .iter rows pos => .iter rows pos

/-- A frame result whose generator will read register `src` when it is first advanced. -/
def deferOf (src : Nat) : SReg α → IReg α
  | .frame sch rows => .defer src sch rows
  | .val v => .val v
  | .err c => .err c
  | .iter rows pos => .iter rows pos

/-- Registers that hold a generator nobody has run yet (they can lose their rows). -/
def spendable : IReg α → Bool
  | .frame _ true _ => true
  | .defer _ _ _ => true
  | _ => false

/-- The registers listed in `dead` that hold an unread generator lose their rows. -/
def spendSet (dead : List Nat) (st : List (IReg α)) : List (IReg α) :=
  st.mapIdx fun i r => if spendable r && dead.contains i then .spent else r

/-- The generators that run when the generator of register `s` is advanced: `s` itself and, through
deferred selections, the sources up to the first frame that holds a list (which is only read). -/
def upChain : Nat → List (IReg α) → Nat → List Nat
  | 0, _, _ => []
  | fuel + 1, st, s =>
    match st[s]? with
    | some (.defer src _ _) => s :: upChain fuel st src
    | some (.frame _ true _) => [s]
    | _ => []

/-- Deferred selections that (transitively) read a register in `dead` — except through register `skip`,
which is being materialised and keeps its rows as a list. -/
def downAux (skip : Option Nat) : List Nat → Nat → List (IReg α) → List Nat
  | dead, _, [] => dead
  | dead, i, .defer src _ _ :: rs =>
    if dead.contains src && skip != some i then downAux skip (i :: dead) (i + 1) rs else downAux skip dead (i + 1) rs
  | dead, i, _ :: rs => downAux skip dead (i + 1) rs

def closure (st : List (IReg α)) (skip : Option Nat) (dead : List Nat) : List Nat := downAux skip dead 0 st

/-- The unstarted generator of register `s` is handed to another frame (`filter`, `take`: `rows =
self._rows`) or run to the end without being kept (a lazily backed frame under `query`, `distinct`):
`s` and every deferred selection that would read it lose their rows. -/
def handOver (st : List (IReg α)) (s : Nat) : List (IReg α) := spendSet (closure st none [s]) st

/-- The generator of register `s` is run to the end by an operator that does not keep the rows
(`query`, `distinct` on a deferred selection): also the generators up the chain are consumed. -/
def drain (st : List (IReg α)) (s : Nat) : List (IReg α) := spendSet (closure st none (upChain st.length st s)) st

/-- `self.materialize()` on register `s`: a lazily backed frame turns its own generator into a list; a
deferred selection runs its projection over the source as it is now (consuming the generators up the
chain — their other readers lose their rows) and keeps the result as a list. -/
def materialise (st : List (IReg α)) (s : Nat) : List (IReg α) :=
  match st[s]? with
  | some (.frame sch _ rows) => st.set s (.frame sch false rows)
  | some (.defer src sch rows) =>
    (spendSet (closure st (some s) (upChain st.length st src)) st).set s (.frame sch false rows)
  | _ => st

def isLazy (st : List (IReg α)) (s : Nat) : Bool :=
  match st[s]? with
  | some (.frame _ l _) => l
  | some (.defer _ _ _) => true
  | _ => false

def anyLazy (st : List (IReg α)) : Bool :=
  st.any fun r => match r with
    | .frame _ l _ => l
    | .defer _ _ _ => true
    | _ => false

/-- Schema and rows of a register that stands for a frame (materialised, lazily backed or deferred). -/
def frameOf (st : List (IReg α)) (s : Nat) : Option (Schema × List (List α)) :=
  match st[s]? with
  | some (.frame sch _ rows) => some (sch, rows)
  | some (.defer _ sch rows) => some (sch, rows)
  | _ => none

/-- The rows an operand holds after both were materialised: a frame whose generator was consumed by the
materialisation of the other operand (a deferred selection of it) holds none. -/
def rowsNow (st : List (IReg α)) (s : Nat) (rows : List (List α)) : List (List α) :=
  match st[s]? with
  | some .spent => []
  | _ => rows

def implStep [DecidableEq α] (st : List (IReg α)) : Op α → Option (List (IReg α))
  | .un u s =>
    match st[s]? with
    | some (.frame sch lazy rows) =>
      let res := ofSpec u.lazyResult (apply1 u sch rows)
      if !lazy then some (st ++ [res])
      else if Gen.Frame.materialisesFirst u.method then some (materialise st s ++ [res])
      else if u.readsLate then some (st ++ [deferOf s (apply1 u sch rows)])
      else if u.iterates then some (handOver st s ++ [res])
      else some (st ++ [.err "TypeError"])
    | some (.defer src sch rows) =>
      if Gen.Frame.materialisesFirst u.method then some (materialise st s ++ [ofSpec u.lazyResult (apply1 u sch rows)])
      else if u.readsLate then some (st ++ [deferOf s (apply1 u sch rows)])
      else if u.lazyResult then some (handOver st s ++ [deferOf src (apply1 u sch rows)])
      else if u.iterates then some (drain st s ++ [ofSpec false (apply1 u sch rows)])
      else some (st ++ [.err "TypeError"])
    | _ => none
  | .add s t =>
    match frameOf st s, frameOf st t with
    | some (sa, ra), some (sb, rb) =>
      if sa ≠ sb then some (st ++ [.err "ValueError"])
      else
        let st1 := if Gen.Frame.materialisesFirst "__add__" then materialise st s else st
        let st2 := if Gen.Frame.materialisesFirst "__add__.other" then materialise st1 t else st1
        if isLazy st2 s || isLazy st2 t then some (st2 ++ [.err "TypeError"])
        else some (st2 ++ [.frame sa false (rowsNow st2 s ra ++ rowsNow st2 t rb)])
    | _, _ => none
  | .append s r =>
    match st[s]? with
    | some (.frame sch lazy rows) =>
      if sch.kind = .typed then none
      else if lazy then some (st ++ [.err "AttributeError"])
      else some (st.set s (.frame sch false (rows ++ [r])) ++ [.val .none])
    | _ => none
  | .iter s =>
    match st[s]? with
    | some (.frame _ lazy rows) =>
      if Gen.Frame.materialisesFirst "__iter__" then some (materialise st s ++ [.iter rows 0])
      else if lazy then some (st ++ [.giter s])
      else some (st ++ [.iter rows 0])
    | some (.defer _ _ rows) =>
      if Gen.Frame.materialisesFirst "__iter__" then some (materialise st s ++ [.iter rows 0])
      else some (st ++ [.giter s])
    | _ => none
  | .next it k =>
    match st[it]? with
    | some (.iter rows pos) =>
      let out := (rows.drop pos).take k
      some (st.set it (.iter rows (pos + out.length)) ++ [.val (.table out)])
    | some (.giter src) =>
      match st[src]? with
      | some (.frame sch true rows) => some (st.set src (.frame sch true (rows.drop k)) ++ [.val (.table (rows.take k))])
      | _ => some (st ++ [.val (.table [])])
    | _ => none
  | .zip s t =>
    match frameOf st s, frameOf st t with
    | some (_, ra), some (_, rb) =>
      if Gen.Frame.materialisesFirst "__iter__" then
        let st2 := materialise (materialise st s) t
        some (st2 ++ [.val (.pairs ((rowsNow st2 s ra).zip (rowsNow st2 t rb)))])
      else
        let la := isLazy st s
        let lb := isLazy st t
        let st1 := if la then drain st s else st
        let st2 := if lb then drain st1 t else st1
        some (st2 ++ [.val (.pairs (if s = t ∧ la then [] else ra.zip rb))])
    | _, _ => none

def implEval [DecidableEq α] (st : List (IReg α)) : List (Op α) → Option (List (IReg α))
  | [] => some st
  | op :: ops => (implStep st op).bind fun st' => implEval st' ops

/-- What the refinement needs of the generated table: every method that needs a list (indexing,
`len`, slicing, adding, the compiled collector, batching) and `__iter__` call `self.materialize()`
before they touch `self._rows`. -/
def MatTable : Prop :=
  Gen.Frame.materialisesFirst "slice" = true ∧ Gen.Frame.materialisesFirst "row" = true
  ∧ Gen.Frame.materialisesFirst "__len__" = true ∧ Gen.Frame.materialisesFirst "rowcount" = true
  ∧ Gen.Frame.materialisesFirst "collect" = true ∧ Gen.Frame.materialisesFirst "to_batches" = true
  ∧ Gen.Frame.materialisesFirst "__iter__" = true ∧ Gen.Frame.materialisesFirst "__add__" = true
  ∧ Gen.Frame.materialisesFirst "__add__.other" = true

/-! ## Well-formed programs

A program is well formed when every operator refers to registers of the right kind that are still
*live*: a lazily backed frame whose generator was iterated by `filter` / `take` / `query` / `select` /
`distinct` is spent and not used again (the property only protects materialised sources), `append`
goes to a materialised names-only frame while no unread lazily backed frame exists, `next` to an
iterator.  Everything else — any order, any depth, any arguments — is allowed. -/

def live (st : List (IReg α)) (s : Nat) : Prop := ∃ sch rows, frameOf st s = some (sch, rows)

def wfOp (st : List (IReg α)) : Op α → Prop
  | .un _ s => live st s
  /- `a + b` and `zip(a, b)` materialise `a` first; when `a` is a deferred selection of the lazily backed
  `b`, that consumes `b`'s generator and `b` is spent -/
  | .add s t => live st s ∧ live (materialise st s) t
  | .append s _ => (∃ sch rows, st[s]? = some (.frame sch false rows) ∧ sch.kind ≠ .typed) ∧ anyLazy st = false
  | .iter s => live st s
  | .next it _ => ∃ rows pos, st[it]? = some (.iter rows pos)
  | .zip s t => live st s ∧ live (materialise st s) t

def wfProg [DecidableEq α] : List (IReg α) → List (Op α) → Prop
  | _, [] => True
  | st, op :: ops => wfOp st op ∧ ∀ st', implStep st op = some st' → wfProg st' ops

/-- Executable forms of `wfOp` / `wfProg` (sound: `Frame.wfProgB_sound`); the driver reports
`wfProgB` for every program the harness runs, so the evidence says how many of them lie inside the
scope of the refinement theorem. -/
def liveB (st : List (IReg α)) (s : Nat) : Bool := (frameOf st s).isSome

def wfOpB (st : List (IReg α)) : Op α → Bool
  | .un _ s => liveB st s
  | .add s t => liveB st s && liveB (materialise st s) t
  | .append s _ =>
    (match st[s]? with
      | some (.frame sch false _) => decide (sch.kind ≠ .typed)
      | _ => false) && !anyLazy st
  | .iter s => liveB st s
  | .next it _ =>
    match st[it]? with
    | some (.iter _ _) => true
    | _ => false
  | .zip s t => liveB st s && liveB (materialise st s) t

def wfProgB [DecidableEq α] : List (IReg α) → List (Op α) → Bool
  | _, [] => true
  | st, op :: ops =>
    wfOpB st op && (match implStep st op with
      | some st' => wfProgB st' ops
      | none => true)

/-- Rows appended to register `i` by a program, in order. -/
def appended (i : Nat) : List (Op α) → List (List α)
  | [] => []
  | .append s r :: ops => if s = i then r :: appended i ops else appended i ops
  | _ :: ops => appended i ops

/-- The chunks handed out by the `next` calls of a program on iterator register `it`, which stands
at position `pos` of `rows`, and the position it stands at afterwards. -/
def handed (it : Nat) (rows : List (List α)) : Nat → List (Op α) → List (List (List α)) × Nat
  | pos, [] => ([], pos)
  | pos, .next j k :: ops =>
    if j = it then
      let out := (rows.drop pos).take k
      let r := handed it rows (pos + out.length) ops
      (out :: r.1, r.2)
    else handed it rows pos ops
  | pos, _ :: ops => handed it rows pos ops

/-- **Several batchings of one frame alive at once.**  `to_batches` is a generator function: the position of a
batching is the loop variable of *that* generator (`for i in range(0, self.rowcount, batch_size)`), not state of the
frame.  Batching `i` has size `size i` and stands at its batch number `pos i`; `sched` names the batching that is
advanced next (`next(g_i)`); the outcome is what each `next` handed out (`none`: `StopIteration`). -/
def advance (rows : List α) (size : Nat → Nat) : (Nat → Nat) → List Nat → List (Nat × Option (List α))
  | _, [] => []
  | pos, i :: sched =>
    (i, (batches rows (size i))[pos i]?) ::
      advance rows size (fun k => if k = i then pos i + 1 else pos k) sched

/-- The batches batching `i` handed out, in order. -/
def yielded (i : Nat) (out : List (Nat × Option (List α))) : List (List α) :=
  out.filterMap fun jb => if jb.1 = i then jb.2 else none

/-- What the implementation state shows of a register (`none`: a spent frame shows nothing). -/
def IReg.view : IReg α → Option (SReg α)
  | .frame sch _ rows => some (.frame sch rows)
  | .defer _ sch rows => some (.frame sch rows)
  | .spent => none
  | .val v => some (.val v)
  | .err c => some (.err c)
  | .iter rows pos => some (.iter rows pos)
  | .giter _ => none

/-! ## Rectangularity -/

/-- Every row is as wide as the schema. -/
def Rect (sch : Schema) (rows : List (List α)) : Prop := ∀ r ∈ rows, r.length = sch.cols.length

def SReg.rect : SReg α → Prop
  | .frame sch rows => Rect sch rows
  | _ => True

/-- `append` is given a row of the frame's width. -/
def opRect (sp : List (SReg α)) : Op α → Prop
  | .append s r => ∀ sch rows, sp[s]? = some (.frame sch rows) → r.length = sch.cols.length
  | _ => True

def progRect [DecidableEq α] : List (SReg α) → List (Op α) → Prop
  | _, [] => True
  | sp, op :: ops => opRect sp op ∧ ∀ sp', specStep sp op = some sp' → progRect sp' ops
end Frame
