import OrsoVerif.Model.Sanitise
/-!
# C20 — the structured logger: `GoogleLogger.write_event` (`orso/logging/google_cloud_logger.py`)

l.89-106 build `structured_log` (severity, labels, source location, optional span id) — the
`base` parameter here, already passed through `fix_dict` (every leaf is a text).  For a dict
message (l.108-113):

    message = formatter.clean_record(message, False)
    structured_log["message"] = str(message) + " *"
    structured_log.update(message)
    return log_it(structured_log)          # orjson.dumps(fix_dict(payload)).decode(), printed
-/
namespace Sanitise

/-- A value of the structured log after `fix_dict`: a text, or a dictionary of texts. -/
inductive GVal where
  | text (s : Str)
  | dict (kvs : List (Str × Str))
  deriving BEq, Repr

/-- Python `d[k] = v` on an insertion-ordered dict: an existing key keeps its place. -/
def dictSet (d : List (Str × GVal)) (k : Str) (v : GVal) : List (Str × GVal) :=
  match d with
  | [] => [(k, v)]
  | (k', v') :: rest => if k' = k then (k, v) :: rest else (k', v') :: dictSet rest k v

/-- Python `d.update(other)`. -/
def dictUpdate (d : List (Str × GVal)) (upd : List (Str × GVal)) : List (Str × GVal) :=
  upd.foldl (fun acc kv => dictSet acc kv.1 kv.2) d

/-- One character inside an `orjson.dumps` string: only `"`, `\` and C0 controls are escaped. -/
def orjsonEsc (c : Char) : Str :=
  if c = '"' then ['\\', '"']
  else if c = '\\' then ['\\', '\\']
  else if c = '\n' then ['\\', 'n']
  else if c = '\r' then ['\\', 'r']
  else if c = '\t' then ['\\', 't']
  else if c.toNat = 8 then ['\\', 'b']
  else if c.toNat = 12 then ['\\', 'f']
  else if c.toNat < 32 then '\\' :: 'u' :: hex4 c.toNat
  else [c]

def orjsonStr (s : Str) : Str := '"' :: (s.flatMap orjsonEsc ++ ['"'])

def commaJoin : List Str → Str
  | [] => []
  | [x] => x
  | x :: y :: r => x ++ ',' :: commaJoin (y :: r)

def orjsonVal : GVal → Str
  | .text s => orjsonStr s
  | .dict kvs => '{' :: (commaJoin (kvs.map fun (k, v) => orjsonStr k ++ ':' :: orjsonStr v) ++ ['}'])

/-- `orjson.dumps(structured_log)` (compact separators, insertion order). -/
def orjsonDumps (d : List (Str × GVal)) : Str :=
  '{' :: (commaJoin (d.map fun (k, v) => orjsonStr k ++ ':' :: orjsonVal v) ++ ['}'])

/-- The structured log of a dict message, l.108-113. -/
def eventLog (h : Json → Str) (base : List (Str × GVal)) (msg : List (Str × Json)) : List (Str × GVal) :=
  let cleaned := cleanObj h (colorsFor false) msg
  let log := dictSet base ['m', 'e', 's', 's', 'a', 'g', 'e'] (.text (pyReprDict cleaned ++ [' ', '*']))
  dictUpdate log (cleaned.map fun (k, v) => (k, GVal.text v))

/-- The line `write_event` prints and returns for a dict message. -/
def writeEvent (h : Json → Str) (base : List (Str × GVal)) (msg : List (Str × Json)) : Str :=
  orjsonDumps (eventLog h base msg)

/-- `write_event` for a text message (l.115-120): the URL rule (the expression of `format()`, another
replacement), then the message is stored as it is. -/
def eventTextLog (base : List (Str × GVal)) (msg : Str) : List (Str × GVal) :=
  let m := if isInfix Gen.Sanitise.gUrlGuard msg then redactUrlWith Gen.Sanitise.gUrlReplacement msg else msg
  dictSet base ['m', 'e', 's', 's', 'a', 'g', 'e'] (.text m)

/-- The line `write_event` prints and returns for a text message. -/
def writeEventText (base : List (Str × GVal)) (msg : Str) : Str :=
  orjsonDumps (eventTextLog base msg)

end Sanitise
