import OrsoVerif.Model.Sanitise
/-!
# C20 — the structured logger: `GoogleLogger.write_event` (`orso/logging/google_cloud_logger.py`)

l.89-106 build `structured_log` (severity, labels, source location, optional span id) — the
`base` parameter here, already passed through `fix_dict` (every leaf is a text).  For a dict
message (l.108-113):

    message = formatter.clean_record(message, False)
    structured_log["message"] = str(message) + " *"
    structured_log.update(message)
    return log_it(structured_log)          # orjson.dumps(fix_dict(payload)).decode(), printed
-/
namespace Sanitise

/-- A value of the structured log after `fix_dict`: a text, or a dictionary of texts. -/
inductive GVal where
  | text (s : Str)
  | dict (kvs : List (Str × Str))
  deriving BEq, Repr

/-- Python `d[k] = v` on an insertion-ordered dict: an existing key keeps its place. -/
def dictSet (d : List (Str × GVal)) (k : Str) (v : GVal) : List (Str × GVal) :=
  match d with
  | [] => [(k, v)]
  | (k', v') :: rest => if k' = k then (k, v) :: rest else (k', v') :: dictSet rest k v

/-- Python `d.update(other)`. -/
def dictUpdate (d : List (Str × GVal)) (upd : List (Str × GVal)) : List (Str × GVal) :=
  upd.foldl (fun acc kv => dictSet acc kv.1 kv.2) d

/-- One character inside an `orjson.dumps` string: only `"`, `\` and C0 controls are escaped. -/
def orjsonEsc (c : Char) : Str :=
  if c = '"' then ['\\', '"']
  else if c = '\\' then ['\\', '\\']
  else if c = '\n' then ['\\', 'n']
  else if c = '\r' then ['\\', 'r']
  else if c = '\t' then ['\\', 't']
  else if c.toNat = 8 then ['\\', 'b']
  else if c.toNat = 12 then ['\\', 'f']
  else if c.toNat < 32 then '\\' :: 'u' :: hex4 c.toNat
  else [c]

def orjsonStr (s : Str) : Str := '"' :: (s.flatMap orjsonEsc ++ ['"'])

def commaJoin : List Str → Str
  | [] => []
  | [x] => x
  | x :: y :: r => x ++ ',' :: commaJoin (y :: r)

def orjsonVal : GVal → Str
  | .text s => orjsonStr s
  | .dict kvs => '{' :: (commaJoin (kvs.map fun (k, v) => orjsonStr k ++ ':' :: orjsonStr v) ++ ['}'])

/-- `orjson.dumps(structured_log)` (compact separators, insertion order). -/
def orjsonDumps (d : List (Str × GVal)) : Str :=
  '{' :: (commaJoin (d.map fun (k, v) => orjsonStr k ++ ':' :: orjsonVal v) ++ ['}'])

/-- The structured log of a dict message, l.108-113. -/
def eventLog (h : Json → Str) (base : List (Str × GVal)) (msg : List (Str × Json)) : List (Str × GVal) :=
  let cleaned := cleanObj h (colorsFor false) msg
  let log := dictSet base ['m', 'e', 's', 's', 'a', 'g', 'e'] (.text (pyReprDict cleaned ++ [' ', '*']))
  dictUpdate log (cleaned.map fun (k, v) => (k, GVal.text v))

/-- The line `write_event` prints and returns for a dict message. -/
def writeEvent (h : Json → Str) (base : List (Str × GVal)) (msg : List (Str × Json)) : Str :=
  orjsonDumps (eventLog h base msg)

/-- `write_event` for a text message (l.115-120): the URL rule (the expression of `format()`, another
replacement), then the message is stored as it is. -/
def eventTextLog (base : List (Str × GVal)) (msg : Str) : List (Str × GVal) :=
  let m := if isInfix Gen.Sanitise.gUrlGuard msg then redactUrlWith Gen.Sanitise.gUrlReplacement msg else msg
  dictSet base ['m', 'e', 's', 's', 'a', 'g', 'e'] (.text m)

/-- The line `write_event` prints and returns for a text message. -/
def writeEventText (base : List (Str × GVal)) (msg : Str) : Str :=
  orjsonDumps (eventTextLog base msg)

/-! ## `logger.<level>(message)` as `get_logger()` installs it: `add_level.py`, `log_for_level`

What the caller hands over (a dict, text or bytes) becomes the text passed to `Logger._log`, which the
handler formats (`LogFormatter.format`).  l.59-72: a dict is serialised with `orjson.dumps` (bytes), when
orjson refuses it with `json.dumps(..., default=str)`, and only when that fails too with `str()`;
bytes are decoded.  l.73-83: a record below the logger's level is dropped, a WARNING whose text was
seen before is dropped (counted), anything else goes to `_log` *as it is* - nothing is cut, capped or
decorated on the way. -/

/-- The argument of a level method, at its successive stages. -/
inductive Msg where
  | dict (d : List (Str × Json))
  | bytes (b : Str)   -- the text the bytes decode to
  | text (t : Str)
  deriving Repr

def Msg.isDict : Msg → Bool
  | .dict _ => true
  | _ => false

def Msg.isBytes : Msg → Bool
  | .bytes _ => true
  | _ => false

/-- `bytes.decode()` -/
def Msg.decode : Msg → Msg
  | .bytes b => .text b
  | m => m

def Msg.isText : Msg → Bool
  | .text _ => true
  | _ => false

/-- The vocabulary a cap / cut / decoration of the message text would be written in (`len(message)`,
`message[:n]`, `message[n:]`, concatenation): not used by the code as it is - the translator knows it so that
such a change is *translated* (and `C20.generated_log_for_level_eq_model` fails) instead of degrading. -/
def Msg.len : Msg → Nat
  | .text t => t.length
  | .bytes b => b.length
  | .dict d => d.length

def Msg.take (n : Nat) : Msg → Msg
  | .text t => .text (t.take n)
  | .bytes b => .bytes (b.take n)
  | m => m

def Msg.drop (n : Nat) : Msg → Msg
  | .text t => .text (t.drop n)
  | .bytes b => .bytes (b.drop n)
  | m => m

def Msg.cat (ms : List Msg) : Msg :=
  .text (ms.flatMap fun m => match m with
    | .text t => t
    | .bytes b => b
    | .dict _ => [])

/-- l.59-72: the message text.  `oj` = `orjson.dumps` (none: it raises), `js` = `json.dumps(·, default=str)`
(none: it raises), `str` = Python's `str()` of the dict. -/
def handOver (oj js : List (Str × Json) → Option Str) (str : List (Str × Json) → Str) : Msg → Msg
  | .dict d =>
    match oj d with
    | some b => .text b
    | none => match js d with
      | some t => .text t
      | none => .text (str d)
  | .bytes b => .text b
  | .text t => .text t

/-- l.73-83: what reaches `Logger._log` (none: the record is dropped). -/
def logForLevel (oj js : List (Str × Json) → Option Str) (str : List (Str × Json) → Str)
    (enabled isWarning : Bool) (seen : Msg → Bool) (m : Msg) : Option Msg :=
  let msg := handOver oj js str m
  if enabled then (if isWarning && seen msg then none else some msg) else none

/-- The three partial / total serialisers as `log_for_level` applies them to its `message` variable. -/
def ojMsg (oj : List (Str × Json) → Option Str) : Msg → Option Msg
  | .dict d => (oj d).map Msg.bytes   -- orjson.dumps returns bytes
  | _ => none

def jsMsg (js : List (Str × Json) → Option Str) : Msg → Option Msg
  | .dict d => (js d).map Msg.text
  | _ => none

def strMsg (str : List (Str × Json) → Str) : Msg → Msg
  | .dict d => .text (str d)
  | m => m

/-- The record the handler writes for what reached `_log`: the layout puts the message last, behind
the header fields (`header ++ "|" ++ message`), `LogFormatter.format` does the rest. -/
def emitted (h : Json → Str) (can : Bool) (parse : Str → Option (List (Str × Json))) (header : Str) :
    Option Msg → Option Str
  | some (.text t) => some (format h can parse (header ++ '|' :: t))
  | _ => none

end Sanitise
