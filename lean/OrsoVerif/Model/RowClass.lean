import OrsoVerif.Model.Family
import OrsoVerif.Generated.RowClass
/-!
# C05 — where a frame's row class comes from: one process, many features

A frame builds its rows with a *row class* the library makes when the frame is created
(`DataFrame.__init__` → `Row.create_class(schema)`).  `append` hands the validated record to that class:
Row's own `__new__` reads a dict by key (values in field order); a class made with `tuples_only=True` has
tuple's `__new__`, which iterates whatever it is given — for a dict, its KEYS.

Other features of the library ask for row classes too — the arrow reader (`converters.from_arrow`,
`tuples_only=True`), frames built from dictionaries or on a list of names, frames on other schemas with the
same column names, `Row.create_class` itself — in the same process.  If `create_class` keeps the classes it
makes in module-level state, what one feature asked for can be what a frame gets.

`Gen.RowClass` (regenerated from the working tree): `classNew` (which constructor a class gets, by
`tuples_only`), `cacheKey` (is there such state, and what its key is built from), `frameFlag` / `arrowFlag`
(what the callers pass).

`stepP` is the *process machine*: a class cache shared by everything that happens in the process, frames that
keep the class they were created with, appends that build the row with it.  `stepRP` is the statement: frames
are registers, features do nothing to them.  `Props/C05.lean` proves the refinement from `Sound` — a decidable
condition on the generated facts.
-/
namespace RowClass
open Validate
open Gen.RowClass (NewKind)
open Gen.ValidateFlow (Step)

/-- The facts about the source the machine runs on. -/
structure Cfg where
  cacheKey : Option (Bool × Bool)   -- none: no shared state; some (f, t): key built from the field names / from `tuples_only`
  classNew : Bool → NewKind
  frameFlag : Bool                  -- what `DataFrame.__init__` passes
  arrowFlag : Bool                  -- what the arrow reader passes

/-- The working tree's. -/
def genCfg : Cfg := ⟨Gen.RowClass.cacheKey, Gen.RowClass.classNew, Gen.RowClass.frameFlag, Gen.RowClass.arrowFlag⟩

/-- A row class: its field names and whose `__new__` it has. -/
structure Cls where
  fields : List String
  new : NewKind
  deriving DecidableEq, Repr

abbrev Key := Option (List String) × Option Bool
abbrev Cache := List (Key × Cls)

def keyOf (spec : Bool × Bool) (fields : List String) (flag : Bool) : Key :=
  (if spec.1 then some fields else none, if spec.2 then some flag else none)

def find (k : Key) : Cache → Option Cls
  | [] => none
  | (k', c) :: rest => if k' = k then some c else find k rest

/-- `Row.create_class(fields, tuples_only=flag)` in a process whose cache is `cache`. -/
def createClass (cfg : Cfg) (cache : Cache) (fields : List String) (flag : Bool) : Cls × Cache :=
  match cfg.cacheKey with
  | none => (⟨fields, cfg.classNew flag⟩, cache)
  | some spec =>
    match find (keyOf spec fields flag) cache with
    | some c => (c, cache)
    | none => (⟨fields, cfg.classNew flag⟩, (keyOf spec fields flag, ⟨fields, cfg.classNew flag⟩) :: cache)

/-- What the class makes of a record object: Row's `__new__` reads what it recognises as a dict by key, in the order
of the class's fields; anything else — and everything, for a class with tuple's `__new__` — is iterated. -/
def buildRow (c : Cls) (k : Kind) (r : Record) : List Value :=
  if rowReads k && (c.new == NewKind.rowNew) then c.fields.map (fun n => (lookup n r).getD none) else keysRow r

/-- The statements of `DataFrame.append` on a frame whose row class is `c` (as `runStepsK`, with the class explicit). -/
def runStepsF (s : List Column) (c : Cls) (r : Record) (sizable : Bool) :
    Kind → List Step → List (List Value) → Option (List Value) → List (List Value) × AppendResult
  | _, [], rows, _ => (rows, .ok)
  | k, .coerce :: rest, rows, row => runStepsF s c r sizable (afterCoerce k) rest rows row
  | k, .validate :: rest, rows, row =>
    if validateK k s r = .ok then runStepsF s c r sizable k rest rows row else (rows, .rejected (validateK k s r))
  | k, .build :: rest, rows, _ => runStepsF s c r sizable k rest rows (some (buildRow c k r))
  | k, .size :: rest, rows, some row => if sizable then runStepsF s c r sizable k rest rows (some row) else (rows, .unsizable)
  | _, .size :: _, rows, none => (rows, .malformed)
  | k, .store :: rest, rows, some row => runStepsF s c r sizable k rest (rows ++ [row]) (some row)
  | _, .store :: _, rows, none => (rows, .malformed)
  | k, .materialize :: rest, rows, row => runStepsF s c r sizable k rest rows row
  | k, .count :: rest, rows, row => runStepsF s c r sizable k rest rows row
  | k, .cursor :: rest, rows, row => runStepsF s c r sizable k rest rows row

def appendF (s : List Column) (c : Cls) (rows : List (List Value)) (k : Kind) (r : Record) (sizable : Bool) :
    List (List Value) × AppendResult :=
  runStepsF s c r sizable k Gen.ValidateFlow.appendSteps rows none

/-! ## frames without a schema object: built from dictionaries, or on a list of names -/

/-- The statements of `DataFrame.append` on a frame that has no RelationSchema: there is nothing to validate against (if the
source did not guard the call it would raise on the list of names). -/
def runStepsD (guarded : Bool) (c : Cls) (r : Record) (sizable : Bool) :
    Kind → List Step → List (List Value) → Option (List Value) → List (List Value) × AppendResult
  | _, [], rows, _ => (rows, .ok)
  | k, .coerce :: rest, rows, row => runStepsD guarded c r sizable (afterCoerce k) rest rows row
  | k, .validate :: rest, rows, row => if guarded then runStepsD guarded c r sizable k rest rows row else (rows, .rejected .other)
  | k, .build :: rest, rows, _ => runStepsD guarded c r sizable k rest rows (some (buildRow c k r))
  | k, .size :: rest, rows, some row => if sizable then runStepsD guarded c r sizable k rest rows (some row) else (rows, .unsizable)
  | _, .size :: _, rows, none => (rows, .malformed)
  | k, .store :: rest, rows, some row => runStepsD guarded c r sizable k rest (rows ++ [row]) (some row)
  | _, .store :: _, rows, none => (rows, .malformed)
  | k, .materialize :: rest, rows, row => runStepsD guarded c r sizable k rest rows row
  | k, .count :: rest, rows, row => runStepsD guarded c r sizable k rest rows row
  | k, .cursor :: rest, rows, row => runStepsD guarded c r sizable k rest rows row

/-- `DataFrame.append` on a frame built from dictionaries whose first one had the keys `fields`. -/
def appendD (fields : List String) (rows : List (List Value)) (k : Kind) (r : Record) (sizable : Bool) :
    List (List Value) × AppendResult :=
  runStepsD Gen.ValidateFlow.appendValidateGuarded ⟨fields, Gen.RowClass.classNew Gen.RowClass.dictFrameFlag⟩ r sizable k
    Gen.ValidateFlow.appendSteps rows none

def appendsD (fields : List String) (rows : List (List Value)) : List (Kind × Record × Bool) → List (List Value)
  | [] => rows
  | (k, r, z) :: rs => appendsD fields (appendD fields rows k r z).1 rs

def appendResultsD (fields : List String) (rows : List (List Value)) : List (Kind × Record × Bool) → List AppendResult
  | [] => []
  | (k, r, z) :: rs => (appendD fields rows k r z).2 :: appendResultsD fields (appendD fields rows k r z).1 rs

/-! ## the process machine -/

/-- Who asks for a row class. -/
inductive Who where
  | reader                 -- the arrow reader (`converters.from_arrow`)
  | frame                  -- a `DataFrame` being created
  | direct (flag : Bool)   -- `Row.create_class(names, tuples_only=flag)`
  deriving Repr, DecidableEq

inductive POp where
  | feature (fields : List String) (who : Who)     -- some other feature asks for a class for these field names
  | frame (arrow : Bool) (rows : List Family.Row)  -- a new frame on the columns `s` (from an arrow table: the reader asks first)
  | fop (op : Family.FOp)                          -- an append to a frame / a frame taken from a frame
  deriving Repr

structure Fr where
  cls : Cls
  rows : List Family.Row
  deriving Repr

structure PSt where
  cache : Cache
  frames : List Fr
  deriving Repr

def flagOf (cfg : Cfg) : Who → Bool
  | .reader => cfg.arrowFlag
  | .frame => cfg.frameFlag
  | .direct f => f

/-- A `DataFrame` is created on the columns `s` holding `rows`. -/
def newFrame (cfg : Cfg) (s : List Column) (st : PSt) (rows : List Family.Row) : PSt :=
  let p := createClass cfg st.cache (names s) cfg.frameFlag
  ⟨p.2, st.frames ++ [⟨p.1, rows⟩]⟩

def stepP (cfg : Cfg) (s : List Column) (st : PSt) : POp → PSt
  | .feature fields who => ⟨(createClass cfg st.cache fields (flagOf cfg who)).2, st.frames⟩
  | .frame arrow rows =>
    newFrame cfg s (if arrow then ⟨(createClass cfg st.cache (names s) cfg.arrowFlag).2, st.frames⟩ else st) rows
  | .fop (.append i k r z) => match st.frames[i]? with
    | none => st
    | some f => ⟨st.cache, st.frames.set i ⟨f.cls, (appendF s f.cls f.rows k r z).1⟩⟩
  | .fop (.derive i d) => match st.frames[i]? with
    | none => st
    | some f =>
      let other := match Family.otherIndex d with
        | some j => ((st.frames[j]?).map (·.rows)).getD []
        | none => []
      match Family.derive f.rows other d with
      | .shared => newFrame cfg s st f.rows
      | .fresh rows' => newFrame cfg s st rows'
      | _ => st

def runP (cfg : Cfg) (s : List Column) (st : PSt) : List POp → PSt
  | [] => st
  | op :: ops => runP cfg s (stepP cfg s st op) ops

/-- The rows every frame shows. -/
def PSt.regs (st : PSt) : List (List Family.Row) := st.frames.map (·.rows)

/-- What every append of a program reports. -/
def resultsP (cfg : Cfg) (s : List Column) (st : PSt) : List POp → List AppendResult
  | [] => []
  | .fop (.append i k r z) :: ops =>
    (match st.frames[i]? with
      | none => AppendResult.malformed
      | some f => (appendF s f.cls f.rows k r z).2) :: resultsP cfg s (stepP cfg s st (.fop (.append i k r z))) ops
  | op :: ops => resultsP cfg s (stepP cfg s st op) ops

/-! ## the statement: frames are registers; what other features do is nothing to them -/

def stepRP (s : List Column) (regs : List (List Family.Row)) : POp → List (List Family.Row)
  | .feature _ _ => regs
  | .frame _ rows => regs ++ [rows]
  | .fop op => Family.stepR s regs op

def runRP (s : List Column) (regs : List (List Family.Row)) : List POp → List (List Family.Row)
  | [] => regs
  | op :: ops => runRP s (stepRP s regs op) ops

/-- The appends and derivations of a program. -/
def fopsOf : List POp → List Family.FOp
  | [] => []
  | .fop op :: ops => op :: fopsOf ops
  | _ :: ops => fopsOf ops

/-- **When the shared state is harmless** (decidable on the generated facts): a frame asks for a class that reads
records by key; and if classes are kept, the key tells apart everything the class depends on — the field names,
and `tuples_only` unless both values give the same constructor. -/
def Cfg.sound (cfg : Cfg) : Bool :=
  (cfg.classNew cfg.frameFlag == NewKind.rowNew) &&
  match cfg.cacheKey with
  | none => true
  | some (f, t) => f && (t || cfg.classNew true == cfg.classNew false)

end RowClass
