import OrsoVerif.Model.TypeName
import OrsoVerif.Model.Validate
import OrsoVerif.Generated.Persist
/-!
# C16 — persistence of schemas and columns: `orso/schema.py`

`FlatColumn.__init__` (:152-218, the constructor's normalisation), `to_flatcolumn` (:271-289),
`to_json` / `from_json` / `FlatColumn.from_dict` (:329-373), `RelationSchema.to_dict` / `from_dict`
(:655-699), and what `RelationSchema.validate` / `DataFrame.description` see of a schema.

A column is the record of the seventeen declared dataclass attributes.  Keyword arguments (`Raw`) are
optional per attribute: `none` = the keyword is absent.  Which keywords exist, which `to_flatcolumn`
forwards (and from which attribute of `self`), which `to_dict` emits and which `from_dict` restores
are the lists of `Generated/Persist.lean`, re-extracted from the source on every run; the functions
below *interpret* those lists, so a dropped or swapped attribute changes the model, not a comment.

Values (defaults, statistics) are a parameter `V` with a `Caster`: `None`, truthiness (`if
self.default:`), the cast `self.type.parse(default)` and the effect of a JSON round trip on a value.
What the theorems assume of the caster is stated where they are (C07's clauses: a cast is the
identity on values it produced, and gives the value back from its JSON rendering).

Identifications (Python `==` makes them too): an `OrsoTypes` member is its name; a disposition member
is its name.  The int `0` that `from_name` returns for `'0'`/`VARIANT`/`MISSING` is `Ty.zero`, which is
*not* the member `_MISSING_TYPE`.
-/
namespace Persist
open TypeName (Str Ty)
open Gen.Persist

inductive Err where
  | value                -- ValueError
  | type                 -- TypeError
  | columnDefinition     -- ColumnDefinitionError
  | key                  -- KeyError
  | other (name : Str)
  deriving Repr, DecidableEq

/-- How values enter the model. -/
structure Caster (V : Type) where
  /-- Python `None` -/
  none : V
  /-- `bool(v)` -/
  truthy : V → Bool
  /-- `OrsoTypes.<m>.parse(v)`; `none` = it raises (any exception: the constructor turns it into ValueError) -/
  parse : Str → V → Option V
  /-- `orjson.loads(orjson.dumps(v))`; `none` = `orjson.dumps` raises TypeError -/
  json : V → Option V

/-- a type as passed to the constructor -/
inductive RawTy where
  | member (m : Str)   -- an `OrsoTypes` member
  | text (s : Str)     -- a `str`
  | zero               -- the int `0`
  deriving Repr, DecidableEq

inductive RawDisp where
  | member (n : String)  -- a `ColumnDisposition` member
  | text (s : String)
  deriving Repr, DecidableEq

/-- keyword arguments of `FlatColumn(**kwargs)` / the dictionary of one column; `none` = key absent -/
structure Raw (V : Type) where
  name : Option String := none
  default : Option V := none
  type : Option RawTy := none
  element_type : Option (Option RawTy) := none
  description : Option (Option String) := none
  disposition : Option (Option RawDisp) := none
  aliases : Option (Option (List String)) := none
  nullable : Option Bool := none
  expectations : Option (List V) := none
  identity : Option String := none
  length : Option (Option Nat) := none
  precision : Option (Option Nat) := none
  scale : Option (Option Nat) := none
  origin : Option (List String) := none
  highest_value : Option V := none
  lowest_value : Option V := none
  null_count : Option (Option Nat) := none
  deriving Repr, DecidableEq

/-- a constructed column: the seventeen declared attributes (schema.py:134-150) -/
structure Col (V : Type) where
  name : String
  default : V
  type : Ty
  element_type : Option Ty
  description : Option String
  disposition : Option String
  aliases : Option (List String)
  nullable : Bool
  expectations : List V
  identity : String
  length : Option Nat
  precision : Option Nat
  scale : Option Nat
  origin : List String
  highest_value : V
  lowest_value : V
  null_count : Option Nat
  deriving Repr, DecidableEq

def missingName : Str := ['_', 'M', 'I', 'S', 'S', 'I', 'N', 'G', '_', 'T', 'Y', 'P', 'E']
def zeroText : Str := ['0']

def convErr : Gen.TypeName.ExcClass → Err
  | .valueError => .value
  | .other n => .other n

/-! ## `FlatColumn.__init__` -/

/-- :153-178 `for attribute in fields(cls): if attribute in kwargs … else default`: a keyword is read only
if it is a declared field. -/
def rd {α : Type} (k : String) (kw : Option α) (dflt : α) : α :=
  if k ∈ columnFields then kw.getD dflt else dflt

/-- a required keyword (no default, no factory): absent = `ColumnDefinitionError` -/
def rdReq {α : Type} (k : String) (kw : Option α) : Option α :=
  if k ∈ columnFields then kw else none

/-- `OrsoTypes.from_name(x)` for a non-member `x` (`str(x).upper()`; the int 0 reads as "0") -/
def fromNameRaw : RawTy → TypeName.Res
  | .member m => TypeName.fromName (TypeName.valueOf m)   -- `str(member)` is its value
  | .text s => TypeName.fromName s
  | .zero => TypeName.fromName zeroText

structure Resolved where
  ty : Ty
  elem : Option RawTy
  length : Option Nat
  precision : Option Nat
  scale : Option Nat
  deriving Repr, DecidableEq

/-- one of the fill statements of :185-193, as listed in `Gen.Persist.initFills`: `if self.a is None: self.a = _b`
(guard `isNone`) or `self.a = self.a or _b` (guard `falsy`: a falsy value is overwritten too); an attribute that is
not listed is left alone. `falsy cur` = Python's `not cur` for a value that is not None. -/
def fill {α : Type} (attr : String) (falsy : α → Bool) (parsed : String → Option α) (cur : Option α) : Option α :=
  match initFills.find? (fun f => f.1 == attr) with
  | none => cur
  | some (_, guard, field) =>
    match cur with
    | none => parsed field
    | some v => if guard == "isNone" then some v else if falsy v then parsed field else some v

def natField (d : TypeName.Desc) : String → Option Nat
  | "length" => d.length
  | "precision" => d.precision
  | "scale" => d.scale
  | _ => none

def elemField (d : TypeName.Desc) : String → Option RawTy
  | "elem" => d.elem.map RawTy.member
  | _ => none

/-- `not x` for a type literal that is not None: the int 0 and the empty text (a member is a non-empty `str`) -/
def rawTyFalsy : RawTy → Bool
  | .member _ => false
  | .text s => s.isEmpty
  | .zero => true

/-- :181-193 map literals to OrsoTypes; the parsed parameters fill attributes that are still None, and
only when the result is an `OrsoTypes` member. -/
def resolveType (t : RawTy) (elem : Option RawTy) (len prec scale : Option Nat) : Except Err Resolved :=
  match t with
  | .member m => .ok ⟨.member m, elem, len, prec, scale⟩
  | t =>
    match fromNameRaw t with
    | .error e => .error (convErr e)
    | .ok d =>
      match d.ty with
      | .zero => .ok ⟨.zero, elem, len, prec, scale⟩
      | .member m =>
        .ok ⟨.member m, fill "element_type" rawTyFalsy (elemField d) elem, fill "length" (· == 0) (natField d) len,
             fill "precision" (· == 0) (natField d) prec, fill "scale" (· == 0) (natField d) scale⟩

/-- map a literal element type to the member (`from_name(x)[0]`) -/
def resolveElem : Option RawTy → Except Err (Option Ty)
  | none => .ok none
  | some (.member m) => .ok (some (.member m))
  | some t =>
    match fromNameRaw t with
    | .error e => .error (convErr e)
    | .ok d => .ok (some d.ty)

def dispValue (n : String) : String := (dispositions.lookup n).getD n

/-- map a literal disposition to the member (`ColumnDisposition(x)`: lookup by value, ValueError if unknown) -/
def resolveDisp : Option RawDisp → Except Err (Option String)
  | none => .ok none
  | some (.member n) => .ok (some n)
  | some (.text s) =>
    match dispositions.find? (fun p => p.2 == s) with
    | some p => .ok (some p.1)
    | none => .error .value

/-- :204-210 `if self.default: self.default = self.type.parse(self.default)`, any exception → ValueError.
The int `0` has no `.parse`. -/
def resolveDefault {V : Type} (K : Caster V) (ty : Ty) (v : V) : Except Err V :=
  if K.truthy v then
    match ty with
    | .zero => .error .value
    | .member m =>
      match K.parse m v with
      | some w => .ok w
      | none => .error .value
  else .ok v

def isDecimal (ty : Ty) : Bool := ty == .member TypeName.litDecimal

/-- the guard of a DECIMAL default as listed in `Gen.Persist.decimalFills`: `self.a is None` (`isNone`) or
`not self.a` (`falsy`: 0 counts as absent); an attribute that is not listed is never defaulted -/
def decimalGuard (attr : String) (cur : Option Nat) : Bool :=
  match decimalFills.lookup attr with
  | none => false
  | some g => cur.isNone || (g != "isNone" && cur == some 0)

/-- :213-218 DECIMAL defaults: `getcontext().prec`, `int(0.75 * precision)` -/
def decimalPrecision (ty : Ty) (p : Option Nat) : Option Nat :=
  if isDecimal ty && decimalGuard "precision" p then some Gen.TypeName.ctxPrec else p

def decimalScale (ty : Ty) (p s : Option Nat) : Option Nat :=
  if isDecimal ty && decimalGuard "scale" s then p.map (fun pv => Gen.TypeName.scaleNum * pv / Gen.TypeName.scaleDen) else s

/-- `FlatColumn(**r)`; `fresh` is what `random_string()` returns when no identity is given. -/
def init {V : Type} (K : Caster V) (fresh : String) (r : Raw V) : Except Err (Col V) :=
  match rdReq "name" r.name with
  | none => .error .columnDefinition     -- `name` has neither default nor factory
  | some name =>
    match resolveType (rd "type" r.type (.member missingName)) (rd "element_type" r.element_type none)
        (rd "length" r.length none) (rd "precision" r.precision none) (rd "scale" r.scale none) with
    | .error e => .error e
    | .ok t =>
      match resolveElem t.elem with
      | .error e => .error e
      | .ok elem =>
        match resolveDisp (rd "disposition" r.disposition none) with
        | .error e => .error e
        | .ok disp =>
          match resolveDefault K t.ty (rd "default" r.default K.none) with
          | .error e => .error e
          | .ok dflt =>
            .ok {
              name := name
              default := dflt
              type := t.ty
              element_type := elem
              description := rd "description" r.description none
              disposition := disp
              aliases := rd "aliases" r.aliases (some [])
              nullable := rd "nullable" r.nullable true
              expectations := rd "expectations" r.expectations []
              identity := rd "identity" r.identity fresh
              length := t.length
              precision := decimalPrecision t.ty t.precision
              scale := decimalScale t.ty (decimalPrecision t.ty t.precision) t.scale
              origin := rd "origin" r.origin []
              highest_value := rd "highest_value" r.highest_value K.none
              lowest_value := rd "lowest_value" r.lowest_value K.none
              null_count := rd "null_count" r.null_count none }

/-! ## reading attributes by name (for the generated forwarding lists) -/

def rawTy : Ty → RawTy
  | .member m => .member m
  | .zero => .zero

def strAttr {V : Type} (c : Col V) : String → Option String
  | "name" => some c.name
  | "identity" => some c.identity
  | _ => none

def valAttr {V : Type} (c : Col V) : String → Option V
  | "default" => some c.default
  | "highest_value" => some c.highest_value
  | "lowest_value" => some c.lowest_value
  | _ => none

def natAttr {V : Type} (c : Col V) : String → Option (Option Nat)
  | "length" => some c.length
  | "precision" => some c.precision
  | "scale" => some c.scale
  | "null_count" => some c.null_count
  | _ => none

def optStrAttr {V : Type} (c : Col V) : String → Option (Option String)
  | "description" => some c.description
  | _ => none

def tyAttr {V : Type} (c : Col V) : String → Option RawTy
  | "type" => some (rawTy c.type)
  | _ => none

def elemAttr {V : Type} (c : Col V) : String → Option (Option RawTy)
  | "element_type" => some (c.element_type.map rawTy)
  | _ => none

def dispAttr {V : Type} (c : Col V) : String → Option (Option RawDisp)
  | "disposition" => some (c.disposition.map RawDisp.member)
  | _ => none

def aliasesAttr {V : Type} (c : Col V) : String → Option (Option (List String))
  | "aliases" => some c.aliases
  | _ => none

def boolAttr {V : Type} (c : Col V) : String → Option Bool
  | "nullable" => some c.nullable
  | _ => none

def listAttr {V : Type} (c : Col V) : String → Option (List String)
  | "origin" => some c.origin
  | _ => none

def valsAttr {V : Type} (c : Col V) : String → Option (List V)
  | "expectations" => some c.expectations
  | _ => none

/-- keyword `k` of a call that passes the attributes listed in `fwd` (keyword ↦ attribute read) -/
def fw {α : Type} (fwd : List (String × String)) (get : String → Option α) (k : String) : Option α :=
  (fwd.lookup k).bind get

/-- the keyword arguments built from the attributes of `c` according to a forwarding list -/
def rawVia {V : Type} (fwd : List (String × String)) (c : Col V) : Raw V :=
  { name := fw fwd (strAttr c) "name"
    default := fw fwd (valAttr c) "default"
    type := fw fwd (tyAttr c) "type"
    element_type := fw fwd (elemAttr c) "element_type"
    description := fw fwd (optStrAttr c) "description"
    disposition := fw fwd (dispAttr c) "disposition"
    aliases := fw fwd (aliasesAttr c) "aliases"
    nullable := fw fwd (boolAttr c) "nullable"
    expectations := fw fwd (valsAttr c) "expectations"
    identity := fw fwd (strAttr c) "identity"
    length := fw fwd (natAttr c) "length"
    precision := fw fwd (natAttr c) "precision"
    scale := fw fwd (natAttr c) "scale"
    origin := fw fwd (listAttr c) "origin"
    highest_value := fw fwd (valAttr c) "highest_value"
    lowest_value := fw fwd (valAttr c) "lowest_value"
    null_count := fw fwd (natAttr c) "null_count" }

/-- every declared attribute passed back as it is: `FlatColumn(**{f: getattr(c, f) for f in fields})` -/
def rawOf {V : Type} (c : Col V) : Raw V := rawVia (columnFields.map fun f => (f, f)) c

/-! ## `to_flatcolumn` (:271-289) -/

def toFlat {V : Type} (K : Caster V) (fresh : String) (c : Col V) : Except Err (Col V) :=
  init K fresh (rawVia flatKwargs c)

/-! ## `RelationSchema.to_dict` / `from_dict`, `FlatColumn.to_json` / `from_json` -/

/-- `_converter` (`value.value if isinstance(value, Enum)`; which attribute is `Gen.Persist.enumWrittenAs`) / orjson:
an enum member is written as its value -/
def writeTy : Ty → RawTy
  | .member m => .text (if enumWrittenAs == "value" then TypeName.valueOf m else m)
  | .zero => .zero

def writeDisp (n : String) : RawDisp := .text (if enumWrittenAs == "value" then dispValue n else n)

/-- the keys `asdict` emits: every declared field -/
def em {α : Type} (k : String) (v : α) : Option α := if k ∈ columnFields then some v else none

/-- the dictionary of one column as `to_dict` writes it; values are carried as they are -/
def colToDict {V : Type} (c : Col V) : Raw V :=
  { name := em "name" c.name
    default := em "default" c.default
    type := em "type" (writeTy c.type)
    element_type := em "element_type" (c.element_type.map writeTy)
    description := em "description" c.description
    disposition := em "disposition" (c.disposition.map writeDisp)
    aliases := em "aliases" c.aliases
    nullable := em "nullable" c.nullable
    expectations := em "expectations" c.expectations
    identity := em "identity" c.identity
    length := em "length" c.length
    precision := em "precision" c.precision
    scale := em "scale" c.scale
    origin := em "origin" c.origin
    highest_value := em "highest_value" c.highest_value
    lowest_value := em "lowest_value" c.lowest_value
    null_count := em "null_count" c.null_count }

def mapO {α β : Type} (f : α → Option β) : List α → Option (List β)
  | [] => some []
  | a :: as =>
    match f a, mapO f as with
    | some b, some bs => some (b :: bs)
    | _, _ => none

/-- orjson writes integers up to 64 bits (`length`, `precision`, `scale`, `null_count` are non-negative here) -/
def intFits (n : Option Nat) : Bool :=
  match n with
  | none => true
  | some k => decide (k < 18446744073709551616)

/-- `orjson.loads(to_json())`: as `to_dict`, with every value through JSON; TypeError when one cannot be
serialised -/
def colToJson {V : Type} (K : Caster V) (c : Col V) : Except Err (Raw V) :=
  if !(intFits c.length && intFits c.precision && intFits c.scale && intFits c.null_count) then .error .type
  else
    match K.json c.default, K.json c.highest_value, K.json c.lowest_value, mapO K.json c.expectations with
    | some d, some h, some l, some ex =>
      .ok { colToDict c with
            default := em "default" d, highest_value := em "highest_value" h,
            lowest_value := em "lowest_value" l, expectations := em "expectations" ex }
    | _, _, _, _ => .error .type

/-! ### `FlatColumn.from_dict` (:355-373), statement by statement from `Gen.Persist.fromDictRules` -/

/-- `x == OrsoTypes.<m>.value` for a type literal `x`: `OrsoTypes` is a `str` enum, so a member equals its value;
the int 0 equals no text -/
def tyEqValue (t : RawTy) (m : Str) : Bool :=
  match t with
  | .text s => s == TypeName.valueOf m
  | .member m' => TypeName.valueOf m' == TypeName.valueOf m
  | .zero => false

/-- one condition of a rule, on the dictionary as it is at that statement -/
def evalCond {V : Type} (d : Raw V) : String × String × String → Bool
  | ("eqValue", "type", m) =>
    match d.type with
    | some t => tyEqValue t m.toList
    | none => false
  | ("eqValue", "element_type", m) =>
    match d.element_type with
    | some (some t) => tyEqValue t m.toList
    | _ => false
  | ("present", "element_type", _) => d.element_type.isSome
  | ("present", "type", _) => d.type.isSome
  | ("isNone", "element_type", _) =>
    match d.element_type with
    | some none => true
    | _ => false
  | _ => false

/-- `dic = {**dic, key: OrsoTypes.<m>}` -/
def assignMember {V : Type} (d : Raw V) (key m : String) : Raw V :=
  match key with
  | "type" => { d with type := some (.member m.toList) }
  | "element_type" => { d with element_type := some (some (.member m.toList)) }
  | _ => d

def applyRule {V : Type} (d : Raw V) (r : List (String × String × String) × String × String) : Raw V :=
  if r.1.all (evalCond d) then assignMember d r.2.1 r.2.2 else d

/-- the statements of `from_dict` before `cls(**dic)`, in order: the value of `_MISSING_TYPE`, written for an
untyped column and for an untyped element type, is mapped back to the member (F04, F08); a written `'ARRAY'` with
a null element type is handed over as the member, so that the bare name does not default the element type (K03) -/
def prepare {V : Type} (d : Raw V) : Raw V := fromDictRules.foldl applyRule d

/-- `FlatColumn.from_dict`: the rules, then `cls(**dic)` -/
def colFromDict {V : Type} (K : Caster V) (fresh : String) (d : Raw V) : Except Err (Col V) :=
  init K fresh (prepare d)

/-- how a parsed dictionary becomes a column: through `from_dict` or directly `cls(**dic)` -/
def load {V : Type} (loader : String) (K : Caster V) (fresh : String) (d : Raw V) : Except Err (Col V) :=
  if loader == "from_dict" then colFromDict K fresh d else init K fresh d

/-- `FlatColumn.from_json(c.to_json())` -/
def jsonRoundTrip {V : Type} (K : Caster V) (fresh : String) (c : Col V) : Except Err (Col V) :=
  match colToJson K c with
  | .error e => .error e
  | .ok d => load jsonLoader K fresh d

structure Schema (V : Type) where
  name : String
  aliases : List String
  columns : List (Col V)
  primary_key : Option String
  deriving Repr, DecidableEq

/-- the dictionary `to_dict` writes, restricted to the attributes the property names; `none` = key absent -/
structure SDict (V : Type) where
  name : Option String := none
  aliases : Option (List String) := none
  columns : Option (List (Raw V)) := none
  primary_key : Option (Option String) := none
  deriving Repr, DecidableEq

def emS {α : Type} (k : String) (v : α) : Option α :=
  if toDictAsdict && decide (k ∈ schemaFields) then some v else none

def toDict {V : Type} (s : Schema V) : SDict V :=
  { name := emS "name" s.name
    aliases := emS "aliases" s.aliases
    columns := emS "columns" (s.columns.map colToDict)
    primary_key := emS "primary_key" s.primary_key }

def mapE {α β : Type} (f : α → Except Err β) : List α → Except Err (List β)
  | [] => .ok []
  | a :: as =>
    match f a with
    | .error e => .error e
    | .ok b =>
      match mapE f as with
      | .error e => .error e
      | .ok bs => .ok (b :: bs)

def sName {V : Type} (d : SDict V) : String → Option String
  | "name" => d.name
  | _ => none

def sAliases {V : Type} (d : SDict V) : String → Option (List String)
  | "aliases" => d.aliases
  | _ => none

def sColumns {V : Type} (d : SDict V) : String → Option (List (Raw V))
  | "columns" => d.columns
  | _ => none

def sPrimaryKey {V : Type} (d : SDict V) : String → Option (Option String)
  | "primary_key" => d.primary_key
  | _ => none

/-- `RelationSchema.from_dict` (:662-688): the attributes in `fromDictRestores` are read from the
dictionary (a missing `name` / `columns` key is a KeyError), the others keep the dataclass default. -/
def fromDict {V : Type} (K : Caster V) (fresh : String) (d : SDict V) : Except Err (Schema V) :=
  match fw fromDictRestores (sName d) "name" with
  | none => .error .key
  | some name =>
    let aliases := (fw fromDictRestores (sAliases d) "aliases").getD []
    let pk := (fw fromDictRestores (sPrimaryKey d) "primary_key").getD none
    match fromDictRestores.lookup "columns" with
    | none => .ok ⟨name, aliases, [], pk⟩
    | some k =>
      match sColumns d k with
      | none => .error .key
      | some cols =>
        match mapE (load columnLoader K fresh) cols with
        | .error e => .error e
        | .ok cs => .ok ⟨name, aliases, cs, pk⟩

/-! ## what the rest of the library sees of a schema -/

/-- the column as `RelationSchema.validate` reads it (C05's model): name, type, nullability -/
def vcol {V : Type} (c : Col V) : Validate.Column :=
  { name := c.name
    type := match c.type with
      | .member m => if m = missingName then none else some (String.ofList m)
      | .zero => some "0"
    nullable := c.nullable }

def vcols {V : Type} (s : Schema V) : List Validate.Column := s.columns.map vcol

/-- one entry of `DataFrame.description` (dataframe.py:344-394): name, type code, precision and scale of a
DECIMAL, nullability; `none` when it raises (a type or element type without `.value`). -/
def describeCol {V : Type} (c : Col V) : Option (String × Str × Option Nat × Option Nat × Bool) :=
  let elem : Option (Option Str) := match c.element_type with
    | none => some none
    | some (.member e) => some (some e)
    | some .zero => none
  match elem with
  | none => none
  | some e =>
    match TypeName.typeCode { ty := c.type, length := c.length, precision := c.precision, scale := c.scale, elem := e } with
    | none => none
    | some code =>
      some (c.name, code, if isDecimal c.type then c.precision else none, if isDecimal c.type then c.scale else none,
            c.nullable)

def describe {V : Type} (s : Schema V) : List (Option (String × Str × Option Nat × Option Nat × Bool)) :=
  s.columns.map describeCol

/-! ## well-formedness: what the constructor establishes, and what the persisted forms can carry -/

/-- What `init` establishes (`init_establishes`): a truthy default is a fixed point of its type's cast, and
a DECIMAL has precision and scale. -/
def Constructed {V : Type} (K : Caster V) (c : Col V) : Prop :=
  (K.truthy c.default = true → ∃ m, c.type = .member m ∧ K.parse m c.default = some c.default)
  ∧ (isDecimal c.type = true → c.precision.isSome = true ∧ c.scale.isSome = true)

/-- the types a persisted form can name: the base types and the untyped marker -/
def persistableTypes : List Str := missingName :: TypeName.baseTypes

/-- What the written forms carry faithfully: the type is a base type or untyped (not the int 0), the
element type (if any) a base type or untyped, the disposition a member. -/
def Persistable {V : Type} (c : Col V) : Prop :=
  (∃ m, c.type = .member m ∧ m ∈ persistableTypes)
  ∧ (∀ e, c.element_type = some e → ∃ m, e = .member m ∧ m ∈ persistableTypes)
  ∧ (∀ n, c.disposition = some n → n ∈ dispositions.map Prod.fst)

/-- the default survives JSON: casting its JSON rendering gives it back (C07: canonical renderings), or it
is falsy and JSON-native -/
def DefaultSurvivesJson {V : Type} (K : Caster V) (c : Col V) : Prop :=
  ∃ j, K.json c.default = some j ∧ resolveDefault K c.type j = .ok c.default

/-- statistics (and expectations) survive JSON as they are: JSON-native values -/
def JsonNative {V : Type} (K : Caster V) (c : Col V) : Prop :=
  K.json c.highest_value = some c.highest_value ∧ K.json c.lowest_value = some c.lowest_value
  ∧ mapO K.json c.expectations = some c.expectations
  ∧ (intFits c.length && intFits c.precision && intFits c.scale && intFits c.null_count) = true

end Persist
