import OrsoVerif.Model.RowClass
import OrsoVerif.Generated.Layout
/-!
# C05 — how a stored row is laid out when the schema it belongs to changes, and how large a record may be

A frame keeps the *row class* it was given when it was created; the class's fields decide the layout of the rows
`append` stores.  The schema object is shared: its owner may rename, reorder, add or replace columns between two appends.
`validate` judges the record against the columns as they are now — so the row must be laid out by those too.
`DataFrame.append` therefore compares the class's fields with the column names and replaces the class when they
differ (dataframe.py, after the `validate` call).

What is generated (`Gen.Layout`, from the working tree on every run): what the fields are compared *with* (`relayout`:
the names read now, or a helper of the frame that remembers its first answer — `column_names` goes through
`single_item_cache`), that the statement stands between validation and construction (`relayoutBeforeBuild`), how
`RelationSchema.__iter__` lists the names (`schemaIter`: one per column, or every name once) and whether
`Row.create_class` takes its fields from that iteration (`classFieldsFrom`).

`stepB` is the *bound machine*: one schema object, any number of frames bound to it, each with the field list of its
class; the owner edits the schema, frames are bound, read (`column_names`) and appended to.  `stepBR` is the statement:
frames are registers, an append stores `rowOf` of the columns *as they are at that moment*.

The second part puts the record-size limit of the row serialiser (row.py `MAXIMUM_RECORD_SIZE`, the guard of
`Row.as_bytes`) under the Boolean `sizable` the earlier models take as a parameter.
-/
namespace Layout
open Validate RowClass
open Gen.Layout (Relayout Iter FieldsFrom)
open Gen.RowClass (NewKind)
open Gen.ValidateFlow (Step)

abbrev Row := List Value

/-- The facts about the source the machine runs on. -/
structure LCfg where
  relayout : Relayout
  beforeBuild : Bool
  iter : Iter
  fieldsFrom : FieldsFrom
  new : NewKind             -- the constructor of the class a frame asks for
  deriving Repr

/-- The working tree's. -/
def genL : LCfg :=
  ⟨Gen.Layout.relayout, Gen.Layout.relayoutBeforeBuild, Gen.Layout.schemaIter, Gen.Layout.classFieldsFrom,
   Gen.RowClass.classNew Gen.RowClass.frameFlag⟩

/-- `dict.fromkeys(names)`: every name once, in the position of its first occurrence. -/
def dedup : List String → List String
  | [] => []
  | x :: xs => x :: (dedup xs).filter (fun y => y != x)

/-- `iter(schema)` -/
def iterNames (cfg : LCfg) (s : List Column) : List String :=
  match cfg.iter with
  | .each => names s
  | .distinct => dedup (names s)

/-- The fields of the class `Row.create_class(schema)` makes. -/
def classFields (cfg : LCfg) (s : List Column) : List String :=
  match cfg.fieldsFrom with
  | .columns => names s
  | .iteration => iterNames cfg s

/-- The field list the frame builds its rows with after the relayout statement: `seen` is what the frame's
`column_names` helper answers at that moment. -/
def relaid (cfg : LCfg) (s : List Column) (fields seen : List String) : List String :=
  match cfg.relayout with
  | .never => fields
  | .current => if fields = names s then fields else classFields cfg s
  | .memoised => if fields = seen then fields else classFields cfg s

/-- The statements of `DataFrame.append` on a frame whose class has the fields `f` (as `runStepsF`; the class is frame
state and may be replaced).  The relayout statement belongs to the `validate` statement of the source (it follows the
call) when `beforeBuild`; otherwise it comes too late for the row being built. -/
def runStepsL (cfg : LCfg) (s : List Column) (seen : List String) (r : Record) (z : Bool) :
    Kind → List Step → List Row → Option Row → List String → List Row × List String × AppendResult
  | _, [], rows, _, f => (rows, f, .ok)
  | k, .coerce :: rest, rows, row, f => runStepsL cfg s seen r z (afterCoerce k) rest rows row f
  | k, .validate :: rest, rows, row, f =>
    if validateK k s r = .ok then
      runStepsL cfg s seen r z k rest rows row (if cfg.beforeBuild then relaid cfg s f seen else f)
    else (rows, f, .rejected (validateK k s r))
  | k, .build :: rest, rows, _, f =>
    runStepsL cfg s seen r z k rest rows (some (buildRow ⟨f, cfg.new⟩ k r)) (if cfg.beforeBuild then f else relaid cfg s f seen)
  | k, .size :: rest, rows, some row, f => if z then runStepsL cfg s seen r z k rest rows (some row) f else (rows, f, .unsizable)
  | _, .size :: _, rows, none, f => (rows, f, .malformed)
  | k, .store :: rest, rows, some row, f => runStepsL cfg s seen r z k rest (rows ++ [row]) (some row) f
  | _, .store :: _, rows, none, f => (rows, f, .malformed)
  | k, .materialize :: rest, rows, row, f => runStepsL cfg s seen r z k rest rows row f
  | k, .count :: rest, rows, row, f => runStepsL cfg s seen r z k rest rows row f
  | k, .cursor :: rest, rows, row, f => runStepsL cfg s seen r z k rest rows row f

/-- `DataFrame.append` on a frame bound to the columns `s` *as they are now*, whose class has the fields `f`. -/
def appendL (cfg : LCfg) (s : List Column) (seen f : List String) (rows : List Row) (k : Kind) (r : Record) (z : Bool) :
    List Row × List String × AppendResult :=
  runStepsL cfg s seen r z k Gen.ValidateFlow.appendSteps rows none f

/-! ## the bound machine -/

structure BFr where
  fields : List String
  rows : List Row
  deriving Repr, DecidableEq

structure BSt where
  cols : List Column
  frames : List BFr
  memo : Option (Nat × List String)   -- `single_item_cache` of `DataFrame.column_names`: the last (frame, answer)
  deriving Repr

inductive BOp where
  | edit (op : Validate.Op)                               -- the owner changes the schema object (any way `mutate` knows)
  | bind (rows : List Row)                                -- `DataFrame(rows=…, schema=schema)`
  | read (i : Nat)                                        -- `frames[i].column_names` (also: description, display)
  | append (i : Nat) (k : Kind) (r : Record) (z : Bool)
  deriving Repr

/-- `frames[i].column_names` through the one-entry cache. -/
def readNames (st : BSt) (i : Nat) : List String × Option (Nat × List String) :=
  match st.memo with
  | some (j, ns) => if j = i then (ns, st.memo) else (names st.cols, some (i, names st.cols))
  | none => (names st.cols, some (i, names st.cols))

def isRejected : AppendResult → Bool
  | .rejected _ => true
  | _ => false

def stepB (cfg : LCfg) (st : BSt) : BOp → BSt
  | .edit op => { st with cols := mutate st.cols op }
  | .bind rows => { st with frames := st.frames ++ [⟨classFields cfg st.cols, rows⟩] }
  | .read i => { st with memo := (readNames st i).2 }
  | .append i k r z => match st.frames[i]? with
    | none => st
    | some f =>
      let res := appendL cfg st.cols (readNames st i).1 f.fields f.rows k r z
      { st with frames := st.frames.set i ⟨res.2.1, res.1⟩,
                memo := if cfg.relayout = .memoised && !isRejected res.2.2 then (readNames st i).2 else st.memo }

def runB (cfg : LCfg) (st : BSt) : List BOp → BSt
  | [] => st
  | op :: ops => runB cfg (stepB cfg st op) ops

def resultsB (cfg : LCfg) (st : BSt) : List BOp → List AppendResult
  | [] => []
  | .append i k r z :: ops =>
    (match st.frames[i]? with
      | none => AppendResult.malformed
      | some f => (appendL cfg st.cols (readNames st i).1 f.fields f.rows k r z).2.2)
      :: resultsB cfg (stepB cfg st (.append i k r z)) ops
  | op :: ops => resultsB cfg (stepB cfg st op) ops

def BSt.regs (st : BSt) : List (List Row) := st.frames.map (·.rows)

/-! ## the statement: frames are registers; a record is judged and laid out by the columns as they are when it is appended -/

def stepBR (p : List Column × List (List Row)) : BOp → List Column × List (List Row)
  | .edit op => (mutate p.1 op, p.2)
  | .bind rows => (p.1, p.2 ++ [rows])
  | .read _ => p
  | .append i k r z => match p.2[i]? with
    | none => p
    | some rows => (p.1, p.2.set i (appendK p.1 rows k r z).1)

def runBR (p : List Column × List (List Row)) : List BOp → List Column × List (List Row)
  | [] => p
  | op :: ops => runBR (stepBR p op) ops

/-- **When the layout follows the schema** (decidable on the generated facts): the fields are compared with the names as
they are now, before the row is built; a class made for a schema has one field per column; and it reads records by key. -/
def LCfg.sound (cfg : LCfg) : Bool :=
  (cfg.relayout == .current) && cfg.beforeBuild && (cfg.fieldsFrom == .columns || cfg.iter == .each) && (cfg.new == .rowNew)

/-! ## the record-size limit -/

/-- Can the row be sized?  `packable`: every value is one the serialiser packs (integers within 64 bits, …);
`packed`: the length of the packed record.  The guard and the constant are the source's. -/
def sizableBy (packable : Bool) (packed : Nat) : Bool :=
  packable && !Gen.Layout.sizeRefused (packed : Int)

/-- The limit the library states: "Record length cannot exceed 16Mb". -/
def statedLimit : Nat := 16 * 1024 * 1024

end Layout
