import OrsoVerif.Model.IsoPrim
/-!
# C08 — the language of texts `parse_iso` reads (specification side of `C08.text_grammar`)

An explicit, inductively defined description — no reference to the parser or to anything generated:
which lengths, which characters at which offsets, which columns are read as numbers by `int()`, which
ranges (month, day of the month incl. leap years, hour, minute, second) — and the value.
-/
namespace Iso

/-- The column `f` is read by Python's `int()` as the natural number `n` (so ` 7`, `+7`, `07`, `1_2`
are read as well as plain digits; `-1` is not a natural number). -/
def Reads (f : List Char) (n : Nat) : Prop := pyInt f = .ok (n : Int)

/-- The separator test of the time layouts: `T` or space at offset 10, or `:` at offset 13. -/
def sepOk (v : List Char) : Prop := v[10]? = some 'T' ∨ v[10]? = some ' ' ∨ v[13]? = some ':'

instance (v : List Char) : Decidable (sepOk v) := by unfold sepOk; infer_instance

/-- `YYYY-MM-DD…`: dashes at offsets 4 and 7, the three date columns read as the year, month and day
of a valid date-time (years 1..9999, month 1..12, day within the month, leap years by the Gregorian
rule; hour ≤ 23, minute ≤ 59, second ≤ 59) in whole seconds. -/
structure DateCols (v : List Char) (dt : DateTime) : Prop where
  dash4 : v[4]? = some '-'
  dash7 : v[7]? = some '-'
  year : Reads (slice v (0, 4)) dt.year
  month : Reads (slice v (5, 7)) dt.month
  day : Reads (slice v (8, 10)) dt.day
  valid : validDateTime dt = true
  whole : dt.micro = 0

/-- The three layouts, on what is left of the text after the `Z` strip and the `+` split. -/
inductive Layout (v : List Char) (dt : DateTime) : Prop
  /-- `YYYY-MM-DD`: exactly 10 characters; midnight. -/
  | date : v.length = 10 → DateCols v dt → dt.hour = 0 → dt.minute = 0 → dt.second = 0 → Layout v dt
  /-- `YYYY-MM-DD?HH?MM`: exactly 16 characters, columns 11-13 and 14-16 are hour and minute. -/
  | minute : v.length = 16 → DateCols v dt → sepOk v → Reads (slice v (11, 13)) dt.hour →
      Reads (slice v (14, 16)) dt.minute → dt.second = 0 → Layout v dt
  /-- `YYYY-MM-DD?HH?MM:SS…`: at least 19 characters, `:` at offset 16, columns 17-19 are the second;
  whatever follows (a fraction, a `-HH:MM` offset, anything) is not looked at. -/
  | second : 19 ≤ v.length → DateCols v dt → sepOk v → v[16]? = some ':' → Reads (slice v (11, 13)) dt.hour →
      Reads (slice v (14, 16)) dt.minute → Reads (slice v (17, 19)) dt.second → Layout v dt

/-- What is left of a text after one trailing `Z` is dropped and everything from the first `+` on is
cut; when there is a `+`, 10..28 characters must be left. -/
inductive Trimmed (s : List Char) : List Char → Prop
  | whole : (zStrip s).contains '+' = false → Trimmed s (zStrip s)
  | beforePlus : (zStrip s).contains '+' = true → 10 ≤ ((zStrip s).takeWhile (· != '+')).length →
      ((zStrip s).takeWhile (· != '+')).length ≤ 28 → Trimmed s ((zStrip s).takeWhile (· != '+'))

/-- **The texts `parse_iso` reads, and the value of each.** -/
inductive IsoText (s : List Char) (dt : DateTime) : Prop
  /-- all ASCII digits (at most 4300): the Unix second count of a valid date-time of years 1..9999 -/
  | epoch : isDigitStr s = true → s.length ≤ maxStrDigits → validDateTime dt = true → dt.micro = 0 →
      toEpoch dt = (Nat.ofDigitChars 10 s 0 : Nat) → IsoText s dt
  /-- 10..33 characters, not all digits, one of the three layouts after trimming -/
  | shaped (v : List Char) : isDigitStr s = false → 10 ≤ s.length → s.length ≤ 33 → Trimmed s v → Layout v dt →
      IsoText s dt

end Iso
