import OrsoVerif.Generated.Profile
/-!
# C15 — column profiles (`orso/profiler/profiler.py`)

A column is a `List (Option α)`; `none` is a null.  The model follows the per-type profilers
(`profiler.py:323-418` on the repaired tree) and the helpers `find_mfvs`, `get_kvm_hashes`,
`get_ordered_and_transitions` (`profiler.py:57-117`), `ColumnProfile.estimate_cardinality`
(`:139-152`) and the count / missing / minimum / maximum part of `ColumnProfile.__add__`
(`:169-190`).

What enters as a parameter (never inspected by the model):

* the order of the element type (`le`, `lt` : Python's `<=`/`<` on floats, text, epoch seconds);
* `key : α → Int`, the integer a value is reported as (truncation toward zero for numbers
  `int(numpy.min(..))`, the identity on epoch seconds, `string_to_int64` for text);
* the hash function `h : α → Nat` of the k-minimum-values sketch (`xxh32(str(v).encode())`);
* `numpy.histogram` (not modelled at all; only the mass of its result is checked, by the oracle).

The sizes (`KVM_SIZE`, `MOST_FREQUENT_VALUE_SIZE`, batch size) come from `Gen.Profile`, regenerated
from the source on every run.
-/
namespace Profile

variable {α : Type}

/-! ## count, missing, extremes -/

/-- The non-null values in column order (`[c for c in column_data if c is not None]`). -/
def present (xs : List (Option α)) : List α := xs.filterMap id

/-- `min(...)`: keep the current candidate unless the next value is strictly smaller. -/
def minBy (le : α → α → Bool) : List α → Option α
  | [] => none
  | x :: xs => some (xs.foldl (fun m y => if le m y then m else y) x)

/-- `max(...)`: keep the current candidate unless the next value is strictly larger. -/
def maxBy (le : α → α → Bool) : List α → Option α
  | [] => none
  | x :: xs => some (xs.foldl (fun m y => if le y m then m else y) x)

/-- The four fields the additivity clause talks about. -/
structure Core where
  count : Nat
  missing : Nat
  minimum : Option Int
  maximum : Option Int
  deriving DecidableEq, Repr

/-- `count = len(column_data)`; `missing = count - len(non-null)`; extremes of the non-null values,
reported through `key`; `None` when every value is null (`if len(column_data) > 0`). -/
def core (le : α → α → Bool) (key : α → Int) (xs : List (Option α)) : Core :=
  { count := xs.length
    missing := xs.length - (present xs).length
    minimum := (minBy le (present xs)).map key
    maximum := (maxBy le (present xs)).map key }

/-- Profilers that report no extremes (BOOLEAN, ARRAY/STRUCT, untyped). -/
def coreCounts (xs : List (Option α)) : Core :=
  { count := xs.length, missing := xs.length - (present xs).length, minimum := none, maximum := none }

/-- `min([INFINITY if a is None else a, INFINITY if b is None else b])`, `INFINITY → None`. -/
def optMin : Option Int → Option Int → Option Int
  | none, b => b
  | some a, none => some a
  | some a, some b => some (if a ≤ b then a else b)

def optMax : Option Int → Option Int → Option Int
  | none, b => b
  | some a, none => some a
  | some a, some b => some (if a ≤ b then b else a)

/-- `ColumnProfile.__add__`, the fields of the additivity clause (`profiler.py:171-190`). -/
def addCore (a b : Core) : Core :=
  { count := a.count + b.count
    missing := a.missing + b.missing
    minimum := optMin a.minimum b.minimum
    maximum := optMax a.maximum b.maximum }

/-- `DataFrame.to_batches(n)`: consecutive slices of `n` rows (`dataframe.py:333-334`); the fuel is
the number of rows, which bounds the number of batches. -/
def chunksAux {β : Type} (n : Nat) : Nat → List β → List (List β)
  | 0, _ => []
  | fuel + 1, xs => if n = 0 ∨ xs = [] then [] else xs.take n :: chunksAux n fuel (xs.drop n)

def chunks {β : Type} (n : Nat) (xs : List β) : List (List β) := chunksAux n xs.length xs

/-- `from_dataframe`: profile every batch, add the profiles left to right (`profiler.py:289-306`).
An empty frame has no batches and the column gets no profile (`none`). -/
def batched (prof : List (Option α) → Core) (n : Nat) (xs : List (Option α)) : Option Core :=
  match chunks n xs with
  | [] => none
  | b :: bs => some (bs.foldl (fun acc c => addCore acc (prof c)) (prof b))

/-! ## most frequent values (`find_mfvs` = `Counter(data).most_common(top_n)`) -/

section mfv
variable [DecidableEq α]

/-- The distinct values in order of first occurrence (the key order of `Counter(data)`). -/
def distinct : List α → List α
  | [] => []
  | x :: xs => x :: (distinct xs).filter (fun y => y ≠ x)

/-- `Counter(data).items()`: every distinct value with its number of occurrences. -/
def tally (vs : List α) : List (α × Nat) := (distinct vs).map (fun v => (v, vs.count v))

/-- Insert in front of the first entry whose count is not larger (stable for the entry inserted). -/
def insDesc (p : α × Nat) : List (α × Nat) → List (α × Nat)
  | [] => [p]
  | q :: qs => if q.2 ≤ p.2 then p :: q :: qs else q :: insDesc p qs

/-- Stable sort by count, descending (`sorted(items, key=count, reverse=True)`: ties keep
first-insertion order, which is what `most_common` documents). -/
def sortDesc : List (α × Nat) → List (α × Nat)
  | [] => []
  | p :: ps => insDesc p (sortDesc ps)

/-- `Counter(data).most_common(n)`. -/
def mfv (n : Nat) (vs : List α) : List (α × Nat) := (sortDesc (tally vs)).take n

/-! ## k-minimum-values sketch (`get_kvm_hashes`) -/

def insAsc (x : Nat) : List Nat → List Nat
  | [] => [x]
  | y :: ys => if x ≤ y then x :: y :: ys else y :: insAsc x ys

def sortAsc (l : List Nat) : List Nat := l.foldr insAsc []

/-- The loop over `data[size:]`: the heap (kept here as an ascending list) holds the `size` smallest
hashes seen; a hash strictly below the largest replaces it (`heappushpop`). -/
def kmvLoop : List Nat → List Nat → List Nat
  | heap, [] => heap
  | heap, hv :: rest =>
    match heap.getLast? with
    | some m => if hv < m then kmvLoop (insAsc hv heap.dropLast) rest else kmvLoop heap rest
    | none => kmvLoop heap rest

/-- `get_kvm_hashes(data, size)`: `data = list(set(data))`, heap of the first `size` hashes, loop over
the rest, `sorted`.  Two distinct values with the same hash both stay in the heap. -/
def kmv (h : α → Nat) (size : Nat) (vs : List α) : List Nat :=
  kmvLoop (sortAsc (((distinct vs).take size).map h)) (((distinct vs).drop size).map h)

end mfv

/-- `ColumnProfile.estimate_cardinality` (`profiler.py:139-152`); `none` is the `ZeroDivisionError`
of a k-th hash of 0.  `int((K-1) / (kth / 2**32))` is the floor of the exact quotient. -/
def estimateCardinality (size : Nat) (hs : List Nat) : Option Nat :=
  if hs.isEmpty then some 0
  else if hs.length < size then some hs.length
  else match hs.getLast? with
    | some 0 => none
    | some kth => some ((size - 1) * 2 ^ 32 / kth)
    | none => some 0

/-! ## order and transitions (`get_ordered_and_transitions`) -/

/-- The update of `ordered` on a transition (`profiler.py:111-114`). -/
def otStep (lt : α → α → Bool) (o : Option Int) (v last : α) : Option Int :=
  match o with
  | none => some (if lt v last then -1 else 1)
  | some c => if (lt last v && c == -1) || (lt v last && c == 1) then some 0 else some c

/-- The loop of `get_ordered_and_transitions` (`profiler.py:108-115`). -/
def otLoop [DecidableEq α] (lt : α → α → Bool) : Option Int → Nat → α → List α → Option Int × Nat
  | o, t, _, [] => (o, t)
  | o, t, last, v :: vs =>
    if v ≠ last then otLoop lt (otStep lt o v last) (t + 1) v vs
    else otLoop lt o t v vs

/-- `get_ordered_and_transitions(data)`; `none` is the `IndexError` of `data[0]` on empty data
(the profilers only call it on non-empty data). -/
def orderAndTransitions [DecidableEq α] (lt : α → α → Bool) : List α → Option (Option Int × Nat)
  | [] => none
  | x :: xs => some (otLoop lt none 0 x xs)

/-! ## the per-type profilers -/

structure Prof (α : Type) where
  core : Core
  mfv : List (α × Nat)
  kmv : List Nat
  order : Option Int
  transitions : Nat

/-- Parameters of a typed column. -/
structure Ops (α : Type) where
  le : α → α → Bool
  lt : α → α → Bool
  key : α → Int
  hash : α → Nat

/-- `NumericProfiler` (`profiler.py:347-376`). -/
def profileNumeric [DecidableEq α] (p : Ops α) (xs : List (Option α)) : Prof α :=
  let vs := present xs
  match orderAndTransitions p.lt vs with
  | none => { core := core p.le p.key xs, mfv := [], kmv := [], order := none, transitions := 0 }
  | some (o, t) =>
    { core := core p.le p.key xs
      mfv := mfv Gen.Profile.mfvSize vs
      kmv := kmv p.hash Gen.Profile.kvmSize vs
      order := o
      transitions := t }

/-- `DateProfiler` (`profiler.py:397-418`): the numeric profile of the epoch seconds, without the
order and transition indicators (they are not copied). -/
def profileTemporal [DecidableEq α] (p : Ops α) (xs : List (Option α)) : Prof α :=
  { profileNumeric p xs with order := none, transitions := 0 }

/-- `VarcharProfiler` (`profiler.py:379-394`): the sketch sees whole values, everything else the
first `SIXTY_FOUR_BYTES` characters (`cut`). -/
def profileText [DecidableEq α] (p : Ops α) (cut : α → α) (xs : List (Option α)) : Prof α :=
  let vs := present xs
  let ws := vs.map cut
  match orderAndTransitions p.lt ws with
  | none => { core := coreCounts xs, mfv := [], kmv := [], order := none, transitions := 0 }
  | some (o, t) =>
    { core := core p.le p.key (xs.map (Option.map cut))
      mfv := mfv Gen.Profile.mfvSize ws
      kmv := kmv p.hash Gen.Profile.kvmSize vs
      order := o
      transitions := t }

/-- `BooleanProfiler` (`profiler.py:335-344`): the two truth values with their counts, in the fixed
order True, False, whenever some value is not null. -/
def profileBoolean (xs : List (Option Bool)) : Prof Bool :=
  let vs := present xs
  { core := coreCounts xs
    mfv := if vs.isEmpty then [] else [(true, vs.count true), (false, vs.count false)]
    kmv := [], order := none, transitions := 0 }

/-- `ListStructProfiler`, `DefaultProfiler` (`profiler.py:323-332`): count and missing only. -/
def profileCounts (xs : List (Option α)) : Prof α :=
  { core := coreCounts xs, mfv := [], kmv := [], order := none, transitions := 0 }

/-! ## concrete parameters used by the driver -/

/-- Python's `<=` / `<` on numbers (exact rationals; floats without NaN), on epoch seconds, on text
(code-point lexicographic = UTF-8 byte lexicographic). -/
def ratLe (a b : Rat) : Bool := decide (a ≤ b)
def ratLt (a b : Rat) : Bool := decide (a < b)
def intLe (a b : Int) : Bool := decide (a ≤ b)
def intLt (a b : Int) : Bool := decide (a < b)
def strLe (a b : String) : Bool := decide (a ≤ b)
def strLt (a b : String) : Bool := decide (a < b)

/-- `int(x)` of a number: truncation toward zero. -/
def truncRat (q : Rat) : Int := Int.tdiv q.num q.den

/-- `col[:SIXTY_FOUR_BYTES]` (characters). -/
def cutText (s : String) : String := String.ofList (s.toList.take Gen.Profile.textPrefix)

/-- `string_to_int64` as repaired: the first `SIXTY_FOUR_BITS` UTF-8 bytes, NUL padded on the right,
big endian, clipped at `MAX_INT64`. -/
def stringToInt64 (s : String) : Int :=
  let bs := (s.toUTF8.toList.take Gen.Profile.keyBytes).map UInt8.toNat
  let padded := bs ++ List.replicate (Gen.Profile.keyBytes - bs.length) 0
  let n := padded.foldl (fun acc b => acc * 256 + b) 0
  Int.ofNat (if n ≤ Gen.Profile.maxInt64 then n else Gen.Profile.maxInt64)

end Profile
