import OrsoVerif.Generated.Profile
import OrsoVerif.Generated.ProfileExpr
import OrsoVerif.Generated.ProfileTime
/-!
# C15 — column profiles (`orso/profiler/profiler.py`)

A column is a `List (Option α)`; `none` is a null.  The model follows the per-type profilers
(`profiler.py:323-418` on the repaired tree) and the helpers `find_mfvs`, `get_kvm_hashes`,
`get_ordered_and_transitions` (`profiler.py:57-117`), `ColumnProfile.estimate_cardinality`
(`:139-152`) and the count / missing / minimum / maximum part of `ColumnProfile.__add__`
(`:169-190`).

What enters as a parameter (never inspected by the model):

* the order of the element type (`le`, `lt` : Python's `<=`/`<` on floats, text, epoch seconds);
* `key : α → Int`, the integer a value is reported as (truncation toward zero for numbers
  `int(numpy.min(..))`, the identity on epoch seconds, `string_to_int64` for text);
* the hash function `h : α → Nat` of the k-minimum-values sketch (`xxh32(str(v).encode())`);
* `numpy.histogram` (not modelled at all; only the mass of its result is checked, by the oracle).

The sizes (`KVM_SIZE`, `MOST_FREQUENT_VALUE_SIZE`, batch size) come from `Gen.Profile`; the expressions
the property depends on come from `Gen.ProfileExpr` (translated from the AST on every run by
`harness/extractors/c15_expr.py`): the guard and formula of `estimate_cardinality`, the comparisons and
the `ordered` update of `get_ordered_and_transitions`, `count +=` / `missing +=` / the extreme
combinations of `__add__`, the clamp and byte window of `string_to_int64`, the order of hashing and
cutting in `VarcharProfiler`, the source of the reported extremes.  Only the control-flow skeleton
(loops, matches on `None`) is written by hand.
-/
namespace Profile

variable {α : Type}

/-! ## count, missing, extremes -/

/-- The non-null values in column order (`[c for c in column_data if c is not None]`). -/
def present (xs : List (Option α)) : List α := xs.filterMap id

/-- `min(...)`: keep the current candidate unless the next value is strictly smaller. -/
def minBy (le : α → α → Bool) : List α → Option α
  | [] => none
  | x :: xs => some (xs.foldl (fun m y => if le m y then m else y) x)

/-- `max(...)`: keep the current candidate unless the next value is strictly larger. -/
def maxBy (le : α → α → Bool) : List α → Option α
  | [] => none
  | x :: xs => some (xs.foldl (fun m y => if le y m then m else y) x)

/-- The four fields the additivity clause talks about. -/
structure Core where
  count : Nat
  missing : Nat
  minimum : Option Int
  maximum : Option Int
  deriving DecidableEq, Repr

/-- The value a profiler reduces the non-null data to, by the *generated* source of the extreme. -/
def pickExtreme (src : Source) (le : α → α → Bool) (vs : List α) : Option α :=
  match src with
  | .reduceMin => minBy le vs
  | .reduceMax => maxBy le vs
  | .unknown => none

/-- `count = len(column_data)`; `missing = count - len(non-null)`; extremes of the non-null values taken
from the given sources and reported through `key`; `None` when every value is null. -/
def coreFrom (srcMin srcMax : Source) (le : α → α → Bool) (key : α → Int) (xs : List (Option α)) : Core :=
  { count := xs.length
    missing := xs.length - (present xs).length
    minimum := (pickExtreme srcMin le (present xs)).map key
    maximum := (pickExtreme srcMax le (present xs)).map key }

/-- The specification the profilers are measured against: minimum from the minimum, maximum from the
maximum. -/
def core (le : α → α → Bool) (key : α → Int) (xs : List (Option α)) : Core :=
  coreFrom .reduceMin .reduceMax le key xs

/-- Profilers that report no extremes (BOOLEAN, ARRAY/STRUCT, untyped). -/
def coreCounts (xs : List (Option α)) : Core :=
  { count := xs.length, missing := xs.length - (present xs).length, minimum := none, maximum := none }

/-- `new_profile.minimum = min([...])` followed by `if new_profile.minimum == INFINITY: ... = None`,
both from the generated expressions (`profiler.py` `__add__`). -/
def optMin (a b : Option Int) : Option Int :=
  let m := Gen.ProfileExpr.addMinimum a b
  if Gen.ProfileExpr.addMinimumAbsent m then none else m.toOption

def optMax (a b : Option Int) : Option Int :=
  let m := Gen.ProfileExpr.addMaximum a b
  if Gen.ProfileExpr.addMaximumAbsent m then none else m.toOption

/-- `ColumnProfile.__add__`, the fields of the additivity clause: `new_profile` starts as a copy of
`self` (`a`), then the generated updates are applied with `profile` = `b` — all four, one after the
other, which is what the generated `addUpdatesStraightLine` says of the source. -/
def addCore (a b : Core) : Core :=
  if Gen.ProfileExpr.addUpdatesStraightLine then
    { count := Gen.ProfileExpr.addCount a.count b.count
      missing := Gen.ProfileExpr.addMissing a.missing b.missing
      minimum := optMin a.minimum b.minimum
      maximum := optMax a.maximum b.maximum }
  else
    -- some update can be skipped (an early `return`): the skeleton no longer describes the code and
    -- claims nothing — the copy of `self` is returned, and `add_expressions` stops checking
    a

/-- `DataFrame.to_batches(n)`: consecutive slices of `n` rows (`dataframe.py:333-334`); the fuel is
the number of rows, which bounds the number of batches. -/
def chunksAux {β : Type} (n : Nat) : Nat → List β → List (List β)
  | 0, _ => []
  | fuel + 1, xs => if n = 0 ∨ xs = [] then [] else xs.take n :: chunksAux n fuel (xs.drop n)

def chunks {β : Type} (n : Nat) (xs : List β) : List (List β) := chunksAux n xs.length xs

/-- `range(start, stop, step)` for a positive step (fuel: `stop - start` iterations suffice). -/
def pyRangeAux (stop step : Nat) : Nat → Nat → List Nat
  | 0, _ => []
  | fuel + 1, i => if i < stop ∧ step ≠ 0 then i :: pyRangeAux stop step fuel (i + step) else []

def pyRange (start stop step : Nat) : List Nat := pyRangeAux stop step (stop - start) start

/-- `rows[lo:hi]` for `0 ≤ lo`, `0 ≤ hi`. -/
def pySlice {β : Type} (lo hi : Nat) (xs : List β) : List β := (xs.drop lo).take (hi - lo)

/-- `DataFrame.to_batches(batch_size)` (`dataframe.py:323-335`) from the generated range and slice
arithmetic: `for i in range(0, self.rowcount, batch_size): yield rows[i : i + batch_size]`. -/
def toBatches {β : Type} (b : Nat) (xs : List β) : List (List β) :=
  (pyRange Gen.ProfileExpr.batchRangeStart (Gen.ProfileExpr.batchRangeStop xs.length) (Gen.ProfileExpr.batchRangeStep b)).map
    (fun i => pySlice (Gen.ProfileExpr.batchSliceLo i b) (Gen.ProfileExpr.batchSliceHi i b) xs)

/-- `from_dataframe`: profile every batch of `to_batches`, add the profiles left to right
(`profiler.py:300-317`).  An empty frame has no batches and the column gets no profile (`none`). -/
def batched (prof : List (Option α) → Core) (n : Nat) (xs : List (Option α)) : Option Core :=
  match toBatches n xs with
  | [] => none
  | b :: bs => some (bs.foldl (fun acc c => addCore acc (prof c)) (prof b))

/-! ## the histogram comprehension and the entry point -/

/-- `[(left_edge, count) for count, left_edge in zip(hist_counts, bin_edges[:-1]) if count > 0]`
(`profiler.py`, `NumericProfiler`): `numpy.histogram` itself is a parameter (its counts and edges are the
arguments), the slice of the edges, the filter and the kept component are generated.  When the kept pair does
not carry the count (`histKeepsCount = false`) the model claims no mass (0). -/
def histogramOf {β : Type} (counts : List Nat) (edges : List β) : List (β × Nat) :=
  let es := (edges.drop Gen.ProfileExpr.histEdgesFrom).take
    (edges.length - Gen.ProfileExpr.histEdgesFrom - Gen.ProfileExpr.histEdgesDropRight)
  ((counts.zip es).filter (fun p => decide (Gen.ProfileExpr.histKeep p.1))).map
    (fun p => (p.2, if Gen.ProfileExpr.histKeepsCount then p.1 else 0))

/-- The sum of the listed counts (what the property's histogram clause talks about). -/
def histMass {β : Type} (h : List (β × Nat)) : Nat := (h.map Prod.snd).sum

/-- The states one frame object goes through: its rows, then its rows after each `append` chunk. -/
def frameStates {β : Type} (rows : List β) : List (List β) → List (List β)
  | [] => [rows]
  | chunk :: more => rows :: frameStates (rows ++ chunk) more

/-- What successive reads of `DataFrame.profile` on ONE frame object return, a read after every chunk of
appended rows: the profile of the rows held at that moment when the property recomputes
(`profileEntryRecomputes`); otherwise a remembered first result. -/
def profileReads {β γ : Type} (prof : List β → γ) (rows : List β) (appends : List (List β)) : List γ :=
  if Gen.ProfileExpr.profileEntryRecomputes then (frameStates rows appends).map prof
  else (frameStates rows appends).map (fun _ => prof rows)

/-! ## most frequent values (`find_mfvs` = `Counter(data).most_common(top_n)`) -/

section mfv
variable [DecidableEq α]

/-- The distinct values in order of first occurrence (the key order of `Counter(data)`). -/
def distinct : List α → List α
  | [] => []
  | x :: xs => x :: (distinct xs).filter (fun y => y ≠ x)

/-- `Counter(data).items()`: every distinct value with its number of occurrences. -/
def tally (vs : List α) : List (α × Nat) := (distinct vs).map (fun v => (v, vs.count v))

/-- Insert in front of the first entry whose count is not larger (stable for the entry inserted). -/
def insDesc (p : α × Nat) : List (α × Nat) → List (α × Nat)
  | [] => [p]
  | q :: qs => if q.2 ≤ p.2 then p :: q :: qs else q :: insDesc p qs

/-- Stable sort by count, descending (`sorted(items, key=count, reverse=True)`: ties keep
first-insertion order, which is what `most_common` documents). -/
def sortDesc : List (α × Nat) → List (α × Nat)
  | [] => []
  | p :: ps => insDesc p (sortDesc ps)

/-- `Counter(data).most_common(n)`. -/
def mfv (n : Nat) (vs : List α) : List (α × Nat) := (sortDesc (tally vs)).take (Gen.ProfileExpr.mfvTakeCount n)

/-! ## k-minimum-values sketch (`get_kvm_hashes`) -/

def insAsc (x : Nat) : List Nat → List Nat
  | [] => [x]
  | y :: ys => if x ≤ y then x :: y :: ys else y :: insAsc x ys

def sortAsc (l : List Nat) : List Nat := l.foldr insAsc []

/-- The loop over `data[size:]`: the heap (kept here as an ascending list) holds the `size` smallest
hashes seen; a hash strictly below the largest replaces it (`heappushpop`). -/
def kmvLoop : List Nat → List Nat → List Nat
  | heap, [] => heap
  | heap, hv :: rest =>
    match heap.getLast? with
    | some m => if hv < m then kmvLoop (insAsc hv heap.dropLast) rest else kmvLoop heap rest
    | none => kmvLoop heap rest

/-- The same loop over an arbitrary replacement test (`if hash_value < -min_hashes[0]` in the source). -/
def kmvLoopG (replace : Nat → Nat → Bool) : List Nat → List Nat → List Nat
  | heap, [] => heap
  | heap, hv :: rest =>
    match heap.getLast? with
    | some m => if replace hv m then kmvLoopG replace (insAsc hv heap.dropLast) rest else kmvLoopG replace heap rest
    | none => kmvLoopG replace heap rest

/-- The specification shape of `get_kvm_hashes(data, size)`: `data = list(set(data))`, heap of the first
`size` hashes, loop over the rest with `<`, `sorted`.  Two distinct values with the same hash both stay in
the heap. -/
def kmvSpec (h : α → Nat) (size : Nat) (vs : List α) : List Nat :=
  kmvLoop (sortAsc (((distinct vs).take size).map h)) (((distinct vs).drop size).map h)

/-- A sketch that removes duplicate *hashes* (`heapq.nsmallest(size, {hash(v) for v in set(data)})`): NOT what
the source does; the model follows the source into this shape when the extractor finds it, and
`C15.hash_set_sketch_undercounts` shows it breaks exactness for colliding values. -/
def kmvByHashes (h : α → Nat) (size : Nat) (vs : List α) : List Nat :=
  (sortAsc (distinct ((distinct vs).map h))).take size

/-- The heap shape of `get_kvm_hashes` over its parts: the replacement test, how many de-duplicated values
seed the heap (`data[:init]`), where the loop starts (`data[start:]`). -/
def kmvG (replace : Nat → Nat → Bool) (init start : Nat) (h : α → Nat) (vs : List α) : List Nat :=
  kmvLoopG replace (sortAsc (((distinct vs).take init).map h)) (((distinct vs).drop start).map h)

/-- `get_kvm_hashes(data, size)` assembled from the generated parts: what is de-duplicated, how many values
seed the heap (`data[:size]`), where the loop starts (`data[size:]`), the replacement test. -/
def kmv (h : α → Nat) (size : Nat) (vs : List α) : List Nat :=
  match Gen.ProfileExpr.sketchDedup with
  | .values =>
    kmvG (fun hv top => decide (Gen.ProfileExpr.sketchReplaceTest hv top))
      (Gen.ProfileExpr.sketchInitCount size) (Gen.ProfileExpr.sketchLoopFrom size) h vs
  | .hashes => kmvByHashes h size vs

end mfv

/-- `int(x)` of a number: truncation toward zero. -/
def truncRat (q : Rat) : Int := Int.tdiv q.num q.den

/-- `ColumnProfile.estimate_cardinality` (`profiler.py:139-152`): skeleton by hand (`if not
self.kmv_hashes`, `kth_min_value = self.kmv_hashes[-1]`, `int(...)`), guard and formula generated.
`none` is the `ZeroDivisionError` of a k-th hash of 0.  The formula is evaluated exactly; the float
result has the same integer part (the quotient is never within 2⁻³⁷ of an integer from below). -/
def estimateCardinality (size : Nat) (hs : List Nat) : Option Nat :=
  if hs.isEmpty then some 0
  else if Gen.ProfileExpr.estimateExactGuard hs.length size then some hs.length
  else match hs.getLast? with
    | some 0 => none
    | some kth => some (truncRat (Gen.ProfileExpr.estimateFormula (size : Rat) (kth : Rat))).toNat
    | none => some 0

/-! ## order and transitions (`get_ordered_and_transitions`) -/

/-- The update of `ordered` on a transition (`profiler.py:111-114`): `if ordered is None` by hand, the
first value, the flip test and the flip value generated. -/
def otStep (lt : α → α → Bool) (o : Option Int) (v last : α) : Option Int :=
  match o with
  | none => some (Gen.ProfileExpr.orderFirst lt v last)
  | some c => if Gen.ProfileExpr.orderFlip lt v last c then some Gen.ProfileExpr.orderFlipValue else some c

/-- The loop of `get_ordered_and_transitions` (`profiler.py:108-115`) over an arbitrary transition test,
increment and update. -/
def otLoopG (ne : α → α → Bool) (inc : Nat → Nat) (step : Option Int → α → α → Option Int) :
    Option Int → Nat → α → List α → Option Int × Nat
  | o, t, _, [] => (o, t)
  | o, t, last, v :: vs =>
    if ne v last then otLoopG ne inc step (step o v last) (inc t) v vs
    else otLoopG ne inc step o t v vs

/-- …instantiated with the generated transition test and `transitions += 1`. -/
def otLoop [DecidableEq α] (lt : α → α → Bool) : Option Int → Nat → α → List α → Option Int × Nat :=
  otLoopG (fun v last => decide (Gen.ProfileExpr.orderNe lt v last)) Gen.ProfileExpr.transitionsNext (otStep lt)

/-- `get_ordered_and_transitions(data)`; `none` is the `IndexError` of `data[0]` on empty data
(the profilers only call it on non-empty data). -/
def orderAndTransitions [DecidableEq α] (lt : α → α → Bool) : List α → Option (Option Int × Nat)
  | [] => none
  | x :: xs => some (otLoop lt none 0 x xs)

/-! ## the per-type profilers -/

structure Prof (α : Type) where
  core : Core
  mfv : List (α × Nat)
  kmv : List Nat
  order : Option Int
  transitions : Nat

/-- Parameters of a typed column. -/
structure Ops (α : Type) where
  le : α → α → Bool
  lt : α → α → Bool
  key : α → Int
  hash : α → Nat

/-- `NumericProfiler` (`profiler.py:347-376`). -/
def profileNumeric [DecidableEq α] (p : Ops α) (xs : List (Option α)) : Prof α :=
  let vs := present xs
  match orderAndTransitions p.lt vs with
  | none =>
    { core := coreFrom Gen.ProfileExpr.numericMinimumSource Gen.ProfileExpr.numericMaximumSource p.le p.key xs
      mfv := [], kmv := [], order := none, transitions := 0 }
  | some (o, t) =>
    { core := coreFrom Gen.ProfileExpr.numericMinimumSource Gen.ProfileExpr.numericMaximumSource p.le p.key xs
      mfv := mfv Gen.Profile.mfvSize vs
      kmv := kmv p.hash Gen.Profile.kvmSize vs
      order := o
      transitions := t }

/-- The extreme `DateProfiler` reports in `field`: the field of the numeric profile that the generated table of
copies (`self.profile.F = numeric_profile.G`) names for it; nothing when the field is not copied. -/
def copiedExtreme (np : Core) (field : String) : Option Int :=
  match Gen.ProfileTime.dateCopied.lookup field with
  | some "minimum" => np.minimum
  | some "maximum" => np.maximum
  | _ => none

/-- `field` is copied from the field of the same name. -/
def copiesField (field : String) : Bool := Gen.ProfileTime.dateCopied.lookup field == some field

/-- `DateProfiler` (`profiler.py:420-452`): count and missing of its own, and the fields it copies from the
numeric profile of the epoch seconds (by the generated table: minimum, maximum, the most-frequent list, the
sketch; the order and transition indicators are not copied). -/
def profileTemporal [DecidableEq α] (p : Ops α) (xs : List (Option α)) : Prof α :=
  let np := profileNumeric p xs
  { core :=
      { count := xs.length
        missing := xs.length - (present xs).length
        minimum := copiedExtreme np.core "minimum"
        maximum := copiedExtreme np.core "maximum" }
    mfv := if copiesField "most_frequent_values" && copiesField "most_frequent_counts" then np.mfv else []
    kmv := if copiesField "kmv_hashes" then np.kmv else []
    order := if copiesField "order" then np.order else none
    transitions := if copiesField "transitions" then np.transitions else 0 }

/-- `VarcharProfiler` (`profiler.py:379-394`): everything but the sketch sees the first
`SIXTY_FOUR_BYTES` characters (`cut`); whether the sketch sees whole values is the generated statement
order (`textHashBeforeCut`). -/
def profileText [DecidableEq α] (p : Ops α) (cut : α → α) (xs : List (Option α)) : Prof α :=
  let vs := present xs
  let ws := vs.map cut
  match orderAndTransitions p.lt ws with
  | none => { core := coreCounts xs, mfv := [], kmv := [], order := none, transitions := 0 }
  | some (o, t) =>
    { core := coreFrom Gen.ProfileExpr.textMinimumSource Gen.ProfileExpr.textMaximumSource p.le p.key
        (xs.map (Option.map cut))
      mfv := mfv Gen.Profile.mfvSize ws
      kmv := kmv p.hash Gen.Profile.kvmSize (if Gen.ProfileExpr.textHashBeforeCut then vs else ws)
      order := o
      transitions := t }

/-- `BooleanProfiler` (`profiler.py:335-344`): the two truth values with their counts, in the fixed
order True, False, whenever some value is not null. -/
def profileBoolean (xs : List (Option Bool)) : Prof Bool :=
  let vs := present xs
  { core := coreCounts xs
    mfv := if vs.isEmpty then [] else [(true, vs.count true), (false, vs.count false)]
    kmv := [], order := none, transitions := 0 }

/-- `ListStructProfiler`, `DefaultProfiler` (`profiler.py:323-332`): count and missing only. -/
def profileCounts (xs : List (Option α)) : Prof α :=
  { core := coreCounts xs, mfv := [], kmv := [], order := none, transitions := 0 }

/-! ## the whole of `ColumnProfile.__add__` (histogram merge aside) -/

/-- The most-frequent lists of a sum (`profiler.py`, `__add__`): when both sides list something, the values
listed on BOTH sides, in the left side's order, with the two counts added; when one side holds no values at all
(an all-null batch) the other side's list; otherwise nothing. -/
def addMfvWith [DecidableEq α] (oneSided : Bool → Bool → Bool → Bool → MfvPick) (a b : Prof α) : List (α × Nat) :=
  if !a.mfv.isEmpty && !b.mfv.isEmpty then
    a.mfv.filterMap (fun vc => (b.mfv.find? (fun q => q.1 = vc.1)).map (fun q => (vc.1, vc.2 + q.2)))
  else
    -- the `elif` chain of the source: ours / the other side's / no list
    match oneSided (decide (a.core.count = a.core.missing)) (decide (b.core.count = b.core.missing))
        (!a.mfv.isEmpty) (!b.mfv.isEmpty) with
    | .mine => a.mfv
    | .theirs => b.mfv
    | .nothing => []

/-- …with the `elif` chain as it stands in the source (generated). -/
def addMfv [DecidableEq α] (a b : Prof α) : List (α × Nat) := addMfvWith Gen.ProfileExpr.addMfvOneSided a b

/-- The sketch of a sum: `sorted(set(self.kmv_hashes + profile.kmv_hashes))[:KVM_SIZE]` when both sides have
one — a *set* of hashes: equal hashes of different values count once; otherwise the only sketch there is.
`o` is the order of the two steps (de-duplicate, cut): the model follows the source into the other order too. -/
def addKmvWith (o : SumSketchOrder) (size : Nat) (a b : List Nat) : List Nat :=
  if !a.isEmpty && !b.isEmpty then
    match o with
    | .dedupThenCut => (sortAsc (distinct (a ++ b))).take size
    | .cutThenDedup => sortAsc (distinct ((sortAsc (a ++ b)).take size))
  else if !b.isEmpty then b else a

/-- …with the two steps in the order they have in the source (generated: `Gen.ProfileExpr.sumSketchOrder`). -/
def addKmv (size : Nat) (a b : List Nat) : List Nat := addKmvWith Gen.ProfileExpr.sumSketchOrder size a b

/-- `ColumnProfile.__add__` on everything but the histogram; transitions and order by the generated updates. -/
def addProf [DecidableEq α] (a b : Prof α) : Prof α :=
  { core := addCore a.core b.core
    mfv := addMfv a b
    kmv := addKmv Gen.Profile.kvmSize a.kmv b.kmv
    order := Gen.ProfileExpr.addOrder a.order b.order
    transitions := Gen.ProfileExpr.addTransitions a.transitions b.transitions }

/-- `from_dataframe` on whole profiles: the profiles of the batches of `to_batches`, added left to right. -/
def batchedProf [DecidableEq α] (prof : List (Option α) → Prof α) (n : Nat) (xs : List (Option α)) : Option (Prof α) :=
  match toBatches n xs with
  | [] => none
  | b :: bs => some (bs.foldl (fun acc c => addProf acc (prof c)) (prof b))

/-! ## concrete parameters used by the driver -/

/-- Python's `<=` / `<` on numbers (exact rationals; floats without NaN) and on epoch seconds. -/
def ratLe (a b : Rat) : Bool := decide (a ≤ b)
def ratLt (a b : Rat) : Bool := decide (a < b)
def intLe (a b : Int) : Bool := decide (a ≤ b)
def intLt (a b : Int) : Bool := decide (a < b)

/-- The UTF-8 bytes of a text value. -/
def utf8Bytes (s : String) : List Nat := s.toUTF8.data.toList.map UInt8.toNat

/-- Lexicographic `<=` / `<` on byte strings. -/
def bytesLe : List Nat → List Nat → Bool
  | [], _ => true
  | _ :: _, [] => false
  | x :: xs, y :: ys => if x < y then true else if y < x then false else bytesLe xs ys

def bytesLt : List Nat → List Nat → Bool
  | _, [] => false
  | [], _ :: _ => true
  | x :: xs, y :: ys => if x < y then true else if y < x then false else bytesLt xs ys

/-- Python's `<=` / `<` on text: code-point lexicographic, which is the byte-lexicographic order of the
UTF-8 encodings (the defining property of UTF-8; assumed, exercised by correspondence on non-ASCII and
astral characters). -/
def strLe (a b : String) : Bool := bytesLe (utf8Bytes a) (utf8Bytes b)
def strLt (a b : String) : Bool := bytesLt (utf8Bytes a) (utf8Bytes b)

/-- `s.encode()[:w].decode(errors="ignore")` on the characters: the longest run of whole characters from the start
whose UTF-8 encoding fits `w` bytes (a character cut in half is dropped, and so is everything after it). -/
def takeBytes : Nat → List Char → List Char
  | _, [] => []
  | w, c :: cs => if c.utf8Size ≤ w then c :: takeBytes (w - c.utf8Size) cs else []

/-- The profiled window of a text value, by unit: the first `w` characters, or the whole characters that fit `w` bytes. -/
def cutTextWith (onBytes : Bool) (w : Nat) (s : String) : String :=
  String.ofList (if onBytes then takeBytes w s.toList else s.toList.take w)

/-- `col[:SIXTY_FOUR_BYTES]` as it stands in `VarcharProfiler` (generated unit and width; characters on the tree the
theorems are about). -/
def cutText (s : String) : String :=
  cutTextWith Gen.ProfileExpr.textCutOnBytes Gen.ProfileExpr.textCutWidth s

/-- `int.from_bytes(b, "big")`. -/
def beVal : List Nat → Nat
  | [] => 0
  | x :: xs => x * 256 ^ xs.length + beVal xs

/-- The bytes `string_to_int64` converts, by the generated shape: repaired — the first `keySliceWidth`
UTF-8 bytes, `ljust` to `keyPadWidth` with `keyPadByte`; pinned — `keyPadWidth` NULs appended, the first
`keySliceWidth` *characters* encoded. -/
def keyWindow (s : String) : List Nat :=
  if Gen.ProfileExpr.keySliceOnBytes then
    let bs := (utf8Bytes s).take Gen.ProfileExpr.keySliceWidth
    bs ++ List.replicate (Gen.ProfileExpr.keyPadWidth - bs.length) Gen.ProfileExpr.keyPadByte
  else
    utf8Bytes (String.ofList
      ((s.toList ++ List.replicate Gen.ProfileExpr.keyPadWidth (Char.ofNat 0)).take Gen.ProfileExpr.keySliceWidth))

/-- `string_to_int64`: the window as an integer in the generated byte order, through the generated clamp. -/
def stringToInt64 (s : String) : Int :=
  let w := keyWindow s
  Gen.ProfileExpr.keyClamp (Int.ofNat (if Gen.ProfileExpr.keyBigEndian then beVal w else beVal w.reverse))
    (Int.ofNat Gen.Profile.maxInt64)

end Profile
