import OrsoVerif.Model.DictRowCode
/-!
# C02 — the views of a row as OBJECTS (what a caller is handed, and what it can do to it)

`Model/DictRow.lean` gives each view as a function of the row.  In the code a view is a method of an
object: `as_map` is a `@cached_property` (orso/row.py:106-114: evaluated once, the tuple is stored in the
instance `__dict__` and the same object is handed out from then on), `as_dict`, `values`, `as_json` are
`@property` (evaluated on every read: a new object each time), `keys()` returns the class's own `_fields`
tuple.  A caller can change, in place, any object it was handed that is of a changeable kind (a `dict`, a
`list`); when that object is also the one the row keeps, every later read — of that view and of every view
computed from it — sees the change.  This file models exactly that: a row object with its cache slots, reads
that evaluate the view expressions of `Generated/DictCode.lean` (with the *objects* of the views they read),
and caller actions.  `Props/C02.lean` proves that, for the configuration lifted from the source, every read
in every sequence of reads and caller changes returns the view of the row (`views_rebuilt`).
-/
namespace DictViews
open DictRow Gen.DictCode

/-- what a view object holds -/
inductive Content (α : Type) where
  | pairs (l : List (String × α))
  | vals (l : List α)
  | names (l : List String)
  deriving Repr, DecidableEq

/-- what the views read so far returned (to the expression being evaluated) -/
structure Env (α : Type) where
  mapV : List (String × α) := []
  dictV : List (String × α) := []
  valsV : List α := []
  keysV : List String := []

variable {α : Type}

def Env.set (e : Env α) : View → Content α → Env α
  | .asMap, .pairs l => { e with mapV := l }
  | .asDict, .pairs l => { e with dictV := l }
  | .values, .vals l => { e with valsV := l }
  | .keys, .names l => { e with keysV := l }
  | _, _ => e

/-- How the source defines the views (one record, so the theorems can be stated for every configuration
and then applied to the one lifted from the working tree). -/
structure Cfg (α : Type) where
  /-- `@cached_property` -/
  cached : View → Bool
  /-- the object returned can be changed in place by whoever holds it -/
  mutable : View → Bool
  /-- the object returned is the class's `_fields` -/
  aliasesFields : View → Bool
  fieldsMutable : Bool
  /-- the views the expression reads, in evaluation order -/
  deps : View → List View
  rank : View → Nat
  /-- the return expression, given the class's fields, the tuple, and what the views it reads returned -/
  body : List String → List α → Env α → View → Content α

/-- the configuration lifted from orso/row.py on this run -/
def codeCfg : Cfg α where
  cached := viewCached
  mutable := viewMutable
  aliasesFields := viewAliasesFields
  fieldsMutable := Gen.DictCode.fieldsMutable
  deps := viewDeps
  rank := viewRank
  body := fun fields row e v =>
    match v with
    | .asMap => .pairs (asMapFrom fields row e.mapV e.dictV e.valsV e.keysV)
    | .asDict => .pairs (asDictFrom fields row e.mapV e.dictV e.valsV e.keysV)
    | .values => .vals (valuesFrom fields row e.mapV e.dictV e.valsV e.keysV)
    | .keys => .names (keysFrom fields row e.mapV e.dictV e.valsV e.keysV)
    | .asJson => .pairs (asJsonFrom fields row e.mapV e.dictV e.valsV e.keysV)

/-- A row object: the class's field tuple, the tuple itself, and the instance `__dict__` entries that
`cached_property` made (newest first). -/
structure Obj (α : Type) where
  fields : List String
  row : List α
  slots : List (View × Content α)

def slotOf (v : View) : List (View × Content α) → Option (Content α)
  | [] => none
  | (w, c) :: rest => if w = v then some c else slotOf v rest

/-- reading the views an expression mentions, left to right, each through `rd` -/
def readDeps (rd : View → Obj α → Option (Obj α × Content α)) :
    List View → Obj α × Env α → Option (Obj α × Env α)
  | [], st => some st
  | w :: ws, st =>
    match rd w st.1 with
    | none => none
    | some r => readDeps rd ws (r.1, st.2.set w r.2)

/-- `row.<view>`: a cached view that has been computed hands out the stored object; otherwise the views the
expression mentions are read, the expression is evaluated, and a cached view stores the result.  The fuel
bounds the nesting of views (`none` = views defined in terms of each other). -/
def readView (cfg : Cfg α) : Nat → View → Obj α → Option (Obj α × Content α)
  | 0, _, _ => none
  | n + 1, v, o =>
    match (if cfg.cached v then slotOf v o.slots else none) with
    | some c => some (o, c)
    | none =>
      match readDeps (readView cfg n) (cfg.deps v) (o, {}) with
      | none => none
      | some (o', e) =>
        let c := cfg.body o'.fields o'.row e v
        some (if cfg.cached v then { o' with slots := (v, c) :: o'.slots } else o', c)

/-- The caller changes, in place, the object the view handed out (`f` is what it does to the content).  The
row is affected only when that object is the one the row keeps: the stored object of a cached view of a
changeable kind, or the class's field list when the view returns that and it is of a changeable kind. -/
def change (cfg : Cfg α) (o : Obj α) (v : View) (f : Content α → Content α) : Obj α :=
  let o1 : Obj α :=
    if cfg.cached v && cfg.mutable v then
      { o with slots := o.slots.map fun p => if p.1 = v then (p.1, f p.2) else p }
    else o
  if cfg.aliasesFields v && cfg.fieldsMutable then
    { o1 with fields := match f (.names o1.fields) with | .names l => l | _ => o1.fields }
  else o1

/-- what a caller does with a row -/
inductive Act (α : Type) where
  | read (v : View)
  | change (v : View) (f : Content α → Content α)

/-- number of views: enough fuel for any acyclic definition order -/
def fuel : Nat := 5

/-- A sequence of caller actions on one row object: what every read returned, in order. -/
def runActs (cfg : Cfg α) : Obj α → List (Act α) → List (View × Option (Content α))
  | _, [] => []
  | o, .read v :: rest =>
    match readView cfg fuel v o with
    | none => (v, none) :: runActs cfg o rest
    | some (o', c) => (v, some c) :: runActs cfg o' rest
  | o, .change v f :: rest => runActs cfg (change cfg o v f) rest

/-- what each view must be: the association of the row -/
def spec (fields : List String) (row : List α) : View → Content α
  | .asMap => .pairs (asMap fields row)
  | .asDict => .pairs (asDict fields row)
  | .values => .vals row
  | .keys => .names fields
  | .asJson => .pairs (asDict fields row)

/-! ### Specification-side vocabulary (used by the theorems of Props/C02.lean) -/

/-- the environment after the views `ws` each returned the view of the row -/
def envOf (fields : List String) (row : List α) : List View → Env α → Env α
  | [], e => e
  | w :: ws, e => envOf fields row ws (e.set w (spec fields row w))

/-- A row object in order: the class's fields and the tuple are what the row was made with, and every
object the row keeps for a cached view holds that view of the row. -/
def Good (fields : List String) (row : List α) (o : Obj α) : Prop :=
  o.fields = fields ∧ o.row = row ∧ ∀ p ∈ o.slots, p.2 = spec fields row p.1

/-- What a definition of the views must satisfy for the caller to be unable to disturb them:
no view both keeps its object on the row and hands out an object that can be changed; the class's field
tuple, when handed out, cannot be changed; the views are not defined in terms of each other; and every
return expression, evaluated on the views it reads, is the view of the row. -/
structure Safe (cfg : Cfg α) (fields : List String) (row : List α) : Prop where
  noAlias : ∀ v, cfg.cached v = true → cfg.mutable v = false
  fieldsFixed : ∀ v, cfg.aliasesFields v = true → cfg.fieldsMutable = false
  acyclic : ∀ v w, w ∈ cfg.deps v → cfg.rank w < cfg.rank v
  bounded : ∀ v, cfg.rank v < fuel
  bodySpec : ∀ v, cfg.body fields row (envOf fields row (cfg.deps v) {}) v = spec fields row v

end DictViews
