import OrsoVerif.Generated.Validate
/-!
# C05 — record validation and atomic append

`orso/schema.py` `RelationSchema.validate` (lines 656–704) and `DataFrame.append`
(`orso/dataframe.py`).  A value is abstracted to `none` (Python `None`) or `some cls`, the name of
its class; "is an instance of the column type's class" is decided by the two generated tables
(`ORSO_TO_PYTHON_MAP` from the source, `issubclass` measured on the interpreter).
-/
namespace Validate

structure Column where
  name : String
  type : Option String   -- `none` = untyped (`_MISSING_TYPE`)
  nullable : Bool
  deriving Repr, DecidableEq

abbrev Value := Option String          -- none = null, some cls = a value of class `cls`
abbrev Record := List (String × Value) -- key-unique, insertion order

inductive Outcome where
  | ok
  | excess (keys : List String)
  | invalid (missing nulls wrongType : List String)
  deriving Repr, DecidableEq

def lookup (k : String) : Record → Option Value
  | [] => none
  | (k', v) :: rest => if k' = k then some v else lookup k rest

def assoc (k : String) : List (String × String) → Option String
  | [] => none
  | (k', v) :: rest => if k' = k then some v else assoc k rest

/-- `isinstance(value, ORSO_TO_PYTHON_MAP[type])` for a value of class `cls`. -/
def isInstance (cls ty : String) : Bool :=
  match assoc ty Gen.Validate.pythonClass with
  | some c => decide ((cls, c) ∈ Gen.Validate.subclass)
  | none => false

def names (s : List Column) : List String := s.map (·.name)

/-- Keys of the record that are not schema columns (schema.py:675). -/
def excessKeys (s : List Column) (r : Record) : List String :=
  (r.map (·.1)).filter fun k => !decide (k ∈ names s)

def isMissing (r : Record) (c : Column) : Bool := (lookup c.name r).isNone

def isNullViolation (r : Record) (c : Column) : Bool :=
  match lookup c.name r with
  | some none => !c.nullable
  | _ => false

def isWrongType (r : Record) (c : Column) : Bool :=
  match lookup c.name r, c.type with
  | some (some cls), some ty => !isInstance cls ty
  | _, _ => false

/-- schema.py:656-704. The excess-key check comes first; the other three rules are collected. -/
def validate (s : List Column) (r : Record) : Outcome :=
  if excessKeys s r ≠ [] then .excess (excessKeys s r)
  else
    let missing := (s.filter (isMissing r)).map (·.name)
    let nulls := (s.filter (isNullViolation r)).map (·.name)
    let wrong := (s.filter (isWrongType r)).map (·.name)
    if missing = [] ∧ nulls = [] ∧ wrong = [] then .ok else .invalid missing nulls wrong

/-- The row stored for an accepted record: values in column order. -/
def rowOf (s : List Column) (r : Record) : List Value := s.map fun c => (lookup c.name r).getD none

/-- `DataFrame.append` on a schema-bound frame: validate, then store; a rejected record leaves the rows alone. -/
def append (s : List Column) (rows : List (List Value)) (r : Record) : List (List Value) × Outcome :=
  match validate s r with
  | .ok => (rows ++ [rowOf s r], .ok)
  | e => (rows, e)

def appends (s : List Column) (rows : List (List Value)) : List Record → List (List Value)
  | [] => rows
  | r :: rs => appends s (append s rows r).1 rs

/-- A stored row conforms: as wide as the schema, nulls only where allowed, classes right. -/
def rowConforms (s : List Column) (row : List Value) : Bool :=
  row.length = s.length ∧
  (s.zip row).all fun (c, v) =>
    match v, c.type with
    | none, _ => c.nullable
    | some cls, some ty => isInstance cls ty
    | some _, none => true

end Validate
