import OrsoVerif.Generated.Validate
import OrsoVerif.Generated.ValidateFlow
import OrsoVerif.Generated.AppendFlow
/-!
# C05 — record validation, atomic append, and one schema object used many times

`orso/schema.py` `RelationSchema.validate` and `DataFrame.append` (`orso/dataframe.py`).

A value is abstracted to `none` (Python `None`) or `some cls`, the name of its class; "is an instance
of the column type's class" is decided by the two generated tables (`ORSO_TO_PYTHON_MAP` from the
source, `issubclass` measured on the interpreter).

The *control flow* is not written here: `validate` runs `Gen.ValidateFlow.top` (the order of the checks
and how the function exits) around `Gen.ValidateFlow.columnRule` (the body of the per-column loop), and
`append` interprets `Gen.ValidateFlow.appendSteps` (the statements of `DataFrame.append` in source
order).  All three are regenerated from the working tree on every run.  `validateSpec` is the
statement of the property; `Props/C05.lean` proves that the generated flow refines it.
-/
namespace Validate
open Gen.ValidateFlow (Exit Step)

structure Column where
  name : String
  type : Option String   -- `none` = untyped (`_MISSING_TYPE`)
  nullable : Bool
  aliases : List String := []
  deriving Repr, DecidableEq

abbrev Value := Option String          -- none = null, some cls = a value of class `cls`
abbrev Record := List (String × Value) -- key-unique, insertion order

inductive Outcome where
  | ok
  | excess (keys : List String)
  | invalid (missing nulls wrongType : List String)
  | other                                -- TypeError / anything the statement does not speak about
  deriving Repr, DecidableEq

def lookup (k : String) : Record → Option Value
  | [] => none
  | (k', v) :: rest => if k' = k then some v else lookup k rest

def assoc (k : String) : List (String × String) → Option String
  | [] => none
  | (k', v) :: rest => if k' = k then some v else assoc k rest

/-- `isinstance(value, ORSO_TO_PYTHON_MAP[type])` for a value of class `cls`. -/
def isInstance (cls ty : String) : Bool :=
  match assoc ty Gen.Validate.pythonClass with
  | some c => decide ((cls, c) ∈ Gen.Validate.subclass)
  | none => false

def names (s : List Column) : List String := s.map (·.name)

/-- `FlatColumn.all_names` -/
def allNames (c : Column) : List String := c.aliases ++ [c.name]

/-- What the record's keys are compared with (schema.py, the right operand of the set difference). -/
def knownKeys (s : List Column) : List String :=
  if Gen.ValidateFlow.excessAgainst = "all_names" then s.flatMap allNames else names s

/-- Keys of the record that are not known (schema.py `extra_fields`). -/
def excessKeys (s : List Column) (r : Record) : List String :=
  (r.map (·.1)).filter fun k => !decide (k ∈ knownKeys s)

/-! ## the statement's three per-column rules -/

def isMissing (r : Record) (c : Column) : Bool := (lookup c.name r).isNone

def isNullViolation (r : Record) (c : Column) : Bool :=
  match lookup c.name r with
  | some none => !c.nullable
  | _ => false

def isWrongType (r : Record) (c : Column) : Bool :=
  match lookup c.name r, c.type with
  | some (some cls), some ty => !isInstance cls ty
  | _, _ => false

/-- Keys of the record that are not column *names*. -/
def excessNames (s : List Column) (r : Record) : List String :=
  (r.map (·.1)).filter fun k => !decide (k ∈ names s)

/-- **The statement**: excess keys (against the column *names*) are reported first and alone; otherwise
the three rules are collected over the columns in order. -/
def validateSpec (s : List Column) (r : Record) : Outcome :=
  if excessNames s r ≠ [] then .excess (excessNames s r)
  else
    let missing := (s.filter (isMissing r)).map (·.name)
    let nulls := (s.filter (isNullViolation r)).map (·.name)
    let wrong := (s.filter (isWrongType r)).map (·.name)
    if missing = [] ∧ nulls = [] ∧ wrong = [] then .ok else .invalid missing nulls wrong

def keys (r : Record) : List String := r.map (·.1)

/-- The four clauses of the statement. -/
def Conforms (s : List Column) (r : Record) : Prop :=
  (∀ k ∈ keys r, k ∈ names s)
  ∧ (∀ c ∈ s, lookup c.name r ≠ none)
  ∧ (∀ c ∈ s, lookup c.name r = some none → c.nullable = true)
  ∧ (∀ c ∈ s, ∀ cls ty, lookup c.name r = some (some cls) → c.type = some ty → isInstance cls ty = true)

/-! ## the code: generated flow around the atoms -/

def kMissing : String := "Column in Schema Not Found in Record"
def kNull : String := "Column not Nullable"
def kWrong : String := "Incorrect Type"

def atomPresent (r : Record) (c : Column) : Bool := (lookup c.name r).isSome
def atomIsNone (r : Record) (c : Column) : Bool := lookup c.name r == some none
def atomTyped (c : Column) : Bool := c.type.isSome
def atomInst (r : Record) (c : Column) : Bool :=
  match lookup c.name r, c.type with
  | some (some cls), some ty => isInstance cls ty
  | _, _ => false

/-- The error-dict keys column `c` is appended to: the generated loop body on the five atoms. -/
def ruleOf (r : Record) (c : Column) : List String :=
  Gen.ValidateFlow.columnRule (atomPresent r c) (atomIsNone r c) c.nullable (atomTyped c) (atomInst r c)

/-- `errors[key]` after the loop. -/
def collect (key : String) (s : List Column) (r : Record) : List String :=
  (s.filter fun c => decide (key ∈ ruleOf r c)).map (·.name)

/-- `RelationSchema.validate`, as the working tree has it. -/
def validate (s : List Column) (r : Record) : Outcome :=
  match Gen.ValidateFlow.top false (decide (excessKeys s r ≠ [])) (s.any fun c => decide (ruleOf r c ≠ [])) with
  | .excess => .excess (excessKeys s r)
  | .invalid => .invalid (collect kMissing s r) (collect kNull s r) (collect kWrong s r)
  | .ok => .ok
  | _ => .other

/-! ## append -/

/-- The row stored for an accepted record: values in column order. -/
def rowOf (s : List Column) (r : Record) : List Value := s.map fun c => (lookup c.name r).getD none

inductive AppendResult where
  | ok
  | rejected (o : Outcome)   -- validation raised
  | unsizable                -- `Row.nbytes` raised (integer beyond 64 bits, record over 16 MiB)
  | malformed                -- a row used before it was built
  deriving Repr, DecidableEq

/-- Interpreter for the statements of `DataFrame.append`: `validate` and `size` can raise, which ends the
call with the rows as they are at that moment. -/
def runSteps (s : List Column) (r : Record) (sizable : Bool) :
    List Step → List (List Value) → Option (List Value) → List (List Value) × AppendResult
  | [], rows, _ => (rows, .ok)
  | .validate :: rest, rows, row =>
    if validate s r = .ok then runSteps s r sizable rest rows row else (rows, .rejected (validate s r))
  | .build :: rest, rows, _ => runSteps s r sizable rest rows (some (rowOf s r))
  | .size :: rest, rows, some row => if sizable then runSteps s r sizable rest rows (some row) else (rows, .unsizable)
  | .size :: _, rows, none => (rows, .malformed)
  | .store :: rest, rows, some row => runSteps s r sizable rest (rows ++ [row]) (some row)
  | .store :: _, rows, none => (rows, .malformed)
  | .coerce :: rest, rows, row => runSteps s r sizable rest rows row
  | .materialize :: rest, rows, row => runSteps s r sizable rest rows row
  | .count :: rest, rows, row => runSteps s r sizable rest rows row
  | .cursor :: rest, rows, row => runSteps s r sizable rest rows row

/-- `DataFrame.append` on a schema-bound frame. `sizable` = the row can be serialised. -/
def append (s : List Column) (rows : List (List Value)) (r : Record) (sizable : Bool) :
    List (List Value) × AppendResult :=
  runSteps s r sizable Gen.ValidateFlow.appendSteps rows none

def appends (s : List Column) (rows : List (List Value)) : List (Record × Bool) → List (List Value)
  | [] => rows
  | (r, z) :: rs => appends s (append s rows r z).1 rs

/-- A stored row conforms: as wide as the schema, nulls only where allowed, classes right. -/
def rowConforms (s : List Column) (row : List Value) : Bool :=
  row.length = s.length ∧
  (s.zip row).all fun (c, v) =>
    match v, c.type with
    | none, _ => c.nullable
    | some cls, some ty => isInstance cls ty
    | some _, none => true

/-! ## the record *object*: which objects validate lets in, which ones append copies, which ones the row factory reads -/

/-- Facts about a record object, measured on the interpreter with `isinstance` / `type(…) is dict`. -/
structure Kind where
  isDict : Bool            -- isinstance(obj, dict)
  exactDict : Bool         -- type(obj) is dict
  isMutableMapping : Bool  -- isinstance(obj, collections.abc.MutableMapping)
  isMapping : Bool         -- isinstance(obj, collections.abc.Mapping)
  deriving Repr, DecidableEq

/-- a plain `dict` -/
def Kind.dict : Kind := ⟨true, true, true, true⟩

/-- CPython's class hierarchy: exact dict ⊆ dict ⊆ MutableMapping ⊆ Mapping. -/
def Kind.wf (k : Kind) : Bool :=
  (!k.exactDict || k.isDict) && (!k.isDict || k.isMutableMapping) && (!k.isMutableMapping || k.isMapping)

/-- schema.py: the object passes the type test at the top of `validate` (generated). -/
def guardAccepts (k : Kind) : Bool :=
  Gen.AppendFlow.guardAccepts k.isDict k.exactDict k.isMutableMapping k.isMapping

/-- dataframe.py: `append` copies the object into a plain dict first (generated). -/
def coerces (k : Kind) : Bool :=
  Gen.AppendFlow.coerceGuard k.isDict k.exactDict k.isMutableMapping k.isMapping

/-- row.py: the row factory reads the object by key (generated); otherwise it iterates it. -/
def rowReads (k : Kind) : Bool :=
  Gen.AppendFlow.rowReadsMapping k.isDict k.exactDict k.isMutableMapping k.isMapping

/-- What the record object is after the `coerce` statement of `append`. -/
def afterCoerce (k : Kind) : Kind := if coerces k then Kind.dict else k

/-- `RelationSchema.validate` on a record object of kind `k`. -/
def validateK (k : Kind) (s : List Column) (r : Record) : Outcome :=
  match Gen.ValidateFlow.top (!guardAccepts k) (decide (excessKeys s r ≠ [])) (s.any fun c => decide (ruleOf r c ≠ [])) with
  | .excess => .excess (excessKeys s r)
  | .invalid => .invalid (collect kMissing s r) (collect kNull s r) (collect kWrong s r)
  | .ok => .ok
  | _ => .other

/-- The loop body with Python's evaluation order (generated): `none` = a KeyError escapes the loop. -/
def ruleOfE (r : Record) (c : Column) : Option (List String) :=
  Gen.ValidateFlow.columnRuleE (atomPresent r c) (atomIsNone r c) c.nullable (atomTyped c) (atomInst r c)

/-- `validate` with evaluation errors: an exception raised while a column is examined escapes — after the type
test and the excess-key check, which come first. -/
def validateKE (k : Kind) (s : List Column) (r : Record) : Outcome :=
  if guardAccepts k && decide (excessKeys s r = []) && s.any (fun c => (ruleOfE r c).isNone) then .other
  else validateK k s r

/-- What `tuple(obj)` makes of a mapping that is *not* read by key: its keys. -/
def keysRow (r : Record) : List Value := r.map fun _ => some "<key>"

/-- The statements of `DataFrame.append` for a record object of kind `k`: `coerce` may turn the object into a
plain dict, `validate` applies its type test to what it is then, `build` reads it by key only if the row factory
recognises it. -/
def runStepsK (s : List Column) (r : Record) (sizable : Bool) :
    Kind → List Step → List (List Value) → Option (List Value) → List (List Value) × AppendResult
  | _, [], rows, _ => (rows, .ok)
  | k, .coerce :: rest, rows, row => runStepsK s r sizable (afterCoerce k) rest rows row
  | k, .validate :: rest, rows, row =>
    if validateK k s r = .ok then runStepsK s r sizable k rest rows row else (rows, .rejected (validateK k s r))
  | k, .build :: rest, rows, _ => runStepsK s r sizable k rest rows (some (if rowReads k then rowOf s r else keysRow r))
  | k, .size :: rest, rows, some row => if sizable then runStepsK s r sizable k rest rows (some row) else (rows, .unsizable)
  | _, .size :: _, rows, none => (rows, .malformed)
  | k, .store :: rest, rows, some row => runStepsK s r sizable k rest (rows ++ [row]) (some row)
  | _, .store :: _, rows, none => (rows, .malformed)
  | k, .materialize :: rest, rows, row => runStepsK s r sizable k rest rows row
  | k, .count :: rest, rows, row => runStepsK s r sizable k rest rows row
  | k, .cursor :: rest, rows, row => runStepsK s r sizable k rest rows row

/-- `DataFrame.append` of a record object of kind `k` on a schema-bound frame. -/
def appendK (s : List Column) (rows : List (List Value)) (k : Kind) (r : Record) (sizable : Bool) :
    List (List Value) × AppendResult :=
  runStepsK s r sizable k Gen.ValidateFlow.appendSteps rows none

def appendsK (s : List Column) (rows : List (List Value)) : List (Kind × Record × Bool) → List (List Value)
  | [] => rows
  | (k, r, z) :: rs => appendsK s (appendK s rows k r z).1 rs

def appendResultsK (s : List Column) (rows : List (List Value)) : List (Kind × Record × Bool) → List AppendResult
  | [] => []
  | (k, r, z) :: rs => (appendK s rows k r z).2 :: appendResultsK s (appendK s rows k r z).1 rs

/-! ## one schema object, used many times -/

/-- What a program can do with one `RelationSchema` object. -/
inductive Op where
  | validate (r : Record)
  | addCol (c : Column)                 -- `schema.columns.append(c)`
  | insertCol (i : Nat) (c : Column)    -- `schema.columns.insert(i, c)`
  | delCol (i : Nat)                    -- `del schema.columns[i]`
  | popCol (n : String)                 -- `schema.pop_column(n)`
  | replaceCols (cs : List Column)      -- `schema.columns = [...]`
  | setCol (i : Nat) (c : Column)       -- in-place change of a column's name / type / nullable / aliases
  | frame (init : List (List Value)) (rs : List (Record × Bool))   -- a frame bound to the schema as it is now
  deriving Repr

inductive Out where
  | outcome (o : Outcome)
  | frame (rows : List (List Value)) (results : List AppendResult)
  deriving Repr, DecidableEq

/-- The column list after an operation. -/
def mutate (s : List Column) : Op → List Column
  | .validate _ => s
  | .addCol c => s ++ [c]
  | .insertCol i c => s.insertIdx i c
  | .delCol i => s.eraseIdx i
  | .popCol n => s.eraseP (fun c => c.name == n)
  | .replaceCols cs => cs
  | .setCol i c => s.set i c
  | .frame _ _ => s

def appendResults (s : List Column) (rows : List (List Value)) : List (Record × Bool) → List AppendResult
  | [] => []
  | (r, z) :: rs => (append s rows r z).2 :: appendResults s (append s rows r z).1 rs

/-- What an operation lets the program observe, given the column list at that moment. -/
def observe (s : List Column) : Op → Option Out
  | .validate r => some (.outcome (validate s r))
  | .frame init rs => some (.frame (appends s init rs) (appendResults s init rs))
  | _ => none

def exec (s : List Column) : List Op → List Column
  | [] => s
  | op :: ops => exec (mutate s op) ops

def run (s : List Column) : List Op → List Out
  | [] => []
  | op :: ops => (observe s op).toList ++ run (mutate s op) ops

end Validate
