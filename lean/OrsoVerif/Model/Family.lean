import OrsoVerif.Model.Validate
/-!
# C05 — families of frames: who owns a frame's row list

`DataFrame.slice` / `head` / `tail` and the other methods that return a frame bound to the same schema
(`query`, `distinct`, `filter`, `take`, `to_batches`, `+`) make *derived* frames.  Every frame is a register of
its own append history; two frames must never be registers of the same list.

`Gen.AppendFlow.sliceTree` is the body of `DataFrame.slice` (regenerated from the working tree): the tests in
source order and, at every `return`, whether the new frame is built on the parent's own list (`Rows.shared`),
on a new empty list, or on a slice copy.  `evalTree` interprets it with Python's semantics (`None == 0` is
false, `None < 1` and `None + 1` raise).  `Gen.AppendFlow.derivedRows` says the same for the other methods.

Two machines run a program of appends and derivations:

* `stepH` — the heap machine: frames point at row lists; a derivation whose source says `shared` makes the
  new frame point at the parent's list, an append writes through the pointer;
* `stepR` — the register machine, which is the statement: every frame has its own rows.

`Props/C05.lean` proves that the heap machine refines the register machine exactly because no derivation in
the source shares (`frames_own_their_rows`, decided on the generated definitions).
-/
namespace Family
open Validate
open Gen.AppendFlow (IExpr BExpr Rows Tree Ownership)

abbrev Row := List Value
/-- an `int` or `None` -/
abbrev PyInt := Option Int

structure Env where
  n : Nat            -- len(self._rows)
  offset : PyInt
  length : PyInt
  size : PyInt       -- the argument of head / tail
  deriving Repr

/-- An integer expression; the outer `none` is a `TypeError` (arithmetic on `None`). -/
def evalI (env : Env) : IExpr → Option PyInt
  | .offset => some env.offset
  | .length => some env.length
  | .len => some (some (env.n : Int))
  | .size => some env.size
  | .lit i => some (some i)
  | .add a b => match evalI env a, evalI env b with
    | some (some x), some (some y) => some (some (x + y))
    | _, _ => none
  | .sub a b => match evalI env a, evalI env b with
    | some (some x), some (some y) => some (some (x - y))
    | _, _ => none
  | .max a b => match evalI env a, evalI env b with
    | some (some x), some (some y) => some (some (if x < y then y else x))
    | _, _ => none
  | .min a b => match evalI env a, evalI env b with
    | some (some x), some (some y) => some (some (if y < x then y else x))
    | _, _ => none

/-- A test; `none` is a `TypeError` (`None < 1`).  `==` / `!=` never raise: `None == 0` is false. -/
def evalB (env : Env) : BExpr → Option Bool
  | .lt a b => match evalI env a, evalI env b with
    | some (some x), some (some y) => some (decide (x < y))
    | _, _ => none
  | .le a b => match evalI env a, evalI env b with
    | some (some x), some (some y) => some (decide (x ≤ y))
    | _, _ => none
  | .eq a b => match evalI env a, evalI env b with
    | some x, some y => some (x == y)
    | _, _ => none
  | .ne a b => match evalI env a, evalI env b with
    | some x, some y => some (!(x == y))
    | _, _ => none
  | .isNone a => (evalI env a).map (·.isNone)
  | .not c => (evalB env c).map (!·)
  | .and a b => match evalB env a with
    | some true => evalB env b
    | other => other
  | .or a b => match evalB env a with
    | some false => evalB env b
    | other => other

/-- Python's `xs[lo:hi]` (no step): negative bounds count from the end, everything is clamped. -/
def pySlice {α : Type} (xs : List α) (lo hi : PyInt) : List α :=
  let n : Int := xs.length
  let norm (i : Int) : Int := if i < 0 then (if i + n < 0 then 0 else i + n) else (if n < i then n else i)
  let start := (lo.map norm).getD 0
  let stop := (hi.map norm).getD n
  (xs.drop start.toNat).take (stop - start).toNat

/-- What a derivation comes to. -/
inductive Sliced where
  | shared                       -- the new frame is built on the parent's own list
  | fresh (rows : List Row)      -- the new frame has a list of its own
  | raises                       -- TypeError
  | nothing                      -- the function returns None
  deriving Repr, DecidableEq

def evalBound (env : Env) : Option IExpr → Option PyInt
  | none => some none
  | some e => evalI env e

/-- `DataFrame.slice`, interpreted. -/
def evalTree (rows : List Row) : Env → Tree → Sliced
  | _, .ret .shared => .shared
  | _, .ret .empty => .fresh []
  | env, .ret (.cut lo hi) => match evalBound env lo, evalBound env hi with
    | some l, some h => .fresh (pySlice rows l h)
    | _, _ => .raises
  | env, .ite c t e => match evalB env c with
    | none => .raises
    | some true => evalTree rows env t
    | some false => evalTree rows env e
  | env, .setOffset v k => match evalI env v with
    | none => .raises
    | some x => evalTree rows { env with offset := x } k
  | env, .setLength v k => match evalI env v with
    | none => .raises
    | some x => evalTree rows { env with length := x } k
  | _, .fallsOff => .nothing

/-- Does some `return` of the tree hand out the parent's own list? -/
def sharesSomewhere : Tree → Bool
  | .ret .shared => true
  | .ret _ => false
  | .ite _ t e => sharesSomewhere t || sharesSomewhere e
  | .setOffset _ k => sharesSomewhere k
  | .setLength _ k => sharesSomewhere k
  | .fallsOff => false

/-- The ways of taking a frame from another one. -/
inductive Derivation where
  | slice (offset : Int) (length : PyInt)
  | head (size : Int)
  | tail (size : Int)
  | pick (method : String) (idxs : List Nat)   -- query / distinct / filter / take / to_batches: the rows at these positions
  | concat (j : Nat)                            -- `frame + frames[j]`
  deriving Repr

def ownership (m : String) : Ownership :=
  match Gen.AppendFlow.derivedRows.lookup m with
  | some o => o
  | none => .fresh

/-- `slice(offset, length)` on a frame holding `rows`. -/
def sliceOf (rows : List Row) (offset length : PyInt) : Sliced :=
  evalTree rows ⟨rows.length, offset, length, none⟩ Gen.AppendFlow.sliceTree

/-- `head(size)` / `tail(size)`: evaluate the arguments the source passes to `slice`, then slice. -/
def viaSlice (rows : List Row) (call : IExpr × Option IExpr) (size : Int) : Sliced :=
  let env : Env := ⟨rows.length, none, none, some size⟩
  match evalI env call.1, evalBound env call.2 with
  | some o, some l => sliceOf rows o l
  | _, _ => .raises

/-- What a derivation from a frame holding `rows` comes to (`other` = the rows of the second operand of `+`). -/
def derive (rows other : List Row) : Derivation → Sliced
  | .slice o l => sliceOf rows (some o) l
  | .head n => viaSlice rows Gen.AppendFlow.headCall n
  | .tail n => viaSlice rows Gen.AppendFlow.tailCall n
  | .pick m idxs => if ownership m = .shared then .shared else .fresh (idxs.filterMap fun i => rows[i]?)
  | .concat _ => if ownership "__add__" = .shared then .shared else .fresh (rows ++ other)

/-- A program on a family of frames. -/
inductive FOp where
  | append (i : Nat) (k : Kind) (r : Record) (z : Bool)
  | derive (i : Nat) (d : Derivation)
  deriving Repr

def otherIndex : Derivation → Option Nat
  | .concat j => some j
  | _ => none

/-! ## the heap machine -/

structure St where
  heap : List (List Row)    -- the row lists that exist
  frames : List Nat         -- frame number -> the list it is built on
  deriving Repr

def St.list (st : St) (id : Nat) : List Row := (st.heap[id]?).getD []

/-- The rows every frame shows. -/
def St.view (st : St) : List (List Row) := st.frames.map st.list

def alloc (st : St) (rows : List Row) : St := ⟨st.heap ++ [rows], st.frames ++ [st.heap.length]⟩
def aliasOf (st : St) (id : Nat) : St := ⟨st.heap, st.frames ++ [id]⟩

def stepH (s : List Column) (st : St) : FOp → St
  | .append i k r z => match st.frames[i]? with
    | none => st
    | some id => ⟨st.heap.set id (appendK s (st.list id) k r z).1, st.frames⟩
  | .derive i d => match st.frames[i]? with
    | none => st
    | some id =>
      let other := match otherIndex d with
        | some j => ((st.frames[j]?).map st.list).getD []
        | none => []
      match derive (st.list id) other d with
      | .shared => aliasOf st id
      | .fresh rows => alloc st rows
      | _ => st

def runH (s : List Column) (st : St) : List FOp → St
  | [] => st
  | op :: ops => runH s (stepH s st op) ops

/-! ## the register machine: every frame has its own rows (the statement) -/

def stepR (s : List Column) (regs : List (List Row)) : FOp → List (List Row)
  | .append i k r z => match regs[i]? with
    | none => regs
    | some rows => regs.set i (appendK s rows k r z).1
  | .derive i d => match regs[i]? with
    | none => regs
    | some rows =>
      let other := match otherIndex d with
        | some j => (regs[j]?).getD []
        | none => []
      match derive rows other d with
      | .shared => regs ++ [rows]
      | .fresh rows' => regs ++ [rows']
      | _ => regs

def runR (s : List Column) (regs : List (List Row)) : List FOp → List (List Row)
  | [] => regs
  | op :: ops => runR s (stepR s regs op) ops

/-- The appends of a program that go to frame `j`. -/
def appendsTo (j : Nat) : List FOp → List (Kind × Record × Bool)
  | [] => []
  | .append i k r z :: ops => if i = j then (k, r, z) :: appendsTo j ops else appendsTo j ops
  | .derive _ _ :: ops => appendsTo j ops

/-- What every append of a program reports. -/
def resultsH (s : List Column) (st : St) : List FOp → List AppendResult
  | [] => []
  | .append i k r z :: ops =>
    (match st.frames[i]? with
      | none => AppendResult.malformed
      | some id => (appendK s (st.list id) k r z).2) :: resultsH s (stepH s st (.append i k r z)) ops
  | op :: ops => resultsH s (stepH s st op) ops

end Family
