import OrsoVerif.Generated.IsoCast
/-!
# C08 — the DATE / TIME / TIMESTAMP casts as the source has them now

`Iso.castRun` *runs* the programs `Gen.IsoCast.parseDate / parseTime / parseTimestamp`, which are
translated statement by statement from `orso/types.py` on every run (`harness/pystmt_text.py`,
`CastProgram`).  `C08.cast_programs_refine_spec`: it equals the specification form `Iso.cast`.
-/
namespace Iso

/-- What the caller of a cast sees; `none` for a value of a kind no cast should return. -/
def castOut : Except Exc (Option Val) → Option CastOut
  | .error e => some (.raises e)
  | .ok (some (.date y m d)) => some (.date y m d)
  | .ok (some (.inp (.date y m d))) => some (.date y m d)
  | .ok (some (.time H M S us)) => some (.time H M S us)
  | .ok (some (.inp (.time H M S us))) => some (.time H M S us)
  | .ok (some (.dtv dt)) => some (.timestamp dt)
  | .ok (some (.inp (.datetime dt))) => some (.timestamp dt)
  | _ => none

def castRun (k : CastKind) (i : Input) : Option CastOut :=
  match k with
  | .date => castOut (Gen.IsoCast.parseDate (.inp i))
  | .time => castOut (Gen.IsoCast.parseTime (.inp i))
  | .timestamp => castOut (Gen.IsoCast.parseTimestamp (.inp i))

end Iso
