import OrsoVerif.Model.Display
import OrsoVerif.Generated.DisplayFmt
/-!
# C18 — the value universe of the statement against the `if` chain of `type_formatter`

Glue between `Model/PyKinds.lean` (value kinds, Python facts, guard language), the chain extracted
from the source (`Generated/DisplayFmt.lean`) and the hand model `Display.formatCell`: which branch of
`formatCell` a value kind is formatted by (`kindTag` — what `harness/props/c18.py: tag_cell` does) and
the colour token that branch writes first (`tagToken`).
-/
namespace DisplayFmt
open PyKinds Display

inductive CellTag where
  | null | bool | int | num | text | datetime | date | bytes | dict | interval | list | other
  deriving Repr, DecidableEq

/-- The constructor of `Display.Cell` a value kind is modelled by. -/
def kindTag : Kind → CellTag
  | .none | .floatNaN => .null
  | .boolV => .bool
  | .intV => .int
  | .floatV | .decV | .decNaN | .decSNaN => .num
  | .strV => .text
  | .datetimeV => .datetime
  | .dateV => .date
  | .bytesV | .bytearrayV => .bytes
  | .dictV => .dict
  | .timedeltaV | .mdnV | .nsV => .interval
  | .listV | .tupleV => .list
  | .timeV | .setV | .frozensetV | .complexV => .other

def cellTag : Cell → CellTag
  | .null => .null | .bool _ => .bool | .int _ => .int | .num _ _ => .num | .text _ => .text
  | .datetime _ _ _ => .datetime | .date _ _ => .date | .bytes _ _ => .bytes | .dict _ _ => .dict
  | .interval _ _ => .interval | .intervalInt _ _ _ _ => .interval | .list _ _ => .list | .other _ => .other

/-- The colour token `formatCell` writes first for each of its branches (`[]`: none). -/
def tagToken : CellTag → Str
  | .null => T_NULL | .bool => T_CONST | .int => T_INTEGER | .num => T_FLOAT | .text => T_VARCHAR
  | .datetime => T_DATE | .date => T_DATE | .bytes => T_BLOB | .dict => T_PUNC | .interval => T_INTERVAL
  | .list => T_PUNC | .other => []

/-- How each branch of `formatCell` pads and cuts (a restatement of its definition): numbers, booleans
and null are right-justified and sliced; text and bytes left-justified and cut by `trunc_printable`;
dates right-justified and cut by `trunc_printable`; maps, intervals and lists only cut (and padded) by
`trunc_printable`; anything else left-justified and sliced. -/
def modelLayout : CellTag → Pad × Cut
  | .null | .bool | .int | .num => (.rjust, .slice)
  | .text | .bytes => (.ljust, .trunc)
  | .datetime | .date => (.rjust, .trunc)
  | .dict | .interval | .list => (.nopad, .trunc)
  | .other => (.ljust, .slice)

/-- The kind of Python value `numpy_type_mapper` (as extracted) turns a numpy value into. -/
def npMapped (k : NpKind) : Option Kind :=
  match Gen.DisplayFmt.mapper.run k with
  | .ok r => resKind k r
  | .error _ => none

/-- What the statement expects of the mapping: arrays are lists (a 0-d integer array its element),
timedeltas intervals (NaT null), integers / floats / booleans their Python counterparts, NaN stays
NaN, everything else its `str()`. -/
def npIntended : NpKind → Kind
  | .ndarray => .listV | .ndarray0 => .intV
  | .td64 => .nsV | .td64NaT => .none | .td64Cal => .nsV
  | .dt64 => .strV
  | .npInt => .intV | .npFloat => .floatV | .npFloatNaN => .floatNaN | .npBool => .boolV
  | .npComplex => .strV | .npStr => .strV | .npBytes => .strV

end DisplayFmt
