/-!
# The numpy primitives the column encodings of `orso/schema.py` are written with

`Generated/Encodings.lean` is regenerated from the working tree on every run: the bodies of
`RLEColumn.__init__/materialize`, `SparseColumn.__init__/materialize`,
`DictionaryColumn.__init__/materialize`, `ConstantColumn.__init__/materialize` and
`FunctionColumn.materialize` are translated statement by statement (`harness/pystmt.py`) into
Lean definitions; plain Python (loops, `append`, `[v] * n`, `len`, indexing) is translated as it
stands, the numpy calls become the functions of this file.  Arrays are lists; `none` is an
exception numpy raises (`IndexError`, shape mismatch).
-/
namespace Enc

variable {α β : Type}

/-- `arr[i] = v` for each pair, one assignment at a time; `none` is numpy's `IndexError`. -/
def scatter : List α → List (Nat × α) → Option (List α)
  | acc, [] => some acc
  | acc, (i, v) :: ps => if i < acc.length then scatter (acc.set i v) ps else none

/-- Distinct elements (one occurrence of each, the last one). -/
def dedup [DecidableEq α] : List α → List α
  | [] => []
  | x :: xs => if x ∈ dedup xs then dedup xs else x :: dedup xs

namespace Np

/-- Positions of the `true` entries, counted from `k`. -/
def whereFrom : Nat → List Bool → List Nat
  | _, [] => []
  | k, b :: t => if b then k :: whereFrom (k + 1) t else whereFrom (k + 1) t

/-- `numpy.where(mask)[0]` for a one-dimensional Boolean mask. -/
def «where» (mask : List Bool) : List Nat := whereFrom 0 mask

/-- Fancy indexing `xs[idx]` (a gather); `none` is numpy's `IndexError`. -/
def take (xs : List α) (idx : List Nat) : Option (List α) := idx.mapM fun i => xs[i]?

/-- `numpy.full(n, vs)` for a one-dimensional `vs`: a one-element array is broadcast to the
length.  Any other shape is outside the model (`none`; numpy broadcasts only equal lengths). -/
def fullFrom (n : Nat) (vs : List α) : Option (List α) :=
  match vs with
  | [v] => some (List.replicate n v)
  | _ => none

/-- `numpy.full(n, v, dtype=t)`: the fill value is converted to the dtype (`cast`; `none` when
numpy refuses the conversion). -/
def fullCast {DT : Type} (cast : DT → α → Option α) (t : DT) (n : Nat) (v : α) : Option (List α) :=
  (cast t v).map (List.replicate n)

/-- `arr[idx] = vals` on an array of dtype `t`: the values are converted to the dtype, then
assigned position by position.  `none`: conversion refused, index out of range, or a value
array whose length differs from the index array's (numpy broadcasts or raises). -/
def putCast {DT : Type} (cast : DT → α → Option α) (t : DT) (arr : List α) (idx : List Nat)
    (vals : List α) : Option (List α) :=
  (vals.mapM (cast t)).bind fun vs =>
    if idx.length = vs.length then scatter arr (idx.zip vs) else none

/-- `numpy.unique(xs, return_inverse=True)[0]`: the distinct values in ascending order. -/
def uniqueValues [DecidableEq α] (le : α → α → Bool) (xs : List α) : List α :=
  (dedup xs).mergeSort le

/-- `numpy.unique(xs, return_inverse=True)[1]`: for each element the position of its entry. -/
def uniqueInverse [DecidableEq α] (le : α → α → Bool) (xs : List α) : List Nat :=
  xs.map fun x => (uniqueValues le xs).idxOf x

/-- What reading an element of a fixed-width text array (`<U`n) returns for the string that was stored:
numpy pads every element to the width with NUL characters and drops all trailing NULs when reading. -/
def textRead (cs : List Char) : List Char := (cs.reverse.dropWhile (· == '\x00')).reverse

/-- The merge step of `numpy.unique` (`numpy/lib/_arraysetops_impl.py`, `_unique1d`) on the sorted
array `aux`: `mask[:1] = True; mask[1:] = aux[1:] != aux[:-1]; aux[mask]` -- an element is kept exactly
when it differs from its immediate predecessor `prev`. -/
def keepFirstsFrom (ne : α → α → Bool) (prev : α) : List α → List α
  | [] => []
  | y :: t => if ne y prev then y :: keepFirstsFrom ne y t else keepFirstsFrom ne y t

/-- `aux[mask]`: the first element and every element that differs from its predecessor. -/
def keepFirsts (ne : α → α → Bool) : List α → List α
  | [] => []
  | x :: t => x :: keepFirstsFrom ne x t

/-- `numpy.unique` the way numpy computes it: sort, then drop what equals its predecessor.
(`uniqueValues` above is the specification: the distinct values in order; `C09.numpy_unique_*` relate
the two.) -/
def uniqueSortMerge (le ne : α → α → Bool) (xs : List α) : List α :=
  keepFirsts ne (xs.mergeSort le)

end Np

/-! ## Arrays as objects: whose array is the result of `materialize`?

The value-level model above takes an array to be its content.  Two arrays with the same content are still
two objects: an in-place operation on one (`values *= 2`, `values += 1`, `values[i] = ...`) is seen through
every *view* of it and through no *copy*.  `Origin` is what the extractor reads off the expression a
`materialize` body returns (`Gen.Encodings.*MaterializeOrigin`): `numpy.full`, `numpy.array(<list>)`,
`repeat`, `take`, indexing by an index array, arithmetic build a new array (`fresh`);
`numpy.broadcast_to`, slicing, `view`, `reshape`, `numpy.asarray` of a stored array and the stored attribute
itself are windows onto the stored array (`aliasStored`). -/

/-- Where the array returned by a `materialize` body comes from. -/
inductive Origin where
  | fresh
  | aliasStored
  deriving DecidableEq, Repr

/-- A heap of arrays; an address is a position (numpy never moves or frees an array that is referred to). -/
structure Heap (α : Type) where
  cells : List (List α)

/-- What the caller of `materialize` holds: an array of its own, or a window onto the array at `a`
through which it reads `g` of that array's *current* content (`broadcast_to`: the one cell repeated). -/
inductive Ref (α : Type) where
  | owned (a : Nat)
  | view (a : Nat) (g : List α → List α)

namespace Heap

def read (h : Heap α) (a : Nat) : List α := (h.cells[a]?).getD []

/-- a new array: the heap grows by one cell, its address is the old size -/
def alloc (h : Heap α) (xs : List α) : Heap α × Nat := (⟨h.cells ++ [xs]⟩, h.cells.length)

/-- any in-place operation on the array at `a`: its content is replaced, its identity stays -/
def write (h : Heap α) (a : Nat) (xs : List α) : Heap α := ⟨h.cells.set a xs⟩

/-- a sequence of in-place operations -/
def writes (h : Heap α) : List (Nat × List α) → Heap α
  | [] => h
  | (a, xs) :: ws => (h.write a xs).writes ws

def deref (h : Heap α) : Ref α → List α
  | .owned a => h.read a
  | .view a g => g (h.read a)

end Heap

/-- `materialize` as an operation on the heap: `decode` is what the body computes from the stored array at
`stored` (the value-level translation), `o` says whether the result is a new array or a window. -/
def materializeAt (o : Origin) (decode : List α → List α) (h : Heap α) (stored : Nat) : Heap α × Ref α :=
  match o with
  | .fresh => ((h.alloc (decode (h.read stored))).1, .owned (h.alloc (decode (h.read stored))).2)
  | .aliasStored => (h, .view stored decode)

/-- The session of the property's last clause on ONE column object: expand; apply `f` to the stored values
*in place*; read the first expansion again; expand again.  Result: (first expansion as it reads at the
end, second expansion). -/
def session (o : Origin) (decode : List α → List α) (f : α → α) (h : Heap α) (stored : Nat) : List α × List α :=
  match materializeAt o decode h stored with
  | (h1, r1) =>
    match materializeAt o decode (h1.write stored ((h1.read stored).map f)) stored with
    | (h3, r2) => (h3.deref r1, h3.deref r2)

/-- The other direction: the caller overwrites the expansion it was given with `xs` (when it is an array of its
own; a window is read-only in numpy -- the write is refused and nothing changes), then expands again.
Result: the stored array afterwards and the second expansion. -/
def editSession (o : Origin) (decode : List α → List α) (xs : List α) (h : Heap α) (stored : Nat) : List α × List α :=
  match materializeAt o decode h stored with
  | (h1, r1) =>
    let h2 := match r1 with
      | .owned a => h1.write a xs
      | .view _ _ => h1
    match materializeAt o decode h2 stored with
    | (h3, r2) => (h3.read stored, h3.deref r2)

/-! ## The other direction: whose arrays does a constructor STORE?

`StoredOrigin` is what the extractor reads off the assignments of an `__init__` body
(`Gen.Encodings.*StoredOrigin`): `numpy.array(...)`, `numpy.unique`, `numpy.where`, indexing by an index
array, a list built in the method give the column arrays of its own (`own`); `numpy.asarray(self.values)`,
a slice of it, or the attribute left as the shared constructor bound it are the caller's input array
(`aliasInput`) -- were it for one shape of input only (nothing equal to the sparse default, identity codes,
runs of length one: the shapes for which the stored values *are* the input sequence). -/

/-- Where the array a constructor stores as `self.values` comes from. -/
inductive StoredOrigin where
  | own
  | aliasInput
  deriving DecidableEq, Repr

/-- A constructor as an operation on the heap: `encode` is what the body computes from the input array at
`input` (the value-level translation); the result is the address of the stored values.  `aliasInput`: the
stored array IS the input array (it reads whatever the input currently holds). -/
def constructAt (o : StoredOrigin) (encode : List α → List α) (h : Heap α) (input : Nat) : Heap α × Nat :=
  match o with
  | .own => h.alloc (encode (h.read input))
  | .aliasInput => (h, input)

/-- Two columns built from ONE input array; `f` applied *in place* to the stored values of the first (any
in-place form: `values *= 2`, `ufunc(values, out=values)`, `values[:] = ...`, item by item); then both are
expanded and the input is read again.  Result: (expansion of the first, expansion of the untouched second,
the input as it reads at the end). -/
def twinSession (o : StoredOrigin) (encode decode : List α → List α) (f : α → α) (h : Heap α) (input : Nat) :
    List α × List α × List α :=
  match constructAt o encode h input with
  | (h1, s1) =>
    match constructAt o encode h1 input with
    | (h2, s2) =>
      let h3 := h2.write s1 ((h2.read s1).map f)
      (decode (h3.read s1), decode (h3.read s2), h3.read input)

end Enc
