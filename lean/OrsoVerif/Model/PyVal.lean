/-!
# The value universe shared by all models

`PyVal` is the fragment of Python values the models talk about.  Equality is
structural: floats are compared by bit pattern (NaN = NaN, -0.0 ≠ 0.0), which is
what "value for value" means for the byte format.  Python's `1 == 1.0 == True`
is deliberately *not* modelled; generators for equality-sensitive properties stay
inside domains where both notions coincide (see DESIGN.md §5.1).
-/

inductive PyVal where
  | none
  | bool (b : Bool)
  | int (i : Int)
  | float (bits : UInt64)
  | str (s : String)
  | bytes (b : List UInt8)
  | list (xs : List PyVal)
  | dict (kvs : List (String × PyVal))
  deriving Repr, Inhabited

namespace PyVal

mutual
def decEq : (a b : PyVal) → Decidable (a = b)
  | .none, .none => isTrue rfl
  | .bool a, .bool b => if h : a = b then isTrue (by rw [h]) else isFalse (by intro h'; cases h'; exact h rfl)
  | .int a, .int b => if h : a = b then isTrue (by rw [h]) else isFalse (by intro h'; cases h'; exact h rfl)
  | .float a, .float b => if h : a = b then isTrue (by rw [h]) else isFalse (by intro h'; cases h'; exact h rfl)
  | .str a, .str b => if h : a = b then isTrue (by rw [h]) else isFalse (by intro h'; cases h'; exact h rfl)
  | .bytes a, .bytes b => if h : a = b then isTrue (by rw [h]) else isFalse (by intro h'; cases h'; exact h rfl)
  | .list a, .list b => match decEqL a b with
     | isTrue h => isTrue (by rw [h])
     | isFalse h => isFalse (by intro h'; cases h'; exact h rfl)
  | .dict a, .dict b => match decEqD a b with
     | isTrue h => isTrue (by rw [h])
     | isFalse h => isFalse (by intro h'; cases h'; exact h rfl)
  | .none, .bool _ | .none, .int _ | .none, .float _ | .none, .str _ | .none, .bytes _ | .none, .list _ | .none, .dict _ => isFalse (by intro h; cases h)
  | .bool _, .none | .bool _, .int _ | .bool _, .float _ | .bool _, .str _ | .bool _, .bytes _ | .bool _, .list _ | .bool _, .dict _ => isFalse (by intro h; cases h)
  | .int _, .none | .int _, .bool _ | .int _, .float _ | .int _, .str _ | .int _, .bytes _ | .int _, .list _ | .int _, .dict _ => isFalse (by intro h; cases h)
  | .float _, .none | .float _, .bool _ | .float _, .int _ | .float _, .str _ | .float _, .bytes _ | .float _, .list _ | .float _, .dict _ => isFalse (by intro h; cases h)
  | .str _, .none | .str _, .bool _ | .str _, .int _ | .str _, .float _ | .str _, .bytes _ | .str _, .list _ | .str _, .dict _ => isFalse (by intro h; cases h)
  | .bytes _, .none | .bytes _, .bool _ | .bytes _, .int _ | .bytes _, .float _ | .bytes _, .str _ | .bytes _, .list _ | .bytes _, .dict _ => isFalse (by intro h; cases h)
  | .list _, .none | .list _, .bool _ | .list _, .int _ | .list _, .float _ | .list _, .str _ | .list _, .bytes _ | .list _, .dict _ => isFalse (by intro h; cases h)
  | .dict _, .none | .dict _, .bool _ | .dict _, .int _ | .dict _, .float _ | .dict _, .str _ | .dict _, .bytes _ | .dict _, .list _ => isFalse (by intro h; cases h)
def decEqL : (a b : List PyVal) → Decidable (a = b)
  | [], [] => isTrue rfl
  | [], _ :: _ => isFalse (by intro h; cases h)
  | _ :: _, [] => isFalse (by intro h; cases h)
  | x :: xs, y :: ys => match decEq x y, decEqL xs ys with
     | isTrue h1, isTrue h2 => isTrue (by rw [h1, h2])
     | isFalse h1, _ => isFalse (by intro h'; cases h'; exact h1 rfl)
     | _, isFalse h2 => isFalse (by intro h'; cases h'; exact h2 rfl)
def decEqD : (a b : List (String × PyVal)) → Decidable (a = b)
  | [], [] => isTrue rfl
  | [], _ :: _ => isFalse (by intro h; cases h)
  | _ :: _, [] => isFalse (by intro h; cases h)
  | (k, x) :: xs, (l, y) :: ys =>
     if hk : k = l then
      match decEq x y, decEqD xs ys with
      | isTrue h1, isTrue h2 => isTrue (by rw [hk, h1, h2])
      | isFalse h1, _ => isFalse (by intro h'; cases h'; exact h1 rfl)
      | _, isFalse h2 => isFalse (by intro h'; cases h'; exact h2 rfl)
     else isFalse (by intro h'; cases h'; exact hk rfl)
end

instance : DecidableEq PyVal := decEq

end PyVal
