import OrsoVerif.Model.Kernels
/-!
# C10 — what the statements of the de-cythonised kernels mean

`harness/extractors/c10_fns.py` translates `collect_cython`, `extract_dict_columns` and
`calculate_data_width` of the working tree's `compiled.pyx` statement by statement (through
`harness/pyxshadow.translate`, the same text the source-level shadow executes) into
`Generated/KernelFns.lean`.  This file gives the vocabulary of those translations:

* the file is compiled with `boundscheck=False, wraparound=False`: indexing a `cdef list` / `tuple`,
  a typed memoryview or an `ndarray[object, ndim=2]` buffer is **unchecked** -- `uget` / `uset` /
  `uset2` make an access outside the object the fault `oob` instead of an exception;
* a `raise` is the fault `raises cls`;
* `for i in range(n)` is `forRange`, `for x in xs` is `forEach` (both left folds in the fault monad).
-/
namespace KernelSem
open Kernels

inductive Fault where
  | raises (cls : String)
  | oob
  deriving Repr, DecidableEq

/-- The monad of a kernel body: a value, a Python exception, or an access outside an object. -/
abbrev K := Except Fault

instance {β : Type} [DecidableEq β] : DecidableEq (K β) := fun a b =>
  match a, b with
  | .ok x, .ok y => if h : x = y then isTrue (by rw [h]) else isFalse (by intro h'; cases h'; exact h rfl)
  | .error x, .error y => if h : x = y then isTrue (by rw [h]) else isFalse (by intro h'; cases h'; exact h rfl)
  | .ok _, .error _ => isFalse (by intro h; cases h)
  | .error _, .ok _ => isFalse (by intro h; cases h)

/-- Unchecked item read. -/
class UGet (β : Type) (γ : outParam Type) where
  uget : β → Int → K γ

/-- An access that may leave the object: no value = the fault `oob`. -/
def ofOpt {β : Type} : Option β → K β
  | some v => .ok v
  | none => .error .oob

/-- `lst[i]` of a `cdef list` / a tuple argument / a typed memoryview, bounds checking off. -/
def ugetList {β : Type} (l : List β) (i : Int) : K β :=
  if i < 0 then .error .oob else ofOpt l[i.toNat]?

/-- `(<tuple>row)[i]`: the cast is unchecked as well, so the object has to *be* a tuple. -/
def ugetRow {α : Type} (r : RowObj α) (i : Int) : K α :=
  if i < 0 then .error .oob else ofOpt (readCell r i.toNat)

instance {β : Type} : UGet (List β) β := ⟨ugetList⟩
instance {α : Type} : UGet (RowObj α) α := ⟨ugetRow⟩

export UGet (uget)

/-- `lst[i] = v` on a `cdef list`, bounds checking off. -/
def uset {β : Type} (l : List β) (i : Int) (v : β) : K (List β) :=
  if i < 0 ∨ (l.length : Int) ≤ i then .error .oob else .ok (l.set i.toNat v)

/-- `result[j, i] = v` on an `ndarray[object, ndim=2]` buffer (a list of `shape[0]` rows of `shape[1]` cells). -/
def uset2 {β : Type} (m : List (List β)) (j i : Int) (v : β) : K (List (List β)) :=
  if j < 0 then .error .oob else
  (ofOpt m[j.toNat]?) >>= fun row => (uset row i v) >>= fun row' => pure (m.set j.toNat row')

/-- `np.empty((a, b), dtype=object)`: every cell holds `None` until it is assigned. -/
def npEmpty {β : Type} (null : β) (a b : Int) : List (List β) :=
  List.replicate a.toNat (List.replicate b.toNat null)

/-- `[None] * n` -/
def pyRepeat {β : Type} (null : β) (n : Int) : List β := List.replicate n.toNat null

/-- `len(x)` -/
class PyLen (β : Type) where
  len : β → Int
instance {β : Type} : PyLen (List β) := ⟨fun l => (l.length : Int)⟩
instance {α : Type} : PyLen (RowObj α) := ⟨fun r => (r.cells.length : Int)⟩
export PyLen (len)

/-- `for i in range(n): …` with the variables the body assigns as the state. -/
def forRange {σ : Type} (n : Int) (init : σ) (body : σ → Int → K σ) : K σ :=
  (List.range n.toNat).foldlM (fun s (i : Nat) => body s (i : Int)) init

/-- `for x in xs: …` -/
def forEach {σ β : Type} (xs : List β) (init : σ) (body : σ → β → K σ) : K σ :=
  xs.foldlM body init

/-- The outcome of `collect_cython` in the vocabulary of `Model/Kernels.lean`. -/
def toOutcome {α : Type} : K (List (List α)) → Outcome α
  | .ok m => .ok m
  | .error (.raises c) => .raises c
  | .error .oob => .oob

end KernelSem
