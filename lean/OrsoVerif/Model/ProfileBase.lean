/-!
# C15 — value types shared by the generated expressions (`Generated/ProfileExpr.lean`) and the model

`EInt` is what `ColumnProfile.__add__` compares when it combines extremes: an integer, `float("inf")`,
`-float("inf")`, or `None` (which the repaired code never hands to `min`/`max`; the model keeps it as an
absorbing error value, since Python raises `TypeError`).  `Source` says where a profiler takes a reported
extreme from.
-/
namespace Profile

inductive EInt where
  | none
  | negInf
  | fin (i : Int)
  | posInf
  deriving DecidableEq, Repr

namespace EInt

def ofOption : Option Int → EInt
  | .none => .none
  | .some i => .fin i

/-- Back to a profile field: only a finite value is an integer. -/
def toOption : EInt → Option Int
  | .fin i => some i
  | _ => Option.none

/-- Python's `<` on int / ±inf. -/
def lt : EInt → EInt → Bool
  | .fin a, .fin b => decide (a < b)
  | .negInf, .fin _ => true
  | .negInf, .posInf => true
  | .fin _, .posInf => true
  | _, _ => false

/-- `min([x, y])`: `x` unless `y < x`. -/
instance : Min EInt := ⟨fun x y => if x = .none ∨ y = .none then .none else if lt y x then y else x⟩

/-- `max([x, y])`: `x` unless `y > x`. -/
instance : Max EInt := ⟨fun x y => if x = .none ∨ y = .none then .none else if lt x y then y else x⟩

/-- Python truthiness (`x or y`): `None` and `0` are false. -/
def truthy : EInt → Prop
  | .none => False
  | .fin i => i ≠ 0
  | _ => True

instance (e : EInt) : Decidable (truthy e) := by
  cases e <;> unfold truthy <;> infer_instance

end EInt

/-- Where a reported extreme comes from: the minimum / maximum of the non-null data, or something that
is not computed from the data. -/
inductive Source where
  | reduceMin
  | reduceMax
  | unknown
  deriving DecidableEq, Repr

/-- What `get_kvm_hashes` removes duplicates of before it keeps the smallest hashes: the *values*
(`data = list(set(data))`, one heap entry per distinct value — two values with one hash give two entries) or
the *hashes* (a set of hashes — two values with one hash give one entry). -/
inductive SketchDedup where
  | values
  | hashes
  deriving DecidableEq, Repr

/-- The order of the two steps of the sketch merge of `ColumnProfile.__add__`: remove duplicate hashes and then keep the
`KVM_SIZE` smallest (`sorted(set(a + b))[:KVM_SIZE]`), or keep the `KVM_SIZE` smallest entries of the concatenation and
then remove duplicates (`sorted(set(heapq.nsmallest(KVM_SIZE, a + b)))` — a hash both sides hold takes two of the
`KVM_SIZE` places, so fewer than `KVM_SIZE` hashes may be left although more distinct ones were there). -/
inductive SumSketchOrder where
  | dedupThenCut
  | cutThenDedup
  deriving DecidableEq, Repr

/-- The fixed-length units of `numpy.datetime64` (`Y` and `M` are calendar-dependent and are not modelled). -/
inductive TUnit where
  | W | D | h | m | s | ms | us | ns
  deriving DecidableEq, Repr

/-- Nanoseconds per tick. -/
def TUnit.nanos : TUnit → Int
  | .W => 604800000000000
  | .D => 86400000000000
  | .h => 3600000000000
  | .m => 60000000000
  | .s => 1000000000
  | .ms => 1000000
  | .us => 1000
  | .ns => 1

/-- The dtypes `DateProfiler` converts through: `numpy.array(..., dtype=…)` and `.astype(…)` arguments. -/
inductive DType where
  | dt (u : TUnit)
  | i64
  deriving DecidableEq, Repr

/-- What the per-column accumulators of the morsel loop of `TableProfile.from_dataframe` are keyed by: the column's
name, or the `identity` of the `FlatColumn` object (random, new for every object that is made). -/
inductive KeyKind where
  | name
  | identity
  deriving DecidableEq, Repr

/-- Which most-frequent list `ColumnProfile.__add__` gives the sum when not both sides list values: the left side's
(already copied into the sum), the other side's, or none. -/
inductive MfvPick where
  | mine
  | theirs
  | nothing
  deriving DecidableEq, Repr

end Profile
