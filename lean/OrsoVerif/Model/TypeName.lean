import OrsoVerif.Generated.TypeName
/-!
# C06 — type names: `orso/types.py` `_parse_type` + `OrsoTypes.from_name`,
`orso/schema.py` `FlatColumn.__init__`, `orso/dataframe.py` `DataFrame.description`

Text is `List Char`.  The model is ASCII: `up` is ASCII upper-casing, `isD`/`isS`/`isW` are the
ASCII restrictions of Python's (Unicode-aware) `\d`, `\s`, `\w`.  On non-ASCII input only the
result *class* is compared with the implementation (see `harness/props/c06.py`).

Tables (member names, alias chain, excluded element prefixes, DECIMAL guards, the interpreter's
int-digit limit, the decimal context precision, the type-code formats) come from
`Generated/TypeName.lean`, which is re-extracted from the working tree on every run.  The four
prefix matchers are hand-written from the four regular expressions; the extractor records
whether the sources still equal the ones they were written for (`Gen.TypeName.regexPinned`).
-/
namespace TypeName
open Gen.TypeName

abbrev Str := List Char

/-- `OrsoTypes.X` (by member name) or the int `0` that `from_name` returns for the untyped aliases. -/
inductive Ty where
  | member (name : Str)
  | zero
  deriving Repr, DecidableEq

/-- The 5-tuple returned by `OrsoTypes.from_name` (types.py:218); also the five attributes of a
`FlatColumn` the property talks about. -/
structure Desc where
  ty : Ty
  length : Option Nat := none
  precision : Option Nat := none
  scale : Option Nat := none
  elem : Option Str := none
  deriving Repr, DecidableEq

abbrev Res := Except ExcClass Desc

instance : DecidableEq Res := fun a b =>
  match a, b with
  | .ok x, .ok y => if h : x = y then isTrue (by rw [h]) else isFalse (by intro h'; cases h'; exact h rfl)
  | .error x, .error y => if h : x = y then isTrue (by rw [h]) else isFalse (by intro h'; cases h'; exact h rfl)
  | .ok _, .error _ => isFalse (by intro h; cases h)
  | .error _, .ok _ => isFalse (by intro h; cases h)

/-! ## text helpers -/

/-- `str.upper()` on ASCII text (types.py:157, :66). -/
def up (s : Str) : Str := s.map Char.toUpper

/-- ASCII `\d`. -/
def isD (c : Char) : Bool := c.isDigit

/-- ASCII `\s` of a Python `str` pattern: TAB LF VT FF CR, FS GS RS US, space. -/
def isS (c : Char) : Bool :=
  (9 ≤ c.toNat && c.toNat ≤ 13) || (28 ≤ c.toNat && c.toNat ≤ 32)

/-- ASCII `\w`. -/
def isW (c : Char) : Bool := c.isAlphanum || c = '_'

/-- the class `[\w\s\[\]\(\)]` of the ARRAY pattern (types.py:43). -/
def isElemChar (c : Char) : Bool :=
  isW c || isS c || c = '[' || c = ']' || c = '(' || c = ')'

/-- `s` with the literal prefix `p` removed, if it starts with it. -/
def dropPrefix? : Str → Str → Option Str
  | [], s => some s
  | _ :: _, [] => none
  | p :: ps, c :: cs => if p = c then dropPrefix? ps cs else none

/-- `int(<ascii digits>)`: CPython refuses more than `sys.get_int_max_str_digits()` digits with
`ValueError` (leading zeros count). -/
def parseInt (ds : Str) : Except ExcClass Nat :=
  if intMaxStrDigits ≠ 0 ∧ intMaxStrDigits < ds.length then .error .valueError
  else .ok (Nat.ofDigitChars 10 ds 0)

def litArray : Str := ['A', 'R', 'R', 'A', 'Y']
def litDecimal : Str := ['D', 'E', 'C', 'I', 'M', 'A', 'L']
def litVarchar : Str := ['V', 'A', 'R', 'C', 'H', 'A', 'R']
def litBlob : Str := ['B', 'L', 'O', 'B']

/-! ## `_parse_type` (types.py:29-66): four `re.match` prefix matchers, tried in order -/

/-- `re.match(r"ARRAY<([\w\s\[\]\(\)]+)>", s)` → group 1.  The class does not contain `>`, so the
greedy run is the only candidate. -/
def matchArray (s : Str) : Option Str :=
  match dropPrefix? (litArray ++ ['<']) s with
  | none => none
  | some r =>
    match r.takeWhile isElemChar, r.dropWhile isElemChar with
    | _ :: _, '>' :: _ => some (r.takeWhile isElemChar)
    | _, _ => none

/-- `re.match(r"DECIMAL\((\d+),\s*(\d+)\)", s)` → groups 1, 2.  Digits, `,`, whitespace and `)` are
pairwise disjoint classes, so each greedy run is the only candidate. -/
def matchDecimal (s : Str) : Option (Str × Str) :=
  match dropPrefix? (litDecimal ++ ['(']) s with
  | none => none
  | some r1 =>
    match r1.takeWhile isD, r1.dropWhile isD with
    | _ :: _, ',' :: r2 =>
      let r3 := r2.dropWhile isS
      match r3.takeWhile isD, r3.dropWhile isD with
      | _ :: _, ')' :: _ => some (r1.takeWhile isD, r3.takeWhile isD)
      | _, _ => none
    | _, _ => none

/-- `re.match(r"<PRE>\[(\d+)\]", s)` → group 1 (VARCHAR and BLOB). -/
def matchBracket (pre : Str) (s : Str) : Option Str :=
  match dropPrefix? (pre ++ ['[']) s with
  | none => none
  | some r =>
    match r.takeWhile isD, r.dropWhile isD with
    | _ :: _, ']' :: _ => some (r.takeWhile isD)
    | _, _ => none

inductive Parsed where
  | array (body : Str)
  | decimal (p s : Nat)
  | varchar (n : Nat)
  | blob (n : Nat)
  | bare (s : Str)
  deriving Repr, DecidableEq

/-- `_parse_type(type_str)`; the `int(...)` conversions happen here and can raise. -/
def parseType (s : Str) : Except ExcClass Parsed :=
  match matchArray s with
  | some body => .ok (.array body)
  | none =>
  match matchDecimal s with
  | some (p, q) =>
    match parseInt p with
    | .error e => .error e
    | .ok p => match parseInt q with
      | .error e => .error e
      | .ok q => .ok (.decimal p q)
  | none =>
  match matchBracket litVarchar s with
  | some n => (parseInt n).map .varchar
  | none =>
  match matchBracket litBlob s with
  | some n => (parseInt n).map .blob
  | none => .ok (.bare (up s))

/-! ## `OrsoTypes.from_name` (types.py:147-218) -/

def memberNames : List Str := members.map Prod.fst

/-- `name in OrsoTypes.__members__` -/
def isMember (s : Str) : Bool := memberNames.contains s

def condHolds (parsed : Str) : Cond → Bool
  | .eqAny names => names.contains parsed
  | .isMember => isMember parsed

def runOutcome (parsed : Str) : Outcome → Res
  | .ty t e => .ok { ty := .member t, elem := e }
  | .self => .ok { ty := .member parsed }
  | .zero => .ok { ty := .zero }
  | .raise c => .error c

/-- the `if/elif/…/else` chain for names without parameters (types.py:159-187). -/
def bareResolve (parsed : Str) : Res :=
  match bareChain.find? (fun b => condHolds parsed b.1) with
  | some b => runOutcome parsed b.2
  | none => runOutcome parsed bareElse

/-- `_element_type.startswith((…))` (types.py:191) -/
def excludedElem (body : Str) : Bool := excludedElemPrefixes.any (fun p => p.isPrefixOf body)

/-- types.py:188-197 -/
def arrayResolve (body : Str) : Res :=
  if excludedElem body then .error elemExcludedRaise
  else if isMember body then .ok { ty := .member litArray, elem := some body }
  else .error elemUnknownRaise

def operandVal (p s : Nat) : Operand → Nat
  | .precision => p
  | .scale => s
  | .const n => n

def cmpHolds : Cmp → Nat → Nat → Bool
  | .lt, a, b => a < b
  | .le, a, b => a ≤ b
  | .gt, a, b => a > b
  | .ge, a, b => a ≥ b
  | .eq, a, b => a = b
  | .ne, a, b => a ≠ b

def guardFires (p s : Nat) (g : Guard) : Bool :=
  cmpHolds g.op (operandVal p s g.lhs) (operandVal p s g.rhs)

/-- types.py:198-208: the first guard that fires raises. -/
def decimalResolve (p s : Nat) : Res :=
  match decimalGuards.find? (guardFires p s) with
  | some g => .error g.cls
  | none => .ok { ty := .member litDecimal, precision := some p, scale := some s }

/-- `OrsoTypes.from_name(name)` for a text `name`. -/
def fromName (name : Str) : Res :=
  match parseType (up name) with
  | .error e => .error e
  | .ok (.bare b) => bareResolve b
  | .ok (.array body) => arrayResolve body
  | .ok (.decimal p s) => decimalResolve p s
  | .ok (.varchar n) => .ok { ty := .member litVarchar, length := some n }
  | .ok (.blob n) => .ok { ty := .member litBlob, length := some n }

/-! ## `FlatColumn(name=…, type=<name>)` (schema.py:180-210) -/

def declare (name : Str) : Res :=
  match fromName name with
  | .error e => .error e
  | .ok d =>
    -- :185 the parsed parameters are copied only when the type is an `OrsoTypes` member
    let d : Desc := match d.ty with
      | .zero => { ty := .zero }
      | .member _ => d
    -- :205-210 DECIMAL defaults
    if d.ty = .member litDecimal then
      let p := d.precision.getD ctxPrec
      let s := d.scale.getD (scaleNum * p / scaleDen)
      .ok { d with precision := some p, scale := some s }
    else .ok d

/-! ## `DataFrame.description` type code (dataframe.py:342-394) -/

/-- `member.value` as text -/
def valueOf (m : Str) : Str := (members.lookup m).getD m

def digits (n : Nat) : Str := Nat.toDigits 10 n

/-- `f"{x}"` of an optional int -/
def fmtOpt : Option Nat → Str
  | none => ['N', 'o', 'n', 'e']
  | some n => digits n

/-- the type code reported for a column; `none` when `description` raises (the int `0` has no `.value`). -/
def typeCode (c : Desc) : Option Str :=
  match c.ty with
  | .zero => none
  | .member m =>
    let v := valueOf m
    let t := if v = descDecimalKey
      then descDecimalPre ++ fmtOpt c.precision ++ descDecimalMid ++ fmtOpt c.scale ++ descDecimalPost
      else v
    match decide (v = descArrayKey), c.elem with
    | true, some e => some (descArrayPre ++ valueOf e ++ descArrayPost)
    | _, _ => some t

/-! ## the names the property calls well-formed, their rendering and what they denote -/

inductive TName where
  | base (m : Str)
  | decimal (p s : Nat)
  | varchar (n : Nat)
  | blob (n : Nat)
  | array (elem : Str)
  deriving Repr, DecidableEq

/-- base types: the members whose value is their own name (this excludes `_MISSING_TYPE = 0`). -/
def baseTypes : List Str := (members.filter (fun m => m.1 == m.2)).map Prod.fst

/-- scalar element types: base types that do not start with an excluded prefix. -/
def scalarTypes : List Str := baseTypes.filter (fun m => !excludedElem m)

def render : TName → Str
  | .base m => m
  | .decimal p s => litDecimal ++ '(' :: (digits p ++ ',' :: (digits s ++ [')']))
  | .varchar n => litVarchar ++ '[' :: (digits n ++ [']'])
  | .blob n => litBlob ++ '[' :: (digits n ++ [']'])
  | .array e => litArray ++ '<' :: (e ++ ['>'])

/-- `int()` accepts the decimal rendering of `n` (always, unless the interpreter limits digit counts). -/
def digitsFit (n : Nat) : Bool := intMaxStrDigits == 0 || decide ((digits n).length ≤ intMaxStrDigits)

/-- the statement's "well-formed type name": a base type, `DECIMAL(p,s)` with `0 ≤ s ≤ p ≤ 38`,
`VARCHAR[n]`, `BLOB[n]`, `ARRAY<T>` for a scalar `T`. -/
def wfName : TName → Bool
  | .base m => baseTypes.contains m
  | .decimal p s => decide (s ≤ p) && decide (p ≤ 38)
  | .varchar n => digitsFit n
  | .blob n => digitsFit n
  | .array e => scalarTypes.contains e

/-- "resolves to that base type with exactly those parameters and element type".  A bare base name
has no parameters; bare `ARRAY` may come back with a default scalar element type. -/
def denotes : TName → Desc → Bool
  | .base m, d =>
    d.ty == .member m && d.length.isNone && d.precision.isNone && d.scale.isNone &&
      (d.elem.isNone || (m == litArray && match d.elem with | some e => scalarTypes.contains e | none => false))
  | .decimal p s, d => d == { ty := .member litDecimal, precision := some p, scale := some s }
  | .varchar n, d => d == { ty := .member litVarchar, length := some n }
  | .blob n, d => d == { ty := .member litBlob, length := some n }
  | .array e, d => d == { ty := .member litArray, elem := some e }

/-- "such a well-formed description" for an arbitrary result: an `OrsoTypes` member (or the untyped
marker `0`, with no parameters), a length only on VARCHAR/BLOB, precision and scale only together, only
on DECIMAL and within `0 ≤ s ≤ p ≤ 38`, an element type only on ARRAY and then a member that is neither
nested (ARRAY) nor parameterised (DECIMAL). -/
def wfOut (d : Desc) : Bool :=
  match d.ty with
  | .zero => d.length.isNone && d.precision.isNone && d.scale.isNone && d.elem.isNone
  | .member m =>
    isMember m
    && (d.length.isNone || m == litVarchar || m == litBlob)
    && (match d.precision, d.scale with
        | none, none => true
        | some p, some s => m == litDecimal && decide (s ≤ p) && decide (p ≤ 38)
        | _, _ => false)
    && (match d.elem with
        | none => true
        | some e => m == litArray && isMember e && e != litArray && e != litDecimal)

/-- the column carries the declared parameters, and its type code resolves back to the same type
(with the same precision/scale/element type). -/
def columnRoundTrips (t : TName) (c : Desc) : Bool :=
  (match t with
    | .base m => c.ty == .member m
    | .decimal p s => c.ty == .member litDecimal && c.precision == some p && c.scale == some s
    | .varchar n => c.ty == .member litVarchar && c.length == some n
    | .blob n => c.ty == .member litBlob && c.length == some n
    | .array e => c.ty == .member litArray && c.elem == some e)
  && (match typeCode c with
    | none => false
    | some code =>
      match fromName code with
      | .error _ => false
      | .ok d => d.ty == c.ty && d.precision == c.precision && d.scale == c.scale && d.elem == c.elem)

end TypeName
