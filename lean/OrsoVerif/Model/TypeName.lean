import OrsoVerif.Generated.TypeName
/-!
# C06 — type names: `orso/types.py` `_parse_type` + `OrsoTypes.from_name`,
`orso/schema.py` `FlatColumn.__init__`, `orso/dataframe.py` `DataFrame.description`

Text is `List Char`.  The model is ASCII: `up` is ASCII upper-casing, `isD`/`isS`/`isW` are the
ASCII restrictions of Python's (Unicode-aware) `\d`, `\s`, `\w`.  On non-ASCII input only the
result *class* is compared with the implementation (see `harness/props/c06.py`).

Tables (member names, alias chain, excluded element prefixes, DECIMAL guards, the interpreter's
int-digit limit, the decimal context precision, the type-code formats) come from
`Generated/TypeName.lean`, which is re-extracted from the working tree on every run.  The four
prefix matchers are hand-written from the four regular expressions; the extractor records
whether the sources still equal the ones they were written for (`Gen.TypeName.regexPinned`).
-/
namespace TypeName
open Gen.TypeName

abbrev Str := List Char

/-- `OrsoTypes.X` (by member name) or the int `0` that `from_name` returns for the untyped aliases. -/
inductive Ty where
  | member (name : Str)
  | zero
  deriving Repr, DecidableEq

/-- The 5-tuple returned by `OrsoTypes.from_name` (types.py:218); also the five attributes of a
`FlatColumn` the property talks about. -/
structure Desc where
  ty : Ty
  length : Option Nat := none
  precision : Option Nat := none
  scale : Option Nat := none
  elem : Option Str := none
  deriving Repr, DecidableEq

abbrev Res := Except ExcClass Desc

instance : DecidableEq Res := fun a b =>
  match a, b with
  | .ok x, .ok y => if h : x = y then isTrue (by rw [h]) else isFalse (by intro h'; cases h'; exact h rfl)
  | .error x, .error y => if h : x = y then isTrue (by rw [h]) else isFalse (by intro h'; cases h'; exact h rfl)
  | .ok _, .error _ => isFalse (by intro h; cases h)
  | .error _, .ok _ => isFalse (by intro h; cases h)

/-! ## text helpers -/

/-- `str.upper()` on ASCII text (types.py:157, :66). -/
def up (s : Str) : Str := s.map Char.toUpper

/-- ASCII `\d`. -/
def isD (c : Char) : Bool := c.isDigit

/-- ASCII `\s` of a Python `str` pattern: TAB LF VT FF CR, FS GS RS US, space. -/
def isS (c : Char) : Bool :=
  (9 ≤ c.toNat && c.toNat ≤ 13) || (28 ≤ c.toNat && c.toNat ≤ 32)

/-- ASCII `\w`. -/
def isW (c : Char) : Bool := c.isAlphanum || c = '_'

/-- the class `[\w\s\[\]\(\)]` of the ARRAY pattern (types.py:43). -/
def isElemChar (c : Char) : Bool :=
  isW c || isS c || c = '[' || c = ']' || c = '(' || c = ')'

/-- `s` with the literal prefix `p` removed, if it starts with it. -/
def dropPrefix? : Str → Str → Option Str
  | [], s => some s
  | _ :: _, [] => none
  | p :: ps, c :: cs => if p = c then dropPrefix? ps cs else none

/-- `int(<ascii digits>)`: CPython refuses more than `sys.get_int_max_str_digits()` digits with
`ValueError` (leading zeros count); `int('')` is a `ValueError` too. -/
def parseInt (ds : Str) : Except ExcClass Nat :=
  if ds = [] ∨ (intMaxStrDigits ≠ 0 ∧ intMaxStrDigits < ds.length) then .error .valueError
  else .ok (Nat.ofDigitChars 10 ds 0)

def litArray : Str := ['A', 'R', 'R', 'A', 'Y']
def litDecimal : Str := ['D', 'E', 'C', 'I', 'M', 'A', 'L']
def litVarchar : Str := ['V', 'A', 'R', 'C', 'H', 'A', 'R']
def litBlob : Str := ['B', 'L', 'O', 'B']

/-! ## what Python's Unicode tables decide

`str.upper`, `\d`, `\s`, `\w` and `int()` are Unicode-aware (`'ınteger'.upper() == 'INTEGER'`,
`'ß'.upper() == 'SS'`, `\d` matches `'١'`, `int('١٠') == 10`).  `Chars` leaves what the tables decide abstract;
everything below is defined over an arbitrary `U : Chars`.  `Chars.ascii` is the ASCII instance: `parseType`,
`fromName` are the functions at `Chars.ascii`. -/

structure Chars where
  /-- `str.upper()` (may change the length) -/
  upper : Str → Str
  /-- `\d` -/
  isD : Char → Bool
  /-- `\s` -/
  isS : Char → Bool
  /-- `\w` -/
  isW : Char → Bool
  /-- `int(t)` for a text matched by `\d+` -/
  toInt : Str → Except ExcClass Nat

def Chars.ascii : Chars :=
  { upper := up, isD := TypeName.isD, isS := TypeName.isS, isW := TypeName.isW, toInt := parseInt }

/-! ## the patterns of `_parse_type`, interpreted from their sources

`Gen.TypeName.rxArray … rxBlob` are the four patterns parsed (with Python's own `re._parser`) into items: a
literal character, or a greedy unbounded repeat of a class.  `matchItems` matches such a pattern at the start
of a text, greedily and without backtracking — which is what `re` computes whenever no repeat can take a
character the next item needs (`noBacktrack`, checked by `decide` in `Props/C06.lean`). -/

def atomHolds (U : Chars) : Atom → Char → Bool
  | .digit, c => U.isD c
  | .space, c => U.isS c
  | .word, c => U.isW c
  | .ch x, c => c = x

def clsHolds (U : Chars) (cls : List Atom) (c : Char) : Bool := cls.any (fun a => atomHolds U a c)

/-- the captured groups, in order, when the pattern matches a prefix of the text. -/
def matchItems (U : Chars) : List RItem → Str → Option (List Str)
  | [], _ => some []
  | .lit c :: is, s =>
    match s with
    | [] => none
    | x :: xs => if c = x then matchItems U is xs else none
  | .run cls min cap :: is, s =>
    if (s.takeWhile (clsHolds U cls)).length < min then none
    else (matchItems U is (s.dropWhile (clsHolds U cls))).map
      (fun gs => if cap then s.takeWhile (clsHolds U cls) :: gs else gs)

def group1 : List Str → Option Str
  | [g] => some g
  | _ => none

def group2 : List Str → Option (Str × Str)
  | [g, h] => some (g, h)
  | _ => none

/-- can an ASCII literal character be taken by a class (ASCII reading of `\d \s \w`)? -/
def atomTakes : Atom → Char → Bool
  | .digit, c => isD c
  | .space, c => isS c
  | .word, c => isW c
  | .ch x, c => c = x

def atomsOverlap : Atom → Atom → Bool
  | .ch x, a => atomTakes a x
  | a, .ch x => atomTakes a x
  | .digit, .space => false
  | .space, .digit => false
  | .space, .word => false
  | .word, .space => false
  | _, _ => true

/-- may a repeat of `cls` take a character that one of the following items needs?  Items that may match
nothing (`min = 0`) are looked through. -/
def clashes (cls : List Atom) : List RItem → Bool
  | [] => false
  | .lit c :: _ => cls.any (fun a => atomTakes a c)
  | .run cls2 min _ :: rest =>
    cls.any (fun a => cls2.any (fun b => atomsOverlap a b)) || (min == 0 && clashes cls rest)

/-- greedy matching never has to give a character back. -/
def noBacktrack : List RItem → Bool
  | [] => true
  | .lit _ :: rest => noBacktrack rest
  | .run cls _ _ :: rest => !clashes cls rest && noBacktrack rest

/-! ## `_parse_type` (types.py:29-66) -/

inductive Parsed where
  | array (body : Str)
  | decimal (p s : Nat)
  | varchar (n : Nat)
  | blob (n : Nat)
  | bare (s : Str)
  deriving Repr, DecidableEq

/-- `Pattern.search`: the leftmost start position at which the pattern matches. -/
def searchFrom {α : Type} (m : Str → Option α) : Str → Option α
  | [] => m []
  | c :: cs =>
    match m (c :: cs) with
    | some r => some r
    | none => searchFrom m cs

/-- a pattern applied the way the source applies it (`Gen.TypeName.anchor*`): `re.match` tries the start
of the text only, `search` every start position from the left. -/
def anchored {α : Type} (a : Anchor) (m : Str → Option α) (s : Str) : Option α :=
  match a with
  | .atStart => m s
  | .anywhere => searchFrom m s

/-- one `x_match = re.match(…); if x_match: return …` block of `_parse_type`; the `int(...)`
conversions happen here and can raise. -/
def tryKindU (U : Chars) (s : Str) : PKind → Option (Except ExcClass Parsed)
  | .array => (anchored anchorArray (fun t => (matchItems U rxArray t).bind group1) s).map
      (fun body => .ok (.array body))
  | .decimal => (anchored anchorDecimal (fun t => (matchItems U rxDecimal t).bind group2) s).map (fun pq =>
      match U.toInt pq.1 with
      | .error e => .error e
      | .ok p => match U.toInt pq.2 with
        | .error e => .error e
        | .ok q => .ok (.decimal p q))
  | .varchar => (anchored anchorVarchar (fun t => (matchItems U rxVarchar t).bind group1) s).map
      (fun n => (U.toInt n).map .varchar)
  | .blob => (anchored anchorBlob (fun t => (matchItems U rxBlob t).bind group1) s).map
      (fun n => (U.toInt n).map .blob)

/-- `_parse_type(type_str)`: the four blocks in the order the source has them (`Gen.TypeName.parseOrder`),
then the fall-through `return type_str.upper()` (`upperBareReturn`). -/
def parseTypeU (U : Chars) (s : Str) : Except ExcClass Parsed :=
  match parseOrder.findSome? (tryKindU U s) with
  | some r => r
  | none => .ok (.bare (if upperBareReturn then U.upper s else s))

/-! ## `OrsoTypes.from_name` (types.py:147-218) -/

def memberNames : List Str := members.map Prod.fst

/-- `name in OrsoTypes.__members__` -/
def isMember (s : Str) : Bool := memberNames.contains s

def condHolds (parsed : Str) : Cond → Bool
  | .eqAny names => names.contains parsed
  | .isMember => isMember parsed

def runOutcome (parsed : Str) : Outcome → Res
  | .ty t e => .ok { ty := .member t, elem := e }
  | .self => .ok { ty := .member parsed }
  | .zero => .ok { ty := .zero }
  | .raise c => .error c

/-- the `if/elif/…/else` chain for names without parameters (types.py:159-187). -/
def bareResolve (parsed : Str) : Res :=
  match bareChain.find? (fun b => condHolds parsed b.1) with
  | some b => runOutcome parsed b.2
  | none => runOutcome parsed bareElse

/-- `_element_type.startswith((…))` (types.py:191) -/
def excludedElem (body : Str) : Bool := excludedElemPrefixes.any (fun p => p.isPrefixOf body)

/-- types.py:188-197 -/
def arrayResolve (body : Str) : Res :=
  if excludedElem body then .error elemExcludedRaise
  else if isMember body then .ok { ty := .member litArray, elem := some body }
  else .error elemUnknownRaise

def operandVal (p s : Nat) : Operand → Nat
  | .precision => p
  | .scale => s
  | .const n => n

def cmpHolds : Cmp → Nat → Nat → Bool
  | .lt, a, b => a < b
  | .le, a, b => a ≤ b
  | .gt, a, b => a > b
  | .ge, a, b => a ≥ b
  | .eq, a, b => a = b
  | .ne, a, b => a ≠ b

def guardFires (p s : Nat) (g : Guard) : Bool :=
  cmpHolds g.op (operandVal p s g.lhs) (operandVal p s g.rhs)

/-- types.py:198-208: the first guard that fires raises. -/
def decimalResolve (p s : Nat) : Res :=
  match decimalGuards.find? (guardFires p s) with
  | some g => .error g.cls
  | none => .ok { ty := .member litDecimal, precision := some p, scale := some s }

def setNat (d : Desc) : Slot → Nat → Desc
  | .length, n => { d with length := some n }
  | .precision, n => { d with precision := some n }
  | .scale, n => { d with scale := some n }
  | .elem, _ => d

/-- types.py:209-216: `elif parsed_types[0] == HEAD: _type = OrsoTypes.M; _<slot> = parsed_types[1][0]`
(`Gen.TypeName.lengthBranches`), else the final `raise ValueError`. -/
def lengthResolve (head : Str) (n : Nat) : Res :=
  match lengthBranches.find? (fun b => b.1 == head) with
  | some (_, m, slot) => .ok (setNat { ty := .member m } slot n)
  | none => .error .valueError

/-- `_precision, _scale = parsed_types[1]` (types.py:200; `Gen.TypeName.decimalTargets`): the values the
two locals get when `_parse_type` returned `(p, s)`. -/
def decimalBind (p s : Nat) : Nat × Nat :=
  if decimalTargets = [.scale, .precision] then (s, p) else (p, s)

/-- `OrsoTypes.from_name(name)` for an arbitrary Python `str`: `str(name).upper()` if the source has the call
(`upperInFromName`), `_parse_type`, then the dispatch on what came back. -/
def fromNameU (U : Chars) (name : Str) : Res :=
  match parseTypeU U (if upperInFromName then U.upper name else name) with
  | .error e => .error e
  | .ok (.bare b) => bareResolve b
  | .ok (.array body) => arrayResolve body
  | .ok (.decimal p s) => decimalResolve (decimalBind p s).1 (decimalBind p s).2
  | .ok (.varchar n) => lengthResolve litVarchar n
  | .ok (.blob n) => lengthResolve litBlob n

/-- `_parse_type` on ASCII text. -/
def parseType (s : Str) : Except ExcClass Parsed := parseTypeU Chars.ascii s

/-- `OrsoTypes.from_name(name)` for an ASCII text `name`. -/
def fromName (name : Str) : Res := fromNameU Chars.ascii name

/-! ## reference matchers

The four patterns written out by hand as prefix matchers (round 1).  The lemmas are proved about these;
`Lemmas/TypeName.lean` shows that the interpreted patterns (`matchItems U rx…`) compute exactly them. -/

/-- `re.match(r"ARRAY<([\w\s\[\]\(\)]+)>", s)` → group 1.  The class does not contain `>`, so the
greedy run is the only candidate. -/
def matchArray (s : Str) : Option Str :=
  match dropPrefix? (litArray ++ ['<']) s with
  | none => none
  | some r =>
    match r.takeWhile isElemChar, r.dropWhile isElemChar with
    | _ :: _, '>' :: _ => some (r.takeWhile isElemChar)
    | _, _ => none

/-- `re.match(r"DECIMAL\((\d+),\s*(\d+)\)", s)` → groups 1, 2.  Digits, `,`, whitespace and `)` are
pairwise disjoint classes, so each greedy run is the only candidate. -/
def matchDecimal (s : Str) : Option (Str × Str) :=
  match dropPrefix? (litDecimal ++ ['(']) s with
  | none => none
  | some r1 =>
    match r1.takeWhile isD, r1.dropWhile isD with
    | _ :: _, ',' :: r2 =>
      let r3 := r2.dropWhile isS
      match r3.takeWhile isD, r3.dropWhile isD with
      | _ :: _, ')' :: _ => some (r1.takeWhile isD, r3.takeWhile isD)
      | _, _ => none
    | _, _ => none

/-- `re.match(r"<PRE>\[(\d+)\]", s)` → group 1 (VARCHAR and BLOB). -/
def matchBracket (pre : Str) (s : Str) : Option Str :=
  match dropPrefix? (pre ++ ['[']) s with
  | none => none
  | some r =>
    match r.takeWhile isD, r.dropWhile isD with
    | _ :: _, ']' :: _ => some (r.takeWhile isD)
    | _, _ => none

def isElemCharU (U : Chars) (c : Char) : Bool :=
  U.isW c || U.isS c || c = '[' || c = ']' || c = '(' || c = ')'

def matchArrayU (U : Chars) (s : Str) : Option Str :=
  match dropPrefix? (litArray ++ ['<']) s with
  | none => none
  | some r =>
    match r.takeWhile (isElemCharU U), r.dropWhile (isElemCharU U) with
    | _ :: _, '>' :: _ => some (r.takeWhile (isElemCharU U))
    | _, _ => none

def matchDecimalU (U : Chars) (s : Str) : Option (Str × Str) :=
  match dropPrefix? (litDecimal ++ ['(']) s with
  | none => none
  | some r1 =>
    match r1.takeWhile U.isD, r1.dropWhile U.isD with
    | _ :: _, ',' :: r2 =>
      let r3 := r2.dropWhile U.isS
      match r3.takeWhile U.isD, r3.dropWhile U.isD with
      | _ :: _, ')' :: _ => some (r1.takeWhile U.isD, r3.takeWhile U.isD)
      | _, _ => none
    | _, _ => none

def matchBracketU (U : Chars) (pre : Str) (s : Str) : Option Str :=
  match dropPrefix? (pre ++ ['[']) s with
  | none => none
  | some r =>
    match r.takeWhile U.isD, r.dropWhile U.isD with
    | _ :: _, ']' :: _ => some (r.takeWhile U.isD)
    | _, _ => none

/-! ## `FlatColumn(name=…, type=<name>)` (schema.py:180-210) -/

/-- the keyword arguments `element_type=`, `precision=`, `scale=`, `length=` of `FlatColumn(...)`
(`none` = not given / `None`; the element type is an `OrsoTypes` member, by name). -/
structure Explicit where
  elem : Option Str := none
  precision : Option Nat := none
  scale : Option Nat := none
  length : Option Nat := none
  deriving Repr, DecidableEq

/-- is an attribute "missing" for the test the source uses: `x is None`, or the truthiness of `x`
(`not x`, `x or …`), for which a legitimate `0` is missing too. -/
def missing : NoneTest → Option Nat → Bool
  | .isNone, x => x.isNone
  | .falsy, x => x.isNone || x == some 0

def natSlot (d : Desc) : Slot → Option Nat
  | .length => d.length
  | .precision => d.precision
  | .scale => d.scale
  | .elem => none

/-- one `if self.A <is missing>: self.A = _B` of schema.py:188-195 (`Gen.TypeName.mergeRules`).  An
`OrsoTypes` member is never falsy, so both tests mean "is None" for the element type. -/
def applyRule (parsed : Desc) (c : Desc) : Slot × NoneTest × Slot → Desc
  | (.elem, _, .elem) => if c.elem.isNone then { c with elem := parsed.elem } else c
  | (.precision, t, src) => if missing t c.precision then { c with precision := natSlot parsed src } else c
  | (.scale, t, src) => if missing t c.scale then { c with scale := natSlot parsed src } else c
  | (.length, t, src) => if missing t c.length then { c with length := natSlot parsed src } else c
  | _ => c

/-- schema.py:205-210, "validate decimal properties": the two DECIMAL defaults
(`decimalPrecisionTest`, `decimalScaleTest`, `decimalDefaultPrecision`, `scaleNum/scaleDen`). -/
def decimalDefaults (c : Desc) : Desc :=
  if c.ty = .member litDecimal then
    let p := if missing decimalPrecisionTest c.precision then some decimalDefaultPrecision else c.precision
    let s := if missing decimalScaleTest c.scale then some (scaleNum * p.getD 0 / scaleDen) else c.scale
    { c with precision := p, scale := s }
  else c

/-- `FlatColumn(name=…, type=<name>, element_type=…, precision=…, scale=…, length=…)`. -/
def declareWith (name : Str) (x : Explicit) : Res :=
  match fromName name with
  | .error e => .error e
  | .ok d =>
    let c0 : Desc := { ty := d.ty, length := x.length, precision := x.precision, scale := x.scale, elem := x.elem }
    -- :187 the parsed parameters are merged in only when the type is an `OrsoTypes` member
    let c1 : Desc := match d.ty with
      | .zero => c0
      | .member _ => mergeRules.foldl (applyRule d) c0
    .ok (decimalDefaults c1)

/-- `FlatColumn(name=…, type=<name>)`. -/
def declare (name : Str) : Res := declareWith name {}

/-- `FlatColumn(name=…, type=OrsoTypes.<m>, …)`: `from_name` is not consulted. -/
def declareEnum (m : Str) (x : Explicit) : Desc :=
  decimalDefaults { ty := .member m, length := x.length, precision := x.precision, scale := x.scale, elem := x.elem }

/-! ## `DataFrame.description` type code (dataframe.py:342-394) -/

/-- `member.value` as text -/
def valueOf (m : Str) : Str := (members.lookup m).getD m

def digits (n : Nat) : Str := Nat.toDigits 10 n

/-- `f"{x}"` of an optional int -/
def fmtOpt : Option Nat → Str
  | none => ['N', 'o', 'n', 'e']
  | some n => digits n

/-- does the test of an arm hold for a column whose `type.value` is `v`? -/
def armHolds (v : Str) (c : Desc) : CodeCond → Bool
  | .typeNotNone => true
  | .valueIs k => v = k
  | .valueIsAndElem k => v = k && c.elem.isSome
  | .otherwise => true

/-- the type code an arm assigns; `none` when evaluating it raises (`None.value`). -/
def fmtCode (v : Str) (c : Desc) : CodeFmt → Option Str
  | .plain => some v
  | .decimal pre mid post => some (pre ++ fmtOpt c.precision ++ mid ++ fmtOpt c.scale ++ post)
  | .array pre post =>
    match c.elem with
    | some e => some (pre ++ valueOf e ++ post)
    | none => none

/-- `data_type` and whether `data_precision` / `data_scale` were filled in. -/
structure CodeState where
  code : Option Str := none
  params : Bool := false
  deriving Repr, DecidableEq

/-- one top-level `if … elif … else`: the first arm whose test holds runs. -/
def runGroup (v : Str) (c : Desc) (st : CodeState) (g : List CodeArm) : Option CodeState :=
  match g.find? (fun a => armHolds v c a.cond) with
  | none => some st
  | some a => (fmtCode v c a.fmt).map (fun code => { code := some code, params := st.params || a.setsParams })

def runGroups (v : Str) (c : Desc) : CodeState → List (List CodeArm) → Option CodeState
  | st, [] => some st
  | st, g :: gs =>
    match runGroup v c st g with
    | none => none
    | some st' => runGroups v c st' gs

/-- the type-code statements of `description` (`Gen.TypeName.descProgram`) run on one column; `none` when
they raise (the int `0` has no `.value`). -/
def codeState (c : Desc) : Option CodeState :=
  match c.ty with
  | .zero => none
  | .member m => runGroups (valueOf m) c {} descProgram

/-- the type code reported for a column, by the statements the source has now; `none` when `description`
raises or reports `None`. -/
def typeCodeP (c : Desc) : Option Str := (codeState c).bind (·.code)

/-- reference semantics of the type code (also used by the model of C16): the member's value, overridden by
`DECIMAL(p,s)` for a DECIMAL and by `ARRAY<T>` for an ARRAY with an element type; `none` when `description`
raises (the int `0` has no `.value`).  `typeCodeP_eq` (Lemmas): the statements read from the source compute
exactly this. -/
def typeCode (c : Desc) : Option Str :=
  match c.ty with
  | .zero => none
  | .member m =>
    let v := valueOf m
    let t := if v = descDecimalKey
      then descDecimalPre ++ fmtOpt c.precision ++ descDecimalMid ++ fmtOpt c.scale ++ descDecimalPost
      else v
    match decide (v = descArrayKey), c.elem with
    | true, some e => some (descArrayPre ++ valueOf e ++ descArrayPost)
    | _, _ => some t

/-! ## `DataFrame.description` over a whole schema (dataframe.py:342-397) -/

/-- a column of a `RelationSchema`: name, aliases, the five attributes. -/
structure Col where
  name : Str
  aliases : List Str := []
  desc : Desc
  deriving Repr, DecidableEq

/-- `FlatColumn.all_names` (schema.py:283-288): the aliases, then the name. -/
def allNames (c : Col) : List Str := c.aliases ++ [c.name]

/-- `RelationSchema.find_column(name)` (schema.py:583-602, case-sensitive): the first column bearing the name. -/
def findColumn (cols : List Col) (n : Str) : Option Col :=
  cols.find? (fun c => (allNames c).contains n)

/-- the column the `i`-th entry is built from (`Gen.TypeName.descLookup`). -/
def entrySource (how : Lookup) (cols : List Col) (i : Nat) (c : Col) : Option Col :=
  match how with
  | .byPosition => cols[i]?
  | .byName => findColumn cols c.name

/-- `(name, type_code, …, precision, scale, …)` of one entry. -/
structure Entry where
  name : Str
  code : Str
  precision : Option Nat
  scale : Option Nat
  deriving Repr, DecidableEq

/-- the entry reported under `name`, built from a column with attributes `d`; `none` when `description`
raises or has no type code. -/
def entryOf (name : Str) (d : Desc) : Option Entry :=
  match codeState d with
  | none => none
  | some st =>
    match st.code with
    | none => none
    | some code =>
      some { name := name, code := code,
             precision := if st.params then d.precision else none, scale := if st.params then d.scale else none }

def describeFrom (how : Lookup) (all : List Col) : Nat → List Col → Option (List Entry)
  | _, [] => some []
  | i, c :: cs =>
    match (entrySource how all i c).bind (fun cd => entryOf c.name cd.desc), describeFrom how all (i + 1) cs with
    | some e, some es => some (e :: es)
    | _, _ => none

def describeWith (how : Lookup) (cols : List Col) : Option (List Entry) := describeFrom how cols 0 cols

/-- `DataFrame(rows=[], schema=RelationSchema(columns=cols)).description`. -/
def describe (cols : List Col) : Option (List Entry) := describeWith descLookup cols

/-! ## the names the property calls well-formed, their rendering and what they denote -/

inductive TName where
  | base (m : Str)
  | decimal (p s : Nat)
  | varchar (n : Nat)
  | blob (n : Nat)
  | array (elem : Str)
  deriving Repr, DecidableEq

/-- base types: the members whose value is their own name (this excludes `_MISSING_TYPE = 0`). -/
def baseTypes : List Str := (members.filter (fun m => m.1 == m.2)).map Prod.fst

/-- scalar element types: base types that do not start with an excluded prefix. -/
def scalarTypes : List Str := baseTypes.filter (fun m => !excludedElem m)

def render : TName → Str
  | .base m => m
  | .decimal p s => litDecimal ++ '(' :: (digits p ++ ',' :: (digits s ++ [')']))
  | .varchar n => litVarchar ++ '[' :: (digits n ++ [']'])
  | .blob n => litBlob ++ '[' :: (digits n ++ [']'])
  | .array e => litArray ++ '<' :: (e ++ ['>'])

/-- `int()` accepts the decimal rendering of `n` (always, unless the interpreter limits digit counts). -/
def digitsFit (n : Nat) : Bool := intMaxStrDigits == 0 || decide ((digits n).length ≤ intMaxStrDigits)

/-- the statement's "well-formed type name": a base type, `DECIMAL(p,s)` with `0 ≤ s ≤ p ≤ 38`,
`VARCHAR[n]`, `BLOB[n]`, `ARRAY<T>` for a scalar `T`. -/
def wfName : TName → Bool
  | .base m => baseTypes.contains m
  | .decimal p s => decide (s ≤ p) && decide (p ≤ 38)
  | .varchar n => digitsFit n
  | .blob n => digitsFit n
  | .array e => scalarTypes.contains e

/-- "resolves to that base type with exactly those parameters and element type".  A bare base name
has no parameters; bare `ARRAY` may come back with a default scalar element type. -/
def denotes : TName → Desc → Bool
  | .base m, d =>
    d.ty == .member m && d.length.isNone && d.precision.isNone && d.scale.isNone &&
      (d.elem.isNone || (m == litArray && match d.elem with | some e => scalarTypes.contains e | none => false))
  | .decimal p s, d => d == { ty := .member litDecimal, precision := some p, scale := some s }
  | .varchar n, d => d == { ty := .member litVarchar, length := some n }
  | .blob n, d => d == { ty := .member litBlob, length := some n }
  | .array e, d => d == { ty := .member litArray, elem := some e }

/-- "such a well-formed description" for an arbitrary result: an `OrsoTypes` member (or the untyped
marker `0`, with no parameters), a length only on VARCHAR/BLOB, precision and scale only together, only
on DECIMAL and within `0 ≤ s ≤ p ≤ 38`, an element type only on ARRAY and then a member that is neither
nested (ARRAY) nor parameterised (DECIMAL). -/
def wfOut (d : Desc) : Bool :=
  match d.ty with
  | .zero => d.length.isNone && d.precision.isNone && d.scale.isNone && d.elem.isNone
  | .member m =>
    isMember m
    && (d.length.isNone || m == litVarchar || m == litBlob)
    && (match d.precision, d.scale with
        | none, none => true
        | some p, some s => m == litDecimal && decide (s ≤ p) && decide (p ≤ 38)
        | _, _ => false)
    && (match d.elem with
        | none => true
        | some e => m == litArray && isMember e && e != litArray && e != litDecimal)

/-- the column carries the declared parameters, and its type code resolves back to the same type
(with the same precision/scale/element type). -/
def columnRoundTrips (t : TName) (c : Desc) : Bool :=
  (match t with
    | .base m => c.ty == .member m
    | .decimal p s => c.ty == .member litDecimal && c.precision == some p && c.scale == some s
    | .varchar n => c.ty == .member litVarchar && c.length == some n
    | .blob n => c.ty == .member litBlob && c.length == some n
    | .array e => c.ty == .member litArray && c.elem == some e)
  && (match typeCode c with
    | none => false
    | some code =>
      match fromName code with
      | .error _ => false
      | .ok d => d.ty == c.ty && d.precision == c.precision && d.scale == c.scale && d.elem == c.elem)

/-! ## sessions: several frames over shared schemas that are edited between reads (dataframe.py:372-427)

A `DataFrame` holds a reference to the `RelationSchema` it was made with (`self._schema = schema`,
dataframe.py:89; `head`/`slice`/`query`/`distinct` hand the same object on), so the schema can be edited while
frames over it are alive: `schema.columns[i] = FlatColumn(name=<the same>, type=<another name>)`, or the type
attributes of the column object edited in place.  `description` is a property: whether it is computed from the
schema on every read or an earlier answer is kept is read from the source (`Gen.TypeName.descRead`). -/

/-- column `i` redeclared: its five type attributes replaced, name and aliases kept. -/
def setDescAt : List Col → Nat → Desc → List Col
  | [], _, _ => []
  | c :: cs, 0, d => { c with desc := d } :: cs
  | c :: cs, i + 1, d => c :: setDescAt cs i d

/-- column `i` of schema `j` redeclared. -/
def setSchemaAt : List (List Col) → Nat → Nat → Desc → List (List Col)
  | [], _, _, _ => []
  | s :: ss, 0, i, d => setDescAt s i d :: ss
  | s :: ss, j + 1, i, d => s :: setSchemaAt ss j i d

/-- column `i` renamed (`column.name = n`, or replaced by a column of another name): the type attributes stay. -/
def setColNameAt : List Col → Nat → Str → List Col
  | [], _, _ => []
  | c :: cs, 0, n => { c with name := n } :: cs
  | c :: cs, i + 1, n => c :: setColNameAt cs i n

/-- column `i` of schema `j` renamed. -/
def setSchemaNameAt : List (List Col) → Nat → Nat → Str → List (List Col)
  | [], _, _, _ => []
  | s :: ss, 0, i, n => setColNameAt s i n :: ss
  | s :: ss, j + 1, i, n => s :: setSchemaNameAt ss j i n

/-- one step of a session. -/
inductive SOp where
  /-- `DataFrame(rows=[], schema=S_j)` (or a frame derived from a frame over `S_j`): the next frame number -/
  | frame (j : Nat)
  /-- `frame_k.description` -/
  | read (k : Nat)
  /-- `S_j.columns[i]` redeclared with the type attributes `d` -/
  | redeclare (j i : Nat) (d : Desc)
  /-- `S_j.columns[i]` renamed -/
  | rename (j i : Nat) (n : Str)
  deriving Repr, DecidableEq

/-- does the step leave the names of all columns as they are? -/
def SOp.keepsNames : SOp → Bool
  | .rename _ _ _ => false
  | _ => true

/-- `description` iterating over a tuple of names (`for index, column in enumerate(self.column_names)`,
dataframe.py:396 — the tuple may be one `column_names` kept from an earlier call): entry `i` bears the `i`-th
name and is built from the column found by the extracted lookup. -/
def describeNames (how : Lookup) (all : List Col) : Nat → List Str → Option (List Entry)
  | _, [] => some []
  | i, n :: ns =>
    match ((match how with
            | .byPosition => all[i]?
            | .byName => findColumn all n).bind (fun cd => entryOf n cd.desc)),
          describeNames how all (i + 1) ns with
    | some e, some es => some (e :: es)
    | _, _ => none

/-- the schemas as they are now, the schema each frame was made over, and the single entries of the two result
caches (`single_item_cache`, tools.py:417-455: one entry for all frames, compared by the frame object):
`kept` around `description` (used only when `descRead = .keptPerFrame`) and `keptNames` around `column_names`
(used when `namesRead = .keptPerFrame`, which is what the source says now). -/
structure Sess where
  schemas : List (List Col)
  frames : List Nat := []
  kept : Option (Nat × List Entry) := none
  keptNames : Option (Nat × List Str) := none
  deriving Repr, DecidableEq

/-- `frame_k.column_names` under a read mode, for a frame whose schema holds `cols` now. -/
def Sess.names (nmode : ReadMode) (s : Sess) (k : Nat) (cols : List Col) : List Str :=
  match nmode, s.keptNames with
  | .keptPerFrame, some (k', ns) => if k' = k then ns else cols.map (·.name)
  | _, _ => cols.map (·.name)

/-- the body of `description` run on frame `k`: the names (kept or current), then one entry per name from the
schema the frame refers to, as it is now; `none` when it raises.  Also the `column_names` cache afterwards. -/
def Sess.compute (nmode : ReadMode) (s : Sess) (k : Nat) : Sess × Option (List Entry) :=
  match (s.frames[k]?).bind (fun j => s.schemas[j]?) with
  | none => (s, none)
  | some cols =>
    let ns := s.names nmode k cols
    ({ s with keptNames := match nmode with | .keptPerFrame => some (k, ns) | .fresh => s.keptNames },
     describeNames descLookup cols 0 ns)

/-- `frame_k.description` under the read modes of `description` and `column_names`: a kept answer for the same
frame is returned as it is; otherwise the list is computed and (in the keeping mode) kept; an exception is not
kept. -/
def Sess.read (mode nmode : ReadMode) (s : Sess) (k : Nat) : Sess × Option (List Entry) :=
  let hit : Option (List Entry) :=
    match mode, s.kept with
    | .keptPerFrame, some (k', es) => if k' = k then some es else none
    | _, _ => none
  match hit with
  | some es => (s, some es)
  | none =>
    match s.compute nmode k with
    | (s', none) => (s', none)
    | (s', some es) =>
      match mode with
      | .fresh => (s', some es)
      | .keptPerFrame => ({ s' with kept := some (k, es) }, some es)

def Sess.step (mode nmode : ReadMode) (s : Sess) : SOp → Sess × List (Option (List Entry))
  | .frame j => ({ s with frames := s.frames ++ [j] }, [])
  | .read k => ((s.read mode nmode k).1, [(s.read mode nmode k).2])
  | .redeclare j i d => ({ s with schemas := setSchemaAt s.schemas j i d }, [])
  | .rename j i n => ({ s with schemas := setSchemaNameAt s.schemas j i n }, [])

/-- what the reads of a session return, in order. -/
def Sess.run (mode nmode : ReadMode) : Sess → List SOp → List (Option (List Entry))
  | _, [] => []
  | s, op :: ops => (s.step mode nmode op).2 ++ Sess.run mode nmode (s.step mode nmode op).1 ops

/-- a session on the code as it is now (`descRead`, `namesRead`: read from the source on every run). -/
def session (s : Sess) (ops : List SOp) : List (Option (List Entry)) := Sess.run descRead namesRead s ops

/-- the specification of a session: every read is `description` of the schema *as it is at that read*. -/
def currentReads : List (List Col) → List Nat → List SOp → List (Option (List Entry))
  | _, _, [] => []
  | S, fr, .frame j :: ops => currentReads S (fr ++ [j]) ops
  | S, fr, .read k :: ops => ((fr[k]?).bind fun j => (S[j]?).bind describe) :: currentReads S fr ops
  | S, fr, .redeclare j i d :: ops => currentReads (setSchemaAt S j i d) fr ops
  | S, fr, .rename j i n :: ops => currentReads (setSchemaNameAt S j i n) fr ops

/-- an entry without its name: type code, precision, scale. -/
def Entry.bare (e : Entry) : Str × Option Nat × Option Nat := (e.code, e.precision, e.scale)

/-- the reads of a session without the names of the entries. -/
def bareReads (rs : List (Option (List Entry))) : List (Option (List (Str × Option Nat × Option Nat))) :=
  rs.map (fun r => r.map (fun es => es.map Entry.bare))

/-- does a reported type code resolve back to the type a well-formed name declares (base type, DECIMAL
precision and scale, element type; the width is not part of a type code)? -/
def codeResolvesTo (t : TName) (code : Str) : Bool :=
  match fromName code with
  | .error _ => false
  | .ok d =>
    match t with
    | .base m => d.ty == .member m
    | .decimal p s => d.ty == .member litDecimal && d.precision == some p && d.scale == some s
    | .varchar _ => d.ty == .member litVarchar
    | .blob _ => d.ty == .member litBlob
    | .array e => d.ty == .member litArray && d.elem == some e

end TypeName
