/-!
# C08 — `orso.tools.parse_iso` and the DATE / TIME / TIMESTAMP casts built on it

The model follows `orso/tools.py:681-779` line by line.  Text is `List Char`; every slice and
index uses the offsets extracted from the source (`Gen.Iso`).  Exceptions are *data*: each
primitive (`int()`, `datetime(...)`, `fromtimestamp`, `bytes.decode`, `str[i]`) yields the class
CPython raises, and the extracted `except (...)` tuple decides which of them become `None`.

Platform parameters (validated by correspondence, see `design_notes/C08.md`):
`time_t` is 64 bit (`OverflowError` outside), `struct tm.tm_year` is a C `int`
(`OSError` when `year - 1900` does not fit), `sys.get_int_max_str_digits() = 4300`.
The model of `str.isdigit`, `int(str)` is exact on ASCII text and on non-ASCII characters that
are neither digits nor white space; other characters are outside the compared domain.
-/
namespace Iso

/-! ## Exceptions as data -/

inductive Exc where
  | valueError | unicodeDecodeError | typeError | overflowError | osError | indexError | attributeError
  deriving DecidableEq, Repr

/-- The class and its bases, most derived first (names as they can appear in an `except`). -/
def Exc.mro : Exc → List String
  | .valueError => ["ValueError", "Exception", "BaseException"]
  | .unicodeDecodeError => ["UnicodeDecodeError", "UnicodeError", "ValueError", "Exception", "BaseException"]
  | .typeError => ["TypeError", "Exception", "BaseException"]
  | .overflowError => ["OverflowError", "ArithmeticError", "Exception", "BaseException"]
  | .osError => ["OSError", "EnvironmentError", "IOError", "Exception", "BaseException"]
  | .indexError => ["IndexError", "LookupError", "Exception", "BaseException"]
  | .attributeError => ["AttributeError", "Exception", "BaseException"]

def Exc.name (e : Exc) : String := e.mro.headD "?"

/-- `except (c₁, …, cₙ)` catches `e` iff one of its bases is named. -/
def caughtBy (caught : List String) (e : Exc) : Bool := e.mro.any (fun c => caught.contains c)

structure DateTime where
  year : Nat
  month : Nat
  day : Nat
  hour : Nat
  minute : Nat
  second : Nat
  micro : Nat
  deriving DecidableEq, Repr

inductive Outcome where
  | value (dt : DateTime)
  | none
  | raises (e : Exc)
  deriving DecidableEq, Repr

/-! ## Calendar -/

def isLeap (y : Nat) : Bool := y % 4 == 0 && (y % 100 != 0 || y % 400 == 0)

def daysInMonthL (leap : Bool) : Nat → Nat
  | 1 => 31 | 2 => if leap then 29 else 28 | 3 => 31 | 4 => 30 | 5 => 31 | 6 => 30
  | 7 => 31 | 8 => 31 | 9 => 30 | 10 => 31 | 11 => 30 | 12 => 31 | _ => 0

def daysInMonth (y m : Nat) : Nat := daysInMonthL (isLeap y) m

def validDate (y m d : Nat) : Bool :=
  1 ≤ y && y ≤ 9999 && 1 ≤ m && m ≤ 12 && 1 ≤ d && d ≤ daysInMonth y m

def validDateTime (dt : DateTime) : Bool :=
  validDate dt.year dt.month dt.day && dt.hour ≤ 23 && dt.minute ≤ 59 && dt.second ≤ 59
    && dt.micro ≤ 999999

/-- Days in the months before month `m` (CPython `_days_before_month`). -/
def daysBeforeMonthL (leap : Bool) : Nat → Nat
  | 0 => 0
  | 1 => 0
  | m + 1 => daysBeforeMonthL leap m + daysInMonthL leap m

/-- Days before January 1st of year `y ≥ 1` (CPython `_days_before_year`). -/
def daysBeforeYear (y : Nat) : Nat :=
  let p := y - 1
  365 * p + p / 4 - p / 100 + p / 400

/-- Proleptic Gregorian ordinal, 0001-01-01 = 1 (`datetime.date.toordinal`). -/
def toOrdinal (y m d : Nat) : Nat := daysBeforeYear y + daysBeforeMonthL (isLeap y) m + d

/-- Ordinal of 1970-01-01. -/
def epochOrdinal : Nat := 719163

/-- Unix seconds of a (naive, read as UTC) date-time. -/
def toEpoch (dt : DateTime) : Int :=
  ((toOrdinal dt.year dt.month dt.day : Int) - epochOrdinal) * 86400
    + dt.hour * 3600 + dt.minute * 60 + dt.second

/-- Year and 0-based day of the year of an ordinal (CPython `_ord2ymd`, extended to all
integers by floor division on the 400-year cycle; the year is the astronomical year). -/
def yearDoy (ord : Int) : Int × Nat :=
  let n := ord - 1
  let n400 := n / 146097
  let r := (n % 146097).toNat
  let n100 := r / 36524
  let r1 := r % 36524
  let n4 := r1 / 1461
  let r2 := r1 % 1461
  let n1 := r2 / 365
  let r3 := r2 % 365
  let y : Int := n400 * 400 + (n100 * 100 + n4 * 4 + n1 : Nat) + 1
  if n1 = 4 ∨ n100 = 4 then (y - 1, 365) else (y, r3)

def monthDayGo (leap : Bool) : Nat → Nat → Nat → Nat × Nat
  | 0, m, doy => (m, doy + 1)
  | fuel + 1, m, doy =>
    let dim := daysInMonthL leap m
    if doy < dim then (m, doy + 1) else monthDayGo leap fuel (m + 1) (doy - dim)

/-- Month and day of a 0-based day of the year. -/
def monthDay (leap : Bool) (doy : Nat) : Nat × Nat := monthDayGo leap 11 1 doy

/-- `datetime.datetime.fromtimestamp(n, tz=utc).replace(tzinfo=None)` for a Python `int` `n`. -/
def fromTimestamp (n : Int) : Except Exc DateTime :=
  if n < -9223372036854775808 ∨ n > 9223372036854775807 then .error .overflowError
  else
    let days := n / 86400
    let secs := (n % 86400).toNat
    let yd := yearDoy (days + epochOrdinal)
    if yd.1 - 1900 < -2147483648 ∨ yd.1 - 1900 > 2147483647 then .error .osError
    else if yd.1 < 1 ∨ yd.1 > 9999 then .error .valueError
    else
      let md := monthDay (isLeap yd.1.toNat) yd.2
      .ok ⟨yd.1.toNat, md.1, md.2, secs / 3600, secs % 3600 / 60, secs % 60, 0⟩

def cIntOk (x : Int) : Bool := -2147483648 ≤ x && x ≤ 2147483647

def buildDatetime (y m d H M S : Int) : Except Exc DateTime :=
  if !(cIntOk y && cIntOk m && cIntOk d && cIntOk H && cIntOk M && cIntOk S) then .error .overflowError
  else if y < 1 ∨ y > 9999 then .error .valueError
  else if m < 1 ∨ m > 12 then .error .valueError
  else if d < 1 ∨ d > (daysInMonth y.toNat m.toNat : Nat) then .error .valueError
  else if H < 0 ∨ H > 23 then .error .valueError
  else if M < 0 ∨ M > 59 then .error .valueError
  else if S < 0 ∨ S > 59 then .error .valueError
  else .ok ⟨y.toNat, m.toNat, d.toNat, H.toNat, M.toNat, S.toNat, 0⟩

/-- `datetime.datetime(*args)` for 3, 5 or 6 integer arguments. -/
def mkDatetime : List Int → Except Exc DateTime
  | [y, m, d] => buildDatetime y m d 0 0 0
  | [y, m, d, H, M] => buildDatetime y m d H M 0
  | [y, m, d, H, M, S] => buildDatetime y m d H M S
  | _ => .error .typeError

/-! ## `int(str)` -/

/-- ASCII white space as skipped by `int()`. -/
def isWs (c : Char) : Bool :=
  c == ' ' || c == '\t' || c == '\n' || c == '\r' || c == Char.ofNat 11 || c == Char.ofNat 12

def rstrip : List Char → List Char
  | [] => []
  | c :: r =>
    match rstrip r with
    | [] => if isWs c then [] else [c]
    | r' => c :: r'

def strip (s : List Char) : List Char := rstrip (s.dropWhile isWs)

def digitVal (c : Char) : Nat := c.toNat - 48

/-- Decimal digits with single underscores between digits. `prev` = the previous character was a digit. -/
def digitsGo (acc : Nat) (prev : Bool) : List Char → Option Nat
  | [] => if prev then some acc else none
  | c :: r =>
    if c.isDigit then digitsGo (10 * acc + digitVal c) true r
    else if c == '_' && prev then digitsGo acc false r
    else none

def maxStrDigits : Nat := 4300

def pyNat (s : List Char) : Except Exc Nat :=
  if (s.filter Char.isDigit).length > maxStrDigits then .error .valueError
  else match digitsGo 0 false s with
    | some n => .ok n
    | none => .error .valueError

/-- `int(s)` for a `str` `s` (base 10). -/
def pyInt (s : List Char) : Except Exc Int :=
  match strip s with
  | [] => .error .valueError
  | c :: r =>
    if c = '-' then (pyNat r).bind fun n => .ok (-(n : Int))
    else if c = '+' then (pyNat r).bind fun n => .ok (n : Int)
    else (pyNat (c :: r)).bind fun n => .ok (n : Int)

/-- `str.isdigit()` (ASCII model). -/
def isDigitStr (s : List Char) : Bool := !s.isEmpty && s.all Char.isDigit

/-! ## `int(float)` -/

inductive FloatInt where
  | nan | inf | fin (z : Int)
  deriving DecidableEq, Repr

/-- Truncation toward zero of the IEEE-754 double with the given bit pattern. -/
def floatTrunc (bits : UInt64) : FloatInt :=
  let b := bits.toNat
  let neg := b / 2 ^ 63 == 1
  let e := (b / 2 ^ 52) % 2048
  let m := b % 2 ^ 52
  if e == 2047 then (if m == 0 then .inf else .nan)
  else
    let mant := if e == 0 then m else m + 2 ^ 52
    let ex := if e == 0 then 1 else e
    let mag : Nat := if ex ≥ 1075 then mant * 2 ^ (ex - 1075) else mant / 2 ^ (1075 - ex)
    .fin (if neg then -(mag : Int) else (mag : Int))

def intOfFloat (bits : UInt64) : Except Exc Int :=
  match floatTrunc bits with
  | .nan => .error .valueError
  | .inf => .error .overflowError
  | .fin z => .ok z

/-! ## The text path (`orso/tools.py:734-776`) -/

def slice (v : List Char) (ab : Nat × Nat) : List Char := (v.drop ab.1).take (ab.2 - ab.1)

def idx (v : List Char) (i : Nat) : Except Exc Char :=
  match v[i]? with
  | some c => .ok c
  | none => .error .indexError

/-- `map(int, [value[a:b], …])`, left to right. -/
def ints (v : List Char) : List (Nat × Nat) → Except Exc (List Int)
  | [] => .ok []
  | ab :: r => (pyInt (slice v ab)).bind fun x => (ints v r).bind fun xs => .ok (x :: xs)

/-- `datetime.datetime(*map(int, [value[a:b], …]))` -/
def fields (v : List Char) (sl : List (Nat × Nat)) : Except Exc (Option DateTime) :=
  (ints v sl).bind fun xs => (mkDatetime xs).bind fun dt => .ok (some dt)

/-! ## Python text primitives used by the program generated from `parse_iso`'s string branch
(`Generated/IsoText.lean`, written by `harness/pystmt.py` on every run) -/

/-- `v[i]` for a Python `int` `i` (negative counts from the end); `IndexError` outside. -/
def pyIdx (v : List Char) (i : Int) : Except Exc Char :=
  if i < 0 then (if i + v.length < 0 then .error .indexError else idx v (i + v.length).toNat)
  else idx v i.toNat

/-- A slice bound: `None` is the default, a negative bound counts from the end (clamped at 0). -/
def pyBound (n : Nat) (dflt : Nat) : Option Int → Nat
  | none => dflt
  | some i => if i < 0 then (i + n).toNat else i.toNat

/-- `v[lo:hi]` (step 1); never raises. -/
def pySlice (v : List Char) (lo hi : Option Int) : List Char :=
  slice v (pyBound v.length 0 lo, pyBound v.length v.length hi)

/-- `v.split(c)[0]`: the text before the first `c` (all of it when `c` does not occur). -/
def pySplitHead (v : List Char) (c : Char) : List Char := v.takeWhile (· != c)

/-- `a and b` where either operand may raise; `b` is only consulted when `a` is true. -/
def pyAnd (a b : Except Exc Bool) : Except Exc Bool := a.bind fun x => if x then b else .ok false

/-- `a or b` where either operand may raise; `b` is only consulted when `a` is false. -/
def pyOr (a b : Except Exc Bool) : Except Exc Bool := a.bind fun x => if x then .ok true else b

/-- `map(int, [s₁, …])`, left to right. -/
def intsOf : List (List Char) → Except Exc (List Int)
  | [] => .ok []
  | s :: r => (pyInt s).bind fun x => (intsOf r).bind fun xs => .ok (x :: xs)

/-- `datetime.datetime(*map(int, [s₁, …]))` -/
def datetimeOfStrs (ss : List (List Char)) : Except Exc (Option DateTime) :=
  (intsOf ss).bind fun xs => (mkDatetime xs).bind fun dt => .ok (some dt)

/-! ## Canonical renderings -/

def digit (n : Nat) : Char := Char.ofNat (48 + n % 10)

def pad2 (n : Nat) : List Char := [digit (n / 10), digit n]
def pad4 (n : Nat) : List Char := [digit (n / 1000), digit (n / 100), digit (n / 10), digit n]
def pad6 (n : Nat) : List Char :=
  [digit (n / 100000), digit (n / 10000), digit (n / 1000), digit (n / 100), digit (n / 10), digit n]

def renderDate (y m d : Nat) : List Char := pad4 y ++ '-' :: pad2 m ++ '-' :: pad2 d

def renderMinute (dt : DateTime) (sep : Char) : List Char :=
  renderDate dt.year dt.month dt.day ++ sep :: pad2 dt.hour ++ ':' :: pad2 dt.minute

def renderSecond (dt : DateTime) (sep : Char) : List Char :=
  renderMinute dt sep ++ ':' :: pad2 dt.second

inductive Suffix where
  | none
  | z
  | plus (hh mm : Nat)        -- `+HH:MM`
  | minus (hh mm : Nat)       -- `-HH:MM`
  | plusBasic (hh mm : Nat)   -- `+HHMM`
  | minusBasic (hh mm : Nat)  -- `-HHMM`
  | plusHour (hh : Nat)       -- `+HH`
  | minusHour (hh : Nat)      -- `-HH`
  deriving Repr

def Suffix.text : Suffix → List Char
  | .none => []
  | .z => ['Z']
  | .plus h m => '+' :: pad2 h ++ ':' :: pad2 m
  | .minus h m => '-' :: pad2 h ++ ':' :: pad2 m
  | .plusBasic h m => '+' :: pad2 h ++ pad2 m
  | .minusBasic h m => '-' :: pad2 h ++ pad2 m
  | .plusHour h => '+' :: pad2 h
  | .minusHour h => '-' :: pad2 h

/-- The suffixes after which the minute and date-only forms are still read (the code drops a
trailing `Z` and everything from the first `+`; a `-HH:MM` suffix is *not* understood there). -/
def Suffix.dropped : Suffix → Bool
  | .none | .z | .plus _ _ | .plusBasic _ _ | .plusHour _ => true
  | .minus _ _ | .minusBasic _ _ | .minusHour _ => false

/-- The fraction: the first `k` digits of the six-digit microsecond field (`k = 0`: no fraction). -/
def fraction (micro k : Nat) : List Char := if k = 0 then [] else '.' :: (pad6 micro).take k

/-- `YYYY-MM-DD<sep>HH:MM:SS[.f{k}][Z|±HH:MM]` -/
def render (dt : DateTime) (sep : Char) (k : Nat) (suf : Suffix) : List Char :=
  renderSecond dt sep ++ fraction dt.micro k ++ suf.text

def truncSeconds (dt : DateTime) : DateTime := { dt with micro := 0 }

/-! ## Tails (specification side of `C08.seconds_form_any_tail`, `minute_form_tails`, `date_form_tails`) -/

/-- The `Z` strip on a text. -/
def zStrip (t : List Char) : List Char := if t.getLast? = some 'Z' then t.dropLast else t

/-- **The tails after which a seconds-form rendering is read**: at most 14 characters (the 33
character window), and, when a `+` remains after the `Z` strip, at most 9 characters before the
first `+` (the 28 character window after the split). -/
def tailRead (t : List Char) : Bool :=
  decide (t.length ≤ 14) && (!(zStrip t).contains '+' || decide (((zStrip t).takeWhile (· != '+')).length ≤ 9))

/-- What is left of a tail after the `Z` strip and the `+` split. -/
def cutTail (t : List Char) : List Char :=
  if (zStrip t).contains '+' then (zStrip t).takeWhile (· != '+') else zStrip t



end Iso
