import OrsoVerif.Model.PyVal
/-!
# C19 — how `lru_cache_with_expiry` builds its dictionary key from the call's arguments

`orso/tools.py`: `key = (args, frozenset(kwargs.items()))`.  The key expression is translated from the working tree on
every run into `Gen.CacheKey.keyOf` (harness/extractors/c19_key.py) over the primitives below; `C19.key_injective` is
stated over that generated definition: equal keys ⇒ equal positional and equal keyword arguments.

Argument values are `PyVal`s; a Python tuple is `PyVal.list` (the alphabet has no Python lists in hashable positions).
A call is `(args, kwargs)`: the positional values and the keyword `(name, value)` pairs in CALL order (distinct names);
"equal keyword arguments" is equality as dictionaries: one list is a permutation of the other.
-/
namespace CacheKey

/-- a tuple value -/
def tuple (xs : List PyVal) : PyVal := .list xs

/-- one element of `kwargs.items()`: the 2-tuple `(name, value)` -/
def item (kv : String × PyVal) : PyVal := .list [.str kv.1, kv.2]

/-- `kwargs.items()` in call order -/
def items (kw : List (String × PyVal)) : List PyVal := kw.map item

/-- inverse of `item` -/
def unitem : PyVal → Option (String × PyVal)
  | .list [.str s, v] => some (s, v)
  | _ => none

/-- the name of an item: what `sorted(kwargs.items())` orders by as long as the names are distinct -/
def nameOf : PyVal → String
  | .list (.str s :: _) => s
  | _ => ""

/-- insertion into a list ordered by name -/
def ins (x : PyVal) : List PyVal → List PyVal
  | [] => [x]
  | y :: ys => if nameOf y < nameOf x then y :: ins x ys else x :: y :: ys

/-- `sorted(items)` (insertion sort by name; stable) -/
def sorted (xs : List PyVal) : List PyVal := xs.foldr ins []

/-- `frozenset(items)`: a value that is not a tuple and that is the same for every order of its elements - the
canonical (name-ordered) listing under a tag no tuple carries.  Only used on items with distinct names. -/
def frozenset (xs : List PyVal) : PyVal := .dict [("frozenset", .list (sorted xs))]

/-- `tuple + tuple` -/
def concat : PyVal → PyVal → PyVal
  | .list a, .list b => .list (a ++ b)
  | _, _ => .none

/-- The FLAT key that `functools.lru_cache` would build if it had no separator mark between the positional and the
keyword part: `args + tuple(sorted(kwargs.items())) if kwargs else args` (seeded change C19-w8s1).  Kept as the
counterexample: `C19.flat_key_confuses_positional_with_keyword`. -/
def flatKey (args : List PyVal) (kwargs : List (String × PyVal)) : PyVal :=
  if !kwargs.isEmpty then concat (tuple args) (tuple (sorted (items kwargs))) else tuple args

/-- The key with the keyword ORDER in it: `(args, tuple(kwargs.items()))` (hand mutation N7) - injective, but two calls
with equal keyword arguments in a different order get different keys. -/
def orderedKey (args : List PyVal) (kwargs : List (String × PyVal)) : PyVal :=
  tuple [tuple args, tuple (items kwargs)]

end CacheKey
