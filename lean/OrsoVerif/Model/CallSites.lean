import OrsoVerif.Model.Kernels
import OrsoVerif.Generated.CallSitesExpr
/-!
# C10 — the Python call sites of the compiled helpers

`DataFrame.collect` (`orso/dataframe.py`, the only caller of `collect_cython`), `Row.__new__`
(`orso/row.py`, the only caller of `extract_dict_columns`) and the width computation of
`ascii_table` (`orso/display.py`, the only caller of `calculate_data_width`).

The glue is written by hand, line by line; the **limit normalisation** of `DataFrame.collect`
(every `if <test>: limit = <constant>` statement before the kernel call), the expression passed
as the kernel's limit, the row returned for a single column and the limit the display passes to
`t.collect` are `Gen.CallSites.*`, regenerated from the working tree on every run.
-/
namespace CallSites
open Kernels

variable {α : Type}

/-- A C `int` / a numpy `int32`. -/
def FitsC (i : Int) : Prop := -2147483648 ≤ i ∧ i < 2147483648
instance (i : Int) : Decidable (FitsC i) := by unfold FitsC; infer_instance

/-- One `if <test>: limit = <constant>` statement; `none` is Python's `None`. -/
def applyLimitStep (n : Int) (cur : Option Int) (s : (Bool → Int → Int → Bool) × Int) : Option Int :=
  match cur with
  | none => if s.1 true 0 n then some s.2 else none
  | some l => if s.1 false l n then some s.2 else some l

/-- The limit as it reaches the kernel call (`dataframe.py:219-236`). -/
def normLimit (limit : Option Int) (n : Nat) : Option Int :=
  Gen.CallSites.limitSteps.foldl (applyLimitStep (n : Int)) limit

/-- A requested column: an integer index or a column name. -/
inductive ColRef where
  | idx (i : Int)
  | name (s : String)
  deriving Repr, DecidableEq

/-- `self.column_names.index(c)`: first position of the name; `none` = `ValueError`. -/
def resolve (names : List String) : ColRef → Option Int
  | .idx i => some i
  | .name s => (DictRow.indexOf names s).map Int.ofNat

inductive PubOutcome (α : Type) where
  | many (m : List (List α))   -- a list/tuple/set of columns was requested
  | one (c : List α)           -- a single column was requested
  | raises (cls : String)
  | oob
  deriving Repr, DecidableEq

/-- `DataFrame.collect(columns, limit)` on a frame with the given column names and (materialised)
rows; `single` = the request was not a list/tuple/set. -/
def publicCollect (names : List String) (rows : List (RowObj α)) (cols : List ColRef) (single : Bool)
    (limit : Option Int) : PubOutcome α :=
  match cols.mapM (resolve names) with                                   -- dataframe.py:228-232
  | none => .raises "ValueError"
  | some idxs =>
    if idxs.any (fun i => decide (¬ FitsC i)) then .raises "OverflowError"         -- numpy.array(…, dtype=int32)
    else
      match normLimit limit rows.length with
      | none => .raises "TypeError"                                      -- None reaches the C int parameter
      | some l =>
        if ¬ FitsC (Gen.CallSites.kernelLimit l) then .raises "OverflowError"
        else
          match collect rows idxs (Gen.CallSites.kernelLimit l) with     -- dataframe.py:238
          | .ok m =>
            if single then
              match m[Gen.CallSites.singleIndex]? with                   -- `collected[0]`
              | some c => .one c
              | none => .raises "IndexError"
            else .many m
          | .raises c => .raises c
          | .oob => .oob

/-- Number of rows the plain-Python definition collects: the first `limit` rows, all rows when the
limit is `None`, negative, or at/beyond the row count. -/
def specRows (n : Nat) : Option Int → Nat
  | none => n
  | some l => if l < 0 ∨ (n : Int) ≤ l then n else l.toNat

/-! ## Row classes and `Row(dict)` -/

/-- What `Row.create_class(schema, tuples_only)` returns: a class is determined by its own
field tuple and flag — there is no state shared between classes (`row.py:194-211`). -/
structure RowClass where
  fields : List String
  tuplesOnly : Bool
  deriving Repr, DecidableEq

def createClass (schema : List String) (tuplesOnly : Bool) : RowClass := ⟨schema, tuplesOnly⟩

inductive RowArg (α : Type) where
  | dict (d : List (String × α))
  | tuple (t : List α)

/-- `cls(data)` (`row.py:77-93`).  `none`: a dictionary given to a tuples-only class, which is
outside that class's contract (the real object holds the dictionary's keys). -/
def rowNew (null : α) (cls : RowClass) : RowArg α → Option (List α)
  | .tuple t => some t
  | .dict d => if cls.tuplesOnly then none else some (DictRow.extract null cls.fields d)

/-- A session: classes are created (by `Row.create_class`, `DataFrame(...)`, `from_arrow`, …) and
rows are built through any class created so far. -/
inductive ClassOp (α : Type) where
  | create (schema : List String) (tuplesOnly : Bool)
  | build (k : Nat) (arg : RowArg α)

def runOps (null : α) : List RowClass → List (ClassOp α) → List (Option (List α))
  | _, [] => []
  | reg, .create s t :: rest => runOps null (reg ++ [createClass s t]) rest
  | reg, .build k arg :: rest =>
      (match reg[k]? with | some c => rowNew null c arg | none => none) :: runOps null reg rest

/-! ## The display's column measurement -/

/-- `data_width = [calculate_data_width(t.collect(i, <measure>)) for i in range(t.columncount)]`
(`display.py:344`) on the printed frame `t`; a cell is its rendered length, `none` = null.
`none` in the result: the collection did not return a column. -/
def displayDataWidths (names : List String) (trows : List (RowObj (Option Nat))) (limit : Int) :
    List (Option Nat) :=
  (List.range names.length).map fun (i : Nat) =>
    match publicCollect names trows [.idx (Int.ofNat i)] true (Gen.CallSites.measureLimit limit) with
    | .one c => some (dataWidth c)
    | _ => none

end CallSites
