import OrsoVerif.Model.Kernels
import OrsoVerif.Model.PyDict
import OrsoVerif.Generated.CallSitesExpr
import OrsoVerif.Generated.DictGlue
/-!
# C10 — the Python call sites of the compiled helpers

`DataFrame.collect` (`orso/dataframe.py`, the only caller of `collect_cython`), `Row.__new__`
(`orso/row.py`, the only caller of `extract_dict_columns`) and the width computation of
`ascii_table` (`orso/display.py`, the only caller of `calculate_data_width`).

The glue is written by hand, line by line; the **limit normalisation** of `DataFrame.collect`
(every `if <test>: limit = <constant>` statement before the kernel call), the expression passed
as the kernel's limit, the row returned for a single column and the limit the display passes to
`t.collect` are `Gen.CallSites.*`, regenerated from the working tree on every run.
-/
namespace CallSites
open Kernels PyDictM

variable {α : Type}

/-- A C `int` / a numpy `int32`. -/
def FitsC (i : Int) : Prop := -2147483648 ≤ i ∧ i < 2147483648
instance (i : Int) : Decidable (FitsC i) := by unfold FitsC; infer_instance

/-- A value converted to int32 by wrapping (two's complement), what `ndarray.astype(numpy.int32)` does. -/
def wrap32 (i : Int) : Int := (i + 2147483648) % 4294967296 - 2147483648

/-- One `if <test>: limit = <constant>` statement; `none` is Python's `None`. -/
def applyLimitStep (n : Int) (cur : Option Int) (s : (Bool → Int → Int → Bool) × Int) : Option Int :=
  match cur with
  | none => if s.1 true 0 n then some s.2 else none
  | some l => if s.1 false l n then some s.2 else some l

/-- The limit as it reaches the kernel call (`dataframe.py:219-236`). -/
def normLimit (limit : Option Int) (n : Nat) : Option Int :=
  Gen.CallSites.limitSteps.foldl (applyLimitStep (n : Int)) limit

/-- A requested column: an integer index or a column name. -/
inductive ColRef where
  | idx (i : Int)
  | name (s : String)
  deriving Repr, DecidableEq

/-- `self.column_names.index(c)`: first position of the name; `none` = `ValueError`. -/
def resolve (names : List String) : ColRef → Option Int
  | .idx i => some i
  | .name s => (DictRow.indexOf names s).map Int.ofNat

inductive PubOutcome (α : Type) where
  | many (m : List (List α))   -- a list/tuple/set of columns was requested
  | one (c : List α)           -- a single column was requested
  | raises (cls : String)
  | oob
  deriving Repr, DecidableEq

/-- `DataFrame.collect(columns, limit)` on a frame with the given column names and (materialised)
rows; `single` = the request was not a list/tuple/set; `checked` = the positions are converted to the
kernel's int32 buffer by a conversion that rejects values outside int32 (else: one that wraps). -/
def publicCollectWith (checked : Bool) (names : List String) (rows : List (RowObj α)) (cols : List ColRef) (single : Bool)
    (limit : Option Int) : PubOutcome α :=
  match cols.mapM (resolve names) with                                   -- dataframe.py:228-232
  | none => .raises "ValueError"
  | some idxs =>
    if checked = true ∧ idxs.any (fun i => decide (¬ FitsC i)) = true
      then .raises "OverflowError"                                       -- numpy.array(…, dtype=int32) rejects
    else
      let idxs := if checked = true then idxs else idxs.map wrap32       -- `.astype(int32)` wraps
      match normLimit limit rows.length with
      | none => .raises "TypeError"                                      -- None reaches the C int parameter
      | some l =>
        if ¬ FitsC (Gen.CallSites.kernelLimit l) then .raises "OverflowError"
        else
          match collect rows idxs (Gen.CallSites.kernelLimit l) with     -- dataframe.py:238
          | .ok m =>
            if single then
              match m[Gen.CallSites.singleIndex]? with                   -- `collected[0]`
              | some c => .one c
              | none => .raises "IndexError"
            else .many m
          | .raises c => .raises c
          | .oob => .oob

/-- `DataFrame.collect` with the int32 conversion the source has now (`Gen.CallSites.indexConvChecked`). -/
def publicCollect (names : List String) (rows : List (RowObj α)) (cols : List ColRef) (single : Bool)
    (limit : Option Int) : PubOutcome α :=
  publicCollectWith Gen.CallSites.indexConvChecked names rows cols single limit

/-- Number of rows the plain-Python definition collects: the first `limit` rows, all rows when the
limit is `None`, negative, or at/beyond the row count. -/
def specRows (n : Nat) : Option Int → Nat
  | none => n
  | some l => if l < 0 ∨ (n : Int) ≤ l then n else l.toNat

/-! ## Row classes and `Row(dict)` -/

/-- What `Row.create_class(schema, tuples_only)` returns: a class is determined by its own
field tuple and flag — there is no state shared between classes (`row.py:194-211`). -/
structure RowClass where
  fields : List String
  tuplesOnly : Bool
  deriving Repr, DecidableEq

def createClass (schema : List String) (tuplesOnly : Bool) : RowClass := ⟨schema, tuplesOnly⟩

inductive RowArg (α : Type) where
  | dict (d : PyDict α)   -- a dictionary or another Mapping (`d.exact` / `d.isDict` / `d.mutable`) with keys of any kind
  | tuple (t : List α)

/-- `cls(data)` (`row.py:77-100`) with the statements `pre` in front of the dictionary test, the test `guard` and the
statements `prepare` between that test and the helper call.  `none`: the row is not an extraction -- a dictionary given to
a tuples-only class (outside that class's contract: the real object holds the dictionary's keys), an argument the guard
does not admit (a `Mapping` that is no dict and was not copied into one: the keys again) or one that reaches the helper
while not an exact `dict` (`TypeError`: the compiled helper takes exact dictionaries only).  The helper finds what a
lookup of the field name -- an exact `str` -- finds (`helperView`). -/
def rowNewOf (pre : PyDict α → PyDict α) (guard : PyDict α → Bool) (prepare : PyDict α → PyDict α) (null : α)
    (cls : RowClass) : RowArg α → Option (List α)
  | .tuple t => some t
  | .dict d =>
    if cls.tuplesOnly then none
    else
      let d0 := pre d
      if guard d0 then
        let handed := prepare d0
        if handed.exact then some (DictRow.extract null cls.fields (helperView handed.items)) else none
      else none

/-- `cls(data)` with the statements and the guard of the source as it is now (`Gen.DictGlue`, regenerated from the
working tree on every run). -/
def rowNew (null : α) (cls : RowClass) (arg : RowArg α) : Option (List α) :=
  rowNewOf Gen.DictGlue.rowPre Gen.DictGlue.rowGuard Gen.DictGlue.rowPrepare null cls arg

/-- `if not isinstance(data, (dict, tuple, list)) and isinstance(data, Mapping): data = dict(data)` -/
def mappingStep (d : PyDict α) : PyDict α := if !d.isDict then d.copy else d

/-- The step `if not all(type(key) is str for key in data): data = {str(key): value for key, value in data.items()}`:
a record with a key that is not text is re-keyed by the text of its keys. -/
def rekeyStep (d : PyDict α) : PyDict α :=
  if !(d.allKeys fun key => key.exact) then d.comp (fun key _ => pyStr key) (fun _ value => value) else d

/-- `if type(data) is not dict: data = dict(data)` -/
def copyStep (d : PyDict α) : PyDict α := if !d.exact then d.copy else d

/-- A session: classes are created (by `Row.create_class`, `DataFrame(...)`, `from_arrow`, …) and
rows are built through any class created so far. -/
inductive ClassOp (α : Type) where
  | create (schema : List String) (tuplesOnly : Bool)
  | build (k : Nat) (arg : RowArg α)

def runOps (null : α) : List RowClass → List (ClassOp α) → List (Option (List α))
  | _, [] => []
  | reg, .create s t :: rest => runOps null (reg ++ [createClass s t]) rest
  | reg, .build k arg :: rest =>
      (match reg[k]? with | some c => rowNew null c arg | none => none) :: runOps null reg rest

/-! ## The display's column measurement -/

/-- A generated column reference (`Gen.CallSites.measureRefs`) as a request to `DataFrame.collect`. -/
def refOf : Sum Int String → ColRef
  | .inl i => .idx i
  | .inr s => .name s

/-- `calculate_data_width(<collected column>)`; `none`: the collection did not return a column. -/
def widthOf : PubOutcome (Option Nat) → Option Nat
  | .one c => some (dataWidth c)
  | _ => none

/-- `calculate_data_width(t.collect(<ref>, <measure>))` for one requested column of the printed frame `t`;
a cell is its rendered length, `none` = null. -/
def measureOne (names : List String) (trows : List (RowObj (Option Nat))) (limit : Int) (cr : ColRef) : Option Nat :=
  widthOf (publicCollect names trows [cr] true (Gen.CallSites.measureLimit limit))

/-- `data_width = [calculate_data_width(t.collect(<ref>, <measure>)) for <var> in <columns>]`
(`display.py:344`).  Which column is collected for each printed column (`Gen.CallSites.measureRefs`: the
loop and the argument of `t.collect`, from the source) and the limit (`measureLimit`) are generated. -/
def displayDataWidths (names : List String) (trows : List (RowObj (Option Nat))) (limit : Int) :
    List (Option Nat) :=
  (Gen.CallSites.measureRefs names).map fun ref => measureOne names trows limit (refOf ref)

/-- The same measurement made **by name** (`t.collect(name) for name in t.column_names`): what the
display would compute if it handed the helper the column *named* like the printed column. -/
def displayDataWidthsByName (names : List String) (trows : List (RowObj (Option Nat))) (limit : Int) :
    List (Option Nat) :=
  names.map fun s => measureOne names trows limit (.name s)

/-! ## Sessions on one frame: results handed out, edited by the caller, asked for again

A public call hands the caller an array; the array is the caller's, it may edit it in place.  Whether the *next* call
can see such an edit depends on two facts about the source of `DataFrame.collect`, both regenerated from the working
tree: `Gen.CallSites.resultKept` (some statement stores the returned array, or something computed from it, where it
outlives the call) and `Gen.CallSites.resultFresh` (the returned name is bound by calls of the compiled helper only).
`frame[...]` adds nothing of its own when `Gen.CallSites.getitemDirect`. -/

/-- What happens on a frame between two appends: a request is made, or the caller edits the array it was handed last. -/
inductive Event (ρ β : Type) where
  | call (req : ρ)
  | edit (e : β → β)

/-- The requests of a session, in order. -/
def requestsOf {ρ β : Type} : List (Event ρ β) → List ρ
  | [] => []
  | .call r :: rest => r :: requestsOf rest
  | .edit _ :: rest => requestsOf rest

/-- One public call.  `memo` is what the frame keeps (a request and the array answered to it).  A function whose
returned name has a binding that is not the helper call (`fresh = false`) answers a repeated request with the kept
array; a function that stores its result (`kept = true`) keeps *the array it hands out*. -/
def sessionCall {ρ β : Type} [DecidableEq ρ] (kept fresh : Bool) (compute : ρ → β) (memo : Option (ρ × β)) (req : ρ) :
    β × Option (ρ × β) :=
  let answer := match memo with
    | some (r, a) => if fresh = false ∧ r = req then a else compute req
    | none => compute req
  (answer, if kept then some (req, answer) else memo)

/-- The answers of a session.  The kept array *is* the array handed out last, so the caller's edit edits it. -/
def runSession {ρ β : Type} [DecidableEq ρ] (kept fresh : Bool) (compute : ρ → β) : Option (ρ × β) → List (Event ρ β) → List β
  | _, [] => []
  | memo, .call req :: rest =>
      (sessionCall kept fresh compute memo req).1 :: runSession kept fresh compute (sessionCall kept fresh compute memo req).2 rest
  | memo, .edit e :: rest => runSession kept fresh compute (memo.map fun p => (p.1, e p.2)) rest

/-- Some public entry point keeps a result: `DataFrame.collect` stores it, or `frame[...]` is more than a call of it. -/
def entryKeeps : Bool := Gen.CallSites.resultKept || !Gen.CallSites.getitemDirect

/-- Every public entry point returns an array made by the helper call it makes: `DataFrame.collect` returns only names
bound by the helper call, and `frame[...]` is nothing but a call of it. -/
def entryFresh : Bool := Gen.CallSites.resultFresh && Gen.CallSites.getitemDirect

/-- A request as the public API takes it: the column references, "not a list", the limit. -/
abbrev Request := List ColRef × Bool × Option Int

def answerOf (names : List String) (rows : List (RowObj α)) (r : Request) : PubOutcome α :=
  publicCollect names rows r.1 r.2.1 r.2.2

end CallSites
