import OrsoVerif.Generated.SchemaOps
/-!
# C17 — `RelationSchema` union and lookup (`orso/schema.py`)

A column is what the schema operations can see of a `FlatColumn`: its `identity`, its `name`,
its `aliases` (the dataclass allows `None`) and a `tag` that stands for the Python *object*
(no operation inspects it; it lets the correspondence tell two equal-looking columns apart).
Everything is polymorphic in the type of identities `ι` and of names `ν`; the driver
instantiates both at `String`.  Case-insensitive lookup takes the lower-casing function as a
parameter `lower : ν → ν` (Python's `str.lower` is Unicode aware, Lean's is ASCII only), so
every theorem holds for whatever `str.lower` does.

Operations follow the source line by line:

* `Col.allNames`      — `FlatColumn.all_names`, schema.py:283-288 (aliases THEN name)
* `unionLoop`/`union` — `RelationSchema.__add__`, schema.py:516-543
* `findCol`/`find`    — `find_column`, schema.py:550-569
* `allColumnNames`    — `all_column_names`, schema.py:571-584
* `columnNames`       — `column_names` (schema.py:586-589) and `__iter__` (schema.py:512-514)
* `column`            — `column`, schema.py:591-605 (`isinstance(i, int)` → list indexing, `bool` included)
* `popCol`            — `pop_column`, schema.py:607-621
-/
namespace SchemaOps

structure Col (ι ν : Type) where
  tag : Nat
  identity : ι
  name : ν
  aliases : Option (List ν)
  deriving DecidableEq, Repr

structure Schema (ι ν : Type) where
  name : ν
  aliases : List ν
  columns : List (Col ι ν)
  deriving DecidableEq, Repr

variable {ι ν : Type} [DecidableEq ι] [DecidableEq ν]

/-- `all_names`: `self.aliases + [self.name]` when aliases is not `None`, else `[self.name]`.
The order inside the sum is read from the source on every run (`Gen.SchemaOps.aliasesFirst`). -/
def Col.allNames (c : Col ι ν) : List ν :=
  match c.aliases with
  | some as => if Gen.SchemaOps.aliasesFirst then as ++ [c.name] else [c.name] ++ as
  | none => [c.name]

/-- The identities of a column list (`[col.identity for col in self.columns]`). -/
def ids (cs : List (Col ι ν)) : List ι := cs.map (·.identity)

/-- The `for column in other.columns` loop of `__add__`: `seen` is `seen_identities`,
`acc` is `new_columns`; both grow while the right operand is scanned. -/
def unionLoop (seen : List ι) (acc : List (Col ι ν)) : List (Col ι ν) → List (Col ι ν)
  | [] => acc
  | c :: cs =>
    if c.identity ∈ seen then unionLoop seen acc cs
    else unionLoop (seen ++ [c.identity]) (acc ++ [c]) cs

/-- `a + b`: name and aliases of the left operand, `self.columns[:]` extended by the loop. -/
def union (a b : Schema ι ν) : Schema ι ν :=
  { name := a.name, aliases := a.aliases,
    columns := unionLoop (ids a.columns) a.columns b.columns }

/-- A chain `a + b₁ + b₂ + …` (Python's `+` associates to the left). -/
def unionAll (a : Schema ι ν) (bs : List (Schema ι ν)) : Schema ι ν := bs.foldl union a

/-- Does column `c` bear the key `k` once both sides went through `norm`?
`column_name.lower() in [c.lower() for c in column.all_names]` resp. `column_name in column.all_names`. -/
def Col.bears (norm : ν → ν) (c : Col ι ν) (k : ν) : Bool :=
  decide (norm k ∈ c.allNames.map norm)

/-- One of the two `for column in self.columns: if … : return column` loops of `find_column`. -/
def findCol (norm : ν → ν) (k : ν) : List (Col ι ν) → Option (Col ι ν)
  | [] => none
  | c :: cs => if c.bears norm k then some c else findCol norm k cs

/-- `find_column(column_name, case_insensitive)`. -/
def find (lower : ν → ν) (cols : List (Col ι ν)) (k : ν) (ci : Bool) : Option (Col ι ν) :=
  if ci then findCol lower k cols else findCol id k cols

/-- `all_column_names()`: `yield from column.all_names` for each column in order. -/
def allColumnNames : List (Col ι ν) → List ν
  | [] => []
  | c :: cs => c.allNames ++ allColumnNames cs

/-- `column_names` / `list(iter(schema))`. -/
def columnNames (cols : List (Col ι ν)) : List ν := cols.map (·.name)

/-- Python's `xs[i]` for an `int` index: negative indexes count from the end, anything outside
`-len .. len-1` raises `IndexError` (`none`). -/
def pyIndex {α : Type} (xs : List α) (i : Int) : Option α :=
  if 0 ≤ i then xs[i.toNat]?
  else if (-i).toNat ≤ xs.length then xs[xs.length - (-i).toNat]?
  else none

/-- The argument of `column(i)`: an `int`, a `bool` (which *is* an `int` for `isinstance`, `True` = 1,
`False` = 0 — the dispatch is read from the source, `Gen.SchemaFns.column`) or a name. -/
inductive Key (ν : Type) where
  | idx (i : Int)
  | flag (b : Bool)
  | name (k : ν)
  deriving DecidableEq, Repr

/-- `True` / `False` used as a list index. -/
def boolIndex (b : Bool) : Int := if b then 1 else 0

/-- Everything Python's `str` can tell about a name *besides* comparing it with another name, as parameters (the way
`lower` is one): the predicates (`s.isdecimal()`, `s.isdigit()`, `s.startswith("_")` … by their spelling), the
transformations (`s.strip()`, `s.upper()` …), `int(s)` (`none` = `ValueError`) and what a string literal denotes.
The translated functions (`Gen.SchemaFns.column` / `find_column` / `pop_column`) take one; the model's operations
do not — lookup by name compares names and nothing else — and `C17.generated_*_eq_model` hold **for every**
`StrOps`: a source that starts reading a name as something else (`'1'` as a position, `'None'` as no name, a name
stripped before it is compared) makes the translation depend on these and the equality stops checking. -/
structure StrOps (ν : Type) where
  pred : String → ν → Bool
  fn : String → ν → ν
  toInt : ν → Option Int
  lit : String → ν

/-- Every *other* text a column carries besides its name and aliases -- its identity, `str(column)`, `repr(column)`, its
type, description, origin … -- read as a name (`T.attr "identity" c`), as a parameter (the way `StrOps` is one).  The
translated `find_column` / `column` / `pop_column` take one and `C17.generated_*_eq_model` hold **for every** `ColText`:
a name is a name or an alias and nothing else; a source that starts resolving a key through anything else a column
carries (C17-w6s3: "failing that, by identity") makes the translation depend on this and the equality stops checking. -/
structure ColText (ι ν : Type) where
  attr : String → Col ι ν → ν

/-- What one operation returns. -/
inductive Out (ι ν : Type) where
  | col (c : Option (Col ι ν))      -- a lookup: the column or `None`
  | popped (c : Option (Col ι ν))   -- `pop_column`: the removed column or `None`
  | indexError                      -- `column(i)` with `i` out of range
  | strs (l : List ν)               -- a list of names
  deriving DecidableEq, Repr

/-- What `self.columns[i]` gives: the column, or `IndexError`. -/
def Out.ofIndex : Option (Col ι ν) → Out ι ν
  | some c => .col (some c)
  | none => .indexError

/-- `column(i)`. -/
def column (cols : List (Col ι ν)) : Key ν → Out ι ν
  | .idx i => Out.ofIndex (pyIndex cols i)
  | .flag b => Out.ofIndex (pyIndex cols (boolIndex b))
  | .name k => .col (findCol id k cols)

/-- `pop_column(name)`: remove the first column whose *name* (not alias) equals the argument. -/
def popCol (k : ν) : List (Col ι ν) → Option (Col ι ν) × List (Col ι ν)
  | [] => (none, [])
  | c :: cs =>
    if c.name = k then (some c, cs)
    else ((popCol k cs).1, c :: (popCol k cs).2)

/-- Operations on one schema. -/
inductive Op (ν : Type) where
  | find (k : ν) (ci : Bool)
  | column (key : Key ν)
  | pop (k : ν)
  | allNames
  | names
  | iter
  deriving DecidableEq, Repr

def Op.isPop : Op ν → Bool
  | .pop _ => true
  | _ => false

/-- One operation on the column list of a schema. Only `pop` changes it. -/
def step (lower : ν → ν) (cols : List (Col ι ν)) : Op ν → List (Col ι ν) × Out ι ν
  | .find k ci => (cols, .col (find lower cols k ci))
  | .column key => (cols, column cols key)
  | .pop k => ((popCol k cols).2, .popped (popCol k cols).1)
  | .allNames => (cols, .strs (allColumnNames cols))
  | .names => (cols, .strs (columnNames cols))
  | .iter => (cols, .strs (columnNames cols))

/-- A history of operations on one schema, outputs oldest first. -/
def run (lower : ν → ν) (cols : List (Col ι ν)) : List (Op ν) → List (Col ι ν) × List (Out ι ν)
  | [] => (cols, [])
  | op :: ops =>
    ((run lower (step lower cols op).1 ops).1,
     (step lower cols op).2 :: (run lower (step lower cols op).1 ops).2)

/-- The columns a history removed, oldest first. -/
def removed : List (Out ι ν) → List (Col ι ν)
  | [] => []
  | .popped (some c) :: os => c :: removed os
  | _ :: os => removed os

/-! ## Programs over several schemas (what the correspondence runs)

Registers hold schemas; `add i j` appends `regs[i] + regs[j]` as a new register, `on r op`
applies a single-schema operation to register `r`.  Values are immutable here, so "the sum
modifies neither operand" and "the sum does not share its column list" are facts about Python
objects that only the correspondence can check. -/

inductive POp (ν : Type) where
  | add (i j : Nat)
  | on (r : Nat) (op : Op ν)
  deriving DecidableEq, Repr

inductive POut (ι ν : Type) where
  | schema (s : Schema ι ν)
  | out (o : Out ι ν)
  deriving DecidableEq, Repr

def pstep (lower : ν → ν) (regs : List (Schema ι ν)) : POp ν → Option (List (Schema ι ν) × POut ι ν)
  | .add i j =>
    match regs[i]?, regs[j]? with
    | some a, some b => some (regs ++ [union a b], .schema (union a b))
    | _, _ => none
  | .on r op =>
    match regs[r]? with
    | some s =>
      some (regs.set r { s with columns := (step lower s.columns op).1 }, .out (step lower s.columns op).2)
    | none => none

def prun (lower : ν → ν) (regs : List (Schema ι ν)) : List (POp ν) → Option (List (Schema ι ν) × List (POut ι ν))
  | [] => some (regs, [])
  | op :: ops =>
    match pstep lower regs op with
    | none => none
    | some (regs1, o) =>
      match prun lower regs1 ops with
      | none => none
      | some (regs2, os) => some (regs2, o :: os)

/-! ## Specification vocabulary (used by the theorem statements only, never by the operations) -/

/-- Keep, of the elements that share a key, only the first one (Haskell's `nubBy` on a key). -/
def firstByKey {α κ : Type} [DecidableEq κ] (key : α → κ) : List α → List α
  | [] => []
  | x :: xs => x :: (firstByKey key xs).filter (fun y => key y ≠ key x)

/-- The right-hand columns a sum appends: those whose identity is not among `seen`, the first of
each identity only. -/
def fresh (seen : List ι) (cs : List (Col ι ν)) : List (Col ι ν) :=
  firstByKey (·.identity) (cs.filter (fun c => c.identity ∉ seen))

/-- The single-schema operations a program addresses to register `q`, in order (`add` addresses none:
it only creates a new register). -/
def opsOn (q : Nat) : List (POp ν) → List (Op ν)
  | [] => []
  | .on r op :: rest => if r = q then op :: opsOn q rest else opsOn q rest
  | .add _ _ :: rest => opsOn q rest

/-- The outputs of the operations addressed to register `q`. -/
def outsOn (q : Nat) : List (POp ν) → List (POut ι ν) → List (Out ι ν)
  | .on r _ :: rest, .out o :: os => if r = q then o :: outsOn q rest os else outsOn q rest os
  | _ :: rest, _ :: os => outsOn q rest os
  | _, _ => []

/-! ## Iterators: an iteration in progress, interleaved with everything else (`__iter__`, schema.py:560-562)

`for name in schema: … schema.pop_column(name) …` — the iterator is obtained once, advanced step by step, and between
two steps anything may happen to the schema it came from.  What the iterator then yields depends on *how `__iter__`
builds it*, which is read from the source on every run (`Gen.SchemaFns.iter_src`): an iterator over a list of names
built when `__iter__` is called (`iter([col.name for col in self.columns])`: a snapshot nobody else can reach), or a
generator that walks the live `self.columns` list and reads the next column only when asked for it. -/

/-- What `RelationSchema.__iter__` hands out, as the source builds it. -/
inductive IterSrc (ι ν : Type) where
  /-- `iter(<a list built now>)`: the names are fixed when `__iter__` returns -/
  | eager (names : List ν)
  /-- `(<item col> for col in self.columns)`, `map(<item>, self.columns)`, `for col in self.columns: yield <item col>`:
  a walk over the schema's own column list, one position at a time -/
  | walk (item : Col ι ν → ν)

/-- The model's `__iter__`: an iterator over the list of the names the schema has *when it is called*. -/
def iterSrc (s : Schema ι ν) : IterSrc ι ν := .eager (columnNames s.columns)

/-- An iterator some steps into its life. `live r pos item` is CPython's list iterator under a generator: it holds the
register's list object and an index; each `next` looks at `columns[pos]` *as the list is then*; once it has run off
the end it is finished for good. -/
inductive IterSt (ι ν : Type) where
  | snap (rest : List ν)
  | live (r pos : Nat) (item : Col ι ν → ν)
  | done

/-- What an iterator is asked. -/
inductive ItOp where
  | next    -- `next(it)`
  | drain   -- `list(it)`: everything that is left
  deriving DecidableEq, Repr

/-- What it answers. -/
inductive ItOut (ν : Type) where
  | item (x : ν)
  | stop                 -- `StopIteration`
  | rest (l : List ν)
  deriving DecidableEq, Repr

/-- One question to an iterator, the registers being what they are now. -/
def IterSt.ask (regs : List (Schema ι ν)) : IterSt ι ν → ItOp → IterSt ι ν × ItOut ν
  | .snap [], .next => (.snap [], .stop)
  | .snap (x :: xs), .next => (.snap xs, .item x)
  | .snap xs, .drain => (.snap [], .rest xs)
  | .live r pos item, .next =>
    match (regs[r]?.map (·.columns)).getD [] |>.drop pos with
    | [] => (.done, .stop)
    | c :: _ => (.live r (pos + 1) item, .item (item c))
  | .live r pos item, .drain => (.done, .rest ((((regs[r]?.map (·.columns)).getD []).drop pos).map item))
  | .done, .next => (.done, .stop)
  | .done, .drain => (.done, .rest [])

/-- Programs with iterators: everything `POp` has, plus `mk r` (`iter(regs[r])`, the new iterator gets the next free
number) and a question to iterator `k`. -/
inductive IOp (ν : Type) where
  | base (op : POp ν)
  | mk (r : Nat)
  | ask (k : Nat) (q : ItOp)
  deriving DecidableEq, Repr

inductive IOut (ι ν : Type) where
  | base (o : POut ι ν)
  | made (k : Nat)
  | it (o : ItOut ν)
  deriving DecidableEq, Repr

structure ISt (ι ν : Type) where
  regs : List (Schema ι ν)
  iters : List (IterSt ι ν)

/-- `iter(s)` under a given `__iter__`. -/
def IterSrc.start (r : Nat) : IterSrc ι ν → IterSt ι ν
  | .eager names => .snap names
  | .walk item => .live r 0 item

def istep (src : Schema ι ν → IterSrc ι ν) (lower : ν → ν) (st : ISt ι ν) : IOp ν → Option (ISt ι ν × IOut ι ν)
  | .base op =>
    match pstep lower st.regs op with
    | some (regs', o) => some ({ st with regs := regs' }, .base o)
    | none => none
  | .mk r =>
    match st.regs[r]? with
    | some s => some ({ st with iters := st.iters ++ [(src s).start r] }, .made st.iters.length)
    | none => none
  | .ask k q =>
    match st.iters[k]? with
    | some it => some ({ st with iters := st.iters.set k (it.ask st.regs q).1 }, .it (it.ask st.regs q).2)
    | none => none

def irun (src : Schema ι ν → IterSrc ι ν) (lower : ν → ν) (st : ISt ι ν) : List (IOp ν) → Option (ISt ι ν × List (IOut ι ν))
  | [] => some (st, [])
  | op :: ops =>
    match istep src lower st op with
    | none => none
    | some (st1, o) =>
      match irun src lower st1 ops with
      | none => none
      | some (st2, os) => some (st2, o :: os)

/-! ### Specification vocabulary for iterators -/

/-- An iterator over a list of its own, with nothing else in the world. -/
def listIterStep (l : List ν) : ItOp → List ν × ItOut ν
  | .next => match l with
    | [] => ([], .stop)
    | x :: xs => (xs, .item x)
  | .drain => ([], .rest l)

def listIterRun (l : List ν) : List ItOp → List ν × List (ItOut ν)
  | [] => (l, [])
  | q :: qs => ((listIterRun (listIterStep l q).1 qs).1, (listIterStep l q).2 :: (listIterRun (listIterStep l q).1 qs).2)

/-- Everything a sequence of answers yielded, in order. -/
def yielded : List (ItOut ν) → List ν
  | [] => []
  | .item x :: os => x :: yielded os
  | .rest l :: os => l ++ yielded os
  | .stop :: os => yielded os

/-- The questions a program puts to iterator `k`. -/
def asksOf (k : Nat) : List (IOp ν) → List ItOp
  | [] => []
  | .ask j q :: rest => if j = k then q :: asksOf k rest else asksOf k rest
  | _ :: rest => asksOf k rest

/-- The answers iterator `k` gave. -/
def answersOf (k : Nat) : List (IOp ν) → List (IOut ι ν) → List (ItOut ν)
  | .ask j _ :: rest, .it o :: os => if j = k then o :: answersOf k rest os else answersOf k rest os
  | _ :: rest, _ :: os => answersOf k rest os
  | _, _ => []

/-- The register operations of a program with iterators, and their outputs. -/
def baseOps : List (IOp ν) → List (POp ν)
  | [] => []
  | .base op :: rest => op :: baseOps rest
  | _ :: rest => baseOps rest

def baseOuts : List (IOp ν) → List (IOut ι ν) → List (POut ι ν)
  | .base _ :: rest, .base o :: os => o :: baseOuts rest os
  | _ :: rest, _ :: os => baseOuts rest os
  | _, _ => []

end SchemaOps
