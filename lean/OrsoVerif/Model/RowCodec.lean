import OrsoVerif.Model.RowBytes
import OrsoVerif.Model.MsgPack
/-!
# `Row.as_bytes` / `Row.from_bytes` (C01): framing ∘ MessagePack ∘ post-processing
-/
namespace RowCodec
open RowBytes MsgPack

/-- A decoded row item: a plain value, or the `datetime` the decoder builds from the reserved
two-element form `["__datetime__", x]` (compiled.pyx:66-70). -/
inductive Item where
  | val (v : PyVal)
  | datetime (x : PyVal)
  deriving DecidableEq, Repr

/-- compiled.pyx:67: `isinstance(item, list) and len(item) == 2 and item[0] == "__datetime__"`, with
the length, the index and the marker text extracted from the source. This is the **exact form the
property excludes** from the round trip. -/
def isReserved : PyVal → Bool
  | .list xs =>
    xs.length == Gen.Row.reservedLen &&
      (match xs[Gen.Row.reservedIdx]? with
       | some (.str s) => s == Gen.Row.reservedMarker
       | _ => false)
  | _ => false

/-- What `datetime.fromtimestamp` accepts: a number (`bool` is an `int`); anything else is a
`TypeError`. Range errors of the platform's `fromtimestamp` are outside the model (the harness
stays inside the safe range). -/
def isNumber : PyVal → Bool
  | .int _ => true
  | .float _ => true
  | .bool _ => true
  | _ => false

/-- compiled.pyx:66-70: a reserved item becomes `datetime.fromtimestamp(item[1])`, every other item
is kept. -/
def post (v : PyVal) : Option Item :=
  if isReserved v then
    match v with
    | .list xs =>
      match xs[Gen.Row.reservedArg]? with
      | some x => if isNumber x then some (.datetime x) else none
      | none => none
    | _ => none
  else some (.val v)

/-- `packb(tuple(self), …)` (orso/row.py:162): the row is one array. -/
def packRow (row : List PyVal) : Option RowBytes.Bytes := packb (.list row)

/-- compiled.pyx:62-72: `unpackb`, the `cdef list` cast (anything but an array is a `TypeError`),
then post-processing of every item. -/
def unpackRow (p : RowBytes.Bytes) : Option (List Item) :=
  match unpackb p with
  | some (.list items) => items.mapM post
  | _ => none

/-- `Row.as_bytes` with `time.time_ns() = ts`. -/
def encodeRow (ts : Nat) (row : List PyVal) : Except EncErr RowBytes.Bytes := encodeWith packRow ts row

/-- `Row.from_bytes` / `from_bytes_cython`. -/
def decodeRow (data : RowBytes.Bytes) : Except DecErr (List Item) := decodeWith unpackRow data

end RowCodec
