import OrsoVerif.Model.RowBytes
import OrsoVerif.Model.MsgPack
/-!
# `Row.as_bytes` / `Row.from_bytes` (C01): framing ∘ MessagePack ∘ post-processing
-/
namespace RowCodec
open RowBytes MsgPack

/-- A decoded row item: a plain value, or the `datetime` the decoder builds from the reserved
two-element form `["__datetime__", x]` (compiled.pyx:66-70). -/
inductive Item where
  | val (v : PyVal)
  | datetime (x : PyVal)
  deriving DecidableEq, Repr

/-- compiled.pyx:67: `isinstance(item, list) and len(item) == 2 and item[0] == "__datetime__"`, with
the length, the index and the marker text extracted from the source. This is the **exact form the
property excludes** from the round trip. -/
def isReserved : PyVal → Bool
  | .list xs =>
    xs.length == Gen.Row.reservedLen &&
      (match xs[Gen.Row.reservedIdx]? with
       | some (.str s) => s == Gen.Row.reservedMarker
       | _ => false)
  | _ => false

/-- What `datetime.fromtimestamp` accepts: a number (`bool` is an `int`); anything else is a
`TypeError`. -/
def isNumber : PyVal → Bool
  | .int _ => true
  | .float _ => true
  | .bool _ => true
  | _ => false

/-- First second `datetime.fromtimestamp` (naive local time, the process runs in UTC) accepts:
0001-01-02T00:00:00 — one day after `datetime.min`, because CPython probes `t - 24 h` to detect a
fold and that probe must itself be representable. Below: `ValueError` / `OSError` / `OverflowError`.
A parameter of CPython and the time zone, validated at the boundary by correspondence. -/
def tsMin : Int := -62135510400
/-- First second after `datetime.max` (9999-12-31T23:59:59.999999): refused from here on. -/
def tsEnd : Int := 253402300800
/-- IEEE-754 bit patterns of `62135510400.0` and `253402300800.0` (both exactly representable). -/
def tsMinMagBits : Nat := 0x422cef214b000000
def tsEndBits : Nat := 0x424d7ffa20c00000

/-- Is the number inside the range of `datetime.fromtimestamp`?  Floats are compared through their
bit patterns (for one sign the order of finite doubles is the order of their bits; NaN and the
infinities have larger magnitudes than both bounds, so they are outside: `ValueError` /
`OverflowError`).  No float lies strictly between `tsEnd - 1µs` and `tsEnd`, so rounding to
microseconds cannot cross the upper bound. -/
def tsInRange : PyVal → Bool
  | .int i => decide (tsMin ≤ i) && decide (i < tsEnd)
  | .bool _ => true
  | .float b => if b.toNat < 2 ^ 63 then decide (b.toNat < tsEndBits) else decide (b.toNat - 2 ^ 63 ≤ tsMinMagBits)
  | _ => false

/-- `datetime.fromtimestamp(x)`: a `datetime` for a number inside the range, `none` = it raises
(`TypeError` for anything but a number, `ValueError` / `OverflowError` / `OSError` outside the range). -/
def fromtimestamp : Option PyVal → Option Item
  | some x => if isNumber x && tsInRange x then some (.datetime x) else none
  | none => none

/-- compiled.pyx:66-70: a reserved item becomes `datetime.fromtimestamp(item[1])`, every other item
is kept. -/
def post (v : PyVal) : Option Item :=
  if isReserved v then
    match v with
    | .list xs => fromtimestamp xs[Gen.Row.reservedArg]?
    | _ => none
  else some (.val v)

/-! ### The Python primitives the statement-level translation of `from_bytes_cython` uses
(`Generated/RowFns.lean`, regenerated from compiled.pyx on every run) -/

/-- `cdef list x = <expr>`: Cython accepts an exact `list` (and `None`, on which the following
`for` raises `TypeError`); anything else, or an exception of `<expr>`, ends the call. -/
def castList : Option PyVal → Option (List PyVal)
  | some (.list xs) => some xs
  | _ => none

/-- `isinstance(v, list)` -/
def isList : PyVal → Bool
  | .list _ => true
  | _ => false

/-- `len(v)` of a list (the translation only emits it behind `isinstance(v, list) and …`). -/
def pyLen : PyVal → Nat
  | .list xs => xs.length
  | _ => 0

/-- `v[i]` of a list, `none` outside it. -/
def itemAt : PyVal → Nat → Option PyVal
  | .list xs, i => xs[i]?
  | _, _ => none

/-- `packb(tuple(self), …)` (orso/row.py:162): the row is one array. -/
def packRow (row : List PyVal) : Option RowBytes.Bytes := packb (.list row)

/-- compiled.pyx:62-72: `unpackb`, the `cdef list` cast (anything but an array is a `TypeError`),
then post-processing of every item. -/
def unpackRow (p : RowBytes.Bytes) : Option (List Item) :=
  match unpackb p with
  | some (.list items) => items.mapM post
  | _ => none

/-- `Row.as_bytes` with `time.time_ns() = ts`. -/
def encodeRow (ts : Nat) (row : List PyVal) : Except EncErr RowBytes.Bytes := encodeWith packRow ts row

/-- `Row.from_bytes` / `from_bytes_cython`. -/
def decodeRow (data : RowBytes.Bytes) : Except DecErr (List Item) := decodeWith unpackRow data

end RowCodec
