import OrsoVerif.Model.PyDict
import OrsoVerif.Generated.DictCode
/-!
# C02 — records whose keys are not plain text, and how `as_json` has a fraction of a second written

`DataFrame(dictionaries)` (orso/dataframe.py) names its columns `str(k)` for the keys `k` of the first
dictionary and fills position `i` of every row with `row.get(k_i, None)` — a lookup with the first
dictionary's key OBJECT.  Handing the record itself to the row factory instead (`self._row_factory(row)`)
makes `Row.__new__` probe it with the field names, exact texts: a key that is not found again under its own
`str()` (the number `1`, a date, a tuple, a member of `class Col(str, Enum)` whose `str()` is `'Col.ID'`)
loses its value.  Keys are those of `Model/PyDict.lean` (what a dictionary compares; what `str(key)` gives);
which of the two lookups the source does is `Gen.DictCode.frameLookupKeysAreFirstKeys`.

Second part: the fraction of a second in the ISO text orjson writes for a `datetime` / `time` value, under
the `option=` flags of the `orjson.dumps` call of `Row.as_json` (`Gen.DictCode.asJsonOptions`), and the reading
of it back (`fromisoformat`: 1..6 digits after the point, padded on the right).
-/
namespace DictKeyed
open PyDictM

variable {α : Type}

/-- `row.get(k, None)` with the key object `k` -/
def getKey (null : α) (k : PyKey) (d : List (PyKey × α)) : α := (lookupId k.id d).getD null

/-- `Row.__new__(row)`: the compiled extractor probes with the field name, the exact text `str(k)` -/
def getText (null : α) (k : PyKey) (d : List (PyKey × α)) : α := (lookupId (.text k.text) d).getD null

/-- the lookup the constructor does for the column made from the first dictionary's key `k` -/
def frameCell (null : α) (k : PyKey) (d : List (PyKey × α)) : α :=
  if Gen.DictCode.frameLookupKeysAreFirstKeys then getKey null k d else getText null k d

/-- the row of one record -/
def frameCells (null : α) (first d : List (PyKey × α)) : List α := first.map fun kv => frameCell null kv.1 d

/-- the column names: `[str(k) for k in first_dict]` -/
def frameNames (first : List (PyKey × α)) : List String := first.map fun kv => kv.1.text

/-! ## the fraction of a second -/

def digit (d : Nat) : Char := Char.ofNat (48 + d)

/-- six digits -/
def six (us : Nat) : List Char :=
  [digit (us / 100000 % 10), digit (us / 10000 % 10), digit (us / 1000 % 10), digit (us / 100 % 10), digit (us / 10 % 10), digit (us % 10)]

/-- what orjson writes after the seconds: nothing for a whole second or under `OPT_OMIT_MICROSECONDS`, else `.` and six digits -/
def frac (opts : List String) (us : Nat) : List Char :=
  if us = 0 ∨ opts.contains "OPT_OMIT_MICROSECONDS" then [] else '.' :: six us

def val (c : Char) : Option Nat := if 48 ≤ c.toNat ∧ c.toNat ≤ 57 then some (c.toNat - 48) else none

def digitsVal : List Char → Option (List Nat)
  | [] => some []
  | c :: cs => match val c, digitsVal cs with
    | some d, some ds => some (d :: ds)
    | _, _ => none

/-- microseconds named by 1..6 digits after the point (`.5` is 500000) -/
def padVal (ds : List Nat) : Nat := (ds ++ List.replicate (6 - ds.length) 0).foldl (fun a d => a * 10 + d) 0

/-- `fromisoformat` on what follows the seconds: nothing = 0 microseconds; `.` and one to six digits -/
def readFrac : List Char → Option Nat
  | [] => some 0
  | c :: cs => if c = '.' ∧ 1 ≤ cs.length ∧ cs.length ≤ 6 then (digitsVal cs).map padVal else none

/-- flags of orjson that make the text name another value than the row holds: the fraction of a second dropped; a
date-time without offset written as UTC -/
def lossyFlags : List String := ["OPT_OMIT_MICROSECONDS", "OPT_NAIVE_UTC"]

end DictKeyed
