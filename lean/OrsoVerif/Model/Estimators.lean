import OrsoVerif.Model.Distogram
/-!
# C14 — `count_at` and `quantile` of `orso/profiler/distogram/__init__.py`, and the profile's
`estimate_values_below / above` (`orso/profiler/profiler.py:159-167`)

Same carrier discipline as `Model/Distogram.lean`: any type with `+ - * / < ≤`; theorems at a
linear ordered field, execution at `Float` and `Rat`.  Python's `None` results are `none`; the
two places where the code would raise on a state that violates C13's invariants
(`bins[i + 1]` out of range, `next()` on an exhausted filter) are `none` as well and are shown
unreachable under the invariants (`countAt_defined`, `quantileQ_defined`).
-/
namespace Distogram

variable {K : Type} [Add K] [Sub K] [Mul K] [Div K] [LT K] [LE K]
  [DecidableLT K] [DecidableLE K] [OfNat K 0] [OfNat K 1] [OfNat K 2]

/-- `sum(f for _, f in bins)` — `count(h)` (:392-401). -/
def sumCounts : List (K × K) → K
  | [] => 0
  | b :: rest => b.2 + sumCounts rest

/-- `sum((value > v) for v, _ in h.bins)` (:378). -/
def countBelow (x : K) (l : List (K × K)) : Nat := (l.filter (fun b => decide (b.1 < x))).length

/-- The interior trapezoid (:379-387) on the segment `(vi, fi) – (vj, fj)` with `S` the counts
before bin `i`:
`mb = fi + (fj - fi) / (vj - vi) * (value - vi)`;
`(fi + mb) / 2 * (value - vi) / (vj - vi) + S + fi / 2`. -/
def seg (S vi fi vj fj x : K) : K :=
  let mb := fi + (fj - fi) / (vj - vi) * (x - vi)
  (fi + mb) / 2 * (x - vi) / (vj - vi) + S + fi / 2

/-- The interior branch of `count_at` (:377-387): `i = #{v < value} - 1`, bins `i` and `i+1`. -/
def interior (bins : List (K × K)) (x : K) : Option K :=
  let i := countBelow x bins - 1
  match bins[i]?, bins[i + 1]? with
  | some (vi, fi), some (vj, fj) => some (seg (sumCounts (bins.take i)) vi fi vj fj x)
  | _, _ => none

/-- `count_at(h, value)` (:344-389).  The left branch multiplies by the first bin's *value*
(`ratio * v0 / 2`, :376) where its count `f0` is meant — open known finding C14-K01; the model
stays faithful to the code. -/
def countAt (bins : List (K × K)) (mn mx : Option K) (x : K) : Option K :=
  match bins.head?, bins.getLast?, mn, mx with
  | some (v0, f0), some (vl, fl), some lo, some hi =>
    if x < lo ∨ hi < x then none
    else if eqK x lo then some 0
    else if eqK x hi then some (sumCounts bins)
    else if x ≤ v0 then
      let ratio := (x - lo) / (v0 - lo)
      some (ratio * v0 / 2)
    else if vl ≤ x then
      let ratio := (x - vl) / (hi - vl)
      some ((1 + ratio) * fl / 2 + sumCounts bins.dropLast)
    else interior bins x
  | _, _, _, _ => none

/-- The interior branch of `quantile` (:541-549): walk the running sums of
`mids[i] = (f[i] + f[i+1]) / 2` (`itertools.accumulate`) to the first one above `mb`. -/
def scanQ (acc : K) : List (K × K) → K → Option K
  | (vi, fi) :: (vj, fj) :: rest, mb =>
    let mid := (fi + fj) / 2
    if mb < acc + mid then some (vi + (mb - acc) / mid * (vj - vi))
    else scanQ (acc + mid) ((vj, fj) :: rest) mb
  | _, _ => none

/-- `quantile` (:511-551) as a function of `q_count`. -/
def quantileQ (bins : List (K × K)) (mn mx : Option K) (q : K) : Option K :=
  match bins.head?, bins.getLast?, mn, mx with
  | some (v0, f0), some (vl, fl), some lo, some hi =>
    let total := sumCounts bins
    if q ≤ f0 / 2 then
      let fraction := q / (f0 / 2)
      some (lo + fraction * (v0 - lo))
    else if total - fl / 2 ≤ q then
      let base := q - (total - fl / 2)
      let fraction := base / (fl / 2)
      some (vl + fraction * (hi - vl))
    else scanQ 0 bins (q - f0 / 2)
  | _, _, _, _ => none

/-- `quantile(h, value)`: `None` outside `[0, 1]`, else `q_count = int(total_count * value)`;
`floor` is Python's `int()` on a non-negative number and is a parameter. -/
def quantile (floor : K → K) (bins : List (K × K)) (mn mx : Option K) (value : K) : Option K :=
  if bins.isEmpty then none
  else if ¬ (0 ≤ value ∧ value ≤ 1) then none
  else quantileQ bins mn mx (floor (sumCounts bins * value))

/-- `ColumnProfile.estimate_values_below(point)` (profiler.py:159-162). -/
def estimateBelow (bins : List (K × K)) (mn mx : Option K) (point : K) : Option K :=
  countAt bins mn mx point

/-- `ColumnProfile.estimate_values_above(point)` (profiler.py:164-167):
`(count - missing) - count_at(point)`. -/
def estimateAbove (nonNull : K) (bins : List (K × K)) (mn mx : Option K) (point : K) : Option K :=
  (countAt bins mn mx point).map (fun c => nonNull - c)

end Distogram
