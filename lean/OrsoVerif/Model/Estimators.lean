import OrsoVerif.Model.Distogram
import OrsoVerif.Generated.ProfileEstExpr
/-!
# C14 — `count_at` and `quantile` of `orso/profiler/distogram/__init__.py`, and the profile's
`estimate_values_below / above` (`orso/profiler/profiler.py:159-167`)

Same carrier discipline as `Model/Distogram.lean`: any type with `+ - * / < ≤`; theorems at a
linear ordered field, execution at `Float` and `Rat`.  Python's `None` results are `none`; the
two places where the code would raise on a state that violates C13's invariants
(`bins[i + 1]` out of range, `next()` on an exhausted filter) are `none` as well and are shown
unreachable under the invariants (`countAt_defined`, `quantileQ_defined`).
-/
namespace Distogram
open Gen.DistogramExpr (countOutside countAtMin countAtMax countLeftTest countLeftRatio countLeftResult countRightTest
  countRightRatio countRightResult countMb countInteriorResult quantInRange quantCountArg quantLeftTest quantLeftFraction
  quantLeftResult quantRightTest quantRightBase quantRightFraction quantRightResult quantMb quantMid quantWalkTest
  quantInteriorFraction quantInteriorResult)

variable {K : Type} [Add K] [Sub K] [Mul K] [Div K] [LT K] [LE K]
  [DecidableLT K] [DecidableLE K] [OfNat K 0] [OfNat K 1] [OfNat K 2]

/-- `sum(f for _, f in bins)` — `count(h)` (:392-401). -/
def sumCounts : List (K × K) → K
  | [] => 0
  | b :: rest => b.2 + sumCounts rest

/-- `sum((value > v) for v, _ in h.bins)` (:378). -/
def countBelow (x : K) (l : List (K × K)) : Nat := (l.filter (fun b => decide (b.1 < x))).length

/-- The interior trapezoid (:379-387) on the segment `(vi, fi) – (vj, fj)` with `S` the counts
before bin `i`:
`mb = fi + (fj - fi) / (vj - vi) * (value - vi)`;
`(fi + mb) / 2 * (value - vi) / (vj - vi) + S + fi / 2`. -/
def seg (S vi fi vj fj x : K) : K :=
  countInteriorResult x (countMb x vi fi vj fj) vi fi vj fj S

/-- The interior branch of `count_at` (:377-387): `i = #{v < value} - 1`, bins `i` and `i+1`. -/
def interior (bins : List (K × K)) (x : K) : Option K :=
  let i := countBelow x bins - 1
  match bins[i]?, bins[i + 1]? with
  | some (vi, fi), some (vj, fj) => some (seg (sumCounts (bins.take i)) vi fi vj fj x)
  | _, _ => none

/-- `count_at(h, value)` (:344-389).  The left branch multiplies by the first bin's *value*
(`ratio * v0 / 2`, :376) where its count `f0` is meant — open known finding C14-K01; the model
stays faithful to the code. -/
def countAt (bins : List (K × K)) (mn mx : Option K) (x : K) : Option K :=
  match bins.head?, bins.getLast?, mn, mx with
  | some (v0, f0), some (vl, fl), some lo, some hi =>
    if countOutside x lo hi then none
    else if countAtMin x lo hi then some 0
    else if countAtMax x lo hi then some (sumCounts bins)
    else if countLeftTest x lo hi v0 vl then
      some (countLeftResult (countLeftRatio x lo hi v0 f0 vl fl) x lo hi v0 f0 vl fl)
    else if countRightTest x lo hi v0 vl then
      some (countRightResult (countRightRatio x lo hi v0 f0 vl fl) x lo hi v0 f0 vl fl (sumCounts bins.dropLast))
    else interior bins x
  | _, _, _, _ => none

/-- The interior branch of `quantile` (:541-549): walk the running sums of
`mids[i] = (f[i] + f[i+1]) / 2` (`itertools.accumulate`) to the first one above `mb`. -/
def scanQ (acc : K) : List (K × K) → K → Option K
  | (vi, fi) :: (vj, fj) :: rest, mb =>
    let mid := quantMid fi fj
    if quantWalkTest mb (acc + mid) then some (quantInteriorResult (quantInteriorFraction mb acc mid) vi vj)
    else scanQ (acc + mid) ((vj, fj) :: rest) mb
  | _, _ => none

/-- `quantile` (:511-551) as a function of `q_count`. -/
def quantileQ (bins : List (K × K)) (mn mx : Option K) (q : K) : Option K :=
  match bins.head?, bins.getLast?, mn, mx with
  | some (v0, f0), some (vl, fl), some lo, some hi =>
    let total := sumCounts bins
    if quantLeftTest q total f0 fl then
      some (quantLeftResult (quantLeftFraction q total f0 fl) q lo hi v0 f0 vl fl)
    else if quantRightTest q total f0 fl then
      let base := quantRightBase q total f0 fl
      some (quantRightResult (quantRightFraction base q total f0 fl) base lo hi v0 f0 vl fl)
    else scanQ 0 bins (quantMb q total f0 fl)
  | _, _, _, _ => none

/-- `quantile(h, value)`: `None` outside `[0, 1]`, else `q_count = int(total_count * value)`;
`floor` is Python's `int()` on a non-negative number and is a parameter. -/
def quantile (floor : K → K) (bins : List (K × K)) (mn mx : Option K) (value : K) : Option K :=
  if bins.isEmpty then none
  else if ¬ quantInRange value then none
  else quantileQ bins mn mx (floor (quantCountArg (sumCounts bins) value))

/-- `ColumnProfile.estimate_values_below(point)` (profiler.py:159-162): the generated expression over `count_at(point)`
and the histogram's own total — in the source as it is, `count_at(point)` itself. -/
def estimateBelow (bins : List (K × K)) (mn mx : Option K) (point : K) : Option K :=
  (countAt bins mn mx point).map (fun c => Gen.ProfileEst.estimateBelowExpr (sumCounts bins) c)

/-- `ColumnProfile.estimate_values_above(point)` (profiler.py:164-167): the generated expression
over `count`, `missing`, the histogram's own total and `count_at(point)` — in the source as it
is, `(count - missing) - count_at(point)`. -/
def estimateAbove (count missing : K) (bins : List (K × K)) (mn mx : Option K) (point : K) : Option K :=
  (countAt bins mn mx point).map (fun c => Gen.DistogramExpr.estimateAbove count missing (sumCounts bins) c)

end Distogram
