/-!
# C19 — the Python primitives the two cache wrappers of `orso/tools.py` are written in

`Generated/CacheFns.lean` is the *statement-by-statement translation* of the bodies of
`single_item_cache.<locals>.wrapper` and `lru_cache_with_expiry.<locals>.wrapper`
(harness/extractors/c19_fns.py + harness/pystmt.py, regenerated from the working tree on every
run).  The translation is state passing; what it needs from Python is defined here:

* "equal arguments" is Python `==` — a `BEq` instance on the argument types, about which NOTHING
  is assumed (it need not be reflexive, symmetric or transitive: `NaN != NaN`, user `__eq__`);
  `None == x` is `none == some x`, i.e. `false`;
* `x <= valid_for_seconds` etc. with `valid_for_seconds = float("inf")` as `none`;
* `time.time()` and `func(*args, **kwargs)` act on a `FnWorld`: the clock and the log of the
  invocations of the wrapped function; a result is identified with its invocation index;
* `collections.OrderedDict` as an association list in iteration order whose lookups are what
  CPython's dict does: the hashes are compared first and then `stored_key == key` (`keyMatch`).
-/
namespace Cache

/-- `x <= v` with `v = float("inf")` as `none` -/
def leInf (x : Int) : Option Int → Bool
  | none => true
  | some v => decide (x ≤ v)

/-- `x < v` -/
def ltInf (x : Int) : Option Int → Bool
  | none => true
  | some v => decide (x < v)

/-- `x > v` -/
def gtInf (x : Int) : Option Int → Bool
  | none => false
  | some v => decide (x > v)

/-- `x >= v` -/
def geInf (x : Int) : Option Int → Bool
  | none => false
  | some v => decide (x ≥ v)

/-- The world a wrapper runs in: the clock and the log `(arguments, time)` of the invocations of
the wrapped function. -/
structure FnWorld (κ : Type) where
  now : Int
  log : List (κ × Int)
  deriving Repr

/-- `time.time()` -/
def FnWorld.time {κ : Type} (w : FnWorld κ) : Int := w.now

/-- `result = func(*args, **kwargs)`: the invocation is logged with the time it starts at, the
clock advances by what the function costs, the result is the index of the invocation. -/
def FnWorld.call {κ : Type} (cost : κ → Int) (w : FnWorld κ) (k : κ) : Nat × FnWorld κ :=
  (w.log.length, { now := w.now + cost k, log := w.log ++ [(k, w.now)] })

/-! ## `collections.OrderedDict` -/

/-- items in iteration order (oldest first) -/
abbrev PyOD (κ ν : Type) := List (κ × ν)

namespace PyOD
variable {κ ν : Type} [BEq κ] [Hashable κ]

/-- dict lookup: equal hashes, then `stored == key` (CPython compares the stored key on the left;
the identity shortcut `stored is key` only matters for a non-reflexive `==`) -/
def keyMatch (stored key : κ) : Bool := hash stored == hash key && stored == key

/-- `OrderedDict()` -/
def empty : PyOD κ ν := []

/-- `cache.items()` -/
def items (c : PyOD κ ν) : List (κ × ν) := c

/-- `len(cache)` -/
def len (c : PyOD κ ν) : Nat := c.length

/-- `key in cache` -/
def contains (c : PyOD κ ν) (k : κ) : Bool := c.any (fun e => keyMatch e.1 k)

/-- `cache[key]` (`none` = KeyError) -/
def getitem (c : PyOD κ ν) (k : κ) : Option ν := (c.find? (fun e => keyMatch e.1 k)).map (·.2)

/-- `del cache[key]` (a missing key raises in Python; the sweep only deletes keys it has just read) -/
def delitem (c : PyOD κ ν) (k : κ) : PyOD κ ν := c.filter (fun e => !keyMatch e.1 k)

/-- `cache.move_to_end(key)` -/
def move_to_end (c : PyOD κ ν) (k : κ) : PyOD κ ν :=
  match c.find? (fun e => keyMatch e.1 k) with
  | some e => c.filter (fun e' => !keyMatch e'.1 k) ++ [e]
  | none => c

/-- `cache[key] = value`: an existing key keeps its position (and the stored key object), a new
key goes to the end -/
def setitem (c : PyOD κ ν) (k : κ) (v : ν) : PyOD κ ν :=
  if contains c k then c.map (fun e => if keyMatch e.1 k then (e.1, v) else e) else c ++ [(k, v)]

/-- `cache.popitem(last=...)` (on an empty dict Python raises; the wrapper pops only when
`len(cache) > max_size`) -/
def popitem (c : PyOD κ ν) (last : Bool) : PyOD κ ν := if last then c.dropLast else c.tail

end PyOD

/-- "Same arguments" as Python containers understand it: the identical object, or `==`
(with the stored value on the left). -/
def sameArgs {α β : Type} [BEq α] [BEq β] (stored call : α × β) : Prop :=
  stored = call ∨ ((stored.1 == call.1) = true ∧ (stored.2 == call.2) = true)

end Cache
