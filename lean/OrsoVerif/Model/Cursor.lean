/-!
# C04 — the DB-API style cursor of `orso.DataFrame`

`orso/dataframe.py`: the constructor stores `iter(rows)`; `fetchone`, `fetchmany`
and `fetchall` advance that iterator; `append` sets the cursor to `None`, after
which every fetch raises.  Read-only observers (`rowcount`, `len`, `collect`,
slicing, rendering …) go through `materialize()`, which for a list-backed frame
is the identity.  The model is the obvious state machine over a position.
-/
namespace Cursor

structure State (α : Type) where
  rows : List α
  pos : Nat
  arraysize : Nat
  valid : Bool
  deriving Repr

inductive Op (α : Type) where
  | fetchone
  | fetchmany (k : Option Nat)
  | fetchall
  | setArraysize (n : Nat)
  | observe
  | append (r : α)
  deriving Repr

inductive Out (α : Type) where
  | one (r : Option α)
  | many (rs : List α)
  | unit
  | err
  deriving Repr

variable {α : Type}

def init (defaultArraysize : Nat) (rows : List α) : State α :=
  { rows := rows, pos := 0, arraysize := defaultArraysize, valid := true }

def step (s : State α) : Op α → State α × Out α
  | .fetchone =>
    if s.valid then
      match s.rows[s.pos]? with
      | some r => ({ s with pos := s.pos + 1 }, .one (some r))
      | none => (s, .one none)
    else (s, .err)
  | .fetchmany k =>
    if s.valid then
      let got := (s.rows.drop s.pos).take (k.getD s.arraysize)
      ({ s with pos := s.pos + got.length }, .many got)
    else (s, .err)
  | .fetchall =>
    if s.valid then
      let got := s.rows.drop s.pos
      ({ s with pos := s.pos + got.length }, .many got)
    else (s, .err)
  | .setArraysize n => ({ s with arraysize := n }, .unit)
  | .observe => (s, .unit)
  | .append r => ({ s with rows := s.rows ++ [r], valid := false }, .unit)

/-- The rows delivered by one output. -/
def fetched : Out α → List α
  | .one (some r) => [r]
  | .many rs => rs
  | _ => []

/-- Run a history, collecting outputs oldest first. -/
def run (s : State α) : List (Op α) → State α × List (Out α)
  | [] => (s, [])
  | op :: ops =>
    let (s1, o) := step s op
    let (s2, os) := run s1 ops
    (s2, o :: os)

def delivered (outs : List (Out α)) : List α := outs.flatMap fetched

end Cursor
