import OrsoVerif.Generated.CursorExpr
/-!
# C04 — the DB-API style cursor of `orso.DataFrame`

Two machines over the same operations.

* **Spec machine** (`State`, `step`, `run`): a position into the list of rows; `fetchmany` is
  `take`/`drop`.  The property theorems are stated and proved about it.
* **Code machine** (`Frame`, `Impl.step`, `Impl.run`): what `orso/dataframe.py` does, line by line.
  The cursor is an *iterator* (`Backing.next`): a list iterator over a materialised row store
  (`dataframe.py:93`, `iter(self._rows or [])`) or, for a lazily backed frame, the backing iterator
  itself (`_rows` and `_cursor` are the same object).  `fetchone` is one `next`, `fetchmany` the loop
  `for i in range(fetch_size): try next … except StopIteration: break` (`dataframe.py:281-292`),
  `fetchall` is `list(cursor)`.  Guards, the fetch size expression, the liveness of the cursor created
  by `__init__` and the path condition under which `append` reaches `self._cursor = None` are *not*
  written here: they are `Gen.Cursor.*`, regenerated from the working tree on every run.

`Props/C04.lean` proves that the code machine refines the spec machine (every history, eager and lazy).

The lazy source is `Chunks`: `converters._RowsIterator` (`converters.py:23-66`) over a list of Arrow
tables, some of which may be empty.  A generator `(r for r in rows)`, and the generators behind
`select`/`filter`/`take` (one parent row = a chunk of one or zero rows), are instances of it.
-/
namespace Cursor

/-- What an observer touches. `pure`: schema only (`column_names`, `description`, …); `rows`: goes
through `materialize()` or iterates the store; `nbytes`: `nbytes()`, which also starts the running byte
total (`dataframe.py:128-133`). -/
inductive Obs where
  | pure | rows | nbytes
  deriving Repr, DecidableEq

inductive Op (α : Type) where
  | fetchone
  | fetchmany (k : Option Nat)
  | fetchall
  | setArraysize (n : Nat)
  | observe (kind : Obs)
  | append (r : α)
  /-- an `append` that is left by an exception — the record is rejected (schema validation, a record that is
  not a mapping, a row that cannot be sized).  `stage` is the statement of `append` that raised (an index
  into `Gen.Cursor.appendPoints`, regenerated from the source); `r` the row that would have been stored.
  `drops` is read by the spec machine only: whether the rejected append left the cursor dropped — the code
  machine computes that from the source's statement order and its own state (`Impl.tag`). -/
  | reject (stage : Nat) (drops : Bool) (r : α)
  deriving Repr

inductive Out (α : Type) where
  | one (r : Option α)
  | many (rs : List α)
  | unit
  | err
  /-- the operation is outside the property's domain for this frame (a row-level observer on a lazily backed
  frame); the code machine does not claim anything about it -/
  | outside
  deriving Repr, DecidableEq

variable {α : Type}

/-! ## Spec machine -/

structure State (α : Type) where
  rows : List α
  pos : Nat
  arraysize : Nat
  valid : Bool
  deriving Repr

def init (defaultArraysize : Nat) (rows : List α) : State α :=
  { rows := rows, pos := 0, arraysize := defaultArraysize, valid := true }

def step (s : State α) : Op α → State α × Out α
  | .fetchone =>
    if s.valid then
      match s.rows[s.pos]? with
      | some r => ({ s with pos := s.pos + 1 }, .one (some r))
      | none => (s, .one none)
    else (s, .err)
  | .fetchmany k =>
    if s.valid then
      let got := (s.rows.drop s.pos).take (k.getD s.arraysize)
      ({ s with pos := s.pos + got.length }, .many got)
    else (s, .err)
  | .fetchall =>
    if s.valid then
      let got := s.rows.drop s.pos
      ({ s with pos := s.pos + got.length }, .many got)
    else (s, .err)
  | .setArraysize n => ({ s with arraysize := n }, .unit)
  | .observe _ => (s, .unit)
  | .append r => ({ s with rows := s.rows ++ [r], valid := false }, .unit)
  -- a rejected append adds no row; the fetch calls may refuse afterwards (always safe), nothing else
  | .reject _ drops _ => ({ s with valid := s.valid && !drops }, .unit)

/-- The rows delivered by one output. -/
def fetched : Out α → List α
  | .one (some r) => [r]
  | .many rs => rs
  | _ => []

/-- Run a history, collecting outputs oldest first. -/
def run (s : State α) : List (Op α) → State α × List (Out α)
  | [] => (s, [])
  | op :: ops =>
    let (s1, o) := step s op
    let (s2, os) := run s1 ops
    (s2, o :: os)

def delivered (outs : List (Out α)) : List α := outs.flatMap fetched

/-! ## The lazy source: `converters._RowsIterator` -/

/-- `tables`: the Arrow tables not loaded yet (each already as its list of rows, `process_table`);
`current`: the unread rest of the loaded table; `processed`/`maxSize`: `rows_processed`/`max_size`
(`none` = `float("inf")`). -/
structure Chunks (α : Type) where
  tables : List (List α)
  current : List α
  processed : Nat
  maxSize : Option Nat
  deriving Repr

/-- `if self.rows_processed >= self.max_size: raise StopIteration()` (`converters.py:49`). -/
def Chunks.limit (c : Chunks α) : Bool :=
  match c.maxSize with
  | none => false
  | some m => decide (Gen.Cursor.limitReached (c.processed : Int) (m : Int))

/-- The `while row is None:` loop of `__next__` (`converters.py:53-63`): load tables until one has a
row.  Returns the row found with the rest of its table, and the tables still unloaded.  When the source
says `if` instead of `while` (`skipsEmptyTables = false`) one table is loaded and an empty one ends the
stream there. -/
def skipLoad : List (List α) → Option (α × List α) × List (List α)
  | [] => (none, [])
  | [] :: ts => if Gen.Cursor.skipsEmptyTables then skipLoad ts else (none, ts)
  | (r :: rest) :: ts => (some (r, rest), ts)

def Chunks.bump (c : Chunks α) : Nat := (Gen.Cursor.processedAfter (c.processed : Int)).toNat

/-- `_RowsIterator.__next__`; `none` is `StopIteration`. -/
def Chunks.next (c : Chunks α) : Option α × Chunks α :=
  if c.limit then (none, c)
  else
    match c.current with
    | r :: rest => (some r, { c with current := rest, processed := c.bump })
    | [] =>
      match skipLoad c.tables with
      | (some (r, rest), ts) => (some r, { c with tables := ts, current := rest, processed := c.bump })
      | (none, ts) => (none, { c with tables := ts, current := [] })

/-- Abstraction: the rows the source has still to produce. -/
def Chunks.rows (c : Chunks α) : List α :=
  let all := c.current ++ c.tables.flatten
  match c.maxSize with
  | none => all
  | some m => all.take (m - c.processed)

/-- `list(self._rows)` in `materialize()` (`dataframe.py:200-201`) runs the iterator to its end: nothing is
left in it, and (a generator, `_RowsIterator`) it stays at its end. -/
def Chunks.drain (c : Chunks α) : Chunks α := { c with tables := [], current := [] }

def Chunks.ofTables (tables : List (List α)) (maxSize : Option Nat) : Chunks α :=
  { tables := tables, current := [], processed := 0, maxSize := maxSize }

/-! ## Code machine -/

/-- The row store together with the cursor over it. -/
inductive Backing (α : Type) where
  /-- `_rows` is a list; `_cursor` a list iterator at `pos`, or (`none`) a list iterator that has
  raised `StopIteration` once — CPython drops the list then, it never yields again -/
  | eager (rows : List α) (pos : Option Nat)
  /-- `_rows` and `_cursor` are the same iterator object -/
  | lazy (src : Chunks α)
  deriving Repr

/-- `next(self._cursor)`; `none` is `StopIteration`. -/
def Backing.next : Backing α → Option α × Backing α
  | .eager rows (some p) =>
    match rows[p]? with
    | some r => (some r, .eager rows (some (p + 1)))
    | none => (none, .eager rows none)
  | .eager rows none => (none, .eager rows none)
  | .lazy src => let (r, src') := src.next; (r, .lazy src')

/-- The loop of `fetchmany` (`dataframe.py:286-291`): at most `n` times `next`, stop at the first
`StopIteration`. -/
def pull : Nat → Backing α → List α × Backing α
  | 0, b => ([], b)
  | n + 1, b =>
    match b.next with
    | (some r, b') => let (rs, b'') := pull n b'; (r :: rs, b'')
    | (none, b') => ([], b')

/-- One turn of the body of a `for` loop: go on with the next turn, or `break`. -/
inductive Loop (σ : Type) where
  | next (s : σ)
  | stop (s : σ)

/-- `for _ in range(n): body` where the body may `break`; `σ` is the tuple of variables the body assigns.
Used by the statement-level translation of `fetchmany` (`Generated/CursorFns.lean`). -/
def forRange {σ : Type} : Nat → σ → (σ → Loop σ) → σ
  | 0, s, _ => s
  | n + 1, s, body =>
    match body s with
    | .next s' => forRange n s' body
    | .stop s' => s'

/-- Abstraction: the rows the cursor has still to deliver. -/
def Backing.rest : Backing α → List α
  | .eager rows (some p) => rows.drop p
  | .eager _ none => []
  | .lazy src => src.rows

/-- `list(self._cursor)` is `next` until `StopIteration`; that is `pull` with enough fuel.  The fuel is
one more than the number of rows that can still come (`pull_fuel` in `Lemmas/Cursor.lean`: more fuel
changes nothing). -/
def Backing.fuel : Backing α → Nat
  | .eager rows _ => rows.length + 1
  | .lazy src => src.current.length + src.tables.flatten.length + 1

structure Frame (α : Type) where
  backing : Backing α
  arraysize : Nat
  /-- `self._cursor is not None` -/
  live : Bool
  /-- `self._nbytes is not None` -/
  nbytesTracked : Bool
  /-- `isinstance(self._schema, RelationSchema)` -/
  schemaRel : Bool
  deriving Repr

/-- How many times the loop of `fetchmany` runs: `range(loopBound (fetch_size))`, a negative bound is an
empty range. -/
def fetchCount (arraysize : Nat) (k : Option Nat) : Nat :=
  (Gen.Cursor.loopBound (Gen.Cursor.fetchSize (arraysize : Int) (k.map Int.ofNat))).toNat

/-- What `append` has done when it is left by an exception at statement `stage` (`Gen.Cursor.appendPoints`,
regenerated from the source); a statement the table does not have: nothing yet. -/
def rejectPoint (stage : Nat) : Gen.Cursor.AppendPoint :=
  (Gen.Cursor.appendPoints[stage]?).getD ⟨fun _ _ _ => false, fun _ _ _ => false, fun _ _ _ => false⟩

namespace Impl

/-- Does a rejected append (left at statement `stage`) leave `self._cursor = None` behind?  `_rows` of a
lazily backed frame is not a list: `append` starts with `materialize()` and drops the cursor it has just
run to its end (`dataframe.py:137-140`) — before any statement that can reject the record. -/
def rejectDrops (f : Frame α) (stage : Nat) : Bool :=
  match f.backing with
  | .eager _ _ => (rejectPoint stage).dropped true f.schemaRel f.nbytesTracked
  | .lazy _ => (rejectPoint stage).dropped false f.schemaRel f.nbytesTracked

/-- Has a rejected append (left at statement `stage`) stored the row already? -/
def rejectStores (f : Frame α) (stage : Nat) : Bool :=
  match f.backing with
  | .eager _ _ => (rejectPoint stage).stored true f.schemaRel f.nbytesTracked
  | .lazy _ => (rejectPoint stage).stored false f.schemaRel f.nbytesTracked

/-- `DataFrame(rows=[...], schema=…)` / `DataFrame(dictionaries)` (`dicts = true`: the running byte
total is not kept until `nbytes()` is called, `dataframe.py:63,91`). -/
def initEager (d : Nat) (rows : List α) (dicts schemaRel : Bool) : Frame α :=
  { backing := .eager rows (some 0), arraysize := d,
    live := Gen.Cursor.initCursorLive (!rows.isEmpty),
    nbytesTracked := !dicts, schemaRel := schemaRel }

/-- `DataFrame(rows=<iterator>, schema=…)`: a generator is truthy whatever it holds. -/
def initLazy (d : Nat) (tables : List (List α)) (maxSize : Option Nat) (schemaRel : Bool) : Frame α :=
  { backing := .lazy (Chunks.ofTables tables maxSize), arraysize := d,
    live := Gen.Cursor.initCursorLive true, nbytesTracked := true, schemaRel := schemaRel }

def step (f : Frame α) : Op α → Frame α × Out α
  | .fetchone =>
    if Gen.Cursor.fetchoneRefuses (!f.live) then (f, .err)
    else let (r, b) := f.backing.next; ({ f with backing := b }, .one r)
  | .fetchmany k =>
    if Gen.Cursor.fetchmanyRefuses (!f.live) then (f, .err)
    else let (rs, b) := pull (fetchCount f.arraysize k) f.backing; ({ f with backing := b }, .many rs)
  | .fetchall =>
    if Gen.Cursor.fetchallRefuses (!f.live) then (f, .err)
    else let (rs, b) := pull f.backing.fuel f.backing; ({ f with backing := b }, .many rs)
  | .setArraysize n => ({ f with arraysize := n }, .unit)
  | .observe k =>
    match f.backing, k with
    | .eager _ _, .nbytes => ({ f with nbytesTracked := true }, .unit)
    | .eager _ _, _ => (f, .unit)
    | .lazy _, .pure => (f, .unit)
    | .lazy _, _ => (f, .outside)
  | .append r =>
    match f.backing with
    | .eager rows p =>
      ({ f with backing := .eager (rows ++ [r]) p,
                live := f.live && !(Gen.Cursor.appendInvalidates f.schemaRel f.nbytesTracked) }, .unit)
    -- `_rows` is not a list (`dataframe.py:137-140`): `materialize()` runs the iterator — which *is* the
    -- cursor — to its end; the cursor is then whatever the source leaves it.  (Which rows the list holds after
    -- that is not this property's business: the store of a frame that started lazily is not tracked.)
    | .lazy src =>
      ({ f with backing := .lazy (if Gen.Cursor.appendMaterializes false f.schemaRel f.nbytesTracked then src.drain else src),
                live := f.live && !(Gen.Cursor.appendDropsCursor false f.schemaRel f.nbytesTracked),
                nbytesTracked := f.nbytesTracked }, .unit)
  | .reject stage _ r =>
    match f.backing with
    | .eager rows p =>
      ({ f with backing := .eager (if rejectStores f stage then rows ++ [r] else rows) p,
                live := f.live && !(rejectDrops f stage) }, .unit)
    | .lazy src =>
      ({ f with backing := .lazy (if (rejectPoint stage).materialized false f.schemaRel f.nbytesTracked then src.drain else src),
                live := f.live && !(rejectDrops f stage) }, .unit)

/-- The operation as the spec machine reads it: a rejected append says whether it left the cursor dropped;
one that is left after the row was stored *is* an append, for the frame. -/
def tag (f : Frame α) : Op α → Op α
  | .reject stage _ r => if rejectStores f stage then .append r else .reject stage (rejectDrops f stage) r
  | op => op

/-- A history annotated for the spec machine along the run of the code machine. -/
def annot (f : Frame α) : List (Op α) → List (Op α)
  | [] => []
  | op :: ops => tag f op :: annot (step f op).1 ops

def run (f : Frame α) : List (Op α) → Frame α × List (Out α)
  | [] => (f, [])
  | op :: ops =>
    let (f1, o) := step f op
    let (f2, os) := run f1 ops
    (f2, o :: os)

/-- The row store as a list, when it is one. -/
def store (f : Frame α) : Option (List α) :=
  match f.backing with
  | .eager rows _ => some rows
  | .lazy _ => none

end Impl

/-! ## Several frames: a frame and the frames derived from it

`slice` / `head` / `tail` / `query` / `distinct` / `+` / `to_batches` hand out a *new* `DataFrame` built
with `rows=…` (`dataframe.py:160-173,198-214,265-273,344-356,506-511`).  Every frame has its own cursor;
whether it also has its own row list is what the source says (`Gen.Cursor.*OwnsRows`, regenerated on
every run): `rows=self._rows[a:b]` is a copy, `rows=self._rows` is the parent's list itself.  In the
second case `append` through one frame grows the list the cursor of the other is walking — that frame
was not appended to, its cursor is not invalidated, and a CPython list iterator that has not yet raised
`StopIteration` delivers the foreign row.  The model keeps row lists by value and records such pairs in
`links`; an append is replayed on the linked frames (store only — not `live`).

`Props/C04.lean` proves that with what the source says now no links arise and every frame of a system
runs its own history, whatever is done to the others (`frames_independent`). -/

/-- The methods that derive a materialised frame. -/
inductive Deriv where
  | slice | head | tail | query | distinct | add | batches
  deriving Repr, DecidableEq

def Deriv.owns : Deriv → Bool
  | .slice => Gen.Cursor.sliceOwnsRows
  | .head => Gen.Cursor.headOwnsRows
  | .tail => Gen.Cursor.tailOwnsRows
  | .query => Gen.Cursor.queryOwnsRows
  | .distinct => Gen.Cursor.distinctOwnsRows
  | .add => Gen.Cursor.addOwnsRows
  | .batches => Gen.Cursor.batchesOwnsRows

inductive SysOp (α : Type) where
  /-- an operation on frame `i` -/
  | on (i : Nat) (op : Op α)
  /-- frame `i` hands out a materialised frame holding `rows` (which rows a derivation selects is not
  this property's business: they are a parameter) -/
  | derive (i : Nat) (how : Deriv) (rows : List α)
  /-- frame `i` hands out a lazily backed frame (`select` / `filter` / `take`: a generator, one chunk of
  one or zero rows per parent row) -/
  | deriveLazy (i : Nat) (tables : List (List α))
  deriving Repr

structure Sys (α : Type) where
  frames : List (Frame α)
  /-- pairs of frames that hold the same list object -/
  links : List (Nat × Nat)
  /-- `arraysize` of a new frame (`dataframe.py:93`) -/
  default : Nat
  deriving Repr

namespace Sys

def init (d : Nat) (f : Frame α) : Sys α := { frames := [f], links := [], default := d }

/-- The frames that hold the same list as frame `i` (one step; a frame derived from an alias is linked
to every holder when it is made). -/
def linked (links : List (Nat × Nat)) (i : Nat) : List Nat :=
  links.filterMap (fun (a, b) => if a = i then some b else if b = i then some a else none)

/-- `self._rows.append(row)` seen from another holder of the list: the store grows, nothing else. -/
def grow (r : α) (f : Frame α) : Frame α :=
  match f.backing with
  | .eager rows p => { f with backing := .eager (rows ++ [r]) p }
  | .lazy _ => f

def growAll (r : α) (js : List Nat) (frames : List (Frame α)) : List (Frame α) :=
  js.foldl (fun fs j => match fs[j]? with | some f => fs.set j (grow r f) | none => fs) frames

def step (s : Sys α) : SysOp α → Sys α × Out α
  | .on i op =>
    match s.frames[i]? with
    | none => (s, .outside)
    | some f =>
      let (f', o) := Impl.step f op
      let frames := s.frames.set i f'
      match op, f.backing with
      | .append r, .eager _ _ => ({ s with frames := growAll r (linked s.links i) frames }, o)
      | _, _ => ({ s with frames := frames }, o)
  | .derive i how rows =>
    match s.frames[i]? with
    | none => (s, .outside)
    | some f =>
      match f.backing with
      | .lazy _ => (s, .outside)   -- a derivation reads the rows: outside the lazy clause
      | .eager prows _ =>
        if how.owns then
          ({ s with frames := s.frames ++ [Impl.initEager s.default rows false f.schemaRel] }, .unit)
        else
          let n := s.frames.length
          ({ s with frames := s.frames ++ [Impl.initEager s.default prows false f.schemaRel],
                    links := s.links ++ (i :: linked s.links i).map (fun j => (n, j)) }, .unit)
  | .deriveLazy i tables =>
    match s.frames[i]? with
    | none => (s, .outside)
    | some f =>
      match f.backing with
      | .lazy _ => (s, .outside)
      | .eager _ _ => ({ s with frames := s.frames ++ [Impl.initLazy s.default tables none false] }, .unit)

def run (s : Sys α) : List (SysOp α) → Sys α × List (Out α)
  | [] => (s, [])
  | op :: ops =>
    let (s1, o) := step s op
    let (s2, os) := run s1 ops
    (s2, o :: os)

/-- The history of frame `i` inside a history of the system. -/
def proj (i : Nat) : List (SysOp α) → List (Op α)
  | [] => []
  | .on j op :: ops => if j = i then op :: proj i ops else proj i ops
  | _ :: ops => proj i ops

/-- What the operations on frame `i` returned, oldest first. -/
def trace (i : Nat) : List (SysOp α) → List (Out α) → List (Out α)
  | .on j _ :: ops, o :: os => if j = i then o :: trace i ops os else trace i ops os
  | _ :: ops, _ :: os => trace i ops os
  | _, _ => []

end Sys

/-- The operations of the property's lazy clause: the frame is read only through the cursor
(schema-level observers do not read rows). -/
def LazyOk : Op α → Bool
  | .fetchone | .fetchmany _ | .fetchall | .setArraysize _ | .observe .pure => true
  -- `append` is not a read: it is in the property for every frame ("once a row has been appended the fetch
  -- calls refuse"), and so is an append that is rejected
  | .append _ | .reject _ _ _ => true
  | _ => false

/-- The rows of a frame backed by `tables` with `max_size`. -/
def chunkRows (tables : List (List α)) (maxSize : Option Nat) : List α :=
  match maxSize with
  | none => tables.flatten
  | some m => tables.flatten.take m

/-! ### the lazy views of a materialised frame (`select` / `filter` / `take`, `dataframe.py:175-189,275-288`)
as chunk sources: one chunk of one or zero rows per parent row.  This is the shape the harness hands the
model (`layout()` in harness/props/c04.py) and the shape the lazy clause is proved for;
`C04.generated_views_are_chunk_sources` proves that the generators in the source produce exactly these
rows. -/

/-- `filter(mask)`: `zip` stops at the shorter of rows and mask. -/
def filterChunks (rows : List α) (mask : List Bool) : List (List α) :=
  (rows.zip mask).map (fun (t, m) => if m then [t] else [])

/-- `take(indexes)`: the rows whose position is among the indexes, in frame order. -/
def takeChunks (rows : List α) (indexes : List Nat) : List (List α) :=
  rows.zipIdx.map (fun (m, i) => if i ∈ indexes then [m] else [])

/-- `select(columns)`: every parent row gives one row, the values at the chosen positions. -/
def selectChunks {β : Type} (get : α → Nat → β) (rows : List α) (cols : List Nat) : List (List (List β)) :=
  rows.map (fun tup => [cols.map (get tup)])

end Cursor
