import OrsoVerif.Model.PyVal
/-!
# Wire codec between the Python harness and the model driver

Space-separated prefix tokens:
`N` `T` `F` `I<dec>` `D<16 hex>` `S<hex utf-8>` `B<hex>` `L<n> …` `M<n> k v …`.
The same codec lives in `harness/wire.py`; every run round-trips random values
through the driver's `echo` op before anything else is compared.
-/

namespace Wire

def hexDigit (n : Nat) : Char :=
  if n < 10 then Char.ofNat (48 + n) else Char.ofNat (87 + n)

def hexByte (b : UInt8) : List Char := [hexDigit (b.toNat / 16), hexDigit (b.toNat % 16)]

def hexOfBytes (bs : List UInt8) : String := String.ofList (bs.flatMap hexByte)

def hexVal (c : Char) : Option Nat :=
  if '0' ≤ c ∧ c ≤ '9' then some (c.toNat - 48)
  else if 'a' ≤ c ∧ c ≤ 'f' then some (c.toNat - 87)
  else if 'A' ≤ c ∧ c ≤ 'F' then some (c.toNat - 55)
  else none

def bytesOfHexChars : List Char → Option (List UInt8)
  | [] => some []
  | [_] => none
  | a :: b :: rest => do
    let x ← hexVal a
    let y ← hexVal b
    let r ← bytesOfHexChars rest
    pure (UInt8.ofNat (x * 16 + y) :: r)

def bytesOfHex (s : String) : Option (List UInt8) := bytesOfHexChars s.toList

def natOfHexChars (cs : List Char) : Option Nat :=
  cs.foldlM (fun acc c => do let v ← hexVal c; pure (acc * 16 + v)) 0

def hex64 (n : UInt64) : String :=
  let ds := (List.range 16).map fun i => hexDigit ((n.toNat / 16 ^ (15 - i)) % 16)
  String.ofList ds

def strToken (s : String) : String := "S" ++ hexOfBytes s.toUTF8.toList

mutual
def render : PyVal → List String
  | .none => ["N"]
  | .bool true => ["T"]
  | .bool false => ["F"]
  | .int i => ["I" ++ toString i]
  | .float b => ["D" ++ hex64 b]
  | .str s => [strToken s]
  | .bytes b => ["B" ++ hexOfBytes b]
  | .list xs => ("L" ++ toString xs.length) :: renderL xs
  | .dict kvs => ("M" ++ toString kvs.length) :: renderD kvs
def renderL : List PyVal → List String
  | [] => []
  | x :: xs => render x ++ renderL xs
def renderD : List (String × PyVal) → List String
  | [] => []
  | (k, v) :: rest => strToken k :: (render v ++ renderD rest)
end

def renderLine (v : PyVal) : String := " ".intercalate (render v)
def renderAll (vs : List PyVal) : String := " ".intercalate (vs.flatMap render)

def decodeStr (hex : String) : Option String := do
  let bs ← bytesOfHex hex
  String.fromUTF8? (ByteArray.mk bs.toArray)

def parseN (p : List String → Option (PyVal × List String)) :
    Nat → List String → Option (List PyVal × List String)
  | 0, ts => some ([], ts)
  | n + 1, ts => do
    let (v, ts) ← p ts
    let (vs, ts) ← parseN p n ts
    pure (v :: vs, ts)

def parseKV (p : List String → Option (PyVal × List String)) :
    Nat → List String → Option (List (String × PyVal) × List String)
  | 0, ts => some ([], ts)
  | n + 1, ts =>
    match ts with
    | [] => none
    | k :: ts => do
      if k.front ≠ 'S' then none
      let ks ← decodeStr (k.drop 1).toString
      let (v, ts) ← p ts
      let (vs, ts) ← parseKV p n ts
      pure ((ks, v) :: vs, ts)

def parse : Nat → List String → Option (PyVal × List String)
  | 0, _ => none
  | _, [] => none
  | fuel + 1, t :: ts =>
    let body := (t.drop 1).toString
    match t.front with
    | 'N' => some (.none, ts)
    | 'T' => some (.bool true, ts)
    | 'F' => some (.bool false, ts)
    | 'I' => (body.toInt?).map fun i => (.int i, ts)
    | 'D' => (natOfHexChars body.toList).map fun n => (.float (UInt64.ofNat n), ts)
    | 'S' => (decodeStr body).map fun s => (.str s, ts)
    | 'B' => (bytesOfHex body).map fun b => (.bytes b, ts)
    | 'L' => do
      let n ← body.toNat?
      let (vs, ts) ← parseN (parse fuel) n ts
      pure (.list vs, ts)
    | 'M' => do
      let n ← body.toNat?
      let (kvs, ts) ← parseKV (parse fuel) n ts
      pure (.dict kvs, ts)
    | _ => none

/-- Parse a whole token list into values (all tokens must be consumed). -/
def parseAll (ts : List String) : Option (List PyVal) :=
  let rec go : Nat → List String → Option (List PyVal)
    | 0, _ => none
    | _, [] => some []
    | n + 1, ts => do
      let (v, rest) ← parse (ts.length + 1) ts
      let vs ← go n rest
      pure (v :: vs)
  go (ts.length + 1) ts

def tokens (line : String) : List String :=
  (line.splitOn " ").filter (· ≠ "")

end Wire
