import OrsoVerif.Model.PyVal
import OrsoVerif.Model.Np
import OrsoVerif.Model.NpDtype
import OrsoVerif.Generated.Encodings
/-!
# C09 — the compressed column encodings of `orso/schema.py`

`RLEColumn`, `DictionaryColumn`, `SparseColumn`, `ConstantColumn`, `FunctionColumn`.
Each class stores a compressed form in its constructor and expands it in `materialize()`.

The first part is polymorphic in the element type: the equality used by the run
detection (`value == prev_value`, schema.py:447) and by the sparse scan
(`numpy.array(values) != default_value`, schema.py:409) enters as a Boolean
parameter, because for floats it is IEEE equality (NaN ≠ NaN) and not structural
equality.  The second part models numpy's dtypes for the element kinds the property
quantifies over (integers, floats, text of a width, booleans, nulls): which dtype
`numpy.array(list)` infers, which dtype the repaired `SparseColumn.materialize`
chooses for its result, and what storing a value into an array of a dtype does to it.
-/
namespace Enc

variable {α β : Type}

/-! ## Run-length encoding (`RLEColumn`, schema.py:424-468) -/

/-- The stored form: `self.values` (one entry per run) and `self.lengths`. -/
structure RLE (α : Type) where
  values : List α
  lengths : List Nat
  deriving Repr

/-- The run detection loop, schema.py:446-455: `prev` is `prev_value`, `run` is
`run_length`; `eq v prev` is `value == prev_value`.  When the input is exhausted the
last run is appended (schema.py:457-458). -/
def rleLoop (eq : α → α → Bool) (prev : α) (run : Nat) : List α → List (α × Nat)
  | [] => [(prev, run)]
  | v :: vs =>
    if eq v prev then rleLoop eq prev (run + 1) vs
    else (prev, run) :: rleLoop eq v 1 vs

/-- `RLEColumn.__init__`: the empty input returns early with no runs (schema.py:439-441);
otherwise the loop starts with the first element and the run length the source assigns
(`run_length = 1`, extracted into `Gen.Encodings.runStart` on every run). -/
def rleEncode (eq : α → α → Bool) : List α → RLE α
  | [] => ⟨[], []⟩
  | x :: xs =>
    let runs := rleLoop eq x Gen.Encodings.runStart xs
    ⟨runs.map (·.1), runs.map (·.2)⟩

/-- `RLEColumn.materialize`, schema.py:463-468: `zip(self.values, self.lengths)`, each value
repeated. -/
def rleDecode (e : RLE α) : List α :=
  (e.values.zip e.lengths).flatMap fun p => List.replicate p.2 p.1

/-- An element-wise operation on the stored values (`col.values = f(col.values)`). -/
def RLE.mapValues (f : α → β) (e : RLE α) : RLE β := ⟨e.values.map f, e.lengths⟩

/-! ## Dictionary encoding (`DictionaryColumn`, schema.py:471-493) -/

/-! (`dedup`, the distinct elements of a list, is in `Model/Np.lean`.) -/

/-- The stored form: `self.values` (sorted distinct entries) and `self.encoding`. -/
structure Dict (α : Type) where
  values : List α
  codes : List Nat
  deriving Repr

/-- `numpy.unique(values, return_inverse=True)`, schema.py:486: the distinct values in
ascending order (`le`) and, for each input element, the position of its entry. -/
def dictEncode [DecidableEq α] (le : α → α → Bool) (xs : List α) : Dict α :=
  let vals := (dedup xs).mergeSort le
  ⟨vals, xs.map fun x => vals.idxOf x⟩

/-- `self.values[self.encoding]`, schema.py:492: a gather; `none` is numpy's `IndexError`
for a code outside the dictionary. -/
def dictDecode (e : Dict α) : Option (List α) := e.codes.mapM fun c => e.values[c]?

def Dict.mapValues (f : α → β) (e : Dict α) : Dict β := ⟨e.values.map f, e.codes⟩

/-! ## Sparse encoding (`SparseColumn`, schema.py:397-421) -/

/-- The stored form: `self.indices`, `self.values`, `self.total_length`. -/
structure Sparse (α : Type) where
  indices : List Nat
  values : List α
  total : Nat
  deriving Repr

/-- `numpy.where(numpy.array(values) != default_value)` together with the gather of the next
line (schema.py:409-410): positions and values of the elements with `ne x d`. -/
def sparseScan (ne : α → α → Bool) (d : α) : Nat → List α → List (Nat × α)
  | _, [] => []
  | i, x :: xs =>
    if ne x d then (i, x) :: sparseScan ne d (i + 1) xs else sparseScan ne d (i + 1) xs

def sparseEncode (ne : α → α → Bool) (d : α) (xs : List α) : Sparse α :=
  let ps := sparseScan ne d 0 xs
  ⟨ps.map (·.1), ps.map (·.2), xs.length⟩

/-! (`scatter`, `materialized[indices] = values` one assignment at a time, is in `Model/Np.lean`.) -/

/-- `SparseColumn.materialize`: a default-filled array of the total length, then the scatter.
`none` stands for what numpy refuses (index out of range) or what is outside the model
(a value array whose length differs from the index array's: numpy broadcasts or raises). -/
def sparseDecode (d : α) (e : Sparse α) : Option (List α) :=
  if e.indices.length = e.values.length then
    scatter (List.replicate e.total d) (e.indices.zip e.values)
  else none

def Sparse.mapValues (f : α → β) (e : Sparse α) : Sparse β := ⟨e.indices, e.values.map f, e.total⟩

/-! ## Constant and function columns (schema.py:347-394) -/

/-- `ConstantColumn`: `self.values = numpy.array([self.value])` and `self.length`. -/
structure Const (α : Type) where
  values : List α
  length : Nat
  deriving Repr

def constEncode (v : α) (n : Nat) : Const α := ⟨[v], n⟩

/-- `numpy.full(self.length, self.values)`: a one-element array is broadcast to the length.
`none`: any other shape is outside the model (numpy broadcasts only equal lengths). -/
def constDecode (e : Const α) : Option (List α) :=
  match e.values with
  | [v] => some (List.replicate e.length v)
  | _ => none

def Const.mapValues (f : α → β) (e : Const α) : Const β := ⟨e.values.map f, e.length⟩

/-- `FunctionColumn.materialize`: the binding is called once on the configuration and the
value is repeated (`numpy.array([value] * self.length)`). -/
def functionExpand {γ : Type} (binding : γ → α) (configuration : γ) (length : Nat) : List α :=
  List.replicate length (binding configuration)

/-! ### Families of function columns: several columns, one binding, a history of expansions -/

/-- One expansion inside a history: the column's own binding, configuration and length at that moment
(a new column object, or an earlier one whose attributes were reassigned: only the three values matter). -/
structure FnUse (γ α : Type) where
  binding : γ → α
  configuration : γ
  length : Nat

/-- A history of expansions on the code as it stands: each one is the translated
`FunctionColumn.materialize` (`Gen.Encodings.functionMaterialize`) run on that column's fields. -/
def familyRun {γ : Type} (us : List (FnUse γ α)) : List (Option (List α)) :=
  us.map fun u => Gen.Encodings.functionMaterialize u.binding u.configuration u.length

/-- What the property demands of such a history: every expansion is that use's own
`functionExpand` (the binding's value on *its* configuration, repeated to *its* length). -/
def familyExpand {γ : Type} (us : List (FnUse γ α)) : List (List α) :=
  us.map fun u => functionExpand u.binding u.configuration u.length

/-- The class of change "remember the binding's value per configuration" (a module-level memo in
front of the binding): the memo is consulted with a key comparison `keq`; on a hit the remembered
value is used, otherwise the binding is called and the pair appended. -/
def memoLookup {κ : Type} (keq : κ → κ → Bool) (memo : List (κ × α)) (k : κ) (compute : κ → α) : α × List (κ × α) :=
  match memo.find? (fun e => keq e.1 k) with
  | some e => (e.2, memo)
  | none => (compute k, memo ++ [(k, compute k)])

/-- A history of expansions of function columns over one shared binding, evaluated through such a memo
(`(configuration, length)` per expansion). -/
def memoFamily {γ : Type} (keq : γ → γ → Bool) (binding : γ → α) : List (γ × α) → List (γ × Nat) → List (List α)
  | _, [] => []
  | memo, (c, n) :: rest =>
    List.replicate n (memoLookup keq memo c binding).1 :: memoFamily keq binding (memoLookup keq memo c binding).2 rest

/-! ## numpy dtypes for the element kinds of the property -/

/-- `bool < int < float` (numeric promotion), text of a width, `object` on top. -/
inductive DType where
  | bool | int | float
  | str (w : Nat)
  | object
  deriving DecidableEq, Repr

namespace DType

def numeric : DType → Bool
  | .bool | .int | .float => true
  | _ => false

def rank : DType → Nat
  | .bool => 0 | .int => 1 | .float => 2 | _ => 3

/-- The order of the lattice: numeric chain, text by width, everything below `object`. -/
def le : DType → DType → Bool
  | _, .object => true
  | .str w, .str w' => w ≤ w'
  | .str _, _ => false
  | _, .str _ => false
  | .object, _ => false
  | a, b => a.rank ≤ b.rank

/-- The dtype the repaired `SparseColumn.materialize` gives its result: numbers promote among
themselves, text takes the wider width, anything else is held as objects. -/
def join : DType → DType → DType
  | .str w, .str w' => .str (max w w')
  | .object, _ | _, .object => .object
  | .str _, _ | _, .str _ => .object
  | a, b => if a.rank ≤ b.rank then b else a

/-- numpy's `dtype.kind` character. -/
def kind : DType → String
  | .bool => "b" | .int => "i" | .float => "f" | .str _ => "U" | .object => "O"

end DType

/-- The five-point lattice as an abstraction of numpy's dtypes: every integer width is `int`, every
float width `float`; complex numbers are outside the property's element kinds (`none`). -/
def NpDType.abs : NpDType → Option DType
  | .object => some .object
  | .str w => some (.str w)
  | .num n =>
    match Gen.NpDtypes.kind n with
    | .b => some .bool
    | .i | .u => some .int
    | .f => some .float
    | _ => none

/-- `numpy.array(list).dtype` with the widths numpy chooses: `int64`, `float64`, `bool`. -/
def DType.np : DType → NpDType
  | .bool => .num .bool
  | .int => .num .i64
  | .float => .num .f64
  | .str w => .str w
  | .object => .object

def inInt64 (i : Int) : Bool := -9223372036854775808 ≤ i && i ≤ 9223372036854775807

/-- Text ending in a NUL character: a fixed-width text array cannot hold it (reading drops trailing NULs,
`Np.textRead`; open finding C09-K03), so it is outside the model. -/
def endsNul (s : String) : Bool := s.toList.getLast? == some '\x00'

/-- `numpy.asarray(scalar).dtype`; `none`: outside the modelled kinds (integers beyond int64
become `uint64`, `float64` or `object` depending on their size; text ending in NUL is not held exactly
by any text dtype). -/
def scalarDType : PyVal → Option DType
  | .none => some .object
  | .bool _ => some .bool
  | .int i => if inInt64 i then some .int else none
  | .float _ => some .float
  | .str s => if endsNul s then none else some (.str (max 1 s.length))
  | _ => none

/-- One step of numpy's dtype inference over a list: the dtype found so far meets the next element. -/
def arrayStep (acc : DType) (y : PyVal) : Option DType := do
  let u ← scalarDType y
  match acc, u with
  | .object, _ => some DType.object
  | _, .object => some DType.object
  | .str w, .str w' => some (.str (max w w'))
  | a, b => if a = b then some a else none

/-- `numpy.array(list).dtype` for the sequences of the property: one kind, possibly with
nulls (→ `object`); the empty list is `float64`.  Mixed kinds are outside the model (`none`):
numpy would silently convert them (ints to floats, numbers to text). -/
def arrayDType : List PyVal → Option DType
  | [] => some .float
  | x :: xs => do
    let t ← scalarDType x
    xs.foldlM arrayStep t

/-- One step of numpy's dtype inference over a list *mixing numeric classes*: booleans, integers and floats
promote (`bool < int < float`), a null makes the array an object array; text next to numbers is outside the
model (numpy would turn the numbers into text). -/
def mixStep (acc : DType) (y : PyVal) : Option DType := do
  let u ← scalarDType y
  match acc, u with
  | .object, _ => some DType.object
  | _, .object => some DType.object
  | .str w, .str w' => some (.str (max w w'))
  | .str _, _ => none
  | _, .str _ => none
  | a, b => some (if a.rank ≤ b.rank then b else a)

/-- `numpy.array(list).dtype` for a list mixing numeric classes (`[2, 2.0]` → float, `[True, 1]` → int,
`[1, None]` → object); on one-kind lists it is `arrayDType`. -/
def mixDType : List PyVal → Option DType
  | [] => some .float
  | x :: xs => do
    let t ← scalarDType x
    xs.foldlM mixStep t

/-- What `.tolist()` returns for a value stored into an array of the dtype (`none`: numpy
raises, or a narrowing conversion that the repaired code never performs).  `i2f` is the
conversion of an integer to a double. -/
def castInto (i2f : Int → UInt64) : DType → PyVal → Option PyVal
  | .object, v => some v
  | .float, .float b => some (.float b)
  | .float, .int i => some (.float (i2f i))
  | .float, .bool b => some (.float (i2f (if b then 1 else 0)))
  | .int, .int i => some (.int i)
  | .int, .bool b => some (.int (if b then 1 else 0))
  | .bool, .bool b => some (.bool b)
  | .str w, .str s => if s.length ≤ w then some (.str s) else none
  | _, _ => none

/-- `numpy.array(list)` over a list mixing classes: the common dtype and every element stored into it
(`[2, 2.0]` → `[2.0, 2.0]`, `[True, 1]` → `[1, 1]`).  Every encoding does this somewhere: the dictionary and
sparse constructors over the whole input, the run-length constructor over the run values. -/
def unify (i2f : Int → UInt64) (xs : List PyVal) : Option (DType × List PyVal) := do
  let rt ← mixDType xs
  let ys ← xs.mapM (castInto i2f rt)
  pure (rt, ys)

/-- The integers inside a value: the integer itself, `0` / `1` for a boolean (what numpy converts it through). -/
def intOf : PyVal → Option Int
  | .int i => some i
  | .bool b => some (if b then 1 else 0)
  | _ => none

/-- A value of the kind an array of dtype `t` holds natively. -/
def holds : DType → PyVal → Bool
  | .object, .none | .object, .bool _ | .object, .int _ | .object, .float _ | .object, .str _ => true
  | .float, .float _ => true
  | .int, .int _ => true
  | .bool, .bool _ => true
  | .str w, .str s => s.length ≤ w
  | _, _ => false

/-- The repaired `SparseColumn.materialize` (schema.py, after `fix: SparseColumn.materialize…`):
result dtype = join of the stored values' dtype and the default's dtype; default and values are
stored into an array of that dtype; then the scatter. -/
def sparseMaterialize (i2f : Int → UInt64) (d : PyVal) (vdt : DType) (e : Sparse PyVal) :
    Option (DType × List PyVal) := do
  let ddt ← scalarDType d
  let rt := DType.join vdt ddt
  let d' ← castInto i2f rt d
  let vs ← e.values.mapM (castInto i2f rt)
  let out ← sparseDecode d' { e with values := vs }
  pure (rt, out)

/-- The pinned (unrepaired) behaviour for comparison: `numpy.full(n, default)` takes the dtype
of the default alone; text is cut to its width. Only the two witnessed narrowing casts are
modelled: float → int through `f2i` (C truncation) and text → text of the default's width. -/
def castPinned (f2i : UInt64 → Int) : DType → PyVal → Option PyVal
  | .int, .float b => some (.int (f2i b))
  | .str w, .str s => some (.str (String.ofList (s.toList.take w)))
  | t, v => castInto (fun _ => 0) t v

/-! ## Python / numpy comparison of two values of the property's kinds -/

def isNaN (b : UInt64) : Bool := (b >>> 52) &&& 0x7FF == 0x7FF && b &&& 0xFFFFFFFFFFFFF != 0

/-- IEEE equality on bit patterns: NaN is unequal to everything, the two zeros are equal. -/
def floatEq (a b : UInt64) : Bool :=
  !isNaN a && !isNaN b && (a == b || (a ||| b) <<< 1 == 0)

/-- `x == y` for nulls, booleans, integers, floats and text, numbers compared after promotion
(`i2f`); values of different families are unequal. -/
def pyEq (i2f : Int → UInt64) : PyVal → PyVal → Bool
  | .none, .none => true
  | .str a, .str b => a == b
  | .bool a, .bool b => a == b
  | .bool a, .int b => (if a then 1 else 0) == b
  | .int a, .bool b => a == (if b then 1 else 0)
  | .int a, .int b => a == b
  | .float a, .float b => floatEq a b
  | .float a, .int b => floatEq a (i2f b)
  | .int a, .float b => floatEq (i2f a) b
  | .float a, .bool b => floatEq a (i2f (if b then 1 else 0))
  | .bool a, .float b => floatEq (i2f (if a then 1 else 0)) b
  | _, _ => false

def pyNe (i2f : Int → UInt64) (x y : PyVal) : Bool := !pyEq i2f x y

/-- The order `numpy.unique` sorts by, within one kind: integers, booleans (`False < True`),
text by code point, floats by value with NaN last. -/
def pyLe : PyVal → PyVal → Bool
  | .int a, .int b => a ≤ b
  | .bool a, .bool b => !a || b
  | .str a, .str b => a ≤ b
  | .float a, .float b => isNaN b || (!isNaN a && Float.ofBits a ≤ Float.ofBits b)
  | _, _ => true

/-- The integer-to-double conversion used by the executable instance. -/
def i2fNative (i : Int) : UInt64 := (Float.ofInt i).toBits

end Enc
