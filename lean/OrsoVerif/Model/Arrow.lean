import OrsoVerif.Generated.Arrow
import OrsoVerif.Generated.ArrowExpr
import OrsoVerif.Model.Frame
/-!
# C11 — Arrow interchange

Two independent parts.

**Rows** (`orso/converters.py`, `process_table` in `orso/compute/compiled.pyx:173-196`).
An Arrow table is seen as the list of its record-batch chunks, each a list of rows.
`processTable` re-chunks every chunk to at most `max_chunksize` rows
(`table.to_batches(max_chunksize)`) and writes the rows of the batches one after the other into
the result list.  `_RowsIterator` (converters.py:23-72) is a state machine over the remaining
tables; `next` follows `__next__` line by line *as repaired* (a table without rows is skipped);
`nextPinned` is the code before the repair, kept only for the regression lemma.  `toArrow`
(converters.py:75-89) transposes the rows into columns; `tableRows` is the row view of such a
table (what `itertuples` iterates).  Cells are opaque (`α`): the pyarrow/pandas cell conversion
is external and only compared.

**Types** (`FlatColumn.arrow_field`, schema.py:290-319; `arrow_type_map`, tools.py:588-646;
`FlatColumn.from_arrow`, schema.py:218-261; `PYTHON_TO_ORSO_MAP`, types.py:282-285).  Both
tables are *not* written here: they are looked up in `Gen.Arrow.*`, regenerated from the source
on every run.

**Expressions.**  The skeleton below is hand-written; the guards, the bookkeeping and the argument
expressions it is assembled from are *not*: `Gen.ArrowExpr.nextStopTest`, `nextBump`, `sizeTest`,
`limitedBatch`, `toArrowLimitTest`, `toArrowHeadArg`, `decimalPrecisionArg`, `decimalScaleArg` are
translated from the source's AST on every run (harness/extractors/c11_expr.py).
-/
namespace Arrow

/-! ## process_table -/

variable {α : Type}

/-- Split a list into consecutive pieces of `n` rows (the last one may be shorter).
`fuel` bounds the number of pieces. -/
def splitFuel : Nat → Nat → List α → List (List α)
  | 0, _, _ => []
  | _ + 1, _, [] => []
  | f + 1, n, x :: xs => (x :: xs).take n :: splitFuel f n ((x :: xs).drop n)

/-- `RecordBatch` slices of one chunk of at most `n` rows (pyarrow emits one empty batch for an
empty chunk). -/
def splitEvery (n : Nat) : List α → List (List α)
  | [] => [[]]
  | xs => splitFuel xs.length n xs

/-- A table as the list of its chunks (rows in order). -/
abbrev Table (α : Type) := List (List α)

/-- `table.to_batches(max_chunksize)`: every chunk is cut into batches of at most `n` rows;
chunk boundaries are kept. -/
def toBatches (n : Nat) (t : Table α) : List (List α) := t.flatMap (splitEvery n)

/-- compiled.pyx:191-196: `for batch in …: for row in …: rows[i] = row_factory(row); i += 1`. -/
def processTable (n : Nat) (t : Table α) : List α := (toBatches n t).flatten

/-- All rows of a table, in order (`table.to_pylist()`). -/
def Table.rows (t : Table α) : List α := t.flatten

/-! ## _RowsIterator -/

/-- converters.py:34-43.  `maxSize = none` is `float("inf")`. -/
structure It (α : Type) where
  tables : List (Table α)
  current : List α
  processed : Nat
  maxSize : Option Nat
  batch : Nat

/-- The first statement of `__next__`: the *generated* stop test (`self.rows_processed >=
self.max_size` in the source as it is now); never true against `float("inf")`. -/
def It.full (s : It α) : Bool :=
  match s.maxSize with
  | none => false
  | some m => decide (Gen.ArrowExpr.nextStopTest (s.processed : Int) (m : Int))

/-- The *generated* update of `self.rows_processed` when a row is returned. -/
def bump (p : Nat) : Nat := (Gen.ArrowExpr.nextBump (p : Int)).toNat

/-- The `while row is None` loop of the repaired `__next__` (converters.py:52-63): take tables
until one has a row; `none` = the tables ran out (`StopIteration`).  Whether the fetch *is* a loop is
read from the source (`Gen.ArrowExpr.fetchLoops`: `while row is None` vs `if row is None`); fetched once,
a table without rows ends the stream (the pre-repair behaviour, modelled exactly by `nextPinned`). -/
def fetch (batch : Nat) : List (Table α) → Option (α × List α × List (Table α))
  | [] => none
  | t :: ts =>
    match processTable batch t with
    | r :: rest => some (r, rest, ts)
    | [] => if Gen.ArrowExpr.fetchLoops then fetch batch ts else none

/-- `__next__` as repaired.  `none` = `StopIteration`. -/
def next (s : It α) : Option α × It α :=
  if s.full then (none, s)
  else
    match s.current with
    | r :: rest => (some r, { s with current := rest, processed := bump s.processed })
    | [] =>
      match fetch s.batch s.tables with
      | none => (none, { s with tables := [], current := [] })
      | some (r, rest, ts) =>
        (some r, { s with tables := ts, current := rest, processed := bump s.processed })

/-- `__next__` of the pinned tree (before `fix: Arrow row iterator skips empty tables …`):
a freshly fetched table without rows raises `StopIteration`. -/
def nextPinned (s : It α) : Option α × It α :=
  if s.full then (none, s)
  else
    match s.current with
    | r :: rest => (some r, { s with current := rest, processed := bump s.processed })
    | [] =>
      match s.tables with
      | [] => (none, s)
      | t :: ts =>
        match processTable s.batch t with
        | r :: rest => (some r, { s with tables := ts, current := rest, processed := bump s.processed })
        | [] => (none, { s with tables := ts, current := [] })

/-- `for row in iterator` / `list(iterator)`: call `step` until it stops. -/
def drainWith (step : It α → Option α × It α) : Nat → It α → List α
  | 0, _ => []
  | f + 1, s =>
    match step s with
    | (none, _) => []
    | (some r, s') => r :: drainWith step f s'

/-- Rows still to come if nothing limits them. -/
def It.remaining (s : It α) : List α := s.current ++ (s.tables.map (processTable s.batch)).flatten

def drain (s : It α) : List α := drainWith next (s.remaining.length + 1) s
def drainPinned (s : It α) : List α := drainWith nextPinned (s.remaining.length + 1) s

/-- converters.py:103-107, `if size: … else: size = float("inf")`: the limit in force, if any.
`size = none` is Python's `None`; the *generated* test decides for a given size (`if size:` makes
`0` mean "no limit"). -/
def limitOf : Option Nat → Option Nat
  | some k => if Gen.ArrowExpr.sizeTest (k : Int) then some k else none
  | none => none

/-- `BATCH_SIZE`: the *generated* expression (`min(size, BATCH_SIZE)`) in the limited branch, the
extracted constant otherwise. -/
def batchOf (size : Option Nat) : Nat :=
  match limitOf size with
  | some k => (Gen.ArrowExpr.limitedBatch (k : Int) (Gen.Arrow.batchSize : Int)).toNat
  | none => Gen.Arrow.batchSize

/-- converters.py:103-120: the first table is taken off the stream for the schema; the stream
`_RowsIterator` is given is `itertools.chain([first_table], tables)` — *generated*: whether the first
table is chained back (`Gen.ArrowExpr.streamKeepsFirst`). -/
def streamOf (tables : List (Table α)) : List (Table α) :=
  if Gen.ArrowExpr.streamKeepsFirst then tables else tables.drop 1

/-- converters.py:121-127. -/
def init (tables : List (Table α)) (size : Option Nat) : It α :=
  { tables := streamOf tables, current := [], processed := 0, maxSize := limitOf size, batch := batchOf size }

/-- What a caller passes as `tables`: one table, or a list / a tuple / a generator of tables. -/
inductive Input (α : Type) where
  | single (t : Table α)
  | list (ts : List (Table α))
  | tuple (ts : List (Table α))
  | generator (ts : List (Table α))

/-- The Python type name the `isinstance` tests see. -/
def Input.shape : Input α → String
  | .single _ => "Table"
  | .list _ => "list"
  | .tuple _ => "tuple"
  | .generator _ => "Generator"

/-- The tables the caller means. -/
def Input.tables : Input α → List (Table α)
  | .single t => [t]
  | .list ts => ts
  | .tuple ts => ts
  | .generator ts => ts

/-- converters.py:91-95, the input dispatch: `if not isinstance(tables, (typing.Generator, list, tuple)):
tables = [tables]`, then `if isinstance(tables, (list, tuple)): tables = iter(tables)` — the two tuples of type
names are *generated* (`Gen.ArrowExpr.acceptedShapes`, `iteredShapes`).  The result is the stream of tables the
rest of `from_arrow` draws from with `next(tables, None)`; `none` = that raises (a list that was not turned into
an iterator: `TypeError`; a tuple that was wrapped as if it were one table: `AttributeError` on `.schema`). -/
def inputStream (x : Input α) : Option (List (Table α)) :=
  if Gen.ArrowExpr.acceptedShapes.contains x.shape then
    match x with
    | .generator ts => some ts
    | .single _ => none
    | .list ts => if Gen.ArrowExpr.iteredShapes.contains "list" then some ts else none
    | .tuple ts => if Gen.ArrowExpr.iteredShapes.contains "tuple" then some ts else none
  else
    match x with
    | .single t => if Gen.ArrowExpr.iteredShapes.contains "list" then some [t] else none
    | _ => none

/-- `from_arrow(x, size)` iterated to the end, for any of the four shapes of argument. -/
def fromArrowInput (x : Input α) (size : Option Nat) : Option (List α) :=
  (inputStream x).map (fun ts => drain (init ts size))

/-- The rows `from_arrow(tables, size)` delivers when iterated to the end. -/
def fromArrowRows (tables : List (Table α)) (size : Option Nat) : List α := drain (init tables size)

/-- What the property demands of them (written out, independent of the generated expressions):
all rows, or the first `size` of them; `0`/`None` is "no limit". -/
def expectedRows (tables : List (Table α)) (size : Option Nat) : List α :=
  let all := (tables.map Table.rows).flatten
  match size with
  | some (k + 1) => all.take (k + 1)
  | _ => all

/-! ## to_arrow -/

/-- `zip(*rows)` for `n` columns: column `j` holds the `j`-th cell of every row (zip stops at the
shortest row; for rectangular rows nothing is dropped). -/
def transposeN : Nat → List (List α) → List (List α)
  | 0, _ => []
  | w + 1, rows => rows.filterMap List.head? :: transposeN w (rows.map List.tail)

/-- A `pyarrow.Table` built by `Table.from_arrays(arrays, names)`. -/
structure ColTable (α : Type) where
  names : List String
  cols : List (List α)

/-- `table.num_rows` of such a table: the length of its first column, `0` without columns. -/
def ColTable.numRows (t : ColTable α) : Nat :=
  match t.cols with
  | [] => 0
  | c :: _ => c.length

/-- The rows of a column table (`df.itertuples`). -/
def ColTable.rows (t : ColTable α) : List (List α) := transposeN t.numRows t.cols

/-- `DataFrame.head(size)` for `size ≥ 0` (dataframe.py `head`, `slice`): the model of `slice` C03
uses (`Model/Frame.lean`), assembled from the window arithmetic *generated* from the source
(`Gen.Frame.headOffset/headLength/sliceNegTest/sliceStop/sliceZeroTest`).  That this is the first
`size` rows is `C11.head_glue_spec`. -/
def head (size : Nat) (rows : List (List α)) : List (List α) := Frame.head rows size

/-- converters.py:81-82: the argument `head` is called with, if it is called: the *generated*
guard (`size is not None and size >= 0`) and argument (`size`). -/
def limitArg : Option Int → Option Nat
  | some k => if Gen.ArrowExpr.toArrowLimitTest k then some (Gen.ArrowExpr.toArrowHeadArg k).toNat else none
  | none => none

/-- The frame limited the way `arrow(size)` limits it. -/
def limited (rows : List (List α)) (size : Option Int) : List (List α) :=
  match limitArg size with
  | some k => head k rows
  | none => rows

/-- converters.py:75-89.  The branch test is the *generated* one (`dataset.rowcount == 0`). -/
def toArrow (names : List String) (rows : List (List α)) (size : Option Int) : ColTable α :=
  let rows := limited rows size
  if Gen.ArrowExpr.toArrowEmptyTest (rows.length : Int) then { names := names, cols := List.replicate names.length [] }
  else { names := names, cols := transposeN names.length rows }

/-! ## The kind of object a size is

A size limit is an integer; in Python it arrives as a built-in `int`, a `bool`, an `int` subclass, or a numpy
integer scalar.  A guard that tests the *type* of the argument (`isinstance(size, int)`) sends every kind that fails
the test down the "no limit" branch.  The kinds that pass are *generated* (`Gen.ArrowExpr.sizeKinds`,
`toArrowSizeKinds`; every kind when the guard has no type test). -/

/-- The kinds of integer object the property's "all size limits" covers. -/
def demandedSizeKinds : List String := ["int", "bool", "int-subclass", "numpy-integer"]

/-- The size as the code behind a guard with this type test sees it: a size of a kind that fails the type test
takes the branch of "no size". -/
def sizeSeen {β : Type} (kinds : List String) (kind : String) (size : Option β) : Option β :=
  if kind ∈ kinds then size else none

/-- `from_arrow(tables, size)` with a size that is an object of kind `kind`. -/
def fromArrowInputKind (x : Input α) (kind : String) (size : Option Nat) : Option (List α) :=
  fromArrowInput x (sizeSeen Gen.ArrowExpr.sizeKinds kind size)

/-- `to_arrow(frame, size)` with a size that is an object of kind `kind`. -/
def toArrowKind (names : List String) (rows : List (List α)) (kind : String) (size : Option Int) : ColTable α :=
  toArrow names rows (sizeSeen Gen.ArrowExpr.toArrowSizeKinds kind size)

/-- `DataFrame.from_arrow(df.arrow(size))`: the rows that come back. -/
def roundtripRows (names : List String) (rows : List (List α)) (size : Option Int) : List (List α) :=
  fromArrowRows [[(toArrow names rows size).rows]] none

/-- …with a size that is an object of kind `kind`. -/
def roundtripRowsKind (names : List String) (rows : List (List α)) (kind : String) (size : Option Int) : List (List α) :=
  roundtripRows names rows (sizeSeen Gen.ArrowExpr.toArrowSizeKinds kind size)

/-! ## Column typing -/

inductive OrsoTy where
  | ARRAY | BLOB | BOOLEAN | DATE | DECIMAL | DOUBLE | INTEGER | INTERVAL | STRUCT
  | TIMESTAMP | TIME | VARCHAR | NULL | JSONB | MISSING
  deriving DecidableEq, Repr

namespace OrsoTy
def name : OrsoTy → String
  | ARRAY => "ARRAY" | BLOB => "BLOB" | BOOLEAN => "BOOLEAN" | DATE => "DATE" | DECIMAL => "DECIMAL"
  | DOUBLE => "DOUBLE" | INTEGER => "INTEGER" | INTERVAL => "INTERVAL" | STRUCT => "STRUCT"
  | TIMESTAMP => "TIMESTAMP" | TIME => "TIME" | VARCHAR => "VARCHAR" | NULL => "NULL" | JSONB => "JSONB"
  | MISSING => "_MISSING_TYPE"

def all : List OrsoTy :=
  [ARRAY, BLOB, BOOLEAN, DATE, DECIMAL, DOUBLE, INTEGER, INTERVAL, STRUCT, TIMESTAMP, TIME, VARCHAR, NULL, JSONB, MISSING]

def ofName (s : String) : Option OrsoTy := all.find? (fun t => t.name = s)
end OrsoTy

/-- An Arrow data type as far as orso looks at it: its `lib.Type_*` id, decimal parameters,
list value type.  `invalid` = the pyarrow constructor raised. -/
inductive ArrowTy where
  | prim (id : String)
  | decimal (id : String) (p s : Nat)
  | list (id : String) (elem : ArrowTy)
  | invalid
  deriving DecidableEq, Repr

def ArrowTy.id : ArrowTy → String
  | .prim i => i
  | .decimal i _ _ => i
  | .list i _ => i
  | .invalid => ""

/-- The type-describing attributes of a `FlatColumn`. -/
structure Col where
  name : String
  type : OrsoTy
  elem : Option OrsoTy
  precision : Option Nat
  scale : Option Nat
  nullable : Bool
  deriving DecidableEq, Repr

structure ArrowField where
  name : String
  type : ArrowTy
  nullable : Bool
  deriving DecidableEq, Repr

def lookup {β : Type} (k : String) : List (String × β) → Option β
  | [] => none
  | (a, b) :: r => if a = k then some b else lookup k r

open Gen.Arrow in
/-- Evaluate one constructor call of `arrow_field`'s table for a column with the given
precision and scale.  The two arguments of `pyarrow.decimal128` are the *generated* expressions
(`self.precision or DECIMAL_PRECISION`, `10 if self.scale is None else self.scale`);
`pyarrow.decimal128` rejects a precision outside its range and `None` arguments. -/
def instantiate (p s : Option Nat) : Spec → ArrowTy
  | .prim i => .prim i
  | .decimal i =>
    match Gen.ArrowExpr.decimalPrecisionArg (p.map Int.ofNat), Gen.ArrowExpr.decimalScaleArg (s.map Int.ofNat) with
    | some p', some s' =>
      if (decimalMinPrecision : Int) ≤ p' ∧ p' ≤ (decimalMaxPrecision : Int) ∧ 0 ≤ s' then .decimal i p'.toNat s'.toNat
      else .invalid
    | _, _ => .invalid
  | .list i e => .list i (instantiate p s e)
  | .unknown => .invalid

open Gen.Arrow in
/-- `type_map.get(t, default)` of `arrow_field`. -/
def specOf (t : OrsoTy) (dflt : Spec) : Spec := (lookup t.name fieldMap).getD dflt

open Gen.Arrow in
/-- The whole `type_map` literal is evaluated before any lookup, so a constructor that raises
makes `arrow_field` raise for every column type. -/
def tableRaises (p s : Option Nat) : Bool :=
  fieldMap.any (fun e => decide (instantiate p s e.2 = .invalid))

open Gen.Arrow in
/-- schema.py:290-319, the type of the field. -/
def forthTy (t : OrsoTy) (e : Option OrsoTy) (p s : Option Nat) : ArrowTy :=
  if tableRaises p s then .invalid
  else if t = .ARRAY then
    .list arrayListId (instantiate p s (match e with
      | some el => specOf el elementDefault
      | none => elementDefault))
  else instantiate p s (specOf t fieldDefault)

open Gen.Arrow in
def arrowField (c : Col) : ArrowField :=
  { name := if fieldPassesName then c.name else "",
    type := forthTy c.type c.elem c.precision c.scale,
    nullable := if fieldPassesNullable then c.nullable else true }

/-- What `arrow_type_map` answers. -/
inductive Native where
  | cls (name : String)          -- a Python class (or `None`, as "None")
  | decimalFactory (p s : Nat)
  | unmapped                     -- raise ValueError
  deriving DecidableEq, Repr

open Gen.Arrow in
/-- tools.py:588-646. -/
def arrowTypeMap (t : ArrowTy) : Native :=
  match t with
  | .invalid => .unmapped
  | _ =>
    match lookup t.id typeMap with
    | some c => .cls c
    | none =>
      if decimalIds.contains t.id then
        match t with
        | .decimal _ p s => .decimalFactory p s
        | _ => .unmapped
      else
        match lookup t.id typeIds with
        | some n =>
          match literalIds.find? (fun e => e.1 = n) with
          | some (_, c) => .cls c
          | none => .unmapped
        | none => .unmapped

open Gen.Arrow in
/-- `PYTHON_TO_ORSO_MAP.get(cls)`: the inverted dictionary (a later key overwrites an earlier
one with the same class; excluded keys are skipped), then the `update`. -/
def pythonToOrso (cls : String) : Option OrsoTy :=
  match lookup cls pythonToOrsoExtra with
  | some n => OrsoTy.ofName n
  | none =>
    match ((orsoToPython.filter (fun e => !pythonToOrsoExcluded.contains e.1)).reverse.find? (fun e => e.2 = cls)) with
    | some (n, _) => OrsoTy.ofName n
    | none => none

/-- The type attributes `FlatColumn.from_arrow` computes (schema.py:232-252), or `none` when
`arrow_type_map` raises `ValueError`. -/
def backTy (mappableAsBinary : Bool) (t : ArrowTy) : Option (OrsoTy × Option OrsoTy × Option Nat × Option Nat) :=
  match arrowTypeMap t with
  | .unmapped => none
  | .decimalFactory p s =>
    if Gen.Arrow.carriesPrecisionScale then some (.DECIMAL, none, some p, some s)
    else some (.DECIMAL, none, none, none)
  | .cls c =>
    if mappableAsBinary && c = "dict" then some (.BLOB, none, none, none)
    else if c = "list" then
      match t with
      | .list _ el =>
        match arrowTypeMap el with
        | .unmapped => none
        | .decimalFactory _ _ => some (.ARRAY, none, none, none)   -- a DecimalFactory instance is no key of the map
        | .cls ec => some (.ARRAY, if Gen.Arrow.carriesElementType then pythonToOrso ec else none, none, none)
      | _ => none                                                   -- no `.value_type`
    else some ((pythonToOrso c).getD .VARCHAR, none, none, none)

/-- `FlatColumn.__init__` (schema.py, the decimal block at its end) for a DECIMAL column: the two
*generated* updates (`Gen.ArrowExpr.initPrecision`: a missing precision becomes the interpreter's decimal
precision; `Gen.ArrowExpr.initScale`: a missing scale becomes `int(0.75 * precision)` of the precision
just set).  Every column passes through it, the one `FlatColumn.from_arrow` builds included. -/
def normalise (t : OrsoTy) (p s : Option Nat) : Option Nat × Option Nat :=
  if t = .DECIMAL then
    match Gen.ArrowExpr.initPrecision (p.map Int.ofNat) with
    | some pv => (some pv.toNat, (Gen.ArrowExpr.initScale (s.map Int.ofNat) pv).map Int.toNat)
    | none => (none, (Gen.ArrowExpr.initScale (s.map Int.ofNat) 0).map Int.toNat)
  else (p, s)

/-- `FlatColumn.from_arrow(field, mappable_as_binary)`. -/
def fromArrowField (mappableAsBinary : Bool) (f : ArrowField) : Option Col :=
  match backTy mappableAsBinary f.type with
  | none => none
  | some (t, e, p, s) =>
    let ps := normalise t p s
    some { name := if Gen.Arrow.carriesName then f.name else "",
           type := t, elem := e, precision := ps.1, scale := ps.2,
           nullable := if Gen.Arrow.carriesNullable then f.nullable else true }

/-- `FlatColumn.from_arrow(col.arrow_field)`. -/
def roundtripCol (c : Col) : Option Col := fromArrowField false (arrowField c)

end Arrow
