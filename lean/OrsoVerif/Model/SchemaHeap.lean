import OrsoVerif.Model.SchemaOps
/-!
# C17 — schemas as Python *objects*: a heap of column lists

`Model/SchemaOps.lean` treats schemas as values, so "the sum modifies neither operand" holds there by
construction.  On the Python side a `RelationSchema` *refers* to a list object; `pop_column` changes that list in
place, and `__add__` builds the sum's list either from a copy of the left operand's list (`self.columns[:]`, what
the source does — `Gen.SchemaOps.addCopies`, re-read on every run) or, if that copy were dropped, by extending the
left operand's own list.  This file models exactly that: registers hold references into a heap of column lists.
`Props/C17.lean` proves that, *because the sum copies*, the value-level register machine is a sound abstraction
of the heap machine for every program (`C17.heap_refines_values`), and that without the copy it is not
(`C17.sum_without_copy_modifies_left`).  Column *objects* are shared between a sum and its operands in both
machines (no operation changes a column); so is the left operand's `aliases` list (no operation changes it either).
-/
namespace SchemaHeap
open SchemaOps
variable {ι ν : Type} [DecidableEq ι] [DecidableEq ν]

/-- a schema object: its name, its aliases and a *reference* to its column list object -/
structure Ref (ν : Type) where
  name : ν
  aliases : List ν
  ref : Nat

/-- the heap of column-list objects and the registers -/
structure St (ι ν : Type) where
  heap : List (List (Col ι ν))
  regs : List (Ref ν)

def view (heap : List (List (Col ι ν))) (s : Ref ν) : Schema ι ν :=
  { name := s.name, aliases := s.aliases, columns := (heap[s.ref]?).getD [] }

/-- what the registers look like as values -/
def St.abs (st : St ι ν) : List (Schema ι ν) := st.regs.map (view st.heap)

/-- every register points into the heap and no two registers share a column list -/
def St.WF (st : St ι ν) : Prop :=
  (∀ s ∈ st.regs, s.ref < st.heap.length) ∧ (st.regs.map (·.ref)).Nodup

/-- one operation on the heap.  `copies`: `__add__` builds the sum's column list from a copy of the left
operand's (`self.columns[:]`, what the source does: `Gen.SchemaOps.addCopies`) or extends the left operand's
list in place (`new_columns = self.columns`). -/
def hstep (copies : Bool) (lower : ν → ν) (st : St ι ν) : POp ν → Option (St ι ν × POut ι ν)
  | .add i j =>
    match st.regs[i]?, st.regs[j]? with
    | some a, some b =>
      let cols := unionLoop (ids (view st.heap a).columns) (view st.heap a).columns (view st.heap b).columns
      if copies then
        some ({ heap := st.heap ++ [cols], regs := st.regs ++ [{ name := a.name, aliases := a.aliases, ref := st.heap.length }] },
              .schema { name := a.name, aliases := a.aliases, columns := cols })
      else
        some ({ heap := st.heap.set a.ref cols, regs := st.regs ++ [{ name := a.name, aliases := a.aliases, ref := a.ref }] },
              .schema { name := a.name, aliases := a.aliases, columns := cols })
    | _, _ => none
  | .on r op =>
    match st.regs[r]? with
    | some s =>
      some ({ st with heap := st.heap.set s.ref (step lower (view st.heap s).columns op).1 },
            .out (step lower (view st.heap s).columns op).2)
    | none => none

def hrun (copies : Bool) (lower : ν → ν) (st : St ι ν) : List (POp ν) → Option (St ι ν × List (POut ι ν))
  | [] => some (st, [])
  | op :: ops =>
    match hstep copies lower st op with
    | none => none
    | some (st1, o) =>
      match hrun copies lower st1 ops with
      | none => none
      | some (st2, os) => some (st2, o :: os)

end SchemaHeap
