import OrsoVerif.Generated.RowFns
/-!
# One row object used several times (C01): `as_bytes` and `nbytes` in any order

`Row.as_bytes` is a property evaluated afresh on every access; `Row.nbytes` (what `DataFrame.append` calls to size
the row, and the way the 16 MiB guard of `as_bytes` is reached from a frame) keeps its result on the object
(`self._cached_byte_size`).  The machine below runs a *sequence of calls on one object*; both steps are the
statement-level translations of the working tree (`Gen.RowFns.as_bytes`, `Gen.RowFns.nbytes`), the state is the
cached size.  `Props/C01.lean` proves that no history changes what `as_bytes` emits.
-/
namespace RowObject
open RowBytes RowCodec RowGlue

/-- A call on the object; `ts` is what `time.time_ns()` answers during it. -/
inductive Op where
  | asBytes (ts : Nat)
  | nbytes (ts : Nat)
  deriving Repr

/-- What a call ended in. -/
inductive Res where
  | record (r : Except EncErr Bytes)
  | size (r : Except EncErr (Option Nat))

/-- One call on a row object with the items `items` (`d`: has a `__dict__`), cached size `cached`. -/
def step (d : Bool) (items : List PyVal) (cached : Option Nat) : Op → Res × Option Nat
  | .asBytes ts => (.record (Gen.RowFns.as_bytes d cached ts items), cached)
  | .nbytes ts =>
    let o := Gen.RowFns.nbytes d cached (Gen.RowFns.as_bytes d cached ts items)
    (.size o.1, o.2)

/-- The calls one after another, the state handed on. -/
def run (d : Bool) (items : List PyVal) : Option Nat → List Op → List Res
  | _, [] => []
  | c, op :: ops => (step d items c op).1 :: run d items (step d items c op).2 ops

/-- The size of the record of a row, or why there is none: the payload codec refuses, or the payload is past the cap. -/
def sizeOf (items : List PyVal) : Except EncErr Nat :=
  match packRow items with
  | none => .error .codec
  | some p => if p.length > Gen.Row.maxRecord then .error .tooLarge else .ok (Gen.Row.headerSize + p.length)

/-- What `nbytes` answers on an object of kind `d`, whatever happened to the object before. -/
def sizeSpec (d : Bool) (items : List PyVal) : Except EncErr (Option Nat) :=
  match sizeOf items with
  | .error e => .error e
  | .ok n => if d then .ok (some n) else .error .attribute

end RowObject
