import OrsoVerif.Generated.RowFns
/-!
# One row object used several times (C01): `as_bytes` and `nbytes` in any order

`Row.as_bytes` is a property evaluated afresh on every access; `Row.nbytes` (what `DataFrame.append` calls to size
the row, and the way the 16 MiB guard of `as_bytes` is reached from a frame) keeps its result on the object
(`self._cached_byte_size`).  The machine below runs a *sequence of calls on one object*; both steps are the
statement-level translations of the working tree (`Gen.RowFns.as_bytes`, `Gen.RowFns.nbytes`), the state is the
cached size and (round 6) any record kept on the object; a history may also contain in-place edits of the lists / maps
inside the row.  `Props/C01.lean` proves that no history changes what `as_bytes` emits: always the record of the items
as they are at that moment.
-/
namespace RowObject
open RowBytes RowCodec RowGlue

/-- A call on the object; `ts` is what `time.time_ns()` answers during it.  `edit items` (round 6) is not a call of orso:
it is the caller changing a list or a map *inside* the row in place (`row[0].append(x)`, `row[1]["k"] = y`, `del …`) —
legal, because a `Row` is an immutable tuple of values that need not be immutable; afterwards the same object has the
items `items` (any new value is allowed here: more than in-place edits can produce).  Nothing of the object's other
state (what `nbytes` / `as_bytes` keep on it) is touched by an edit: that is what makes a kept record stale. -/
inductive Op where
  | asBytes (ts : Nat)
  | nbytes (ts : Nat)
  | edit (items : List PyVal)
  deriving Repr

/-- What a call ended in. -/
inductive Res where
  | record (r : Except EncErr Bytes)
  | size (r : Except EncErr (Option Nat))
  | edited

/-- The row object: its items as they are now, the cached size (`self._cached_byte_size`), the record kept on it (any
other attribute `nbytes` / `as_bytes` assign; none on the tree as it is). -/
structure Obj where
  items : List PyVal
  cached : Option Nat
  kept : Option Bytes

/-- a row object nothing has been done with yet -/
def fresh (items : List PyVal) : Obj := ⟨items, none, none⟩

/-- One call on a row object (`d`: it has a `__dict__`). -/
def step (d : Bool) (o : Obj) : Op → Res × Obj
  | .asBytes ts => (.record (Gen.RowFns.as_bytes d o.cached o.kept ts o.items), o)
  | .nbytes ts =>
    let r := Gen.RowFns.nbytes d o.cached o.kept (Gen.RowFns.as_bytes d o.cached o.kept ts o.items)
    (.size r.1, ⟨o.items, r.2.1, r.2.2⟩)
  | .edit items => (.edited, ⟨items, o.cached, o.kept⟩)

/-- The calls one after another, the state handed on. -/
def run (d : Bool) : Obj → List Op → List Res
  | _, [] => []
  | o, op :: ops => (step d o op).1 :: run d (step d o op).2 ops

/-- The size of the record of a row, or why there is none: the payload codec refuses, or the payload is past the cap. -/
def sizeOf (items : List PyVal) : Except EncErr Nat :=
  match packRow items with
  | none => .error .codec
  | some p => if p.length > Gen.Row.maxRecord then .error .tooLarge else .ok (Gen.Row.headerSize + p.length)

/-- What `nbytes` answers on an object of kind `d`, whatever happened to the object before. -/
def sizeSpec (d : Bool) (items : List PyVal) : Except EncErr (Option Nat) :=
  match sizeOf items with
  | .error e => .error e
  | .ok n => if d then .ok (some n) else .error .attribute

/-- what a sizing that ended in `r` leaves as the kept size: the size, or nothing when it raised -/
def sizedTo : Except EncErr (Option Nat) → Option Nat
  | .ok s => s
  | .error _ => none

/-- **What the calls must answer** — written without any state but the value of the object and the size it was given
when it was first sized: `as_bytes` = the record of the items *as they are now* (`encodeRow`, a function of the items
and the clock alone); `nbytes` = the size kept from the first successful sizing (orso/row.py:144-147 keeps it; an edit
does not reset it — the size is a bookkeeping figure of `DataFrame.nbytes`, not part of C01), else the size of the record
of the items as they are now. -/
def spec (d : Bool) : List PyVal → Option Nat → List Op → List Res
  | _, _, [] => []
  | row, s, .asBytes ts :: ops => .record (encodeRow ts row) :: spec d row s ops
  | row, some n, .nbytes _ :: ops => .size (.ok (some n)) :: spec d row (some n) ops
  | row, none, .nbytes _ :: ops =>
    .size (sizeSpec d row) :: spec d row (sizedTo (sizeSpec d row)) ops
  | _, s, .edit row' :: ops => .edited :: spec d row' s ops

/-- The items of the object after a history: those of the last edit, or the ones it was made with. -/
def valueAfter (row : List PyVal) (ops : List Op) : List PyVal :=
  ops.foldl (fun r op => match op with | .edit r' => r' | _ => r) row

/-- every clock of the history fits the eight bytes the header has for it (`time.time_ns()` until the year 2554) -/
def Clocks64 (ops : List Op) : Prop :=
  ∀ op ∈ ops, match op with | .asBytes ts => ts < 2 ^ 64 | .nbytes ts => ts < 2 ^ 64 | .edit _ => True

end RowObject
