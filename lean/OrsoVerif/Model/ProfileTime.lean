import OrsoVerif.Model.IsoPrim
import OrsoVerif.Model.Profile
import OrsoVerif.Generated.ProfileTime
import OrsoVerif.Generated.ProfileTable
/-!
# C15 — `DateProfiler`: from the cells of a DATE / TIMESTAMP column to epoch seconds

`DateProfiler.__call__` (`orso/profiler/profiler.py:420-452`) turns the cells into whole epoch seconds and
hands them to `NumericProfiler`.  The cells are Python `date` / `datetime` objects (naive, or aware with a
whole-minute UTC offset), `numpy.datetime64` scalars of a fixed-length unit, or `pandas.Timestamp`s of a unit;
`None` is a null.  Every cell denotes an exact instant, an integer number of nanoseconds since
1970-01-01T00:00:00Z; for calendar cells it is computed with CPython's ordinal arithmetic (`Iso.toEpoch`, the
calendar of C08 — exact integer arithmetic, no floats).

The two paths and what they convert through come from the source (`Gen.ProfileTime`, regenerated on every run):

* the pandas path, taken when the first cell has `.value` (`hasattr(column_data[0], "value")`): the `.value`
  (epoch nanoseconds) of every non-null cell, through `datePandasChain`.  `.value` raises `OverflowError` for a
  Timestamp whose instant does not fit 64-bit nanoseconds and does not exist (`AttributeError`) on any other
  cell; when the raised class is in `dateFallbackCaught` the general path is taken instead, otherwise profiling
  raises;
* the general path: `numpy.array(column_data, dtype=…)` through `datePlainChain`.

A value in flight is a tick count with its unit; `numpy` keeps it in a signed 64-bit integer, so every
conversion wraps (`wrap64`) — that is where a nanosecond intermediate loses the years outside 1677..2262.
-/
namespace Profile

/-- Two's-complement wrap to a signed 64-bit integer. -/
def wrap64 (x : Int) : Int := (x + 9223372036854775808) % 18446744073709551616 - 9223372036854775808

/-- `datetime64[u] → datetime64[v]`: floor to a coarser unit, multiply (and wrap) to a finer one. -/
def recast (u v : TUnit) (n : Int) : Int :=
  if u.nanos ≤ v.nanos then n / (v.nanos / u.nanos) else wrap64 (n * (u.nanos / v.nanos))

/-- A value in flight: ticks, and their unit (`none`: a plain `int64`). -/
abbrev Flight := Int × Option TUnit

/-- One `.astype(d)`. -/
def castStep (x : Flight) : DType → Flight
  | .i64 => (x.1, none)
  | .dt v => match x.2 with
    | none => (x.1, some v)
    | some u => (recast u v x.1, some v)

/-- `numpy.array([object], dtype=d)` for an object denoting the instant `t` (nanoseconds): a datetime dtype
floors the instant to its unit; `int64` is for integers (the pandas path hands over `.value`, which is `t`). -/
def castFirst (t : Int) : DType → Flight
  | .i64 => (wrap64 t, none)
  | .dt v => (wrap64 (t / v.nanos), some v)

/-- The integer a chain of dtypes leaves of the instant `t`. -/
def runChain (chain : List DType) (t : Int) : Int :=
  match chain with
  | [] => t
  | d :: rest => (rest.foldl castStep (castFirst t d)).1

/-- A non-null cell. -/
inductive DateCell where
  /-- `datetime.date` / `datetime.datetime`: calendar fields and the UTC offset in minutes (0 when naive). -/
  | civil (dt : Iso.DateTime) (offMin : Int)
  /-- `numpy.datetime64(n, u)`. -/
  | ticks (u : TUnit) (n : Int)
  /-- `pandas.Timestamp` of unit `u` holding `n` ticks (UTC). -/
  | stamp (u : TUnit) (n : Int)
  deriving DecidableEq, Repr

/-- The instant a cell denotes, in nanoseconds since the epoch (exact). -/
def DateCell.instant : DateCell → Int
  | .civil dt off => (Iso.toEpoch dt - 60 * off) * 1000000000 + dt.micro * 1000
  | .ticks u n => n * u.nanos
  | .stamp u n => n * u.nanos

/-- What the statement asks for: the whole seconds elapsed since the epoch (floor, also before 1970). -/
def DateCell.trueSeconds (c : DateCell) : Int := c.instant / 1000000000

/-- `cell.value`: epoch nanoseconds of a Timestamp that fits 64 bits; the exception class otherwise. -/
def DateCell.value : DateCell → Except String Int
  | .stamp u n =>
    if -9223372036854775808 ≤ n * u.nanos ∧ n * u.nanos ≤ 9223372036854775807 then .ok (n * u.nanos)
    else .error "OverflowError"
  | _ => .error "AttributeError"

/-- `hasattr(cell, "value")`: evaluates the attribute; only `AttributeError` means "no". -/
def DateCell.hasValue (c : DateCell) : Except String Bool :=
  match c.value with
  | .ok _ => .ok true
  | .error e => if e = "AttributeError" then .ok false else .error e

/-- `[v.value for v in column_data if v is not None]` through the chain, kept in place (a null stays a null):
the first cell whose `.value` raises ends the comprehension with that exception. -/
def convertValues (chain : List DType) : List (Option DateCell) → Except String (List (Option Int))
  | [] => .ok []
  | none :: rest =>
    match convertValues chain rest with
    | .error e => .error e
    | .ok vs => .ok (none :: vs)
  | some c :: rest =>
    match c.value with
    | .error e => .error e
    | .ok v =>
      match convertValues chain rest with
      | .error e => .error e
      | .ok vs => .ok (some (runChain chain v) :: vs)

/-- The body of the `try`: `none` when the test is false, the converted cells otherwise. -/
def pandasPath (chain : List DType) (cells : List (Option DateCell)) : Except String (Option (List (Option Int))) :=
  match cells with
  | some c :: _ =>
    match c.hasValue with
    | .error e => .error e
    | .ok false => .ok none
    | .ok true =>
      match convertValues chain cells with
      | .error e => .error e
      | .ok vs => .ok (some vs)
  | _ => .ok none

/-- The general path: every cell through the chain; a null is `NaT`. -/
def plainPath (chain : List DType) (cells : List (Option DateCell)) : List (Option Int) :=
  cells.map (Option.map (fun c => runChain chain c.instant))

/-- `column_data[~numpy.equal(column_data, sentinel)]`: a converted value equal to the sentinel is a null. -/
def dropSentinel (sentinel : Int) : Option Int → Option Int
  | some v => if v = sentinel then none else some v
  | none => none

/-- `DateProfiler.__call__` up to the null filter: the epoch seconds handed to `NumericProfiler`, cell by
cell, or the exception it raises.  A converted value equal to the sentinel is read as a null. -/
def dateSecondsWith (plain pandas : List DType) (caught : List String) (sentinel : Int)
    (cells : List (Option DateCell)) : Except String (List (Option Int)) :=
  let fast : Except String (Option (List (Option Int))) :=
    match pandasPath pandas cells with
    | .error e => if caught.contains e then .ok none else .error e
    | .ok r => .ok r
  match fast with
  | .error e => .error e
  | .ok r =>
    let secs := match r with
      | some vs => vs
      | none => plainPath plain cells
    .ok (secs.map (dropSentinel sentinel))

/-- …with the chains, the caught exceptions and the sentinel the source has now. -/
def dateSeconds (cells : List (Option DateCell)) : Except String (List (Option Int)) :=
  dateSecondsWith Gen.ProfileTime.datePlainChain Gen.ProfileTime.datePandasChain
    Gen.ProfileTime.dateFallbackCaught Gen.ProfileTime.dateSentinel cells

/-- `DateProfiler` on cells: the temporal profile of the converted seconds. -/
def profileDateCells (p : Ops Int) (cells : List (Option DateCell)) : Except String (Prof Int) :=
  (dateSeconds cells).map (profileTemporal p)

/-! ## `TableProfile.__add__`: a column one side lacks

The profile of a batch without rows has no columns, so adding it (a cut at 0 or at the end) meets this glue
(`profiler.py:245-268`).  The stand-in `ColumnProfile(name, type, count, missing)` comes from the source
(`Gen.ProfileTable`). -/

/-- `ColumnProfile(name, type, count, missing)`: no extremes. -/
def standIn (cm : Nat × Nat) : Core := { count := cm.1, missing := cm.2, minimum := none, maximum := none }

/-- One column of `TableProfile.__add__`; `none`: that side has no such column; `leftRows` / `rightRows`: the rows
each side counts.  The result `none`: the sum has no such column. -/
def addColumnOpt (leftRows rightRows : Nat) : Option Core → Option Core → Option Core
  | some a, some b => some (addCore a b)
  | some a, none => some (addCore a (standIn (Gen.ProfileTable.rightMissing leftRows rightRows a.count)))
  | none, some b =>
    if Gen.ProfileTable.keepsRightOnly then
      some (addCore (standIn (Gen.ProfileTable.leftMissing leftRows rightRows b.count)) b)
    else none
  | none, none => none

/-- A cell the statement covers: a valid calendar date-time of year 1..9999 with an offset below a day, or a
tick count denoting an instant of year 1..9999. -/
def DateCell.inRange : DateCell → Prop
  | .civil dt off => Iso.validDateTime dt = true ∧ -1440 < off ∧ off < 1440
  | .ticks u n => -62135596800 * 1000000000 ≤ n * u.nanos ∧ n * u.nanos < (253402300799 + 1) * 1000000000
  | .stamp u n => -62135596800 * 1000000000 ≤ n * u.nanos ∧ n * u.nanos < (253402300799 + 1) * 1000000000

/-- Every instant a covered cell can denote lies in here (a day around year 1..9999, for the offsets). -/
def instantLo : Int := (-62135596800 - 86400) * 1000000000
def instantHi : Int := (253402300799 + 86400) * 1000000000

end Profile
