import OrsoVerif.Generated.CacheFns
import OrsoVerif.Model.Cache
/-!
# C19 — histories over the GENERATED wrappers, and several wrappers made by one decorator

Part 4: `gSingleRun` / `gLruRun` run a history of calls and clock advances through
`Gen.CacheFns.single_wrapper` / `lru_wrapper` (the statement-by-statement translations of the
wrapper bodies in the working tree) for argument types with an arbitrary `==`.

Part 5: the decorator plumbing.  `multiRun shared` runs calls of several wrappers `j = 0, 1, …`
(wrapper `j` wraps function `j`, which has its own invocation log) over cache cells: with
`shared = false` every wrapper has its own cell (the cache is created once per decorated
function), with `shared = true` all of them use cell 0 (the cache is created in a scope that one
configured decorator shares between everything it is applied to).  `scopeShared` reads the flag
off the glue facts EXTRACTED from the decorator's source (`Gen.Cache.singleGlue` / `lruGlue`).
-/
namespace Cache
open Gen.CacheFns

/-- what one call of a generated wrapper did (`ret = none`: Python's `None` / no value) -/
structure GEv (κ : Type) where
  key : κ
  now : Int
  ret : Option Nat
  deriving Repr, DecidableEq

section Gen
variable {α β : Type} [BEq α] [BEq β]

def gSingleRun (cost : α × β → Int) (valid : Option Int) :
    Option α × Option β × Option Nat × Int → FnWorld (α × β) → List (Op (α × β)) →
    ((Option α × Option β × Option Nat × Int) × FnWorld (α × β)) × List (GEv (α × β))
  | c, w, [] => ((c, w), [])
  | c, w, .advance d :: ops => gSingleRun cost valid c { w with now := w.now + d } ops
  | c, w, .call k :: ops =>
    let r := single_wrapper cost valid k.1 k.2 c w
    let r2 := gSingleRun cost valid r.2.1 r.2.2 ops
    (r2.1, { key := k, now := w.now, ret := r.1 } :: r2.2)

variable [Hashable α] [Hashable β]

def gLruRun (cost : α × β → Int) (maxSize : Nat) (valid : Option Int) :
    PyOD (α × β) (Int × Nat) → FnWorld (α × β) → List (Op (α × β)) →
    (PyOD (α × β) (Int × Nat) × FnWorld (α × β)) × List (GEv (α × β))
  | c, w, [] => ((c, w), [])
  | c, w, .advance d :: ops => gLruRun cost maxSize valid c { w with now := w.now + d } ops
  | c, w, .call k :: ops =>
    let r := lru_wrapper cost maxSize valid k.1 k.2 c w
    let r2 := gLruRun cost maxSize valid r.2.1 r.2.2 ops
    (r2.1, { key := k, now := w.now, ret := r.1 } :: r2.2)

end Gen

/-! ## Part 5: several wrappers -/

/-- A cache machine: the state of one cache cell, and what one call does to (cell, clock, log of
the wrapped function). -/
structure Mach (σ κ : Type) where
  init : σ
  call : σ → Int → List (κ × Int) → κ → (σ × Int × List (κ × Int)) × Ev κ

variable {K : Type} [DecidableEq K]

/-- `lru_cache_with_expiry` as a machine (the statement-level `lruCall`) -/
def lruMach (maxSize : Nat) (valid : Option Int) (cost : K → Int) : Mach (List (LEntry K)) K where
  init := []
  call := fun c now log k =>
    let r := lruCall maxSize valid cost { cache := c, now := now, log := log } k
    ((r.1.cache, r.1.now, r.1.log), r.2)

/-- `single_item_cache` as a machine (the statement-level `singleCall`) -/
def singleMach (valid : Option Int) (cost : K → Int) : Mach (Option (SEntry K)) K where
  init := none
  call := fun c now log k =>
    let r := singleCall valid cost { entry := c, now := now, log := log } k
    ((r.1.entry, r.1.now, r.1.log), r.2)

/-- one wrapper alone: a history of calls and clock advances -/
def machRun {σ : Type} (M : Mach σ K) : σ → Int → List (K × Int) → List (Op K) → (σ × Int × List (K × Int)) × List (Ev K)
  | c, now, log, [] => ((c, now, log), [])
  | c, now, log, .advance d :: ops => machRun M c (now + d) log ops
  | c, now, log, .call k :: ops =>
    let r := M.call c now log k
    let r2 := machRun M r.1.1 r.1.2.1 r.1.2.2 ops
    (r2.1, r.2 :: r2.2)

/-- an operation on several wrappers -/
inductive AOp (K : Type) where
  | call (j : Nat) (k : K)
  | advance (d : Int)
  deriving Repr

structure MState (σ K : Type) where
  cells : Nat → σ               -- cache cells
  now : Int
  logs : Nat → List (K × Int)   -- invocation log of wrapped function `j`

/-- which cell wrapper `j` uses -/
def cellOf (shared : Bool) (j : Nat) : Nat := if shared then 0 else j

def upd {τ : Type} (f : Nat → τ) (i : Nat) (v : τ) : Nat → τ := fun n => if n = i then v else f n

/-- several wrappers: events are tagged with the wrapper that was called -/
def multiRun {σ : Type} (M : Mach σ K) (shared : Bool) : MState σ K → List (AOp K) → MState σ K × List (Nat × Ev K)
  | s, [] => (s, [])
  | s, .advance d :: ops => multiRun M shared { s with now := s.now + d } ops
  | s, .call j k :: ops =>
    let r := M.call (s.cells (cellOf shared j)) s.now (s.logs j) k
    let s' : MState σ K := { cells := upd s.cells (cellOf shared j) r.1.1, now := r.1.2.1, logs := upd s.logs j r.1.2.2 }
    let r2 := multiRun M shared s' ops
    (r2.1, (j, r.2) :: r2.2)

def MState.init {σ : Type} (M : Mach σ K) (t0 : Int) : MState σ K :=
  { cells := fun _ => M.init, now := t0, logs := fun _ => [] }

/-- What wrapper `j` sees of a history on several wrappers: its own calls; a call of another
wrapper is only the clock advance it caused (`dt` is read off the run). -/
def projOps {σ : Type} (M : Mach σ K) (shared : Bool) (j : Nat) : MState σ K → List (AOp K) → List (Op K)
  | _, [] => []
  | s, .advance d :: ops => .advance d :: projOps M shared j { s with now := s.now + d } ops
  | s, .call j' k :: ops =>
    let r := M.call (s.cells (cellOf shared j')) s.now (s.logs j') k
    let s' : MState σ K := { cells := upd s.cells (cellOf shared j') r.1.1, now := r.1.2.1, logs := upd s.logs j' r.1.2.2 }
    (if j' = j then Op.call k else Op.advance (r.1.2.1 - s.now)) :: projOps M shared j s' ops

/-- the glue facts say that one cache object is shared by everything a configured decorator is applied to -/
def scopeShared (glue : List String) : Bool := glue.contains "cache:outer-scope"

end Cache
