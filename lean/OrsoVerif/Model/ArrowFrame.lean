import OrsoVerif.Model.Arrow
/-!
# C11 — one frame, used more than once

`orso/dataframe.py`: a `DataFrame` holds `_rows`, which is either a list or — for a *lazily backed*
frame (`DataFrame.from_arrow`, `DataFrame(rows=<generator>)`) — the row source itself, and
`_cursor = iter(self._rows or [])` (dataframe.py `__init__`), which for a lazy frame is **the same
object** as the source.  `materialize()` replaces the source by `list(source)`; `head`/`slice`,
`rowcount`, `__len__`, `__iter__` all call it first, and `to_arrow` (converters.py:75-89) reaches the
rows only through `head(size)` / `rowcount`.

`Fr` is that state; `step` is one call on the frame (`arrow(size)` — also what `pandas(size)` does
first —, a read-only observation, `head(k)`, a cursor fetch, `append`); `run` is a history of calls.
The lazily backed frame is driven by the `_RowsIterator` machine of `Model/Arrow.lean` (`next`), so
the refinement theorem about it (`iterator_spec`) extends to "a conversion does not change the
frame, and converting twice gives the same table" (`Props/C11.lean`, `conversion_repeatable`).
-/
namespace Arrow

variable {α : Type}

/-- Up to `n` calls of `step` (stopping at the first `StopIteration`): the rows delivered and the
iterator afterwards (`fetchmany(n)` on the shared cursor: `for i in range(n): next(cursor)`). -/
def takeWith (step : It α → Option α × It α) : Nat → It α → List α × It α
  | 0, s => ([], s)
  | f + 1, s =>
    match step s with
    | (none, s') => ([], s')
    | (some r, s') => (r :: (takeWith step f s').1, (takeWith step f s').2)

/-- What a caller sees who reads `from_arrow(tables, size)` only `read` rows far and then abandons it
(`none`: reads it to the end).  A conversion is a function of the tables' *value*: the caller's list is only
read (`iter(tables)`), so a second conversion of the same list — after, or while, the first is being read —
starts from the same tables (the harness checks on the implementation that the list is left alone). -/
def readRows (tables : List (Table α)) (size : Option Nat) : Option Nat → List α
  | none => fromArrowRows tables size
  | some n => (takeWith next n (init tables size)).1

/-- `frame.arrow(size)`: the size that reaches `to_arrow` (dataframe.py `arrow`: `to_arrow(self, size=size)`,
the argument expression is *generated*). -/
def arrowCall (size : Option Int) : Option Int := Gen.ArrowExpr.frameArrowArg size

/-- `frame.pandas(size)` → `to_pandas(self, size)` → `dataset.arrow(size)` → `to_arrow`: three glue sites, the
argument expression of each *generated*. -/
def pandasCall (size : Option Int) : Option Int :=
  arrowCall (Gen.ArrowExpr.toPandasArrowArg (Gen.ArrowExpr.framePandasArg size))

/-- A generator of rows as a row source: nothing fetched yet, no size limit. -/
def ofRows (rows : List α) : It α :=
  { tables := [], current := rows, processed := 0, maxSize := none, batch := 1 }

/-- The state of a `DataFrame` as far as conversions look at it. -/
inductive Fr (ρ : Type) where
  /-- `_rows` is still the row source; `_cursor` is the same object. -/
  | lazy (src : It ρ)
  /-- `_rows` is a list.  `cursor = none`: `_cursor is None` (after `append`); `some rest`: the rows
  the cursor has still to deliver (`[]` for a frame that was lazy: its cursor is the exhausted source). -/
  | eager (rows : List ρ) (cursor : Option (List ρ))

/-- `DataFrame(rows=<list>, schema=…)`. -/
def Fr.ofList {ρ : Type} (rows : List ρ) : Fr ρ := .eager rows (some rows)

/-- dataframe.py `materialize`: `if not isinstance(self._rows, list): self._rows = list(self._rows or [])`. -/
def Fr.materialize {ρ : Type} : Fr ρ → Fr ρ
  | .lazy s => .eager (drain s) (some [])
  | .eager rows c => .eager rows c

/-- The list `self._rows` is after `materialize()`: the rows the frame holds. -/
def Fr.listRows {ρ : Type} : Fr ρ → List ρ
  | .lazy s => drain s
  | .eager rows _ => rows

def Fr.isLazy {ρ : Type} : Fr ρ → Bool
  | .lazy _ => true
  | .eager _ _ => false

/-- One call on a frame. -/
inductive Op (ρ : Type) where
  /-- `frame.arrow(size)` (and the first half of `frame.pandas(size)`) -/
  | arrow (size : Option Int)
  /-- `len(frame)`, `frame.rowcount`, `frame.shape`, `iter(frame)`: materialise and read -/
  | observe
  /-- `frame.head(k)`: the glue `to_arrow` limits with, called directly -/
  | head (k : Nat)
  /-- `fetchone()` = `some 1`, `fetchmany(k)` = `some k`, `fetchall()` = `none` -/
  | fetch (k : Option Nat)
  /-- `frame.append(row)` -/
  | append (r : ρ)

inductive Out (α : Type) where
  | table (t : ColTable α)
  | rows (rs : List (List α))
  | error

/-- What `arrow(size)` hands back for a frame holding `rows`.  `to_arrow` is a function of the rows (and names) —
that reading of the code is right only while nothing on the conversion path stores anything on the frame
(`Gen.ArrowExpr.conversionWritesFrame`, read from the source: an attribute of `self` / `dataset` assigned in
`DataFrame.arrow`, `DataFrame.pandas`, `to_arrow`, `to_pandas`).  If something is stored the model does not claim to
know what later conversions return: it answers `error`, and every theorem about conversions stops checking. -/
def convert (names : List String) (rows : List (List α)) (size : Option Int) : Out α :=
  if Gen.ArrowExpr.conversionWritesFrame then .error else .table (toArrow names rows size)

/-- One call, line by line.  `to_arrow`: `dataset.head(size)` / `dataset.rowcount` materialise the
frame the call was made on, then the table is built from the (limited) list.  A fetch on a lazy frame
reads the source itself; on an eager frame it reads the cursor, which is independent of the list;
`fetch*` refuse to run after `append`; `append` on a lazy frame materialises it first (dataframe.py `append`:
`if not isinstance(self._rows, list): self.materialize(); self._cursor = None`), then adds the row. -/
def step (names : List String) (f : Fr (List α)) : Op (List α) → Fr (List α) × Out α
  | .arrow size => (f.materialize, convert names f.materialize.listRows size)
  | .observe => (f.materialize, .rows f.materialize.listRows)
  | .head k => (f.materialize, .rows (head k f.materialize.listRows))
  | .fetch k =>
    match f with
    | .lazy s =>
      (.lazy (takeWith next (k.getD (s.remaining.length + 1)) s).2,
       .rows (takeWith next (k.getD (s.remaining.length + 1)) s).1)
    | .eager rows none => (.eager rows none, .error)
    | .eager rows (some rest) =>
      (.eager rows (some (rest.drop (k.getD rest.length))), .rows (rest.take (k.getD rest.length)))
  | .append r =>
    match f with
    | .lazy s => (.eager (drain s ++ [r]) none, .rows [])
    | .eager rows _ => (.eager (rows ++ [r]) none, .rows [])

/-- A history of calls on one frame: the outputs in order, and the frame afterwards. -/
def run (names : List String) : Fr (List α) → List (Op (List α)) → List (Out α) × Fr (List α)
  | f, [] => ([], f)
  | f, op :: ops =>
    ((step names f op).2 :: (run names (step names f op).1 ops).1, (run names (step names f op).1 ops).2)

end Arrow
