import OrsoVerif.Model.Estimators
import OrsoVerif.Generated.DistogramObj
/-!
# C14 — histogram *objects*: who holds which bins after `a + b`
(`Distogram.__add__`, `update`'s bounds statements — `orso/profiler/distogram/__init__.py`)

`Model/Distogram.lean` describes histogram *values*.  The estimators are called on *objects*, and an
object can be reached under several names: `c = a + b` hands back the left operand itself (the code
as it is: `merge(self, operand)` updates `self` in place), or — after a refactor — a copy.  What a
name answers after the object behind it took part in a `+` is decided by
`Gen.DistogramObj.addTarget`, regenerated from the source on every run.

* `ObjHeap`: registers naming objects, objects holding `Hist` states — the executable model the
  correspondence run drives (`Drv/C14.lean`, op `hseq`).
* `leftAfter`: on the reference machine, what the left operand holds after `c = a + b` and any
  further updates of `c` (the theorems of `Props/C14.lean`).
-/
namespace Distogram
open Gen.DistogramObj (AddTarget addTarget updBounds updBeforeReject)

variable {K : Type} [Add K] [Sub K] [Mul K] [Div K] [LT K] [LE K]
  [DecidableLT K] [DecidableLE K] [OfNat K 0] [OfNat K 1] [OfNat K 2]

/-- Registers (`regs`: name → object) and objects (`objs`: object → state). -/
structure ObjHeap (K : Type) where
  regs : List (Nat × Nat)
  objs : List (Nat × Hist K)
  next : Nat

def ObjHeap.empty : ObjHeap K := { regs := [], objs := [], next := 0 }

/-- The object a register names, and its state. -/
def ObjHeap.get (s : ObjHeap K) (r : Nat) : Option (Nat × Hist K) :=
  match s.regs.find? (·.1 == r) with
  | some (_, o) => (s.objs.find? (·.1 == o)).map fun p => (o, p.2)
  | none => none

def ObjHeap.put (s : ObjHeap K) (o : Nat) (h : Hist K) : ObjHeap K :=
  { s with objs := (o, h) :: s.objs.filter (·.1 != o) }

def ObjHeap.name (s : ObjHeap K) (r o : Nat) : ObjHeap K :=
  { s with regs := (r, o) :: s.regs.filter (·.1 != r) }

/-- `r = Distogram(cap)`. -/
def ObjHeap.new (s : ObjHeap K) (r cap : Nat) : ObjHeap K :=
  ({ s with next := s.next + 1 }.put s.next (Hist.init cap)).name r s.next

/-- `update(r, value, count)`: the object is changed, every name of it sees the change. -/
def ObjHeap.upd (s : ObjHeap K) (r : Nat) (value count : K) : Option (Except String (ObjHeap K)) :=
  (s.get r).map fun (o, h) => (update h value count).map fun h' => s.put o h'

/-! ## Calls the source refuses

`update(h, value, count)` raises `ValueError` for a count that is not strictly positive
(`Gen.DistogramFlow.updCountBad`, the test of the source).  Python objects are changed in place, so
whatever the function did to `h` *before* the `raise` stays on the object the caller still holds.
`Gen.DistogramObj.updBeforeReject` is that prefix of the function body — the statements on the bounds that
precede the validation, in source order, regenerated on every run. -/

/-- The object after `update` refused the call. -/
def rejectedUpdate (h : Hist K) (value : K) : Hist K :=
  let b := updBeforeReject h.min h.max value
  { h with min := b.1, max := b.2 }

/-- The object a caller holds after `try: update(h, value, count) except ...: pass`. -/
def updateCaught (h : Hist K) (value count : K) : Hist K :=
  match update h value count with
  | .ok h' => h'
  | .error _ => if Gen.DistogramFlow.updCountBad count then rejectedUpdate h value else h

/-- A stream of calls, accepted or refused, on one object; the caller carries on after a refusal. -/
def runCaught (h : Hist K) (ops : List (K × K)) : Hist K :=
  ops.foldl (fun a p => updateCaught a p.1 p.2) h

/-- `update(r, value, count)` with the exception caught: the heap afterwards and the error, if any. -/
def ObjHeap.updCaught (s : ObjHeap K) (r : Nat) (value count : K) : Option (ObjHeap K × Option String) :=
  (s.get r).map fun (o, h) =>
    match update h value count with
    | .ok h' => (s.put o h', none)
    | .error e => (s.put o (updateCaught h value count), some e)

/-- `dst = a + b` with the receiving object `t` of the source (`Gen.DistogramObj.addTarget`):
`.self` — the left operand is updated and `dst` becomes another name of it; a copy — `dst` names a new
object and the left operand keeps its state (a *shallow* copy shares its bin list with the left
operand and is not modelled beyond the moment of the `+`: `C14.add_target_sound` rules it out). -/
def ObjHeap.add (t : AddTarget) (s : ObjHeap K) (dst a b : Nat) : Option (Except String (ObjHeap K)) :=
  match s.get a, s.get b with
  | some (oa, ha), some (_, hb) =>
    some ((Distogram.add ha hb).map fun m =>
      match t with
      | .self => (s.put oa m).name dst oa
      | _ => ({ s with next := s.next + 1 }.put s.next m).name dst s.next)
  | _, _ => none

/-- The left operand after `c = a + b` and any further updates of `c`, on the reference machine:
`sum` is the state of `c` now, `a` the left operand's state before the `+`.  In place the left
operand *is* `c`; a deep copy leaves it as it was; a shallow copy leaves it holding `c`'s bin list
together with its own old bounds. -/
def leftAfter (t : AddTarget) (a sum : RState K) : RState K :=
  match t with
  | .self => sum
  | .shallowCopy => { sum with min := a.min, max := a.max }
  | .deepCopy => a

end Distogram
