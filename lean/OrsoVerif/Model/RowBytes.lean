import OrsoVerif.Generated.Row
/-!
# Row record framing (C01): `Row.as_bytes` header and the three guards of `from_bytes_cython`

Everything here is *defined in terms of the constants extracted from the working tree*
(`Gen.Row.*`): prefix, widths and byte order of the two `to_bytes` calls, the 16 MiB cap, the
decoder's own `HEADER_SIZE`, nibble mask/value, the (offset, shift) pairs of the length field and
the two comparison operators.  Changing any of them in the source changes these definitions and
the theorems of `Props/C01.lean` are re-checked against the new values.

The layer is generic over the payload codec: `decodeWith unpack`.
-/
namespace RowBytes

abbrev Bytes := List UInt8

/-- `n.to_bytes(k, "big")` for `n < 256^k` (most significant byte first). -/
def be : Nat → Nat → Bytes
  | 0, _ => []
  | k + 1, n => UInt8.ofNat (n / 256 ^ k) :: be k n

/-- `n.to_bytes(k, order)` with the byte order the source uses (orso/row.py:172-173). -/
def toBytes (k n : Nat) : Bytes :=
  if Gen.Row.bigEndian then be k n else (be k n).reverse

/-- orso/row.py:170-175: `HEADER_PREFIX + record_size.to_bytes(4,"big") + timestamp.to_bytes(8,"big")`. -/
def header (len ts : Nat) : Bytes :=
  Gen.Row.headerPrefix ++ toBytes Gen.Row.lenWidth len ++ toBytes Gen.Row.tsWidth ts

inductive EncErr where
  /-- `raise DataError("Record length cannot exceed 16Mb")` (orso/row.py:167-168) -/
  | tooLarge
  /-- `int.to_bytes` raises `OverflowError` when the value does not fit the width -/
  | overflow
  /-- the payload codec refused the row (ormsgpack `TypeError`), nothing is emitted -/
  | codec
  /-- an extracted comparison operator the model does not know: nothing is emitted -/
  | unknownOp
  /-- `self.name = …` on a row object without a `__dict__` (an instance of `Row` itself, `__slots__ = ()`):
  `AttributeError`, nothing is emitted.  Cannot occur on the tree as it is (no such statement); it is what a
  statement-level translation of `as_bytes` that contains one evaluates to (`RowGlue.setAttr`). -/
  | attribute
  deriving DecidableEq, Repr

inductive DecErr where
  /-- `raise DataError("Data malformed")` (compiled.pyx:47-48) -/
  | malformed
  /-- `raise DataError("Data malformed - incorrect length")` (compiled.pyx:58-59) -/
  | badLength
  /-- the payload codec raised (ormsgpack `ValueError`, or the `cdef list` cast `TypeError`) -/
  | payloadError
  /-- an extracted comparison operator the model does not know: never accepted -/
  | unknownOp
  deriving DecidableEq, Repr

/-- The errors that surface as `orso.exceptions.DataError`. -/
def DecErr.isDataError : DecErr → Bool
  | .malformed => true
  | .badLength => true
  | _ => false

/-- A comparison operator given by its source text. -/
def cmpOp (op : String) (a b : Int) : Option Bool :=
  if op = "<" then some (decide (a < b))
  else if op = "<=" then some (decide (a ≤ b))
  else if op = ">" then some (decide (a > b))
  else if op = ">=" then some (decide (a ≥ b))
  else if op = "==" then some (decide (a = b))
  else if op = "!=" then some (decide (a ≠ b))
  else none

/-- One operand of the `+` chain `as_bytes` returns (orso/row.py:170-175), by its role: the constant
prefix, `len(payload).to_bytes(…)`, `time.time_ns().to_bytes(…)`, the packed payload. -/
def part (name : String) (len ts : Nat) (payload : Bytes) : Bytes :=
  if name = "prefix" then Gen.Row.headerPrefix
  else if name = "len" then toBytes Gen.Row.lenWidth len
  else if name = "ts" then toBytes Gen.Row.tsWidth ts
  else if name = "payload" then payload
  else []

/-- The record as the source assembles it: the extracted operands in the extracted order. -/
def frameBytes (len ts : Nat) (payload : Bytes) : Bytes :=
  Gen.Row.frameLayout.foldr (fun name acc => part name len ts payload ++ acc) []

/-- orso/row.py:163-168,172-173: what `as_bytes` decides from `record_size = len(record_bytes)` and
the clock alone — the cap test (extracted operator), then the two `to_bytes` widths. -/
def frameDecision (ts len : Nat) : Option EncErr :=
  match cmpOp Gen.Row.capOp len Gen.Row.maxRecord with
  | none => some .unknownOp
  | some over =>
    if over then some .tooLarge
    else if len ≥ 256 ^ Gen.Row.lenWidth ∨ ts ≥ 256 ^ Gen.Row.tsWidth then some .overflow
    else none

/-- orso/row.py:162-176 after `packb`: size check, then the parts. `ts` is `time.time_ns()`. -/
def encodeFrame (ts : Nat) (payload : Bytes) : Except EncErr Bytes :=
  match frameDecision ts payload.length with
  | some e => .error e
  | none => .ok (frameBytes payload.length ts payload)

/-- Unchecked `data_ptr[i]`: CPython `bytes` carry a trailing NUL, reads at `len` give 0; the
guards below never read further on an accepted path with the pinned constants. -/
def byteAt (data : Bytes) (i : Nat) : Nat := (data.getD i 0).toNat

/-- A C expression of type `int` (32 bits, two's complement) stored in a `Py_ssize_t`: the value
of the unbounded arithmetic, wrapped. compiled.pyx:51-56 builds `record_size` from `unsigned char`
operands, which C promotes to `int` before `<<` and `|`. -/
def cInt32 (raw : Nat) : Int :=
  let v : Nat := raw % 2 ^ 32
  if v ≥ 2 ^ 31 then (v : Int) - 2 ^ 32 else (v : Int)

/-- `n.to_bytes(k, order)` as Python evaluates it: `OverflowError` when `n` does not fit `k` bytes
(orso/row.py:172-173; the statement-level translation `Gen.RowFns.as_bytes_frame` calls this). -/
def intToBytes (n k : Nat) (order : String) : Except EncErr Bytes :=
  if n ≥ 256 ^ k then .error .overflow
  else .ok (if order = "big" then be k n else (be k n).reverse)

/-- `a + b + …` over byte strings whose operands may raise: evaluated left to right, the first
exception wins. -/
def catBytes : List (Except EncErr Bytes) → Except EncErr Bytes
  | [] => .ok []
  | .error e :: _ => .error e
  | .ok b :: rest =>
    match catBytes rest with
    | .error e => .error e
    | .ok bs => .ok (b ++ bs)

/-- compiled.pyx:51-56: the bytes at the extracted offsets, shifted and OR-ed. The C expression
has type `int` (each `unsigned char` is promoted before `<<`), so a value with bit 31 set is
negative once stored in `Py_ssize_t`: two's-complement wrap at 32 bits. -/
def recordSize (data : Bytes) : Int :=
  cInt32 (Gen.Row.lengthField.foldl (fun acc p => acc ||| (byteAt data p.1 <<< p.2)) 0)

/-- The outcome of one test: `none` = an operator the model does not know, `some none` = passed,
`some (some e)` = the `DataError` it raises. -/
def verdict (r : Option Bool) (e : DecErr) : Option (Option DecErr) :=
  match r with
  | none => none
  | some b => some (if b then some e else none)

/-- One of the three tests of compiled.pyx:47-59 by name (`none` for an unknown name). `length` is
`PyBytes_GET_SIZE(data)`. -/
def guard (name : String) (length : Int) (data : Bytes) : Option (Option DecErr) :=
  let hs : Int := Gen.Row.decHeaderSize
  if name = "size" then verdict (cmpOp Gen.Row.guardSizeOp length hs) .malformed
  else if name = "version" then
    verdict (some ((byteAt data 0 &&& Gen.Row.nibbleMask) != Gen.Row.nibbleValue)) .malformed
  else if name = "length" then verdict (cmpOp Gen.Row.guardLenOp (recordSize data) (length - hs)) .badLength
  else none

def runGuards (length : Int) (data : Bytes) : List String → Except DecErr Unit
  | [] => .ok ()
  | g :: gs =>
    match guard g length data with
    | none => .error .unknownOp
    | some (some e) => .error e
    | some none => runGuards length data gs

/-- compiled.pyx:41-59: the guards in the extracted order. They read `length` and the first bytes
of the buffer only (offset 0 and the extracted offsets of the length field). -/
def checkHead (length : Nat) (data : Bytes) : Except DecErr Unit :=
  runGuards (length : Int) data Gen.Row.guardOrder

/-- compiled.pyx:41-62: the guards, then `data[HEADER_SIZE:]` (the extracted slice start). -/
def checkFrame (data : Bytes) : Except DecErr Bytes :=
  match checkHead data.length data with
  | .error e => .error e
  | .ok _ => .ok (data.drop Gen.Row.payloadStart)

/-- Guards, then the payload codec (`unpackb(data[HEADER_SIZE:])`). -/
def decodeWith {α : Type} (unpack : Bytes → Option α) (data : Bytes) : Except DecErr α :=
  match checkFrame data with
  | .error e => .error e
  | .ok p =>
    match unpack p with
    | some v => .ok v
    | none => .error .payloadError

/-- Encoder over a codec: `pack` may refuse (`none`), then frame. -/
def encodeWith {α : Type} (pack : α → Option Bytes) (ts : Nat) (v : α) : Except EncErr Bytes :=
  match pack v with
  | none => .error .codec
  | some p => encodeFrame ts p

/-- Replace the byte at position `i` (used to state header alterations). -/
def setByte (data : Bytes) (i : Nat) (b : UInt8) : Bytes := data.set i b

/-- Flip bit `j` of the byte at position `i`. -/
def flipBit (data : Bytes) (i j : Nat) : Bytes :=
  data.set i ((data.getD i 0) ^^^ (UInt8.ofNat (2 ^ j)))

end RowBytes
