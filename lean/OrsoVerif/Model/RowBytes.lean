import OrsoVerif.Generated.Row
/-!
# Row record framing (C01): `Row.as_bytes` header and the three guards of `from_bytes_cython`

Everything here is *defined in terms of the constants extracted from the working tree*
(`Gen.Row.*`): prefix, widths and byte order of the two `to_bytes` calls, the 16 MiB cap, the
decoder's own `HEADER_SIZE`, nibble mask/value, the (offset, shift) pairs of the length field and
the two comparison operators.  Changing any of them in the source changes these definitions and
the theorems of `Props/C01.lean` are re-checked against the new values.

The layer is generic over the payload codec: `decodeWith unpack`.
-/
namespace RowBytes

abbrev Bytes := List UInt8

/-- `n.to_bytes(k, "big")` for `n < 256^k` (most significant byte first). -/
def be : Nat → Nat → Bytes
  | 0, _ => []
  | k + 1, n => UInt8.ofNat (n / 256 ^ k) :: be k n

/-- `n.to_bytes(k, order)` with the byte order the source uses (orso/row.py:172-173). -/
def toBytes (k n : Nat) : Bytes :=
  if Gen.Row.bigEndian then be k n else (be k n).reverse

/-- orso/row.py:170-175: `HEADER_PREFIX + record_size.to_bytes(4,"big") + timestamp.to_bytes(8,"big")`. -/
def header (len ts : Nat) : Bytes :=
  Gen.Row.headerPrefix ++ toBytes Gen.Row.lenWidth len ++ toBytes Gen.Row.tsWidth ts

inductive EncErr where
  /-- `raise DataError("Record length cannot exceed 16Mb")` (orso/row.py:167-168) -/
  | tooLarge
  /-- `int.to_bytes` raises `OverflowError` when the value does not fit the width -/
  | overflow
  /-- the payload codec refused the row (ormsgpack `TypeError`), nothing is emitted -/
  | codec
  deriving DecidableEq, Repr

inductive DecErr where
  /-- `raise DataError("Data malformed")` (compiled.pyx:47-48) -/
  | malformed
  /-- `raise DataError("Data malformed - incorrect length")` (compiled.pyx:58-59) -/
  | badLength
  /-- the payload codec raised (ormsgpack `ValueError`, or the `cdef list` cast `TypeError`) -/
  | payloadError
  /-- an extracted comparison operator the model does not know: never accepted -/
  | unknownOp
  deriving DecidableEq, Repr

/-- The errors that surface as `orso.exceptions.DataError`. -/
def DecErr.isDataError : DecErr → Bool
  | .malformed => true
  | .badLength => true
  | _ => false

/-- orso/row.py:162-176 after `packb`: size check, then header + payload. `ts` is `time.time_ns()`. -/
def encodeFrame (ts : Nat) (payload : Bytes) : Except EncErr Bytes :=
  if payload.length > Gen.Row.maxRecord then .error .tooLarge
  else if payload.length ≥ 256 ^ Gen.Row.lenWidth ∨ ts ≥ 256 ^ Gen.Row.tsWidth then .error .overflow
  else .ok (header payload.length ts ++ payload)

/-- A comparison operator given by its source text. -/
def cmpOp (op : String) (a b : Int) : Option Bool :=
  if op = "<" then some (decide (a < b))
  else if op = "<=" then some (decide (a ≤ b))
  else if op = ">" then some (decide (a > b))
  else if op = ">=" then some (decide (a ≥ b))
  else if op = "==" then some (decide (a = b))
  else if op = "!=" then some (decide (a ≠ b))
  else none

/-- Unchecked `data_ptr[i]`: CPython `bytes` carry a trailing NUL, reads at `len` give 0; the
guards below never read further on an accepted path with the pinned constants. -/
def byteAt (data : Bytes) (i : Nat) : Nat := (data.getD i 0).toNat

/-- compiled.pyx:51-56: the bytes at the extracted offsets, shifted and OR-ed. The C expression
has type `int` (each `unsigned char` is promoted before `<<`), so a value with bit 31 set is
negative once stored in `Py_ssize_t`: two's-complement wrap at 32 bits. -/
def recordSize (data : Bytes) : Int :=
  let raw : Nat := Gen.Row.lengthField.foldl (fun acc p => acc ||| (byteAt data p.1 <<< p.2)) 0
  let v : Nat := raw % 2 ^ 32
  if v ≥ 2 ^ 31 then (v : Int) - 2 ^ 32 else (v : Int)

/-- compiled.pyx:41-62: the three guards, in order; returns `data[HEADER_SIZE:]`. -/
def checkFrame (data : Bytes) : Except DecErr Bytes :=
  let length : Int := data.length
  let hs : Int := Gen.Row.decHeaderSize
  match cmpOp Gen.Row.guardSizeOp length hs with
  | none => .error .unknownOp
  | some short =>
    -- `length < HEADER_SIZE or (data_ptr[0] & 0xF0 != 0x10)` (short-circuit `or`)
    if short || (byteAt data 0 &&& Gen.Row.nibbleMask) != Gen.Row.nibbleValue then .error .malformed
    else
      match cmpOp Gen.Row.guardLenOp (recordSize data) (length - hs) with
      | none => .error .unknownOp
      | some bad =>
        if bad then .error .badLength
        else .ok (data.drop Gen.Row.decHeaderSize)

/-- Guards, then the payload codec (`unpackb(data[HEADER_SIZE:])`). -/
def decodeWith {α : Type} (unpack : Bytes → Option α) (data : Bytes) : Except DecErr α :=
  match checkFrame data with
  | .error e => .error e
  | .ok p =>
    match unpack p with
    | some v => .ok v
    | none => .error .payloadError

/-- Encoder over a codec: `pack` may refuse (`none`), then frame. -/
def encodeWith {α : Type} (pack : α → Option Bytes) (ts : Nat) (v : α) : Except EncErr Bytes :=
  match pack v with
  | none => .error .codec
  | some p => encodeFrame ts p

/-- Replace the byte at position `i` (used to state header alterations). -/
def setByte (data : Bytes) (i : Nat) (b : UInt8) : Bytes := data.set i b

/-- Flip bit `j` of the byte at position `i`. -/
def flipBit (data : Bytes) (i j : Nat) : Bytes :=
  data.set i ((data.getD i 0) ^^^ (UInt8.ofNat (2 ^ j)))

end RowBytes
