/-!
# A carrier with an unordered element: Python's floats as far as comparisons go

`PyNum K` is a number of `K` or `nan`.  Every comparison in which `nan` takes part is false
(`<`, `≤`, and `>`, `≥` which are the same relations read backwards), arithmetic propagates `nan`.
The generated guards of `count_at` and `quantile` (`Gen.DistogramExpr.countOutside`, `quantInRange`)
and the models built on them (`Distogram.countAt`, `Distogram.quantile`) are polymorphic in the
carrier (`+ - * / < ≤`, the numerals 0, 1, 2), so they can be *run at this carrier*: a guard written
`not (0 <= value <= 1)` refuses `nan`, its De Morgan rewrite `value < 0 or value > 1` lets it through.
Mathlib-free.
-/

inductive PyNum (K : Type) where
  | num (k : K)
  | nan
  deriving Repr

namespace PyNum
variable {K : Type}

def lt [LT K] : PyNum K → PyNum K → Prop
  | num a, num b => a < b
  | _, _ => False

def le [LE K] : PyNum K → PyNum K → Prop
  | num a, num b => a ≤ b
  | _, _ => False

instance [LT K] : LT (PyNum K) := ⟨lt⟩
instance [LE K] : LE (PyNum K) := ⟨le⟩

instance [LT K] [DecidableLT K] : DecidableLT (PyNum K) := fun a b =>
  match a, b with
  | num x, num y => inferInstanceAs (Decidable (x < y))
  | num _, nan => isFalse (fun h => h)
  | nan, num _ => isFalse (fun h => h)
  | nan, nan => isFalse (fun h => h)

instance [LE K] [DecidableLE K] : DecidableLE (PyNum K) := fun a b =>
  match a, b with
  | num x, num y => inferInstanceAs (Decidable (x ≤ y))
  | num _, nan => isFalse (fun h => h)
  | nan, num _ => isFalse (fun h => h)
  | nan, nan => isFalse (fun h => h)

def map₂ (f : K → K → K) : PyNum K → PyNum K → PyNum K
  | num a, num b => num (f a b)
  | _, _ => nan

instance [Add K] : Add (PyNum K) := ⟨map₂ (· + ·)⟩
instance [Sub K] : Sub (PyNum K) := ⟨map₂ (· - ·)⟩
instance [Mul K] : Mul (PyNum K) := ⟨map₂ (· * ·)⟩
instance [Div K] : Div (PyNum K) := ⟨map₂ (· / ·)⟩
instance {n : Nat} [OfNat K n] : OfNat (PyNum K) n := ⟨num (OfNat.ofNat n)⟩

@[simp] theorem num_lt_num [LT K] (a b : K) : (num a < num b) ↔ a < b := Iff.rfl
@[simp] theorem num_le_num [LE K] (a b : K) : (num a ≤ num b) ↔ a ≤ b := Iff.rfl
@[simp] theorem not_nan_lt [LT K] (b : PyNum K) : ¬ ((nan : PyNum K) < b) := by cases b <;> exact fun h => h
@[simp] theorem not_lt_nan [LT K] (a : PyNum K) : ¬ (a < (nan : PyNum K)) := by cases a <;> exact fun h => h
@[simp] theorem not_nan_le [LE K] (b : PyNum K) : ¬ ((nan : PyNum K) ≤ b) := by cases b <;> exact fun h => h
@[simp] theorem not_le_nan [LE K] (a : PyNum K) : ¬ (a ≤ (nan : PyNum K)) := by cases a <;> exact fun h => h
@[simp] theorem ofNat_eq {n : Nat} [OfNat K n] : (OfNat.ofNat n : PyNum K) = num (OfNat.ofNat n) := rfl

end PyNum
