import OrsoVerif.Model.Persist
/-!
# C16 — the vocabulary the statement-level translation is written in

`Generated/PersistFns.lean` (namespace `Gen.PersistFns`) holds `FlatColumn.from_dict`, `from_json`, `to_json` with its
`default_serializer`, `to_flatcolumn`, `RelationSchema.from_dict`, `RelationSchema.to_dict`'s `_converter` and the
statements of `FlatColumn.__init__` after the attribute loop, translated *statement by statement* from the working
tree on every run (harness/pystmt.py, harness/extractors/c16_fns.py).  This file defines what the translated text
mentions: the questions asked of a column dictionary (`"k" in dic`, `dic["k"] is None`, `dic.get("k") ==
OrsoTypes.M.value`), `{**dic, "k": OrsoTypes.M}`, the entries of a schema dictionary's column list (a dictionary, a
name, anything else), the object handed to a JSON `default=` hook, the working state of the constructor, and the
hand-written reference functions the translations are proved equal to (`Props/C16.lean`, `generated_*_eq_model`).
-/
namespace Persist
open TypeName (Str Ty)
open Gen.Persist

variable {V : Type}

/-! ## a column dictionary -/

/-- `"k" in dic` -/
def dHas (d : Raw V) : String → Bool
  | "name" => d.name.isSome
  | "default" => d.default.isSome
  | "type" => d.type.isSome
  | "element_type" => d.element_type.isSome
  | "description" => d.description.isSome
  | "disposition" => d.disposition.isSome
  | "aliases" => d.aliases.isSome
  | "nullable" => d.nullable.isSome
  | "expectations" => d.expectations.isSome
  | "identity" => d.identity.isSome
  | "length" => d.length.isSome
  | "precision" => d.precision.isSome
  | "scale" => d.scale.isSome
  | "origin" => d.origin.isSome
  | "highest_value" => d.highest_value.isSome
  | "lowest_value" => d.lowest_value.isSome
  | "null_count" => d.null_count.isSome
  | _ => false

/-- `dic.get(k) == OrsoTypes.<m>.value` for `k` = `type` / `element_type` (an absent key gives `None`, which equals no
text; the translator refuses the comparison for other keys) -/
def dGetEqValue (d : Raw V) (k m : String) : Bool := evalCond d ("eqValue", k, m)

/-- `dic[k] is None`, asked after `k in dic` (the translator refuses it elsewhere: a KeyError path) -/
def dIsNone (d : Raw V) (k : String) : Bool := evalCond d ("isNone", k, "")

/-- `{**dic, k: OrsoTypes.<m>}` -/
def dSetMember (d : Raw V) (k m : String) : Raw V := assignMember d k m

/-! ## a schema dictionary -/

/-- an entry of `dic["columns"]`: `RelationSchema.from_dict` asks `isinstance(column, dict)` / `isinstance(column, str)` -/
inductive ColEntry (V : Type) where
  | dict (r : Raw V)
  | name (s : String)
  | other
  deriving Repr, DecidableEq

def ColEntry.isDict : ColEntry V → Bool
  | .dict _ => true
  | _ => false

def ColEntry.isStr : ColEntry V → Bool
  | .name _ => true
  | _ => false

/-- the entry as the text it is (the translator passes it where a `name=` keyword takes the loop variable) -/
def ColEntry.text : ColEntry V → Option String
  | .name s => some s
  | _ => none

/-- a loader applied to an entry that is a dictionary (`f(**column)` / `f.from_dict(column)`); on anything else the
call raises (`'str' object has no attribute 'get'`, `argument after ** must be a mapping`) -/
def onDict {α : Type} (f : Raw V → Except Err α) : ColEntry V → Except Err α
  | .dict r => f r
  | .name _ => .error (.other "AttributeError".toList)
  | .other => .error (.other "AttributeError".toList)

/-- the schema dictionary as any caller may hand it over; `none` = key absent -/
structure SDictE (V : Type) where
  name : Option String := none
  aliases : Option (List String) := none
  columns : Option (List (ColEntry V)) := none
  primary_key : Option (Option String) := none
  deriving Repr, DecidableEq

def SDictE.ofSDict (d : SDict V) : SDictE V :=
  { name := d.name, aliases := d.aliases, columns := d.columns.map (·.map ColEntry.dict), primary_key := d.primary_key }

/-- the schema while `from_dict` builds it: a loaded column that raised is kept in place (the first one is what the
caller sees: the calls are pure, so what follows a raise cannot be observed) -/
structure SchemaB (V : Type) where
  name : String
  aliases : List String
  columns : List (Except Err (Col V))
  primary_key : Option String

/-- `schema.columns.append(x)` -/
def SchemaB.append (s : SchemaB V) (x : Except Err (Col V)) : SchemaB V := { s with columns := s.columns ++ [x] }

/-- the first exception among the loaded columns, else the columns -/
def firstError {α : Type} : List (Except Err α) → Except Err (List α)
  | [] => .ok []
  | .error e :: _ => .error e
  | .ok a :: rest =>
    match firstError rest with
    | .error e => .error e
    | .ok as => .ok (a :: as)

/-- `return schema` -/
def SchemaB.seal (s : SchemaB V) : Except Err (Schema V) :=
  match firstError s.columns with
  | .error e => .error e
  | .ok cs => .ok ⟨s.name, s.aliases, cs, s.primary_key⟩

/-- reference: how one entry of the column list is loaded (a dictionary through `FlatColumn.from_dict`, a name as
`FlatColumn(name=…)`, anything else is skipped) -/
def loadEntries (K : Caster V) (fresh : String) : List (ColEntry V) → Except Err (List (Col V))
  | [] => .ok []
  | .dict r :: es =>
    match colFromDict K fresh r with
    | .error e => .error e
    | .ok c =>
      match loadEntries K fresh es with
      | .error e => .error e
      | .ok cs => .ok (c :: cs)
  | .name s :: es =>
    match init K fresh { name := some s } with
    | .error e => .error e
    | .ok c =>
      match loadEntries K fresh es with
      | .error e => .error e
      | .ok cs => .ok (c :: cs)
  | .other :: es => loadEntries K fresh es

/-- reference: `RelationSchema.from_dict` on any dictionary (`name` / `columns` absent → KeyError, `aliases` absent →
`[]`, `primary_key` absent → `None`) -/
def fromDictE (K : Caster V) (fresh : String) (d : SDictE V) : Except Err (Schema V) :=
  match d.name with
  | none => .error .key
  | some name =>
    match d.columns with
    | none => .error .key
    | some es =>
      match loadEntries K fresh es with
      | .error e => .error e
      | .ok cs => .ok ⟨name, d.aliases.getD [], cs, d.primary_key.getD none⟩

/-! ## the object a JSON `default=` hook is called with -/

/-- what orjson hands to `default`: an object it does not write itself.  (An `OrsoTypes` member is a `str` and an
`Enum`: orjson writes it itself, the hook's branch for it is not reached; it is kept because the code asks.) -/
inductive SerObj where
  | orsoType (m : Str)
  | expectation
  | value (cls : String)   -- `bytes`, `Decimal`, `timedelta`, …
  deriving Repr, DecidableEq

inductive SerOut where
  | text (s : Str)
  | attrs            -- `o.__dict__`
  deriving Repr, DecidableEq

def SerObj.isInstance : SerObj → String → Bool
  | .orsoType _, c => c == "OrsoTypes" || c == "str" || c == "Enum"
  | .expectation, c => c == "Expectation"
  | .value cls, c => c == cls

/-- `str(o)` (`OrsoTypes.__str__` returns the value) -/
def SerObj.str : SerObj → SerOut
  | .orsoType m => .text (TypeName.valueOf m)
  | .expectation => .text "Expectation".toList
  | .value cls => .text cls.toList

def SerObj.dict (_ : SerObj) : SerOut := .attrs

/-- reference: `default_serializer` of `to_json` — a type member as its text, an expectation as its attributes,
anything else is refused with TypeError (the open finding C16-K01 is this line) -/
def defaultSerializer : SerObj → Except Err SerOut
  | .orsoType m => .ok (.text (TypeName.valueOf m))
  | .expectation => .ok .attrs
  | .value cls =>
    if cls == "OrsoTypes" then .ok (.text cls.toList) else if cls == "Expectation" then .ok .attrs else .error .type

/-- `asdict(self)` of a column: the declared fields (values as they are; an enum is written by orjson as its value) -/
def asdictCol (c : Col V) : Raw V := colToDict c

/-- `orjson.dumps(d, default=ser)` followed by `orjson.loads`: integers beyond 64 bits are refused by orjson itself; a
value orjson does not write is handed to `ser`, whose exception is the caller's; what `ser` returns for a *value*
(nothing, today) is outside the model -/
def dumps (K : Caster V) (ser : SerObj → Except Err SerOut) (c : Col V) (d : Raw V) : Except Err (Raw V) :=
  if !(intFits c.length && intFits c.precision && intFits c.scale && intFits c.null_count) then .error .type
  else
    match K.json c.default, K.json c.highest_value, K.json c.lowest_value, mapO K.json c.expectations with
    | some dv, some h, some l, some ex =>
      .ok { d with default := em "default" dv, highest_value := em "highest_value" h,
                   lowest_value := em "lowest_value" l, expectations := em "expectations" ex }
    | _, _, _, _ =>
      match ser (.value "object") with
      | .error e => .error e
      | .ok _ => .error (.other "unmodelled".toList)

/-- `orjson.loads(text)`: the text is represented by what it parses to -/
def loads (d : Raw V) : Raw V := d

/-! ## what `_converter` is asked about: a value of the `asdict` item list -/

inductive EVal where
  | ty (t : Ty)           -- the type / element type attribute as stored (a member, or the int 0)
  | disp (n : String)     -- a `ColumnDisposition` member
  | tyOut (r : RawTy)     -- what is written for a type
  | dispOut (r : RawDisp) -- what is written for a disposition
  deriving Repr, DecidableEq

/-- `isinstance(value, Enum)`: the int 0 is not an enum member -/
def EVal.isEnum : EVal → Bool
  | .ty (.member _) => true
  | .disp _ => true
  | _ => false

/-- `value.value` -/
def EVal.value : EVal → EVal
  | .ty (.member m) => .tyOut (.text (TypeName.valueOf m))
  | .ty .zero => .tyOut .zero
  | .disp n => .dispOut (.text (dispValue n))
  | v => v

/-- `value.name` -/
def EVal.name : EVal → EVal
  | .ty (.member m) => .tyOut (.text m)
  | .ty .zero => .tyOut .zero
  | .disp n => .dispOut (.text n)
  | v => v

/-- a value that is written as it is -/
def EVal.plain : EVal → EVal
  | .ty (.member m) => .tyOut (.member m)
  | .ty .zero => .tyOut .zero
  | .disp n => .dispOut (.member n)
  | v => v

/-! ## the working state of `FlatColumn.__init__` after the attribute loop -/

/-- the attributes the statements after the loop read or assign; `type` / `element_type` / `disposition` hold what was
passed in until their statement has mapped the literal to the member -/
structure St (V : Type) where
  type : RawTy
  element_type : Option RawTy
  disposition : Option RawDisp
  default : V
  length : Option Nat
  precision : Option Nat
  scale : Option Nat
  deriving Repr, DecidableEq

/-- `x.__class__ is OrsoTypes` -/
def RawTy.isMember : RawTy → Bool
  | .member _ => true
  | _ => false

/-- `x.__class__ is OrsoTypes` for an attribute that may be None -/
def isMemberO : Option RawTy → Bool
  | some t => t.isMember
  | none => false

def RawDisp.isMember : RawDisp → Bool
  | .member _ => true
  | _ => false

def dispIsMemberO : Option RawDisp → Bool
  | some d => d.isMember
  | none => false

/-- `OrsoTypes.from_name(x)` for an attribute that may be None (`str(None).upper()` is `'NONE'`) -/
def fromNameOpt : Option RawTy → TypeName.Res
  | some t => fromNameRaw t
  | none => TypeName.fromName "NONE".toList

/-- `x == OrsoTypes.<m>` for a type attribute (`OrsoTypes` is a `str` enum: a text equal to the value is equal) -/
def tyIs (t : RawTy) (m : String) : Bool :=
  match t with
  | .member m' => m' == m.toList
  | .text s => s == TypeName.valueOf m.toList
  | .zero => false

/-- `x or y` for Optional numbers: a falsy `x` (None, 0) gives `y` -/
def pyOrNat (x y : Option Nat) : Option Nat :=
  match x with
  | none => y
  | some 0 => y
  | some n => some n

/-- `x or y` for Optional type literals -/
def pyOrTy (x y : Option RawTy) : Option RawTy :=
  match x with
  | none => y
  | some t => if rawTyFalsy t then y else some t

/-- `ColumnDisposition(x)`: lookup by value (a member passed in is returned) -/
def dispOfValue : Option RawDisp → Option String
  | none => none
  | some (.member n) => some n
  | some (.text s) => (dispositions.find? (fun p => p.2 == s)).map Prod.fst

/-- `self.type.parse(v)`; the int 0 has no `.parse`, text has none either -/
def parseWith (K : Caster V) (t : RawTy) (v : V) : Option V :=
  match t with
  | .member m => K.parse m v
  | _ => none

/-- the state after the loop, from the keyword arguments (`rd` = the loop's `if attribute in kwargs … else default`) -/
def stOf (K : Caster V) (r : Raw V) : St V :=
  { type := rd "type" r.type (.member missingName)
    element_type := rd "element_type" r.element_type none
    disposition := rd "disposition" r.disposition none
    default := rd "default" r.default K.none
    length := rd "length" r.length none
    precision := rd "precision" r.precision none
    scale := rd "scale" r.scale none }

/-- what `init` returns, seen as that state (members as `RawTy.member` / `RawDisp.member`) -/
def stOfCol (c : Col V) : St V :=
  { type := rawTy c.type
    element_type := c.element_type.map rawTy
    disposition := c.disposition.map RawDisp.member
    default := c.default
    length := c.length
    precision := c.precision
    scale := c.scale }

/-- `str(x)` of a name that is a `str` already -/
def pyStr (s : String) : String := s

/-! ## `asdict(self, dict_factory=_converter)` with the converter's rule for one value as a parameter -/

def convTy (conv : EVal → EVal) (t : Ty) : RawTy :=
  match conv (.ty t) with
  | .tyOut r => r
  | _ => rawTy t

def convDisp (conv : EVal → EVal) (n : String) : RawDisp :=
  match conv (.disp n) with
  | .dispOut r => r
  | _ => .member n

def colAsdict (conv : EVal → EVal) (c : Col V) : Raw V :=
  { colToDict c with
    type := em "type" (convTy conv c.type)
    element_type := em "element_type" (c.element_type.map (convTy conv))
    disposition := em "disposition" (c.disposition.map (convDisp conv)) }

def asdictSchema (conv : EVal → EVal) (s : Schema V) : SDict V :=
  { toDict s with columns := emS "columns" (s.columns.map (colAsdict conv)) }

/-- reference: the statements of `__init__` after the attribute loop, on the working state — the type literal with the
fills, the element type literal, the disposition literal, the default's cast, the DECIMAL defaults (the pieces `init`
is made of, in its order) -/
def initBody (K : Caster V) (s : St V) : Except Err (St V) :=
  match resolveType s.type s.element_type s.length s.precision s.scale with
  | .error e => .error e
  | .ok t =>
    match resolveElem t.elem with
    | .error e => .error e
    | .ok elem =>
      match resolveDisp s.disposition with
      | .error e => .error e
      | .ok disp =>
        match resolveDefault K t.ty s.default with
        | .error e => .error e
        | .ok dflt =>
          .ok { type := rawTy t.ty
                element_type := elem.map rawTy
                disposition := disp.map RawDisp.member
                default := dflt
                length := t.length
                precision := decimalPrecision t.ty t.precision
                scale := decimalScale t.ty (decimalPrecision t.ty t.precision) t.scale }

end Persist
