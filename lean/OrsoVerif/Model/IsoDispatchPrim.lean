import OrsoVerif.Model.Iso
/-!
# Primitives of the dispatch program of `parse_iso` (`Gen.IsoDispatch.dispatch`)

The statements of `parse_iso` in front of the string branch — `input_type = type(value)`, the `bytes`
decode, the all-digit text, the class table of the Unix-seconds branch, `to_pydatetime`, the native
`datetime` / `date` — are translated statement by statement on every run
(`harness/pystmt_dispatch.py`) into a Lean `do` block over the two variables the source re-assigns:
`value : DVal` and `input_type : String` (the class, as the source writes it).  What the program
calls is defined here; `C08.dispatch_program_is_the_modelled_one` proves on every run that the
program computes `Iso.body` on every input.
-/
namespace Iso

/-- The Python values `value` holds on the way. -/
inductive DVal where
  | inp (i : Input)        -- the argument, as given
  | text (s : List Char)   -- an exact `str` made on the way (`value.decode("utf-8")`)
  | intv (n : Int)         -- an exact `int` made on the way (`int(value)`)
  deriving Repr

/-- `type(value)`, as the source would write the class. -/
def pyType : DVal → String
  | .inp (.int _) => "int"
  | .inp (.npInt _) => "numpy.int64"
  | .inp (.float _) => "float"
  | .inp (.npFloat _) => "numpy.float64"
  | .inp (.str _) => "str"
  | .inp (.bytes _) => "bytes"
  | .inp (.date ..) => "datetime.date"
  | .inp (.datetime _) => "datetime.datetime"
  | .inp (.time ..) => "datetime.time"
  | .inp (.strSub _) => "str subclass"
  | .inp (.num ty _) => ty
  | .inp .other => "object"
  | .text _ => "str"
  | .intv _ => "int"

/-- The classes `value` is an instance of (`type(value).__mro__` without `object`). -/
def DVal.classes : DVal → List String
  | .inp (.npFloat _) => mro "numpy.float64"
  | .inp (.npInt _) => mro "numpy.int64"
  | .inp (.num ty _) => mro ty
  | .inp (.datetime _) => ["datetime.datetime", "datetime.date"]
  | .inp (.strSub _) => ["str subclass", "str"]
  | .inp .other => []
  | v => [pyType v]

/-- `isinstance(value, (C₁, …))` -/
def pyIsInstanceD (v : DVal) (cs : List String) : Bool := v.classes.any cs.contains

/-- `input_type in (C₁, …)` -/
def pyTypeIn (ty : String) (cs : List String) : Bool := cs.contains ty

/-- `hasattr(value, name)` for a name none of the modelled inputs carries (`to_pydatetime`: pandas values are outside the model). -/
def pyHasAttr (_ : DVal) (_ : String) : Bool := false

/-- `value.<name>()` for such a name. -/
def pyCallNoArg (_ : DVal) (_ : String) : Except Exc (Option DateTime) := .error .attributeError

/-- A block guarded by a class no modelled input has (`numpy.datetime64`) is not translated. -/
def pyUnmodelled (_ : String) : Exc := .attributeError

/-- `value.decode("utf-8")` -/
def pyDecodeUtf8 : DVal → Except Exc DVal
  | .inp (.bytes b) =>
    match decodeUtf8 b with
    | none => .error .unicodeDecodeError
    | some s => .ok (.text s)
  | _ => .error .attributeError

/-- `value.isdigit()` -/
def pyIsDigit : DVal → Except Exc Bool
  | .inp (.str s) | .text s => .ok (isDigitStr s)
  | .inp (.strSub s) => .ok (isDigitStr s)
  | _ => .error .attributeError

/-- `int(value)` -/
def pyIntOf : DVal → Except Exc Int
  | .inp (.int n) | .inp (.npInt n) | .inp (.num _ n) | .intv n => .ok n
  | .inp (.float b) | .inp (.npFloat b) => intOfFloat b
  | .inp (.str s) | .inp (.strSub s) | .text s => pyInt s
  | _ => .error .typeError

/-- `datetime.datetime.fromtimestamp(n, tz=datetime.timezone.utc).replace(tzinfo=None)` -/
def pyFromTimestampUtc (n : Int) : Except Exc (Option DateTime) := (fromTimestamp n).bind fun dt => .ok (some dt)

/-- `value.replace(microsecond=0)` -/
def pyReplaceMicro0 : DVal → Except Exc (Option DateTime)
  | .inp (.datetime dt) => .ok (some { dt with micro := 0 })
  | _ => .error .attributeError

/-- `datetime.datetime.combine(value, datetime.time.min)` -/
def pyCombineMin : DVal → Except Exc (Option DateTime)
  | .inp (.date y m d) => .ok (some ⟨y, m, d, 0, 0, 0, 0⟩)
  | .inp (.datetime dt) => .ok (some ⟨dt.year, dt.month, dt.day, 0, 0, 0, 0⟩)
  | _ => .error .typeError

/-- The string branch (the program `Gen.IsoText.textBranch`, translated from the same source) on a `str`. -/
def pyTextBranch : DVal → Except Exc (Option DateTime)
  | .inp (.str s) | .text s => Gen.IsoText.textBranch s
  | _ => .error .typeError

end Iso

namespace Iso
/-- The contract of `Input.num ty n`: `ty` names a *numeric* class — none of the classes the dispatch treats as text, bytes,
a date or a `numpy.datetime64` (those have their own constructors, or are outside the model). -/
def Input.numericContract : Input → Prop
  | .num ty _ => ty ≠ "bytes" ∧ ty ≠ "str" ∧ ty ≠ "numpy.datetime64" ∧ ty ≠ "datetime.datetime" ∧ ty ≠ "datetime.date"
  | _ => True

/-- No numeric class inherits from `bytes`. -/
theorem bytes_not_in_mro (ty : String) (h : ty ≠ "bytes") : ("bytes" ∈ mro ty) = False := by
  unfold mro
  repeat' split
  all_goals simp_all
  all_goals (intro e; exact h e.symm)

end Iso
