import OrsoVerif.Model.DictRowCode
/-!
# C02 — around the modelled core: how the constructor walks the caller's sequence, and the size guard of `append`

*Iteration.*  `DataFrame(dictionaries)` takes `dicts = iter(dictionaries)`, `first_dict = next(dicts)` and then
builds one row per record of the comprehension's source (orso/dataframe.py:74-87).  What that source yields
depends on what kind of object the caller handed in: a container (list, tuple, dict view, deque: every
`iter()` starts again), a one-shot iterator (generator, `iter(list)`: the object IS its iterator), or a record
reader (an iterable whose every `iter()` is a new iterator over ONE shared cursor — a file of JSON lines, a
database cursor, a queue drainer).  The source expression is lifted from the working tree
(`Gen.DictCode.frameSourceSegs`); `consumed` is what it yields for each kind of object.

*Size.*  `append` sizes the new row (`new_row.nbytes()` → `as_bytes`, orso/row.py:144-181) before storing it;
`as_bytes` refuses a record whose packed values exceed the limit (`Gen.DictCode.recordRefused`, with the
module's constants).  `appendSized` is `append` with that step.
-/
namespace DictIter
open DictRow Gen.DictCode

/-- What iterating the caller's object a second time does. -/
inductive Kind where
  /-- list, tuple, dict view, deque, …: every `iter()` starts from the beginning, independently -/
  | container
  /-- generator, `iter(…)`: the object is its own iterator -/
  | oneShot
  /-- not its own iterator, but every `iter()` reads on from one shared cursor -/
  | reader
  deriving DecidableEq, Repr

/-- `cursor`: how many records the object's own cursor has handed out (one-shot, reader); `itPos`: how many the
iterator `dicts` has handed out (container: its private position). -/
structure St where
  cursor : Nat
  itPos : Nat

variable {δ : Type}

/-- the records one segment of the source yields, and the state afterwards -/
def drainSeg (kind : Kind) (items : List δ) (first : δ) : Seg → St → List δ × St
  | .first, st => ([first], st)
  | .rest, st =>
    match kind with
    | .container => (items.drop st.itPos, { st with itPos := items.length })
    | _ => (items.drop st.cursor, { st with cursor := items.length })
  | .again, st =>
    match kind with
    | .container => (items, st)
    | _ => (items.drop st.cursor, { st with cursor := items.length })

def consume (kind : Kind) (items : List δ) (first : δ) : List Seg → St → List δ
  | [], _ => []
  | s :: ss, st =>
    let r := drainSeg kind items first s st
    r.1 ++ consume kind items first ss r.2

/-- The records the constructor builds rows from, for a source expression `segsOf` (`none`: `next(dicts)` on
an empty sequence raises StopIteration).  After `next(dicts)` one record has been handed out. -/
def consumed (segsOf : Bool → List Seg) (kind : Kind) : List δ → Option (List δ)
  | [] => none
  | first :: rest => some (consume kind (first :: rest) first (segsOf (kind == .oneShot)) ⟨1, 1⟩)

variable {α : Type}

/-- The body of `DataFrame(dictionaries)` after `first_dict = next(dicts)`, on the records `src` the
comprehension walks (`Model/DictRowCode.lean` `frameOfDictsCode` with the source made explicit). -/
def frameFrom (null : α) (ofKey : String → α) (first : List (String × α)) (src : List (List (String × α))) :
    Option (List String × List (List α)) :=
  if ¬ (frameSchemaIsFirstKeys ∧ frameLookupKeysAreFirstKeys ∧ frameCellIsGetWithNullDefault) then none else
  let schema := first.map (·.1)
  let keys := first.map (·.1)
  let cls := createClass schema frameDictsTuplesOnly
  let rows := (src.filter frameRowKept).mapM fun d =>
    rowNew null ofKey cls (.seq (keys.map fun k => (lookup k d).getD null))
  rows.map fun rs => (schema, rs)

/-- `DataFrame(<object of kind `kind` holding `items`>)` as written. -/
def frameOfDictsIter (null : α) (ofKey : String → α) (kind : Kind) (items : List (List (String × α))) :
    Option (List String × List (List α)) :=
  match items, consumed frameSourceSegs kind items with
  | first :: _, some src => frameFrom null ofKey first src
  | _, _ => none

/-- What `append` does with a dictionary whose row packs to `packed` bytes: `none` = no defined behaviour,
`some none` = refused with DataError (nothing stored), `some (some rows)` = the frame's rows afterwards. -/
def appendSized (null : α) (ofKey : String → α) (cls : RowClass) (rows : List (List α))
    (d : List (String × α)) (packed : Int) : Option (Option (List (List α))) :=
  match appendCode null ofKey cls rows d with
  | none => none
  | some rows' => if appendSizesRowFirst && recordRefused packed then some none else some (some rows')

end DictIter
