import OrsoVerif.Model.RowCodec
/-!
# The Python code around the codec (C01): `Row.from_bytes` and the row *object* inside `Row.as_bytes`

`from_bytes_cython` and the framing arithmetic of `as_bytes` are functions from bytes to bytes / rows.
What stands around them in orso/row.py is ordinary Python: the class method `Row.from_bytes`
(row.py:131-141, `return cls(from_bytes_cython(data))`) and whatever `as_bytes` does with `self`.
A statement added there can end the call in ways the codec itself never does: *return something that is
not a row* (`return None`), *raise an exception of its own* (`data[1]` on a one-byte buffer:
`IndexError`; `self.x = …` on an instance without a `__dict__`: `AttributeError`).  The property judges
every one of these outcomes — a torn record must be rejected **with a data error**, an emitted record must
come back as **the row** — so the model has a place for each.

The primitives below are what the statement-level translation of `Row.from_bytes`
(`Gen.RowFns.from_bytes`, regenerated from orso/row.py on every run) is made of.
-/
namespace RowGlue
open RowBytes RowCodec

/-- Everything a call `Row.from_bytes(data)` can end in. -/
inductive Out where
  /-- an instance of `cls` holding these items, in this order -/
  | row (items : List Item)
  /-- a return value that is not a row (`None`, …), named by its type -/
  | notRow (what : String)
  /-- the exception of the compiled decoder, passed on unchanged -/
  | raised (e : DecErr)
  /-- an exception raised by the glue itself, named by its class (`IndexError`, …) -/
  | other (exc : String)
  deriving DecidableEq, Repr

/-- The outcomes the property calls "rejected with a data error". -/
def Out.isDataError : Out → Bool
  | .raised e => e.isDataError
  | _ => false

/-- `cls(t)` for a tuple `t` (orso/row.py:78-96: `t` is not a dict, so `tuple.__new__(cls, t)`; the class made
with `tuples_only=True` calls `tuple.__new__` directly): the same items in the same order. -/
def rowNew (items : List Item) : List Item := items

/-- `… from_bytes_cython(data) …`: an exception of the callee ends the caller, a value goes on. -/
def callDecoder (r : Except DecErr (List Item)) (k : List Item → Out) : Out :=
  match r with
  | .error e => .raised e
  | .ok t => k t

/-- A statement that reads `data[k]` (`k ≥ 0`) of a `bytes` object: `IndexError` at or past its end — unlike
the unchecked `data_ptr[k]` of the .pyx (`byteAt`). -/
def indexed (data : Bytes) (k : Nat) (cont : Out) : Out :=
  if k < data.length then cont else .other "IndexError"

/-- The glue of the tree as it is: `return cls(from_bytes_cython(data))`. -/
def fromBytes (data : Bytes) : Out :=
  callDecoder (decodeRow data) (fun t => .row (rowNew t))

/-- `self.name = value` inside a method of `Row`: instances of `Row` itself have no `__dict__`
(`__slots__ = ()`, orso/row.py:72, and the name is a class attribute: "read-only"), instances of the classes
`Row.create_class` makes and of ordinary subclasses have one.  `hasDict` is that fact about the row object
at hand — the *kind of row object* is an input of the encoder. -/
def setAttr (hasDict : Bool) (cont : Except EncErr Bytes) : Except EncErr Bytes :=
  if hasDict then cont else .error .attribute

/-! ### Round 5: the whole of `Row.as_bytes` (the `packb` call included), `Row.nbytes`, `Row.__new__`

The primitives the statement-level translations `Gen.RowFns.as_bytes`, `Gen.RowFns.nbytes` and
`Gen.RowFns.row_new` are made of. -/

/-- `tuple(self)` of a row object: its items as one array. -/
def tupleOf (self : List PyVal) : PyVal := .list self

/-- `packb(v, option=…, default=…)` where `packb` is the name orso/row.py imports (`ser` = `module.name` of that
import, extracted).  The model knows one serialiser, ormsgpack's `packb` (`MsgPack.packb`: smallest encodings, 255
containers, `TypeError` = `none` for integers outside `[-2^63, 2^64)`); on values of the wire universe neither the
`option` flags nor the `default=` callback is consulted (they concern numpy / foreign objects: the `glue` cases).
Any other serialiser is unknown to the model: it packs nothing, so every theorem about emitted records of rows
stops checking. -/
def callPackb (ser : String) (v : PyVal) (_options : List String) (_hasDefault : Bool) : Option Bytes :=
  if ser = "ormsgpack.packb" then MsgPack.packb v else none

/-- What a call of `Row.nbytes` ends in (an `int`, `None`, or the exception of `as_bytes` / of the attribute store)
and the *state of the row object* afterwards: the value of `self._cached_byte_size`, and (round 6) the record kept on
the object — the value of any other attribute of `self` that `nbytes` / `as_bytes` read or write (there is none on the
tree as it is: the component is handed through unchanged; a change that keeps a record shows here). -/
abbrev SizeOut := Except EncErr (Option Nat) × Option Nat × Option Bytes

/-- `len(self.as_bytes)`: the property is evaluated (its exception ends the call), then measured. -/
def lenOf (asBytes : Except EncErr Bytes) : Except EncErr (Option Nat) := asBytes.map (fun b => some b.length)

/-- evaluate an expression that may raise, then go on with its value; an exception leaves the object as it was -/
def bindSize (e : Except EncErr (Option Nat)) (cached : Option Nat) (kept : Option Bytes) (k : Option Nat → SizeOut) : SizeOut :=
  match e with
  | .error x => (.error x, cached, kept)
  | .ok v => k v

/-- `self._cached_byte_size = v`: possible only on an object with a `__dict__` (see `setAttr`). -/
def storeCached (hasDict : Bool) (cached : Option Nat) (kept : Option Bytes) (v : Option Nat) (k : Option Nat → SizeOut) : SizeOut :=
  if hasDict then k v else (.error .attribute, cached, kept)

/-- evaluate a bytes-valued expression that may raise (`self.as_bytes`, the kept record), go on with its value
(`none` = Python's `None`) -/
def bindRec (e : Except EncErr (Option Bytes)) (cached : Option Nat) (kept : Option Bytes) (k : Option Bytes → SizeOut) : SizeOut :=
  match e with
  | .error x => (.error x, cached, kept)
  | .ok v => k v

/-- `self.<record attribute> = v`: possible only on an object with a `__dict__`. -/
def storeKept (hasDict : Bool) (cached : Option Nat) (kept : Option Bytes) (v : Option Bytes) (k : Option Bytes → SizeOut) : SizeOut :=
  if hasDict then k v else (.error .attribute, cached, kept)

/-- `len(x)` of a value that is `bytes` or `None` (`TypeError` for `None`, rendered as the codec's error kind) -/
def lenOpt : Option Bytes → Except EncErr (Option Nat)
  | some b => .ok (some b.length)
  | none => .error .codec

/-- `return x` in `as_bytes` of a value that is `bytes` or `None`: the caller gets the record (`None` is no record;
rendered as the codec's error kind — never reached when the return is guarded by `x is not None`) -/
def retKept : Option Bytes → Except EncErr Bytes
  | some b => .ok b
  | none => .error .codec

/-- Python truthiness of `None` / a `bytes` object: `None` and `b""` are false. -/
def truthyRec : Option Bytes → Bool
  | none => false
  | some [] => false
  | _ => true

/-- Python truthiness of `None` / an `int`: `None` and `0` are false. -/
def truthy : Option Nat → Bool
  | none => false
  | some 0 => false
  | _ => true

/-- `self._cached_byte_size or n`: the cached size when it is truthy, else `n`. -/
def orSize (cached : Option Nat) (n : Nat) : Nat :=
  if truthy cached then cached.getD n else n

/-- `a + b` on values that may be `None` (`TypeError`, rendered as the codec's error kind: never reached on the tree). -/
def addSize (a b : Except EncErr (Option Nat)) : Except EncErr (Option Nat) :=
  match a, b with
  | .error x, _ => .error x
  | _, .error x => .error x
  | .ok (some x), .ok (some y) => .ok (some (x + y))
  | _, _ => .error .codec

/-- orso/row.py:144-147 as it is: size the row once, keep the size on the object.  The answer and the size kept
afterwards; what else the function may keep on the object (`SizeOut`'s third component) is not part of this description:
only what `as_bytes` does with it matters, and that is stated of `as_bytes`. -/
def nbytesModel (hasDict : Bool) (cached : Option Nat) (asBytes : Except EncErr Bytes) : Except EncErr (Option Nat) × Option Nat :=
  if cached = none then
    match asBytes with
    | .error x => (.error x, cached)
    | .ok b => if hasDict then (.ok (some b.length), some b.length) else (.error .attribute, cached)
  else (.ok cached, cached)

/-- The argument of `cls(data)`: a tuple / list of items, or a dictionary (`exact`: `type(data) is dict`, not a
subclass) given by its entries in insertion order (keys are text and distinct: a Python dict). -/
inductive NewArg where
  | tuple (items : List PyVal)
  | dict (exact : Bool) (entries : List (String × PyVal))
  /-- a mapping that is not a `dict` (`UserDict`, `ChainMap`, `MappingProxyType`, any `collections.abc.Mapping`), given by
  its entries in iteration order -/
  | mapping (entries : List (String × PyVal))
  deriving Repr

def isDict : NewArg → Bool
  | .dict _ _ => true
  | _ => false

def isExactDict : NewArg → Bool
  | .dict e _ => e
  | _ => false

/-- `isinstance(data, (T₁, T₂, …))` over the type names orso/row.py uses in `Row.__new__`: `dict`, `tuple` / `list` (one
argument kind here: a sequence of items), `Mapping` (`collections.abc.Mapping`: every `dict` is one, and so is the
mapping that is not a `dict`). -/
def isInst (data : NewArg) (types : List String) : Bool :=
  match data with
  | .dict _ _ => types.contains "dict" || types.contains "Mapping"
  | .mapping _ => types.contains "Mapping"
  | .tuple _ => types.contains "tuple" || types.contains "list"

/-- `dict(data)`: the same entries in an exact dictionary — of a `dict` (subclass) and of any other mapping (a tuple of
pairs is not modelled: `dict()` of a row) -/
def dictOf : NewArg → NewArg
  | .dict _ es => .dict true es
  | .mapping es => .dict true es
  | a => a

/-- `d.get(k)` / `PyDict_GetItem(d, k)`: the value of the (one) entry with that key -/
def dictGet (entries : List (String × PyVal)) (k : String) : Option PyVal :=
  (entries.find? (fun e => e.1 == k)).map (·.2)

/-- compiled.pyx:74-99 `extract_dict_columns(dict data, tuple fields)`: one value per field, in the order of the
fields, `None` for a field the dictionary lacks; entries that are no field are ignored.  `TypeError` for anything
but an exact `dict` (the `dict data` argument type) and for `fields = None` (`len(None)`; the class `Row` itself). -/
def extract_dict_columns (data : NewArg) (fields : Option (List String)) : Except String NewArg :=
  match data, fields with
  | .dict true es, some fs => .ok (.tuple (fs.map (fun f => (dictGet es f).getD .none)))
  | _, _ => .error "TypeError"

/-- `tuple.__new__(cls, data)`: iterates what it is given — the items of a tuple, the KEYS of a dictionary. -/
def tupleNew : NewArg → List PyVal
  | .tuple items => items
  | .dict _ es => es.map (fun e => .str e.1)
  | .mapping es => es.map (fun e => .str e.1)

/-- a call that may raise inside `__new__` -/
def bindNew (e : Except String NewArg) (k : NewArg → Except String (List PyVal)) : Except String (List PyVal) :=
  match e with
  | .error x => .error x
  | .ok v => k v

/-- orso/row.py `Row.__new__` as it is: a sequence is kept; a dictionary — a `dict`, an instance of a subclass, or a mapping
that is not a `dict` at all (it is the dictionary it stands for: `dict(data)` first) — is laid out by the fields. -/
def rowNewModel (fields : Option (List String)) (data : NewArg) : Except String (List PyVal) :=
  match data with
  | .tuple items => .ok items
  | .dict _ es => bindNew (extract_dict_columns (.dict true es) fields) (fun d => .ok (tupleNew d))
  | .mapping es => bindNew (extract_dict_columns (.dict true es) fields) (fun d => .ok (tupleNew d))

end RowGlue
