import OrsoVerif.Model.RowCodec
/-!
# The Python code around the codec (C01): `Row.from_bytes` and the row *object* inside `Row.as_bytes`

`from_bytes_cython` and the framing arithmetic of `as_bytes` are functions from bytes to bytes / rows.
What stands around them in orso/row.py is ordinary Python: the class method `Row.from_bytes`
(row.py:131-141, `return cls(from_bytes_cython(data))`) and whatever `as_bytes` does with `self`.
A statement added there can end the call in ways the codec itself never does: *return something that is
not a row* (`return None`), *raise an exception of its own* (`data[1]` on a one-byte buffer:
`IndexError`; `self.x = …` on an instance without a `__dict__`: `AttributeError`).  The property judges
every one of these outcomes — a torn record must be rejected **with a data error**, an emitted record must
come back as **the row** — so the model has a place for each.

The primitives below are what the statement-level translation of `Row.from_bytes`
(`Gen.RowFns.from_bytes`, regenerated from orso/row.py on every run) is made of.
-/
namespace RowGlue
open RowBytes RowCodec

/-- Everything a call `Row.from_bytes(data)` can end in. -/
inductive Out where
  /-- an instance of `cls` holding these items, in this order -/
  | row (items : List Item)
  /-- a return value that is not a row (`None`, …), named by its type -/
  | notRow (what : String)
  /-- the exception of the compiled decoder, passed on unchanged -/
  | raised (e : DecErr)
  /-- an exception raised by the glue itself, named by its class (`IndexError`, …) -/
  | other (exc : String)
  deriving DecidableEq, Repr

/-- The outcomes the property calls "rejected with a data error". -/
def Out.isDataError : Out → Bool
  | .raised e => e.isDataError
  | _ => false

/-- `cls(t)` for a tuple `t` (orso/row.py:78-96: `t` is not a dict, so `tuple.__new__(cls, t)`; the class made
with `tuples_only=True` calls `tuple.__new__` directly): the same items in the same order. -/
def rowNew (items : List Item) : List Item := items

/-- `… from_bytes_cython(data) …`: an exception of the callee ends the caller, a value goes on. -/
def callDecoder (r : Except DecErr (List Item)) (k : List Item → Out) : Out :=
  match r with
  | .error e => .raised e
  | .ok t => k t

/-- A statement that reads `data[k]` (`k ≥ 0`) of a `bytes` object: `IndexError` at or past its end — unlike
the unchecked `data_ptr[k]` of the .pyx (`byteAt`). -/
def indexed (data : Bytes) (k : Nat) (cont : Out) : Out :=
  if k < data.length then cont else .other "IndexError"

/-- The glue of the tree as it is: `return cls(from_bytes_cython(data))`. -/
def fromBytes (data : Bytes) : Out :=
  callDecoder (decodeRow data) (fun t => .row (rowNew t))

/-- `self.name = value` inside a method of `Row`: instances of `Row` itself have no `__dict__`
(`__slots__ = ()`, orso/row.py:72, and the name is a class attribute: "read-only"), instances of the classes
`Row.create_class` makes and of ordinary subclasses have one.  `hasDict` is that fact about the row object
at hand — the *kind of row object* is an input of the encoder. -/
def setAttr (hasDict : Bool) (cont : Except EncErr Bytes) : Except EncErr Bytes :=
  if hasDict then cont else .error .attribute

end RowGlue
