import OrsoVerif.Model.ProfileEst
import OrsoVerif.Generated.TableProfExpr
/-!
# C14 — table-level sums: `TableProfile.__add__` (`orso/profiler/profiler.py`)

```
def __add__(self, right_profile):
    new_profile = TableProfile()
    left_rows = self._columns[0].count if self._columns else 0
    right_rows = right_profile._columns[0].count if right_profile._columns else 0
    for column_name in self._column_names:                 # the LEFT table's names
        left_column = self.column(column_name)             # first column of that name
        right_column = right_profile.column(column_name)   # None when the right table lacks it
        if not right_column:
            right_column = ColumnProfile(column_name, left_column.type, <count>, <missing>)
        new_profile.add_column(left_column + right_column, column_name)
    for column_name in right_profile._column_names:        # then the columns only the RIGHT table has
        if column_name not in self._column_names:
            right_column = right_profile.column(column_name)
            left_column = ColumnProfile(column_name, right_column.type, <count>, <missing>)
            new_profile.add_column(left_column + right_column, column_name)
    return new_profile
```

The stand-ins' `count` / `missing` (over the present column's `count` / `missing` and the two tables' row counts), the order of
the two column sums and whether the second loop exists are regenerated from the source on every run
(`Gen.TableProf.*`); a stand-in has no bounds and no histogram.
-/
namespace Distogram
open Gen.TableProf (placeholderCount placeholderMissing leftPlaceholderCount leftPlaceholderMissing sumLeftFirst keepsRightOnly
  rightOnlyLeftFirst)

variable {K : Type} [Add K] [Sub K] [Mul K] [Div K] [LT K] [LE K]
  [DecidableLT K] [DecidableLE K] [OfNat K 0] [OfNat K 1] [OfNat K 2]

/-- A `TableProfile`: `_column_names` zipped with `_columns`. -/
structure TProf (K : Type) where
  cols : List (String × EProf K)

/-- `_column_names` -/
def TProf.names (t : TProf K) : List String := t.cols.map (·.1)

/-- `TableProfile.column(name)`: the first column of that name, `None` without one. -/
def TProf.column (t : TProf K) (n : String) : Option (EProf K) :=
  match t.cols.find? (fun c => c.1 == n) with
  | some c => some c.2
  | none => none

/-- The row count a table profile reports for itself: `_columns[0].count`, 0 without columns. -/
def TProf.rows (t : TProf K) : K :=
  match t.cols with
  | [] => 0
  | c :: _ => c.2.count

/-- The stand-in for a column the RIGHT table lacks, as the source builds it now (`l` = the left table's column). -/
def placeholder (l : EProf K) (lr rr : K) : EProf K :=
  { count := placeholderCount l.count l.missing lr rr, missing := placeholderMissing l.count l.missing lr rr,
    minimum := none, maximum := none, hist := [], cache := none }

/-- The stand-in for a column the LEFT table lacks (`r` = the right table's column). -/
def placeholderL (r : EProf K) (lr rr : K) : EProf K :=
  { count := leftPlaceholderCount r.count r.missing lr rr, missing := leftPlaceholderMissing r.count r.missing lr rr,
    minimum := none, maximum := none, hist := [], cache := none }

/-- The body of the first loop, for the names `ns` of the left table in order; `add` is the column sum. -/
def addColumns (add : EProf K → EProf K → Except String (EProf K)) (a b : TProf K) :
    List String → Except String (List (String × EProf K))
  | [] => .ok []
  | n :: rest =>
    match a.column n with
    | none => .error "AttributeError"
    | some l =>
      let r := (b.column n).getD (placeholder l a.rows b.rows)
      match (if sumLeftFirst then add l r else add r l) with
      | .error e => .error e
      | .ok s =>
        match addColumns add a b rest with
        | .error e => .error e
        | .ok t => .ok ((n, s) :: t)

/-- The body of the second loop, for the names `ns` of the right table in order: a name the left table has is skipped. -/
def addRightOnly (add : EProf K → EProf K → Except String (EProf K)) (a b : TProf K) :
    List String → Except String (List (String × EProf K))
  | [] => .ok []
  | n :: rest =>
    if a.names.contains n then addRightOnly add a b rest
    else
      match b.column n with
      | none => .error "AttributeError"
      | some r =>
        let l := placeholderL r a.rows b.rows
        match (if rightOnlyLeftFirst then add l r else add r l) with
        | .error e => .error e
        | .ok s =>
          match addRightOnly add a b rest with
          | .error e => .error e
          | .ok t => .ok ((n, s) :: t)

/-- `a + b` on table profiles with the column sum as a parameter: the left table's columns, then (when the source has the
second loop) the columns only the right table has. -/
def TProf.addWith (add : EProf K → EProf K → Except String (EProf K)) (a b : TProf K) : Except String (TProf K) :=
  match addColumns add a b a.names with
  | .error e => .error e
  | .ok cs =>
    match (if keepsRightOnly then addRightOnly add a b b.names else .ok []) with
    | .error e => .error e
    | .ok ds => .ok ⟨cs ++ ds⟩

/-- `TableProfile.__add__` over the faithful histogram merge (executable; compared on every run). -/
def TProf.add (a b : TProf K) : Except String (TProf K) := TProf.addWith EProf.add a b

/-- The same over the reference merge (the theorems of `Props/C14.lean`). -/
def TProf.addRef (a b : TProf K) : Except String (TProf K) := TProf.addWith EProf.addRef a b

/-- An estimate on `t.column(n)`: that column object keeps the `Distogram` it worked on. -/
def touchFirst (n : String) : List (String × EProf K) → List (String × EProf K)
  | [] => []
  | c :: rest => if c.1 == n then (c.1, c.2.touch) :: rest else c :: touchFirst n rest

def TProf.touch (t : TProf K) (n : String) : TProf K := ⟨touchFirst n t.cols⟩

end Distogram
