import OrsoVerif.Model.ProfileEst
import OrsoVerif.Generated.TableProfExpr
/-!
# C14 — table-level sums: `TableProfile.__add__` (`orso/profiler/profiler.py:245-257`)

```
def __add__(self, right_profile):
    new_profile = TableProfile()
    for column_name in self._column_names:                 # the LEFT table's names
        left_column = self.column(column_name)             # first column of that name
        right_column = right_profile.column(column_name)   # None when the right table lacks it
        if not right_column:
            right_column = ColumnProfile(column_name, left_column.type, <count>, <missing>)
        new_profile.add_column(left_column + right_column, column_name)
    return new_profile
```

The placeholder's `count` / `missing` and the order of the column sum are regenerated from the source on every run
(`Gen.TableProf.placeholderCount / placeholderMissing / sumLeftFirst`); a placeholder has no bounds and no histogram.
A column only the right table has is not carried into the sum (that is what the loop says; C14 judges the columns a sum has).
-/
namespace Distogram
open Gen.TableProf (placeholderCount placeholderMissing sumLeftFirst)

variable {K : Type} [Add K] [Sub K] [Mul K] [Div K] [LT K] [LE K]
  [DecidableLT K] [DecidableLE K] [OfNat K 0] [OfNat K 1] [OfNat K 2]

/-- A `TableProfile`: `_column_names` zipped with `_columns`. -/
structure TProf (K : Type) where
  cols : List (String × EProf K)

/-- `TableProfile.column(name)`: the first column of that name, `None` without one. -/
def TProf.column (t : TProf K) (n : String) : Option (EProf K) :=
  match t.cols.find? (fun c => c.1 == n) with
  | some c => some c.2
  | none => none

/-- The row count a table profile reports for itself: `_columns[0].count`, 0 without columns. -/
def TProf.rows (t : TProf K) : K :=
  match t.cols with
  | [] => 0
  | c :: _ => c.2.count

/-- The stand-in for a column the right table lacks, as the source builds it now. -/
def placeholder (l : EProf K) (rr : K) : EProf K :=
  { count := placeholderCount l.count l.missing rr, missing := placeholderMissing l.count l.missing rr,
    minimum := none, maximum := none, hist := [], cache := none }

/-- The body of the loop, for the names `ns` of the left table in order; `add` is the column sum. -/
def addColumns (add : EProf K → EProf K → Except String (EProf K)) (a b : TProf K) :
    List String → Except String (List (String × EProf K))
  | [] => .ok []
  | n :: rest =>
    match a.column n with
    | none => .error "AttributeError"
    | some l =>
      let r := (b.column n).getD (placeholder l b.rows)
      match (if sumLeftFirst then add l r else add r l) with
      | .error e => .error e
      | .ok s =>
        match addColumns add a b rest with
        | .error e => .error e
        | .ok t => .ok ((n, s) :: t)

/-- `a + b` on table profiles with the column sum as a parameter. -/
def TProf.addWith (add : EProf K → EProf K → Except String (EProf K)) (a b : TProf K) : Except String (TProf K) :=
  match addColumns add a b (a.cols.map (·.1)) with
  | .error e => .error e
  | .ok cs => .ok ⟨cs⟩

/-- `TableProfile.__add__` over the faithful histogram merge (executable; compared on every run). -/
def TProf.add (a b : TProf K) : Except String (TProf K) := TProf.addWith EProf.add a b

/-- The same over the reference merge (the theorems of `Props/C14.lean`). -/
def TProf.addRef (a b : TProf K) : Except String (TProf K) := TProf.addWith EProf.addRef a b

/-- An estimate on `t.column(n)`: that column object keeps the `Distogram` it worked on. -/
def touchFirst (n : String) : List (String × EProf K) → List (String × EProf K)
  | [] => []
  | c :: rest => if c.1 == n then (c.1, c.2.touch) :: rest else c :: touchFirst n rest

def TProf.touch (t : TProf K) (n : String) : TProf K := ⟨touchFirst n t.cols⟩

end Distogram
