import OrsoVerif.Model.DictSession
import OrsoVerif.Generated.SchemaCode
/-!
# C02 — frames bound to a schema OBJECT that is edited between uses

`DataFrame(rows=…, schema=<RelationSchema>)` keeps a reference to the schema object; so do the frames derived
from it (`slice`, `query`, `+`), and the caller.  The caller may edit the object at any time (rename a column,
replace one, reorder, add, remove).  A dictionary appended to a bound frame — or given to
`Row.create_class(schema)` — has to be laid out by the schema's columns **as they are at that moment**.

The code gets at the names through several routes (orso/schema.py `column_names`, `__iter__`, `validate`;
orso/row.py `create_class`; orso/dataframe.py `column_names`, `append`, `select`); which route each piece of
code takes, and whether `column_names` keeps anything on the instance between calls, is lifted from the working
tree on every run (`Generated/SchemaCode.lean`, harness/extractors/c02.py) and assembled here as `codeCfg`.
`Props/C02.lean` proves that every session of the assembled code is the session of the specification machine
below (`specStep`: every operation sees the columns as they are now).
-/
namespace DictSchema
open DictRow DictSession Gen.DictCode

/-- A `RelationSchema` object as far as names go: the names of its column objects, in order, and the list of
names an accessor may have left on the instance (`none`: nothing kept). -/
structure Schema where
  cols : List String
  kept : Option (List String)
  deriving Repr, DecidableEq

/-- How the code gets at a schema's names. -/
structure Cfg where
  /-- `column_names` keeps its result on the instance and hands it out again -/
  namesKept : Bool
  /-- (kept list, column names now) ↦ the kept list is still handed out -/
  keptValid : List String → List String → Bool
  /-- `__iter__` -/
  iterVia : IterVia
  /-- `Row.create_class(schema)`: the class's `_fields` -/
  classVia : Via
  /-- `validate`: the names the record's keys are compared with -/
  validateVia : Via
  /-- `DataFrame.column_names` / `select` on a bound frame -/
  frameVia : Via
  /-- `append` re-makes the row factory when its fields are no longer the schema's names … -/
  refresh : Bool
  /-- … read this way -/
  refreshVia : Via

/-- the routes of the working tree -/
def codeCfg : Cfg :=
  ⟨Gen.SchemaCode.schemaNamesKept, Gen.SchemaCode.schemaKeptValid, Gen.SchemaCode.schemaIterVia,
   Gen.SchemaCode.classFieldsVia, Gen.SchemaCode.validateNamesVia, Gen.SchemaCode.frameNamesVia,
   Gen.SchemaCode.appendRefreshesFactory, Gen.SchemaCode.appendRefreshVia⟩

/-- `schema.column_names` (orso/schema.py): the names, and the schema object afterwards. -/
def columnNames (cfg : Cfg) (s : Schema) : List String × Schema :=
  if cfg.namesKept then
    match s.kept with
    | some k => if cfg.keptValid k s.cols then (k, s) else (s.cols, { s with kept := some s.cols })
    | none => (s.cols, { s with kept := some s.cols })
  else (s.cols, s)

/-- `iter(schema)` -/
def iterNames (cfg : Cfg) (s : Schema) : List String × Schema :=
  match cfg.iterVia with
  | .columns => (s.cols, s)
  | .columnNames => columnNames cfg s

def readVia (cfg : Cfg) : Via → Schema → List String × Schema
  | .columns, s => (s.cols, s)
  | .columnNames, s => columnNames cfg s
  | .iter, s => iterNames cfg s

/-- What the caller does to the schema object, as a function on its column names.  `pop_column(name)` removes
the FIRST column of that name. -/
inductive Mut where
  /-- `columns[p].name = name`, or `columns[p] = FlatColumn(name=name)` -/
  | rename (p : Nat) (name : String)
  /-- `pop_column(columns[p].name)` then `columns.insert(q, FlatColumn(name=name))` -/
  | popInsert (p q : Nat) (name : String)
  | swap (p q : Nat)
  /-- `columns.insert(p, FlatColumn(name=name))` -/
  | add (p : Nat) (name : String)
  /-- `columns.pop(p)` -/
  | remove (p : Nat)
  | reverse
  /-- `schema.columns = [FlatColumn(name=n) for n in names]` -/
  | assign (names : List String)

def applyMut : Mut → List String → List String
  | .rename p name, ns => if ns.length = 0 then ns else ns.set (p % ns.length) name
  | .popInsert p q name, ns =>
    if ns.length = 0 then ns else
    let ns' := ns.erase (ns.getD (p % ns.length) "")
    ns'.insertIdx (q % (ns'.length + 1)) name
  | .swap p q, ns =>
    if ns.length = 0 then ns else
    let a := ns.getD (p % ns.length) ""
    let b := ns.getD (q % ns.length) ""
    (ns.set (p % ns.length) b).set (q % ns.length) a
  | .add p name, ns => ns.insertIdx (p % (ns.length + 1)) name
  | .remove p, ns => if ns.length = 0 then ns else ns.eraseIdx (p % ns.length)
  | .reverse, ns => ns.reverse
  | .assign names, _ => names

/-- `RelationSchema.validate(record)` on columns without a type and nullable (the only kind made here): no
key that is not a column name, no column name that is not a key. -/
def validates {α : Type} (names : List String) (d : List (String × α)) : Bool :=
  d.all (fun p => names.contains p.1) && names.all (fun n => (lookup n d).isSome)

/-- A frame made with `DataFrame(rows=…, schema=<schema object number `schema`>)`: its rows and the `_fields`
of the row factory it holds. -/
structure Frame (α : Type) where
  schema : Nat
  rows : List (List α)
  factory : List String

structure St (α : Type) where
  schemas : List Schema
  frames : List (Frame α)

inductive Op (α : Type) where
  | ctx
  | schema (cols : List String)
  | bound (k : Nat) (rows : List (List α))
  /-- the caller reads the names: `schema.column_names`, `list(schema)` -/
  | read (k : Nat) (v : Via)
  /-- a frame operation that reads its schema's names: `df.column_names`, `df.select(…)` -/
  | fread (i : Nat) (v : Via)
  | mutate (k : Nat) (m : Mut)
  | append (i : Nat) (d : List (String × α)) (probes : List String) (dflt : α)
  /-- `Row.create_class(schema)(d)` -/
  | rowclass (k : Nat) (d : List (String × α)) (probes : List String) (dflt : α)
  | reread (i : Nat)
  | derive (i : Nat) (how : Derive)

inductive Out (α : Type) where
  | ctx | skip | err | schema
  | names (l : List String)
  | frame (rows : List (List α))
  | refused
  | appended (rows : List (List α)) (v : Views α)
  | row (v : Views α)
  deriving DecidableEq

variable {α : Type}

/-- `if self._row_factory._fields != <the schema's names>: self._row_factory = Row.create_class(self._schema)`
(dataframe.py `append`, after validation): the `_fields` of the factory the row is built with, and the schema
object afterwards. -/
def refreshed (cfg : Cfg) (factory : List String) (s : Schema) : List String × Schema :=
  if cfg.refresh then
    let r := readVia cfg cfg.refreshVia s
    if r.1 ≠ factory then readVia cfg cfg.classVia r.2 else (factory, r.2)
  else (factory, s)

/-- One operation on the code's state. -/
def step (cfg : Cfg) (null : α) (ofKey : String → α) (st : St α) : Op α → St α × Out α
  | .ctx => (st, .ctx)
  | .schema cols => ({ st with schemas := st.schemas ++ [⟨cols, none⟩] }, .schema)
  | .bound k rows =>
    match st.schemas[k % st.schemas.length]? with
    | none => (st, .skip)
    | some s =>
      -- `self._row_factory = Row.create_class(self._schema)` (dataframe.py, rows branch)
      let r := readVia cfg cfg.classVia s
      (⟨st.schemas.set (k % st.schemas.length) r.2, st.frames ++ [⟨k % st.schemas.length, rows, r.1⟩]⟩, .frame rows)
  | .read k v =>
    match st.schemas[k % st.schemas.length]? with
    | none => (st, .skip)
    | some s =>
      let r := readVia cfg v s
      ({ st with schemas := st.schemas.set (k % st.schemas.length) r.2 }, .names r.1)
  | .fread i v =>
    match st.frames[i % st.frames.length]? with
    | none => (st, .skip)
    | some f =>
      match st.schemas[f.schema]? with
      | none => (st, .err)
      | some s =>
        let r := readVia cfg v s
        ({ st with schemas := st.schemas.set f.schema r.2 }, .names r.1)
  | .mutate k m =>
    match st.schemas[k % st.schemas.length]? with
    | none => (st, .skip)
    | some s =>
      ({ st with schemas := st.schemas.set (k % st.schemas.length) { s with cols := applyMut m s.cols } },
       .names (applyMut m s.cols))
  | .append i d probes dflt =>
    match st.frames[i % st.frames.length]? with
    | none => (st, .skip)
    | some f =>
      match st.schemas[f.schema]? with
      | none => (st, .err)
      | some s =>
        -- `self._schema.validate(entry)`
        let v := readVia cfg cfg.validateVia s
        if ¬ validates v.1 d then ({ st with schemas := st.schemas.set f.schema v.2 }, .refused) else
        let c := refreshed cfg f.factory v.2
        match appendCode null ofKey (createClass c.1 frameRowsTuplesOnly) f.rows d with
        | none => (st, .err)
        | some rows' =>
          (⟨st.schemas.set f.schema c.2, st.frames.set (i % st.frames.length) { f with rows := rows', factory := c.1 }⟩,
           .appended rows' (viewsOf c.1 (rows'.getLast?.getD []) probes dflt))
  | .rowclass k d probes dflt =>
    match st.schemas[k % st.schemas.length]? with
    | none => (st, .skip)
    | some s =>
      let r := readVia cfg cfg.classVia s
      match rowNew null ofKey (createClass r.1 tuplesOnlyDefault) (.dict d) with
      | none => (st, .err)
      | some row => ({ st with schemas := st.schemas.set (k % st.schemas.length) r.2 }, .row (viewsOf r.1 row probes dflt))
  | .reread i =>
    match st.frames[i % st.frames.length]? with
    | none => (st, .skip)
    | some f => (st, .frame f.rows)
  | .derive i how =>
    match st.frames[i % st.frames.length]? with
    | none => (st, .skip)
    | some f =>
      match st.schemas[f.schema]? with
      | none => (st, .err)
      | some s =>
        -- `DataFrame(rows=…, schema=self._schema)`: the same schema object, a row factory made now
        let r := readVia cfg cfg.classVia s
        (⟨st.schemas.set f.schema r.2, st.frames ++ [⟨f.schema, deriveRows f.rows how, r.1⟩]⟩, .frame (deriveRows f.rows how))

def run (cfg : Cfg) (null : α) (ofKey : String → α) : St α → List (Op α) → St α × List (Out α)
  | st, [] => (st, [])
  | st, op :: ops =>
    let r := step cfg null ofKey st op
    let rs := run cfg null ofKey r.1 ops
    (rs.1, r.2 :: rs.2)

/-! ### The specification machine: nothing is kept anywhere, every operation sees the columns as they are -/

structure SpecSt (α : Type) where
  schemas : List (List String)
  frames : List (Nat × List (List α))

/-- the row of a record and the views the property names, for a field list -/
def specViews (null : α) (names : List String) (d : List (String × α)) (probes : List String) (dflt : α) : Views α :=
  ⟨extract null names d, asMap names (extract null names d), asDict names (extract null names d),
   probes.map fun p => some (get names (extract null names d) p dflt)⟩

def specStep (null : α) (st : SpecSt α) : Op α → SpecSt α × Out α
  | .ctx => (st, .ctx)
  | .schema cols => ({ st with schemas := st.schemas ++ [cols] }, .schema)
  | .bound k rows =>
    match st.schemas[k % st.schemas.length]? with
    | none => (st, .skip)
    | some _ => ({ st with frames := st.frames ++ [(k % st.schemas.length, rows)] }, .frame rows)
  | .read k _ =>
    match st.schemas[k % st.schemas.length]? with
    | none => (st, .skip)
    | some c => (st, .names c)
  | .fread i _ =>
    match st.frames[i % st.frames.length]? with
    | none => (st, .skip)
    | some f =>
      match st.schemas[f.1]? with
      | none => (st, .err)
      | some c => (st, .names c)
  | .mutate k m =>
    match st.schemas[k % st.schemas.length]? with
    | none => (st, .skip)
    | some c => ({ st with schemas := st.schemas.set (k % st.schemas.length) (applyMut m c) }, .names (applyMut m c))
  | .append i d probes dflt =>
    match st.frames[i % st.frames.length]? with
    | none => (st, .skip)
    | some f =>
      match st.schemas[f.1]? with
      | none => (st, .err)
      | some c =>
        if ¬ validates c d then (st, .refused) else
        ({ st with frames := st.frames.set (i % st.frames.length) (f.1, f.2 ++ [extract null c d]) },
         .appended (f.2 ++ [extract null c d]) (specViews null c d probes dflt))
  | .rowclass k d probes dflt =>
    match st.schemas[k % st.schemas.length]? with
    | none => (st, .skip)
    | some c => (st, .row (specViews null c d probes dflt))
  | .reread i =>
    match st.frames[i % st.frames.length]? with
    | none => (st, .skip)
    | some f => (st, .frame f.2)
  | .derive i how =>
    match st.frames[i % st.frames.length]? with
    | none => (st, .skip)
    | some f =>
      match st.schemas[f.1]? with
      | none => (st, .err)
      | some _ => ({ st with frames := st.frames ++ [(f.1, deriveRows f.2 how)] }, .frame (deriveRows f.2 how))

def specRun (null : α) : SpecSt α → List (Op α) → SpecSt α × List (Out α)
  | st, [] => (st, [])
  | st, op :: ops =>
    let r := specStep null st op
    let rs := specRun null r.1 ops
    (rs.1, r.2 :: rs.2)

/-- what the specification sees of the code's state: the column names and the rows, not what is kept -/
def proj (st : St α) : SpecSt α :=
  ⟨st.schemas.map (·.cols), st.frames.map fun f => (f.schema, f.rows)⟩

/-- A route yields the column names as they are now, whatever an accessor kept: it reads the column objects, or
it iterates the schema and `__iter__` reads the column objects, or a kept list is only handed out while it IS the
column names. -/
def RouteFresh (cfg : Cfg) (v : Via) : Prop :=
  v = .columns ∨ (v = .iter ∧ cfg.iterVia = .columns)
    ∨ (cfg.namesKept = true → ∀ k c, cfg.keptValid k c = true → k = c)

/-- The routes *the dictionary path* takes are harmless: the row class, the validation and the refresh test of
`append` see the column names as they are, and `append` lays the record out by the names as they are when it is
called.  (What the caller's own `schema.column_names` returns is not part of this.) -/
structure Safe (cfg : Cfg) : Prop where
  classFresh : RouteFresh cfg cfg.classVia
  validateFresh : RouteFresh cfg cfg.validateVia
  refreshFresh : RouteFresh cfg cfg.refreshVia
  refreshes : cfg.refresh = true

/-- Outputs agree; what a read of the names returns (`.names`) is not the property's business. -/
def sameOut : Out α → Out α → Prop
  | .names _, .names _ => True
  | a, b => a = b

/-- … operation by operation -/
def sameOuts : List (Out α) → List (Out α) → Prop
  | [], [] => True
  | a :: as, b :: bs => sameOut a b ∧ sameOuts as bs
  | _, _ => False

end DictSchema
