import OrsoVerif.Model.PyVal
/-!
# MessagePack as `ormsgpack` speaks it (C01 payload codec)

`pack` follows the MessagePack specification with the smallest-encoding choices `ormsgpack.packb`
makes (validated byte for byte against `packb` on every generated value by the harness);
`unpack` accepts every family `ormsgpack.unpackb` accepts (non-minimal integer/str/bin/array/map
headers, float32) and refuses what it refuses (reserved 0xc1, ext families: no `ext_hook`,
invalid UTF-8, non-text map keys, truncation, nesting beyond its recursion limit).

`ormsgpack` is external to orso: the constants `packDepthLimit` and `unpackFuel` and the format
choices are *parameters* of the model, tied to the library by correspondence only.

Floats are carried as their IEEE-754 bit pattern (`PyVal.float bits`), so NaN payloads, the
infinities and the sign of zero need no special treatment.  Text is carried as a Lean `String`
(a valid UTF-8 byte array); Python `str` values with lone surrogates are outside the domain
(`packb` raises on them).
-/
namespace MsgPack

abbrev Bytes := List UInt8 -- same as RowBytes.Bytes

def be16 (n : Nat) : Bytes := [UInt8.ofNat (n / 256), UInt8.ofNat n]
def be32 (n : Nat) : Bytes :=
  [UInt8.ofNat (n / 16777216), UInt8.ofNat (n / 65536), UInt8.ofNat (n / 256), UInt8.ofNat n]
def be64 (n : Nat) : Bytes :=
  [UInt8.ofNat (n / 72057594037927936), UInt8.ofNat (n / 281474976710656),
   UInt8.ofNat (n / 1099511627776), UInt8.ofNat (n / 4294967296),
   UInt8.ofNat (n / 16777216), UInt8.ofNat (n / 65536), UInt8.ofNat (n / 256), UInt8.ofNat n]

/-- UTF-8 bytes of a text value. -/
def utf8 (s : String) : Bytes := s.toByteArray.data.toList

/-- Strict UTF-8 decoding (`none` on overlong forms, surrogates, truncated sequences). -/
def ofUtf8 (bs : Bytes) : Option String := String.fromUTF8? (ByteArray.mk bs.toArray)

/-! ## Encoder -/

def packInt (i : Int) : Bytes :=
  if 0 ≤ i then
    let n := i.toNat
    if n < 128 then [UInt8.ofNat n]
    else if n < 256 then [0xcc, UInt8.ofNat n]
    else if n < 65536 then 0xcd :: be16 n
    else if n < 4294967296 then 0xce :: be32 n
    else 0xcf :: be64 n
  else
    if -32 ≤ i then [UInt8.ofNat (i + 256).toNat]
    else if -128 ≤ i then [0xd0, UInt8.ofNat (i + 256).toNat]
    else if -32768 ≤ i then 0xd1 :: be16 (i + 65536).toNat
    else if -2147483648 ≤ i then 0xd2 :: be32 (i + 4294967296).toNat
    else 0xd3 :: be64 (i + 18446744073709551616).toNat

def strHdr (n : Nat) : Bytes :=
  if n < 32 then [UInt8.ofNat (160 + n)]
  else if n < 256 then [0xd9, UInt8.ofNat n]
  else if n < 65536 then 0xda :: be16 n
  else 0xdb :: be32 n

def binHdr (n : Nat) : Bytes :=
  if n < 256 then [0xc4, UInt8.ofNat n]
  else if n < 65536 then 0xc5 :: be16 n
  else 0xc6 :: be32 n

def arrHdr (n : Nat) : Bytes :=
  if n < 16 then [UInt8.ofNat (144 + n)]
  else if n < 65536 then 0xdc :: be16 n
  else 0xdd :: be32 n

def mapHdr (n : Nat) : Bytes :=
  if n < 16 then [UInt8.ofNat (128 + n)]
  else if n < 65536 then 0xde :: be16 n
  else 0xdf :: be32 n

def packStr (s : String) : Bytes := strHdr (utf8 s).length ++ utf8 s

mutual
def pack : PyVal → Bytes
  | .none => [0xc0]
  | .bool false => [0xc2]
  | .bool true => [0xc3]
  | .int i => packInt i
  | .float b => 0xcb :: be64 b.toNat
  | .str s => packStr s
  | .bytes b => binHdr b.length ++ b
  | .list xs => arrHdr xs.length ++ packL xs
  | .dict kvs => mapHdr kvs.length ++ packD kvs
def packL : List PyVal → Bytes
  | [] => []
  | x :: xs => pack x ++ packL xs
def packD : List (String × PyVal) → Bytes
  | [] => []
  | (k, v) :: rest => packStr k ++ (pack v ++ packD rest)
end

/- What `packb` accepts: integers in `[-2^63, 2^64)`, every size below `2^32`. Anything else
makes it raise `TypeError` (nothing is emitted). -/
mutual
def packable : PyVal → Bool
  | .none => true
  | .bool _ => true
  | .int i => decide (-9223372036854775808 ≤ i) && decide (i < 18446744073709551616)
  | .float _ => true
  | .str s => decide ((utf8 s).length < 4294967296)
  | .bytes b => decide (b.length < 4294967296)
  | .list xs => decide (xs.length < 4294967296) && packableL xs
  | .dict kvs => decide (kvs.length < 4294967296) && packableD kvs
def packableL : List PyVal → Bool
  | [] => true
  | x :: xs => packable x && packableL xs
def packableD : List (String × PyVal) → Bool
  | [] => true
  | (k, v) :: rest => decide ((utf8 k).length < 4294967296) && (packable v && packableD rest)
end

/- Container nesting depth (scalars 0, a container one more than its deepest element). -/
mutual
def cdepth : PyVal → Nat
  | .list xs => cdepthL xs + 1
  | .dict kvs => cdepthD kvs + 1
  | _ => 0
def cdepthL : List PyVal → Nat
  | [] => 0
  | x :: xs => max (cdepth x) (cdepthL xs)
def cdepthD : List (String × PyVal) → Nat
  | [] => 0
  | (_, v) :: rest => max (cdepth v) (cdepthD rest)
end

/-- `ormsgpack.packb` refuses containers nested deeper than this (`TypeError: Recursion limit
reached`); measured: 255 levels pack, 256 do not. -/
def packDepthLimit : Nat := 255

/-- `ormsgpack.unpackb` handles a value nested under at most 1022 containers; in fuel terms every
value (scalar or container) costs one unit per level. -/
def unpackFuel : Nat := 1023

/-! ## Decoder -/

def rd8 : Bytes → Option (Nat × Bytes)
  | a :: r => some (a.toNat, r)
  | _ => none
def rd16 : Bytes → Option (Nat × Bytes)
  | a :: b :: r => some (a.toNat * 256 + b.toNat, r)
  | _ => none
def rd32 : Bytes → Option (Nat × Bytes)
  | a :: b :: c :: d :: r => some (a.toNat * 16777216 + b.toNat * 65536 + c.toNat * 256 + d.toNat, r)
  | _ => none
def rd64 : Bytes → Option (Nat × Bytes)
  | a :: b :: c :: d :: e :: f :: g :: h :: r =>
    some (a.toNat * 72057594037927936 + b.toNat * 281474976710656 + c.toNat * 1099511627776
          + d.toNat * 4294967296 + e.toNat * 16777216 + f.toNat * 65536 + g.toNat * 256 + h.toNat, r)
  | _ => none

/-- Two's-complement reading of an unsigned `bits`-wide value. -/
def signed (half full n : Nat) : Int := if n < half then (n : Int) else (n : Int) - (full : Int)

/-- The next `n` bytes, or `none` when fewer remain (cost `O(n)`, not `O(remaining)`). -/
def takeN (n : Nat) (bs : Bytes) : Option (Bytes × Bytes) :=
  if (bs.take n).length < n then none else some (bs.take n, bs.drop n)

def unStr (n : Nat) (bs : Bytes) : Option (String × Bytes) :=
  match takeN n bs with
  | none => none
  | some (a, r) =>
    match ofUtf8 a with
    | none => none
    | some s => some (s, r)

def unBin (n : Nat) (bs : Bytes) : Option (PyVal × Bytes) :=
  match takeN n bs with
  | none => none
  | some (a, r) => some (.bytes a, r)

def andThen {α β : Type} (x : Option (α × Bytes)) (f : α → Bytes → Option β) : Option β :=
  match x with
  | none => none
  | some (a, r) => f a r

/-- Position of the highest set bit of a positive number below `2^23` (for float32 subnormals). -/
def hibit (m : Nat) : Nat := Nat.log2 m

/-- IEEE-754 binary32 → binary64 (exact; a signalling NaN is quietened as the hardware does). -/
def f32to64 (n : Nat) : UInt64 :=
  let s := n / 2147483648 % 2
  let e := n / 8388608 % 256
  let m := n % 8388608
  let body : Nat :=
    if e = 255 then
      (if m = 0 then 2047 * 4503599627370496
       else 2047 * 4503599627370496 + 2251799813685248 + (m * 536870912) % 2251799813685248)
    else if e = 0 then
      (if m = 0 then 0
       else
        let p := hibit m
        (p + 874) * 4503599627370496 + (m - 2 ^ p) * 2 ^ (52 - p))
    else (e + 896) * 4503599627370496 + m * 536870912
  UInt64.ofNat (s * 9223372036854775808 + body)

/-- A map key: one of the four text families, anything else is refused. -/
def unKey : Bytes → Option (String × Bytes)
  | [] => none
  | t :: rest =>
    let k := t.toNat
    if 160 ≤ k ∧ k < 192 then unStr (k - 160) rest
    else if k = 217 then andThen (rd8 rest) unStr
    else if k = 218 then andThen (rd16 rest) unStr
    else if k = 219 then andThen (rd32 rest) unStr
    else none

def unpackN (un : Bytes → Option (PyVal × Bytes)) : Nat → Bytes → Option (List PyVal × Bytes)
  | 0, bs => some ([], bs)
  | n + 1, bs =>
    match un bs with
    | none => none
    | some (v, bs1) =>
      match unpackN un n bs1 with
      | none => none
      | some (vs, bs2) => some (v :: vs, bs2)

def unpackKV (un : Bytes → Option (PyVal × Bytes)) : Nat → Bytes → Option (List (String × PyVal) × Bytes)
  | 0, bs => some ([], bs)
  | n + 1, bs =>
    match unKey bs with
    | none => none
    | some (k, bs1) =>
      match un bs1 with
      | none => none
      | some (v, bs2) =>
        match unpackKV un n bs2 with
        | none => none
        | some (kvs, bs3) => some ((k, v) :: kvs, bs3)

def unArr (un : Bytes → Option (PyVal × Bytes)) (n : Nat) (bs : Bytes) : Option (PyVal × Bytes) :=
  match unpackN un n bs with
  | none => none
  | some (vs, r) => some (.list vs, r)

def unMap (un : Bytes → Option (PyVal × Bytes)) (n : Nat) (bs : Bytes) : Option (PyVal × Bytes) :=
  match unpackKV un n bs with
  | none => none
  | some (kvs, r) => some (.dict kvs, r)

def unStrV (n : Nat) (bs : Bytes) : Option (PyVal × Bytes) :=
  match unStr n bs with
  | none => none
  | some (s, r) => some (.str s, r)

/-- One value whose first byte is `k`; nested values are read with `un`. -/
def unpackTag (un : Bytes → Option (PyVal × Bytes)) (k : Nat) (rest : Bytes) : Option (PyVal × Bytes) :=
  if k < 128 then some (.int (k : Int), rest)
  else if k < 144 then unMap un (k - 128) rest
  else if k < 160 then unArr un (k - 144) rest
  else if k < 192 then unStrV (k - 160) rest
  else if k = 192 then some (.none, rest)
  else if k = 193 then none                                  -- reserved
  else if k = 194 then some (.bool false, rest)
  else if k = 195 then some (.bool true, rest)
  else if k = 196 then andThen (rd8 rest) unBin
  else if k = 197 then andThen (rd16 rest) unBin
  else if k = 198 then andThen (rd32 rest) unBin
  else if k < 202 then none                                  -- ext8/16/32: no ext_hook
  else if k = 202 then andThen (rd32 rest) fun n r => some (.float (f32to64 n), r)
  else if k = 203 then andThen (rd64 rest) fun n r => some (.float (UInt64.ofNat n), r)
  else if k = 204 then andThen (rd8 rest) fun n r => some (.int (n : Int), r)
  else if k = 205 then andThen (rd16 rest) fun n r => some (.int (n : Int), r)
  else if k = 206 then andThen (rd32 rest) fun n r => some (.int (n : Int), r)
  else if k = 207 then andThen (rd64 rest) fun n r => some (.int (n : Int), r)
  else if k = 208 then andThen (rd8 rest) fun n r => some (.int (signed 128 256 n), r)
  else if k = 209 then andThen (rd16 rest) fun n r => some (.int (signed 32768 65536 n), r)
  else if k = 210 then andThen (rd32 rest) fun n r => some (.int (signed 2147483648 4294967296 n), r)
  else if k = 211 then
    andThen (rd64 rest) fun n r => some (.int (signed 9223372036854775808 18446744073709551616 n), r)
  else if k < 217 then none                                  -- fixext 1/2/4/8/16: no ext_hook
  else if k = 217 then andThen (rd8 rest) unStrV
  else if k = 218 then andThen (rd16 rest) unStrV
  else if k = 219 then andThen (rd32 rest) unStrV
  else if k = 220 then andThen (rd16 rest) (unArr un)
  else if k = 221 then andThen (rd32 rest) (unArr un)
  else if k = 222 then andThen (rd16 rest) (unMap un)
  else if k = 223 then andThen (rd32 rest) (unMap un)
  else some (.int ((k : Int) - 256), rest)

/-- One value read from the front of a buffer; nested values are read with `un`. -/
def unpackHd (un : Bytes → Option (PyVal × Bytes)) : Bytes → Option (PyVal × Bytes)
  | [] => none
  | t :: rest => unpackTag un t.toNat rest

/-- Fuelled decoder: `fuel` bounds the nesting (a value at level `d` needs `d + 1`). Returns the
value and the unread bytes. -/
def unpack : Nat → Bytes → Option (PyVal × Bytes)
  | 0, _ => none
  | fuel + 1, bs => unpackHd (unpack fuel) bs

/-- `ormsgpack.unpackb`: one value; trailing bytes are ignored (as the library does). -/
def unpackb (bs : Bytes) : Option PyVal :=
  match unpack unpackFuel bs with
  | none => none
  | some (v, _) => some v

/-- `ormsgpack.packb`: refuses unpackable values and nesting beyond its limit. -/
def packb (v : PyVal) : Option Bytes :=
  if packable v && decide (cdepth v ≤ packDepthLimit) then some (pack v) else none

end MsgPack
