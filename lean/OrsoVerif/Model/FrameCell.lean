import OrsoVerif.Model.PyVal
/-!
# C03 — cells up to Python equality

`distinct` compares rows with Python's `==` (set membership and `x in list` both end there).  On the cells
the correspondence check generates, `a == b` in Python iff `pyKey a = pyKey b`:

* `True == 1 == 1.0`, `False == 0 == -0.0`: a bool is its integer, a float with an integral value is that integer;
* a list never equals a tuple: a tuple travels as the one-entry dictionary `{"__tuple__": [...]}`, so the two differ
  by constructor, at every depth;
* a dict equals a dict with the same items in any order: it travels as `{"__pydict__": {...}}`, entries are sorted by key;
* a set travels as `{"__pyset__": [...]}` with its (scalar) members already keyed and sorted by the harness;
* the one NaN object the generators use equals itself (by identity): it travels as the token `{"__nan__": 1}`.

The driver keys every cell before it runs a program, so the model's cell type is "Python values up to `==`".
-/
namespace Frame

/-- Insert an entry into a key-sorted association list. -/
def insertKV (k : String) (v : PyVal) : List (String × PyVal) → List (String × PyVal)
  | [] => [(k, v)]
  | (k', v') :: rest => if k < k' then (k, v) :: (k', v') :: rest else (k', v') :: insertKV k v rest

/-- A float with an integral value is that integer (`1.0 == 1`, `-0.0 == 0`). -/
def floatKey (bits : UInt64) : PyVal :=
  let f := Float.ofBits bits
  if f.isFinite && f.floor == f && f.abs < 9.0e18 then .int f.toInt64.toInt else .float bits

mutual
def pyKey : PyVal → PyVal
  | .bool b => .int (if b then 1 else 0)
  | .float bits => floatKey bits
  | .list xs => .list (pyKeyL xs)
  | .dict kvs => .dict (pyKeyD kvs)
  | .none => .none
  | .int i => .int i
  | .str s => .str s
  | .bytes b => .bytes b
def pyKeyL : List PyVal → List PyVal
  | [] => []
  | x :: xs => pyKey x :: pyKeyL xs
def pyKeyD : List (String × PyVal) → List (String × PyVal)
  | [] => []
  | (k, v) :: rest => insertKV k (pyKey v) (pyKeyD rest)
end

/-- How a tuple cell travels. -/
def tupleCell (xs : List PyVal) : PyVal := .dict [("__tuple__", .list xs)]

end Frame

