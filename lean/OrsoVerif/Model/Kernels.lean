import OrsoVerif.Model.DictRow
import OrsoVerif.Generated.KernelsExpr
/-!
# C10 — the compiled helpers, with an explicit memory model

`orso/compute/compiled.pyx`: `collect_cython` (lines 102–154), `extract_dict_columns`
(74–99, modelled by `DictRow.extract`) and `calculate_data_width` (157–168).

The file is compiled with `boundscheck=False, wraparound=False`, and rows are read through an
unchecked `<tuple>` cast, so an element read is *not* a Python operation: reading index `i` of
an object that is not a tuple, or a tuple with `i ≥ len`, reads outside the object.  The model
makes that an observable outcome (`oob`) instead of a crash that may or may not happen.
-/
namespace Kernels

variable {α : Type}

/-- A row object as the collector sees it: is it really a tuple, and its cells. -/
structure RowObj (α : Type) where
  isTuple : Bool
  cells : List α
  deriving Repr

inductive Outcome (α : Type) where
  | ok (m : List (List α))
  | raises (cls : String)
  | oob   -- a read outside the row object (memory-unsafe)
  deriving Repr, DecidableEq

/-- `(<tuple>row)[i]` with bounds checking off: defined only inside a real tuple. -/
def readCell (r : RowObj α) (i : Nat) : Option α :=
  if r.isTuple then r.cells[i]? else none

/-- General path (pyx 148–152): every requested column of every row. -/
def pathN (rows : List (RowObj α)) (cols : List Nat) : Option (List (List α)) :=
  cols.mapM fun c => rows.mapM fun r => readCell r c

/-- Single-column fast path (pyx 133–138). -/
def path1 (rows : List (RowObj α)) (c0 : Nat) : Option (List (List α)) :=
  (rows.mapM fun r => readCell r c0).map fun col => [col]

/-- Two-column fast path (pyx 139–146): both cells of a row are read in the same iteration. -/
def readPair (c0 c1 : Nat) (r : RowObj α) : Option (α × α) :=
  match readCell r c0, readCell r c1 with
  | some a, some b => some (a, b)
  | _, _ => none

def path2 (rows : List (RowObj α)) (c0 c1 : Nat) : Option (List (List α)) :=
  (rows.mapM (readPair c0 c1)).map fun cells => [cells.map Prod.fst, cells.map Prod.snd]

/-- The dispatch on the number of requested columns (pyx 131–152).  Which widths are specialised and
which position of `columns` feeds each result row are the *generated* constants (the source as it
is now); reading `columns[k]` beyond the buffer is an unchecked read as well. -/
def paths (rows : List (RowObj α)) (cols : List Nat) : Option (List (List α)) :=
  if cols.length = Gen.Kernels.fastWidth1 then
    (cols[Gen.Kernels.path1Src]?).bind fun c0 => path1 rows c0
  else if cols.length = Gen.Kernels.fastWidth2 then
    match cols[Gen.Kernels.path2Src0]?, cols[Gen.Kernels.path2Src1]? with
    | some c0, some c1 => path2 rows c0 c1
    | _, _ => none
  else pathN rows cols

/-- Number of rows collected (pyx 119–121): the limit replaces the row count when the *generated*
guard holds (`limit >= 0 and limit < num_rows` in the source as it is now). -/
def effectiveRows (n : Nat) (limit : Int) : Nat :=
  if Gen.Kernels.limitApplies limit n then limit.toNat else n

/-- `collect_cython(rows, columns, limit)`. -/
def collect (rows : List (RowObj α)) (cols : List Int) (limit : Int) : Outcome α :=
  if Gen.Kernels.earlyExit rows.length cols.length then .ok (cols.map fun _ => [])   -- pyx 114–115
  else
  match rows with
  | [] => .oob                                                     -- `rows[0]` of an empty list (unreachable behind the early exit)
  | first :: _ =>
      let width : Int := first.cells.length                       -- pyx 117: `len(rows[0])`, first row only
      if cols.any (fun c => decide (Gen.Kernels.badIndex c width)) then .raises "IndexError"  -- pyx 124–127 (generated guard)
      else
        match paths (rows.take (effectiveRows rows.length limit)) (cols.map Int.toNat) with
        | some m => .ok m
        | none => .oob

/-! `extract_dict_columns` (pyx 74–99) with its memory accesses explicit: `fields[i]` is an unchecked
tuple read and `field_data[i] = …` an unchecked list write (`boundscheck=False`); the field count,
the size of the allocated list and the loop bound are the *generated* expressions. -/
def extractStep (null : α) (fields : List String) (d : List (String × α)) (buf : Option (List α)) (i : Nat) :
    Option (List α) :=
  buf.bind fun b =>
    match fields[i]? with
    | none => none                                                      -- read beyond the tuple
    | some f => if i < b.length then some (b.set i ((DictRow.lookup f d).getD null)) else none  -- write beyond the list

/-- `none` = some access left the tuple of fields or the allocated list. -/
def extractLoop (null : α) (fields : List String) (d : List (String × α)) : Option (List α) :=
  let n : Int := Gen.Kernels.extractCount fields.length
  (List.range (Gen.Kernels.extractBound n).toNat).foldl (extractStep null fields d)
    (some (List.replicate (Gen.Kernels.extractAlloc n).toNat null))

/-- `calculate_data_width`: rendered lengths of the non-null values (`none` = null), floor 4. -/
def widthStep (acc : Nat) (l : Option Nat) : Nat :=
  match l with
  | some w => if Gen.Kernels.widthUpdates w acc then w else acc
  | none => acc

def dataWidth (lens : List (Option Nat)) : Nat := lens.foldl widthStep Gen.Kernels.widthFloor

end Kernels
