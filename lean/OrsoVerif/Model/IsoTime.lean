import OrsoVerif.Model.IsoPrim
/-!
# C08 — `datetime.time.fromisoformat` (CPython 3.12, `Modules/_datetimemodule.c`)

`orso.types.parse_time` hands text that `parse_iso` does not read to `datetime.time.fromisoformat`.
This is a transliteration of the C function (`time_fromisoformat` → `parse_isoformat_time` →
`parse_hh_mm_ss_ff` → `parse_digits`), pointer arithmetic as indices into the NUL-terminated UTF-8
buffer, *including* what the C code does beyond the grammar of the documentation: one character is
read past the end of the `HH[:MM[:SS]]` segment, a non-zero return of the first segment is ignored
when a time-zone part follows (`'12x+01:00'` is read as 12:00), `'12:30:45:5'` and `'12304512'`
carry a fraction, an embedded NUL ends the text for the final tests.  It is compared with CPython on
every run (named and random texts); the time-zone part only decides acceptance (the offset must be
strictly inside ±24 h), the returned `tzinfo` is not modelled.
-/
namespace Iso

/-- A time of day (`datetime.time` without its `tzinfo`). -/
structure HMSF where
  hour : Nat
  minute : Nat
  second : Nat
  micro : Nat
  deriving DecidableEq, Repr

/-- Number of UTF-8 code units of a character. -/
def unitCount (c : Char) : Nat :=
  if c.toNat < 0x80 then 1 else if c.toNat < 0x800 then 2 else if c.toNat < 0x10000 then 3 else 4

/-- The UTF-8 buffer the C code walks over, one entry per code unit.  Every unit of a non-ASCII
character behaves alike (not a digit, not a separator, not NUL), so the character stands for each. -/
def units (s : List Char) : List Char := s.flatMap fun c => List.replicate (unitCount c) c

def nul : Char := Char.ofNat 0

/-- `*(buf + i)`; the buffer is NUL-terminated. -/
def cAt (b : List Char) (i : Nat) : Char := b.getD i nul

/-- `parse_digits(ptr, &var, n)`: exactly `n` ASCII digits from `p`; the value and the new pointer. -/
def parseDigits (b : List Char) : Nat → Nat → Nat → Option (Nat × Nat)
  | 0, p, acc => some (acc, p)
  | n + 1, p, acc =>
    if (cAt b p).isDigit then parseDigits b n (p + 1) (10 * acc + digitVal (cAt b p)) else none

/-- `while (is_digit(*p)) ++p;` -/
def skipDigits (b : List Char) : Nat → Nat → Nat
  | 0, p => p
  | fuel + 1, p => if (cAt b p).isDigit then skipDigits b fuel (p + 1) else p

/-- The fractional part of `parse_hh_mm_ss_ff`: up to six digits are read (all of what remains of
the segment when that is less), further digits are skipped; the flag says "not at a NUL". -/
def fracPart (b : List Char) (p pEnd h m s : Nat) : Option (Bool × HMSF) :=
  let remains := pEnd - p
  let toParse := if remains ≥ 6 then 6 else remains
  match parseDigits b toParse p 0 with
  | none => none
  | some (us, p') =>
    let us := if toParse < 6 then us * 10 ^ (6 - toParse) else us
    let p'' := skipDigits b b.length p'
    some (cAt b p'' != nul, ⟨h, m, s, us⟩)

inductive HmsStep where
  | done (rv : Bool)               -- `return c != '\0'`
  | next (p : Nat) (hasSep : Bool) -- `continue` (or `--p` in the basic format)
  | frac (p : Nat)                 -- `break`
  deriving Repr

/-- One round of the `for (i = 0; i < 3; ++i)` loop of `parse_hh_mm_ss_ff`. -/
def hmsStep (b : List Char) (pEnd i p : Nat) (hasSep : Bool) : Option (Nat × HmsStep) :=
  match parseDigits b 2 p 0 with
  | none => none
  | some (v, p1) =>
    let c := cAt b p1
    let p2 := p1 + 1
    let hasSep := if i = 0 then c == ':' else hasSep
    if p2 ≥ pEnd then some (v, .done (c != nul))
    else if hasSep && c == ':' then some (v, .next p2 hasSep)
    else if c == '.' || c == ',' then some (v, .frac p2)
    else if !hasSep then some (v, .next (p2 - 1) hasSep)
    else none

/-- `parse_hh_mm_ss_ff(tstr = b + p0, tstr_end = b + pEnd, …)`: `none` for a negative return code,
otherwise the return code as a flag (true = 1) and the fields. -/
def parseHMSF (b : List Char) (p0 pEnd : Nat) : Option (Bool × HMSF) :=
  match hmsStep b pEnd 0 p0 true with
  | none => none
  | some (h, .done rv) => some (rv, ⟨h, 0, 0, 0⟩)
  | some (h, .frac p) => fracPart b p pEnd h 0 0
  | some (h, .next p hs) =>
    match hmsStep b pEnd 1 p hs with
    | none => none
    | some (m, .done rv) => some (rv, ⟨h, m, 0, 0⟩)
    | some (m, .frac p) => fracPart b p pEnd h m 0
    | some (m, .next p hs) =>
      match hmsStep b pEnd 2 p hs with
      | none => none
      | some (s, .done rv) => some (rv, ⟨h, m, s, 0⟩)
      | some (s, .frac p) => fracPart b p pEnd h m s
      | some (s, .next p _) => fracPart b p pEnd h m s

def isTzChar (c : Char) : Bool := c == 'Z' || c == '+' || c == '-'

/-- `new_time(...)`'s range checks. -/
def finishTime (t : HMSF) : Except Exc HMSF :=
  if t.hour ≤ 23 ∧ t.minute ≤ 59 ∧ t.second ≤ 59 ∧ t.micro ≤ 999999 then .ok t else .error .valueError

/-- `time_fromisoformat` on the buffer. -/
def timeFromUnits (b0 : List Char) : Except Exc HMSF :=
  let b := if cAt b0 0 == 'T' then b0.drop 1 else b0
  let n := b.length
  let tz := (b.findIdx? isTzChar).getD n
  match parseHMSF b 0 tz with
  | none => .error .valueError
  | some (rv, t) =>
    if tz = n then (if rv then .error .valueError else finishTime t)
    else if cAt b tz == 'Z' then (if cAt b (tz + 1) != nul then .error .valueError else finishTime t)
    else
      match parseHMSF b (tz + 1) n with
      | none => .error .valueError
      | some (rv2, o) =>
        if rv2 then .error .valueError
        else if o.hour * 3600 + o.minute * 60 + o.second ≥ 86400 then .error .valueError
        else finishTime t

/-- `datetime.time.fromisoformat(s)` for a `str` `s` (without lone surrogates): the fields of the
returned time, or `ValueError`. -/
def timeFromIso (s : List Char) : Except Exc HMSF := timeFromUnits (units s)

/-! ## Specification side of the layout theorems (`C08.time_of_day_layouts`) -/

/-- The number a run of decimal digits denotes, continuing from `acc`. -/
def digitsVal (acc : Nat) (ds : List Char) : Nat := ds.foldl (fun a c => 10 * a + digitVal c) acc

/-- The microseconds a fraction `.ds` denotes: its first six digits, right-padded with zeros
(further digits are dropped, not rounded). -/
def fracMicro (ds : List Char) : Nat := digitsVal 0 (ds.take 6) * 10 ^ (6 - min ds.length 6)

/-- A microsecond count cut to its first `k` fraction digits (`k ≥ 6`: unchanged). -/
def truncMicro (us k : Nat) : Nat := us / 10 ^ (6 - min k 6) * 10 ^ (6 - min k 6)

/-- `HH:MM:SS` -/
def renderTime (H M S : Nat) : List Char := pad2 H ++ ':' :: pad2 M ++ ':' :: pad2 S

/-- The two-digit number `ab`. -/
def twoDigits (a b : Char) : Nat := 10 * digitVal a + digitVal b

end Iso
