import OrsoVerif.Model.DictRowCode
/-!
# C02 — the KIND of object a record is held in, and WHEN a record handed over by a lazy producer is read

*Kinds.*  "A dictionary" reaches `Row.__new__` / `DataFrame.append` as an exact `dict`, an instance of a subclass of
`dict` (OrderedDict, defaultdict, Counter, a class overriding `__iter__` or `__getitem__`), a mutable mapping that is not
a dict (collections.UserDict, ChainMap, a class written against `collections.abc.MutableMapping`) or a read-only mapping
(types.MappingProxyType, a class written against `collections.abc.Mapping`).  A class whose `__new__` is `Row.__new__`
sends `dict` instances through the field extractor; anything else it is called with is iterated like a tuple — for a
mapping that means its KEYS.  Two statements stand in front of that: the conversion in `Row.__new__`
(`Gen.DictCode.newConvertsMapping`, orso/row.py) and the copy in `DataFrame.append` (`appendCopiesKind`, reached on
names-only / schema-bound frames: `appendCopyOnNames`, `appendCopyOnBound`; orso/dataframe.py).  All are lifted from the
working tree on every run.

*When.*  A lazy producer (a streaming reader) may go on using a record object after it has handed it over — one buffer
refilled for every record, or a record emptied once the consumer asks for the next.  The constructor reads a record when it
is handed over iff it builds the rows while it walks the iterable (`Gen.DictCode.frameSourceStreams`); if it runs the
iterable to its end first, it reads what every object holds at the end.
-/
namespace DictKinds
open DictRow Gen.DictCode

inductive Kind where
  | exact | subclass | mutableMapping | readOnlyMapping
  deriving DecidableEq, Repr

def Kind.isDict : Kind → Bool
  | .exact | .subclass => true
  | _ => false
def Kind.isExact : Kind → Bool
  | .exact => true
  | _ => false
def Kind.isMutable : Kind → Bool
  | .readOnlyMapping => false
  | _ => true

/-- a frame whose schema is a list of names (built from dictionaries, `rows=`/`schema=[names]`, derived from those) or a
`RelationSchema` (also Arrow-derived frames) -/
inductive FrameKind where
  | names | bound
  deriving DecidableEq, Repr

variable {α : Type}

/-- `cls(record)` with the conversion in front of the dictionary guard given by `conv` (does it apply to a record of this
kind?).  A record that is not a `dict` instance when it reaches the guard is iterated: the row is the mapping's keys. -/
def rowNewKindWith (conv : Kind → Bool) (null : α) (ofKey : String → α) (c : RowClass) (k : Kind)
    (d : List (String × α)) : Option (List α) :=
  match (if c.handlesDict && conv k then Kind.exact else k) with
  | .exact => rowNew null ofKey c (.dict d)
  | .subclass => rowNew null ofKey c (.sub d)
  | _ => some (d.map fun p => ofKey p.1)

/-- the test of the working tree's conversion, on a record of kind `k` (a record is never a tuple / list) -/
def newConv (k : Kind) : Bool := newConvertsMapping k.isDict k.isExact false k.isMutable true

def rowNewKind (null : α) (ofKey : String → α) (c : RowClass) (k : Kind) (d : List (String × α)) : Option (List α) :=
  rowNewKindWith newConv null ofKey c k d

/-- `DataFrame.append(record)` on a frame of kind `fk` whose factory is `cls`, with `append`'s own copy given by `copies`
(test) and `here` (is the statement reached on this kind of frame) and the factory's conversion by `conv`.  Validation of
schema-bound frames is not in this model (C03). -/
def appendKindWith (copies : Kind → Bool) (here : FrameKind → Bool) (conv : Kind → Bool) (null : α) (ofKey : String → α)
    (fk : FrameKind) (cls : RowClass) (rows : List (List α)) (k : Kind) (d : List (String × α)) : Option (List (List α)) :=
  if ¬ (appendBuildsRowWithFactory ∧ appendStoresNewRow) then none else
  (rowNewKindWith conv null ofKey cls (if here fk && copies k then Kind.exact else k) d).map fun r => rows ++ [r]

def appendCopies (k : Kind) : Bool := appendCopiesKind k.isDict k.isExact false k.isMutable true
def appendCopyHere : FrameKind → Bool
  | .names => appendCopyOnNames
  | .bound => appendCopyOnBound

def appendKind (null : α) (ofKey : String → α) (fk : FrameKind) (cls : RowClass) (rows : List (List α)) (k : Kind)
    (d : List (String × α)) : Option (List (List α)) :=
  appendKindWith appendCopies appendCopyHere newConv null ofKey fk cls rows k d

/-! ### when a handed-over record is read -/

/-- what object `o` holds once the producer has run to its end: the contents of the LAST step that handed it over -/
def finalOf {δ : Type} (steps : List (Nat × δ)) (o : Nat) (dflt : δ) : δ :=
  match (steps.reverse.find? fun s => s.1 == o) with
  | some s => s.2
  | none => dflt

/-- The records the rows are built from, for a producer whose step `i` hands over object `steps[i].1` holding
`steps[i].2` at that moment: read at hand-over (`streams`), or after the producer is exhausted. -/
def readRecords {δ : Type} (streams : Bool) (steps : List (Nat × δ)) : List δ :=
  if streams then steps.map (·.2) else steps.map fun s => finalOf steps s.1 s.2

end DictKinds
