import OrsoVerif.Generated.Cache
/-!
# C19 — the two memoising decorators of `orso/tools.py`

* `single_item_cache` (tools.py:417-456): one entry `(args, kwargs, result, time)`;
  hit when `last_args == args and last_kwargs == kwargs and current_time - last_time <= valid`.
* `lru_cache_with_expiry` (tools.py:459-509): an `OrderedDict` `key -> (time, result)`;
  every call first deletes the entries with `current_time - time > valid`, then
  `key in cache` -> `move_to_end`, return; else call, insert, `popitem(last=False)` when
  `len(cache) > max_size`.

Results of the wrapped function are identified with the *index of the invocation* in a
log `List (key × time-of-invocation)`: the strongest reading of "a value the wrapped
function produced for equal arguments" (the harness's function returns a fresh tagged
object per invocation).  `cost k` is the clock advance that happens inside the wrapped
function.  `valid = none` is `float("inf")`.

Part 1: sequential machines (call / advance histories).
Part 2: a declarative specification machine for the LRU cache.
Part 3: small-step concurrent semantics at source-line granularity
        (single-item cache: interpreter of an *extracted* line program; LRU: hand-written
        program counter machine over an `OrderedDict` model with CPython's iterator rules).
-/
namespace Cache

/-- `current_time - t <= valid_for_seconds` (tools.py:446 hit test; the LRU sweep at
tools.py:488 deletes exactly when this is false: `current_time - timestamp > valid`). -/
def fresh (valid : Option Int) (now t : Int) : Bool :=
  match valid with
  | none => true
  | some v => decide (now - t ≤ v)

/-- What one call of the wrapper did. `ret` is the invocation index of the value returned. -/
structure Ev (K : Type) where
  key : K
  now : Int
  ret : Nat
  invoked : Bool
  deriving Repr, DecidableEq

inductive Op (K : Type) where
  | call (k : K)
  | advance (d : Int)
  deriving Repr

/-! ## Part 1a: single-item cache, sequential -/

structure SEntry (K : Type) where
  key : K
  res : Nat
  time : Int
  deriving Repr, DecidableEq

structure SState (K : Type) where
  entry : Option (SEntry K)
  now : Int
  log : List (K × Int)
  deriving Repr

def SState.init {K : Type} (t0 : Int) : SState K := { entry := none, now := t0, log := [] }

variable {K : Type} [DecidableEq K]

/-- tools.py:451-454: call the function, publish the entry (stamped with the time read at
the start of the call), return the fresh result. -/
def singleMiss (cost : K → Int) (s : SState K) (k : K) : SState K × Ev K :=
  let id := s.log.length
  ({ entry := some { key := k, res := id, time := s.now },
     now := s.now + cost k,
     log := s.log ++ [(k, s.now)] },
   { key := k, now := s.now, ret := id, invoked := true })

/-- tools.py:440-454. -/
def singleCall (valid : Option Int) (cost : K → Int) (s : SState K) (k : K) : SState K × Ev K :=
  match s.entry with
  | some e =>
    if e.key = k ∧ fresh valid s.now e.time = true then
      (s, { key := k, now := s.now, ret := e.res, invoked := false })
    else singleMiss cost s k
  | none => singleMiss cost s k

def singleRun (valid : Option Int) (cost : K → Int) : SState K → List (Op K) → SState K × List (Ev K)
  | s, [] => (s, [])
  | s, .advance d :: ops => singleRun valid cost { s with now := s.now + d } ops
  | s, .call k :: ops =>
    let r := singleCall valid cost s k
    let r2 := singleRun valid cost r.1 ops
    (r2.1, r.2 :: r2.2)

/-! ## Part 1b: LRU cache with expiry, sequential (statement by statement) -/

structure LEntry (K : Type) where
  key : K
  time : Int
  res : Nat
  deriving Repr, DecidableEq

structure LState (K : Type) where
  cache : List (LEntry K)   -- oldest (least recently used) first, as in the OrderedDict
  now : Int
  log : List (K × Int)
  deriving Repr

def LState.init {K : Type} (t0 : Int) : LState K := { cache := [], now := t0, log := [] }

/-- tools.py:487-489 `[k for k, (timestamp, _) in cache.items() if current_time - timestamp > valid]` -/
def expiredKeys (valid : Option Int) (now : Int) (c : List (LEntry K)) : List K :=
  (c.filter (fun e => !fresh valid now e.time)).map (·.key)

/-- `del cache[k]` (keys are unique in a dict) -/
def delKey (c : List (LEntry K)) (k : K) : List (LEntry K) := c.filter (fun e => e.key ≠ k)

/-- tools.py:490-491 `for k in expired_keys: del cache[k]` -/
def sweep (valid : Option Int) (now : Int) (c : List (LEntry K)) : List (LEntry K) :=
  (expiredKeys valid now c).foldl delKey c

def lruCall (maxSize : Nat) (valid : Option Int) (cost : K → Int) (s : LState K) (k : K) :
    LState K × Ev K :=
  let c1 := sweep valid s.now s.cache
  match c1.find? (fun e => e.key = k) with
  | some e =>
    -- tools.py:494-497 `key in cache` -> move_to_end(key); return cache[key][1]
    ({ s with cache := delKey c1 k ++ [e] }, { key := k, now := s.now, ret := e.res, invoked := false })
  | none =>
    -- tools.py:500-507
    let id := s.log.length
    let c2 := c1 ++ [{ key := k, time := s.now, res := id }]
    let c3 := if c2.length > maxSize then c2.tail else c2
    ({ cache := c3, now := s.now + cost k, log := s.log ++ [(k, s.now)] },
     { key := k, now := s.now, ret := id, invoked := true })

def lruRun (maxSize : Nat) (valid : Option Int) (cost : K → Int) :
    LState K → List (Op K) → LState K × List (Ev K)
  | s, [] => (s, [])
  | s, .advance d :: ops => lruRun maxSize valid cost { s with now := s.now + d } ops
  | s, .call k :: ops =>
    let r := lruCall maxSize valid cost s k
    let r2 := lruRun maxSize valid cost r.1 ops
    (r2.1, r.2 :: r2.2)

/-! ## Part 2: declarative specification of the LRU cache

"held" = the unexpired entries, least recently used first.  A call is a hit iff an
entry for an equal key is held; a hit makes it the most recently used; a miss invokes
the function, appends the new entry and keeps the `maxSize` most recently used. -/

def specCall (maxSize : Nat) (valid : Option Int) (cost : K → Int) (s : LState K) (k : K) :
    LState K × Ev K :=
  let held := s.cache.filter (fun e => fresh valid s.now e.time)
  match held.find? (fun e => e.key = k) with
  | some e =>
    ({ s with cache := held.filter (fun e' => e'.key ≠ k) ++ [e] },
     { key := k, now := s.now, ret := e.res, invoked := false })
  | none =>
    let id := s.log.length
    let held' := held ++ [{ key := k, time := s.now, res := id }]
    ({ cache := held'.drop (held'.length - maxSize), now := s.now + cost k,
       log := s.log ++ [(k, s.now)] },
     { key := k, now := s.now, ret := id, invoked := true })

def specRun (maxSize : Nat) (valid : Option Int) (cost : K → Int) :
    LState K → List (Op K) → LState K × List (Ev K)
  | s, [] => (s, [])
  | s, .advance d :: ops => specRun maxSize valid cost { s with now := s.now + d } ops
  | s, .call k :: ops =>
    let r := specCall maxSize valid cost s k
    let r2 := specRun maxSize valid cost r.1 ops
    (r2.1, r.2 :: r2.2)

/-! ## Part 3a: concurrent semantics of the single-item cache

A *program* is the list of the wrapper's source lines that touch shared state (the cache
slots, the clock, the wrapped function), each a list of micro-operations executed
atomically (one `sys.settrace` line event; the GIL makes each slot load/store atomic and
pre-emption below line granularity is not explored).  Lines that touch only locals are
merged into the preceding line by the extractor: they commute with every step of every
other thread.  The program is EXTRACTED from the wrapper's AST (`Gen.Cache.singleProgram`). -/

inductive Field where
  | args | kwargs | result | time
  deriving DecidableEq, Repr

inductive SOp where
  | clk                -- current_time = time.time()
  | rd (f : Field)     -- copy one shared slot into the thread's local snapshot
  | test (f : Field)   -- compare the local snapshot with this call's own arguments / time; failure jumps to the miss path
  | retHit             -- return the snapshot's result
  | call               -- result = func(*args, **kwargs)
  | wr (f : Field)     -- store this call's own value into one shared slot
  | retMiss            -- return result
  deriving DecidableEq, Repr

abbrev Program := List (List SOp)

/-- The repaired wrapper: one snapshot load, one tuple store (tools.py after `fix:`). -/
def repairedProgram : Program :=
  [ [.clk],
    [.rd .args, .rd .kwargs, .rd .result, .rd .time, .test .args, .test .kwargs, .test .time, .retHit],
    [.call],
    [.wr .args, .wr .kwargs, .wr .result, .wr .time, .retMiss] ]

/-- The pinned wrapper: the three comparisons read three dict slots on three lines, the
result is read on a fourth, and the four slots are stored on four lines. -/
def pinnedProgram : Program :=
  [ [.clk],
    [.rd .args, .test .args],
    [.rd .kwargs, .test .kwargs],
    [.rd .time, .test .time],
    [.rd .result, .retHit],
    [.call],
    [.wr .args],
    [.wr .kwargs],
    [.wr .result],
    [.wr .time, .retMiss] ]

def SOp.parse : String → Option SOp
  | "clk" => some .clk
  | "rd.args" => some (.rd .args) | "rd.kwargs" => some (.rd .kwargs)
  | "rd.result" => some (.rd .result) | "rd.time" => some (.rd .time)
  | "test.args" => some (.test .args) | "test.kwargs" => some (.test .kwargs) | "test.time" => some (.test .time)
  | "retHit" => some .retHit | "call" => some .call
  | "wr.args" => some (.wr .args) | "wr.kwargs" => some (.wr .kwargs)
  | "wr.result" => some (.wr .result) | "wr.time" => some (.wr .time)
  | "retMiss" => some .retMiss
  | _ => none

def parseProgram (ls : List (List String)) : Option Program := ls.mapM (fun l => l.mapM SOp.parse)

/-- The program extracted from the working tree on this run. -/
def extractedProgram : Program := (parseProgram Gen.Cache.singleLines).getD []

/-- kinds of the LRU wrapper's shared-state lines, in source order (cf. `LPc`); `lock1` / `lock2` are the two
`with lock:` lines (each is executed twice: to acquire, and again when the block is left, to release) -/
def lruShape : List String :=
  ["clk", "lock1", "iter", "del", "in", "move", "get", "call", "lock2", "store", "len", "pop"]

/-- which shared-state lines each `with lock:` block of the LRU wrapper guards -/
def lruGuarded : List (String × List String) :=
  [("lock1", ["iter", "del", "in", "move", "get"]), ("lock2", ["store", "len", "pop"])]

structure Slots (A B : Type) where
  a : Option A      -- last_args   (None initially: never equal to a tuple)
  b : Option B      -- last_kwargs
  r : Option Nat    -- last_result
  t : Int           -- last_time
  deriving Repr, DecidableEq

def Slots.empty {A B : Type} : Slots A B := { a := none, b := none, r := none, t := 0 }

structure Thr (A B : Type) where
  ka : A
  kb : B
  pc : Nat
  now : Int
  snap : Slots A B
  res : Option Nat
  out : Option (Option Nat)   -- `some v` once the call has returned `v` (`none` = Python's None)
  deriving Repr, DecidableEq

def Thr.start {A B : Type} (ka : A) (kb : B) : Thr A B :=
  { ka := ka, kb := kb, pc := 0, now := 0, snap := Slots.empty, res := none, out := none }

structure World (A B : Type) where
  sh : Slots A B
  clock : Int
  log : List ((A × B) × Int)
  deriving Repr, DecidableEq

inductive Ctl where
  | next | miss | done
  deriving DecidableEq, Repr

section Single
variable {A B : Type} [DecidableEq A] [DecidableEq B]

def execOp (valid : Option Int) (cost : A × B → Int) (w : World A B) (t : Thr A B) :
    SOp → World A B × Thr A B × Ctl
  | .clk => (w, { t with now := w.clock }, .next)
  | .rd .args => (w, { t with snap := { t.snap with a := w.sh.a } }, .next)
  | .rd .kwargs => (w, { t with snap := { t.snap with b := w.sh.b } }, .next)
  | .rd .result => (w, { t with snap := { t.snap with r := w.sh.r } }, .next)
  | .rd .time => (w, { t with snap := { t.snap with t := w.sh.t } }, .next)
  | .test .args => (w, t, if t.snap.a = some t.ka then .next else .miss)
  | .test .kwargs => (w, t, if t.snap.b = some t.kb then .next else .miss)
  | .test .time => (w, t, if fresh valid t.now t.snap.t = true then .next else .miss)
  | .test .result => (w, t, .next)
  | .retHit => (w, { t with out := some t.snap.r }, .done)
  | .call =>
    ({ w with log := w.log ++ [((t.ka, t.kb), w.clock)], clock := w.clock + cost (t.ka, t.kb) },
     { t with res := some w.log.length }, .next)
  | .wr .args => ({ w with sh := { w.sh with a := some t.ka } }, t, .next)
  | .wr .kwargs => ({ w with sh := { w.sh with b := some t.kb } }, t, .next)
  | .wr .result => ({ w with sh := { w.sh with r := t.res } }, t, .next)
  | .wr .time => ({ w with sh := { w.sh with t := t.now } }, t, .next)
  | .retMiss => (w, { t with out := some t.res }, .done)

def execLine (valid : Option Int) (cost : A × B → Int) (w : World A B) (t : Thr A B) :
    List SOp → World A B × Thr A B × Ctl
  | [] => (w, t, .next)
  | op :: ops =>
    match execOp valid cost w t op with
    | (w', t', .next) => execLine valid cost w' t' ops
    | r => r

/-- index of the line that calls the wrapped function: the target of a failed comparison -/
def missIdx (P : Program) : Nat := P.findIdx (fun l => l.contains SOp.call)

/-- One scheduled step of one thread = one line. -/
def stepThr (P : Program) (valid : Option Int) (cost : A × B → Int) (w : World A B) (t : Thr A B) :
    World A B × Thr A B :=
  match P[t.pc]? with
  | none => (w, { t with out := some none })   -- falling off the end returns None
  | some line =>
    match execLine valid cost w t line with
    | (w', t', .next) => (w', { t' with pc := t.pc + 1 })
    | (w', t', .miss) => (w', { t' with pc := missIdx P })
    | (w', t', .done) => (w', t')

end Single

/-- A schedule entry: run one line of thread `i`; advance the clock; run thread `i` to completion. -/
inductive SStep where
  | run (i : Nat)
  | tick (d : Int)
  | finish (i : Nat)
  deriving Repr

structure Conc (A B : Type) where
  w : World A B
  thr : List (Thr A B)
  deriving Repr, DecidableEq

section Single2
variable {A B : Type} [DecidableEq A] [DecidableEq B]

def Conc.init (t0 : Int) (keys : List (A × B)) : Conc A B :=
  { w := { sh := Slots.empty, clock := t0, log := [] }, thr := keys.map (fun k => Thr.start k.1 k.2) }

/-- run thread `i` for at most `fuel` lines or until it has returned -/
def Conc.finishThr (P : Program) (valid : Option Int) (cost : A × B → Int) :
    Nat → World A B → Thr A B → World A B × Thr A B
  | 0, w, t => (w, t)
  | fuel + 1, w, t =>
    if t.out.isSome then (w, t)
    else
      let r := stepThr P valid cost w t
      Conc.finishThr P valid cost fuel r.1 r.2

/-- `none` = the schedule is not executable (unknown thread, or a thread that has returned). -/
def Conc.step (P : Program) (valid : Option Int) (cost : A × B → Int) (c : Conc A B) :
    SStep → Option (Conc A B)
  | .tick d => some { c with w := { c.w with clock := c.w.clock + d } }
  | .run i =>
    match c.thr[i]? with
    | none => none
    | some t =>
      if t.out.isSome then none
      else
        let r := stepThr P valid cost c.w t
        some { w := r.1, thr := c.thr.set i r.2 }
  | .finish i =>
    match c.thr[i]? with
    | none => none
    | some t =>
      if t.out.isSome then none
      else
        let r := Conc.finishThr P valid cost (P.length + 2) c.w t
        some { w := r.1, thr := c.thr.set i r.2 }

def Conc.runSched (P : Program) (valid : Option Int) (cost : A × B → Int) :
    Conc A B → List SStep → Option (Conc A B)
  | c, [] => some c
  | c, s :: ss =>
    match Conc.step P valid cost c s with
    | none => none
    | some c' => Conc.runSched P valid cost c' ss

end Single2

/-! ## Part 3b: concurrent semantics of the LRU cache

`OD` models `collections.OrderedDict`: an association list (oldest first) plus CPython's
`od_state` counter, which every structural change (new key, delete, move, popitem) bumps
and which an iterator compares on every `next()` ("OrderedDict mutated during iteration").
The steps are the wrapper's source lines that touch shared state; in CPython 3.12 the
inlined comprehension yields one line event per `next()`.

The wrapper (after `fix: lru_cache_with_expiry does its bookkeeping under a lock`) guards its
bookkeeping with `with lock:` blocks; `lock` is a `threading.RLock` created next to the cache.
The `with` line is a step of its own: executed once to acquire (a thread that finds the lock taken
does not proceed: the step changes nothing) and once more when the block is left - normally, by
`return`, or by an exception - to release (CPython attributes the call of `__exit__` to the `with`
line).  The dictionary operations keep ALL their failure branches (a missing key raises `KeyError`,
a changed dictionary makes the iterator raise): that they are never taken is a theorem
(`C19.lru_every_call_returns_its_own_result`), not an assumption. -/

structure OD (K : Type) where
  items : List (LEntry K)
  ver : Nat
  deriving Repr

inductive LPc (K : Type) where
  | clk                                              -- `current_time = time.time()` (+ key: local)
  | acq1                                             -- `with lock:` entered
  | iterFirst                                        -- GET_ITER and the first next() (`cache.items()` before it: local)
  | iterNext (cur : Option K) (ver : Nat) (acc : List K)  -- next(); the filter lines are local
  | del (todo : List K)                              -- `del cache[k]`; the `for` line is local
  | inCheck                                          -- `key in cache`
  | move                                             -- `cache.move_to_end(key)`
  | get                                              -- `return cache[key][1]`: the value is computed ...
  | rel1Hit (v : Nat)                                -- ... the `with` line again: release, then the return completes
  | rel1Miss                                         -- the `with` line again: release, fall through to the call
  | call                                             -- `result = func(*args, **kwargs)` (outside the lock)
  | acq2                                             -- second `with lock:` entered
  | store                                            -- `cache[key] = (current_time, result)`
  | len                                              -- `len(cache) > max_size`
  | pop                                              -- `cache.popitem(last=False)`
  | rel2                                             -- the second `with` line again: release; `return result` is local
  | cleanup (cls : String)                           -- the inlined comprehension's handler restores locals and re-raises
  | relErr (cls : String)                            -- the `with` line's exception handler: release, re-raise
  deriving Repr

/-- the program points inside a `with lock:` block -/
def LPc.inLock {K : Type} : LPc K → Bool
  | .clk | .acq1 | .call | .acq2 => false
  | _ => true

/-- outcome of a call: a value (invocation index) or an exception class raised by the wrapper -/
inductive Outcome where
  | ok (v : Nat)
  | err (cls : String)
  deriving Repr, DecidableEq

structure LThr (K : Type) where
  key : K
  pc : LPc K
  now : Int
  res : Option Nat
  out : Option Outcome
  deriving Repr

def LThr.start {K : Type} (k : K) : LThr K := { key := k, pc := .clk, now := 0, res := none, out := none }

/-- the thread is inside a `with lock:` block (it holds the lock) -/
def LThr.crit {K : Type} (t : LThr K) : Bool := t.out.isNone && t.pc.inLock

structure LWorld (K : Type) where
  od : OD K
  lock : Bool       -- the RLock is taken
  clock : Int
  log : List (K × Int)
  deriving Repr

/-- the key after `k` in iteration order -/
def nextKey (items : List (LEntry K)) (k : K) : Option K :=
  match items.dropWhile (fun e => e.key ≠ k) with
  | _ :: e :: _ => some e.key
  | _ => none

/-- what happens after the comprehension is exhausted: loop over `expired_keys` or go on -/
def afterScan (acc : List K) : LPc K := if acc.isEmpty then .inCheck else .del acc

/-- one `next()` of the items iterator whose current key is `k`, then the (local) filter -/
def iterStep (valid : Option Int) (w : LWorld K) (t : LThr K) (k : K) (ver : Nat) (acc : List K) :
    LThr K :=
  if w.od.ver ≠ ver then { t with pc := .cleanup "RuntimeError" }
  else
    match w.od.items.find? (fun e => e.key = k) with
    | none => { t with pc := .cleanup "KeyError" }
    | some e =>
      let acc' := if fresh valid t.now e.time = true then acc else acc ++ [k]
      { t with pc := .iterNext (nextKey w.od.items k) ver acc' }

def lstepThr (maxSize : Nat) (valid : Option Int) (cost : K → Int) (w : LWorld K) (t : LThr K) :
    LWorld K × LThr K :=
  match t.pc with
  | .clk => (w, { t with now := w.clock, pc := .acq1 })
  | .acq1 => if w.lock then (w, t) else ({ w with lock := true }, { t with pc := .iterFirst })
  | .iterFirst =>
    match w.od.items with
    | [] => (w, { t with pc := .inCheck })
    | e :: _ => (w, iterStep valid w t e.key w.od.ver [])
  | .iterNext none _ acc => (w, { t with pc := afterScan acc })
  | .iterNext (some k) ver acc => (w, iterStep valid w t k ver acc)
  | .del [] => (w, { t with pc := .inCheck })
  | .del (k :: rest) =>
    if w.od.items.any (fun e => e.key = k) then
      ({ w with od := { items := delKey w.od.items k, ver := w.od.ver + 1 } },
       { t with pc := if rest.isEmpty then .inCheck else .del rest })
    else (w, { t with pc := .relErr "KeyError" })
  | .inCheck =>
    if w.od.items.any (fun e => e.key = t.key) then (w, { t with pc := .move }) else (w, { t with pc := .rel1Miss })
  | .move =>
    match w.od.items.find? (fun e => e.key = t.key) with
    | none => (w, { t with pc := .relErr "KeyError" })
    | some e =>
      if (w.od.items.getLast?.map (·.key)) = some t.key then (w, { t with pc := .get })
      else
        ({ w with od := { items := delKey w.od.items t.key ++ [e], ver := w.od.ver + 1 } },
         { t with pc := .get })
  | .get =>
    match w.od.items.find? (fun e => e.key = t.key) with
    | none => (w, { t with pc := .relErr "KeyError" })
    | some e => (w, { t with pc := .rel1Hit e.res })
  | .rel1Hit v => ({ w with lock := false }, { t with out := some (.ok v) })
  | .rel1Miss => ({ w with lock := false }, { t with pc := .call })
  | .call =>
    ({ w with log := w.log ++ [(t.key, w.clock)], clock := w.clock + cost t.key },
     { t with res := some w.log.length, pc := .acq2 })
  | .acq2 => if w.lock then (w, t) else ({ w with lock := true }, { t with pc := .store })
  | .store =>
    match t.res with
    | none => (w, { t with pc := .relErr "Unreachable" })
    | some id =>
      let e : LEntry K := { key := t.key, time := t.now, res := id }
      if w.od.items.any (fun e' => e'.key = t.key) then
        ({ w with od := { w.od with items := w.od.items.map (fun e' => if e'.key = t.key then e else e') } },
         { t with pc := .len })
      else
        ({ w with od := { items := w.od.items ++ [e], ver := w.od.ver + 1 } }, { t with pc := .len })
  | .len =>
    if w.od.items.length > maxSize then (w, { t with pc := .pop }) else (w, { t with pc := .rel2 })
  | .pop =>
    match w.od.items with
    | [] => (w, { t with pc := .relErr "KeyError" })
    | _ :: rest => ({ w with od := { items := rest, ver := w.od.ver + 1 } }, { t with pc := .rel2 })
  | .rel2 =>
    match t.res with
    | none => ({ w with lock := false }, { t with out := some (.err "Unreachable") })
    | some id => ({ w with lock := false }, { t with out := some (.ok id) })
  | .cleanup cls => (w, { t with pc := .relErr cls })
  | .relErr cls => ({ w with lock := false }, { t with out := some (.err cls) })

structure LConc (K : Type) where
  w : LWorld K
  thr : List (LThr K)
  deriving Repr

def LConc.init (t0 : Int) (keys : List K) : LConc K :=
  { w := { od := { items := [], ver := 0 }, lock := false, clock := t0, log := [] }, thr := keys.map LThr.start }

/-- the same wrapper WITHOUT the lock (the design before the repair, finding C19-K01): the `with`
lines do nothing -/
def lstepNoLock (maxSize : Nat) (valid : Option Int) (cost : K → Int) (w : LWorld K) (t : LThr K) :
    LWorld K × LThr K :=
  match t.pc with
  | .acq1 => (w, { t with pc := .iterFirst })
  | .acq2 => (w, { t with pc := .store })
  | _ => lstepThr maxSize valid cost w t

def LConc.finishThr (maxSize : Nat) (valid : Option Int) (cost : K → Int) :
    Nat → LWorld K → LThr K → LWorld K × LThr K
  | 0, w, t => (w, t)
  | fuel + 1, w, t =>
    if t.out.isSome then (w, t)
    else
      let r := lstepThr maxSize valid cost w t
      LConc.finishThr maxSize valid cost fuel r.1 r.2

def LConc.step (maxSize : Nat) (valid : Option Int) (cost : K → Int) (c : LConc K) :
    SStep → Option (LConc K)
  | .tick d => some { c with w := { c.w with clock := c.w.clock + d } }
  | .run i =>
    match c.thr[i]? with
    | none => none
    | some t =>
      if t.out.isSome then none
      else
        let r := lstepThr maxSize valid cost c.w t
        some { w := r.1, thr := c.thr.set i r.2 }
  | .finish i =>
    match c.thr[i]? with
    | none => none
    | some t =>
      if t.out.isSome then none
      else
        let r := LConc.finishThr maxSize valid cost (2 * c.w.od.items.length + 18) c.w t
        some { w := r.1, thr := c.thr.set i r.2 }

def LConc.runSched (maxSize : Nat) (valid : Option Int) (cost : K → Int) :
    LConc K → List SStep → Option (LConc K)
  | c, [] => some c
  | c, s :: ss =>
    match LConc.step maxSize valid cost c s with
    | none => none
    | some c' => LConc.runSched maxSize valid cost c' ss

/-- a schedule of the lock-free design (`run` steps only; used by the counterexample of C19-K01) -/
def LConc.runNoLock (maxSize : Nat) (valid : Option Int) (cost : K → Int) :
    LConc K → List Nat → Option (LConc K)
  | c, [] => some c
  | c, i :: is =>
    match c.thr[i]? with
    | none => none
    | some t =>
      if t.out.isSome then none
      else
        let r := lstepNoLock maxSize valid cost c.w t
        LConc.runNoLock maxSize valid cost { w := r.1, thr := c.thr.set i r.2 } is

end Cache
